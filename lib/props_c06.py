PROP = dict(
    thorough_seeds=48,
    module="M3d.Props.C06",
    corr=dict(quick=300, thorough=2500),
    gen=["Kernels"],
    tie_modules=["M3d.Lemmas.KernelsTieSdf", "M3d.Lemmas.KernelsTieSdfPrim", "M3d.Lemmas.KernelsTieSdfTri"],
    corr_theorems=(
        "b.* kinds compare the real Go outputs bit-for-bit with the Float run of the faithful models of lean/M3d/Model/Sdf.lean "
        "(sphereOut/circleOut, rectOut3/2, capsuleOut3/2, cylinderOut, coneOut, torusOut, tri2Out, segClosest3/2, triClosest/triDist, "
        "meshScan+meshSign, profileSDF/profilePointSDF, colliderSDF, transformSDF3/2 and transformedColliderSDF3/2 over Xf3/Xf2 "
        "= Translate/Scale/Rotation/JoinedTransform); what those models compute over an exact field is stated by "
        "M3d.C06.rect_sdf_exact/rect2_sdf_exact, sphere_sdf_exact/circle_sdf_exact, segment(2)_closest_optimal, "
        "triangle_closest_optimal + triangle_closest_regions, capsule(2)_sdf_exact, cylinder_normal_is_gradient, cylinder_cap_normal_outward, "
        "cone_normal_is_gradient (+cone_radial_unit_orth), torus_normal_is_gradient, profile_sdf_exact, profile_point_sdf_exact, "
        "mesh_sdf_sign_parity, lipschitz_of_exact/lipschitz_signed_of_exact; b.mesh/b.mesh2 (3-D / 2-D MeshToSDF, Grouped…ToSDF: value = "
        "sign(parity) * linear scan, the face returned by the real pruned search must attain the minimum): mesh_sdf_exhaustive_min "
        "(3-D scan = minimum over all points of all non-degenerate triangles), mesh_scan_ignores_nan_leaves (the leaf update "
        "'if dist < *curDist' never lets a NaN leaf influence the result: scan = scan over the non-NaN leaves = their exhaustive "
        "minimum), mesh_scan_min_over_all_pieces and mesh2_sdf_exhaustive_min_degenerate (2-D: zero-length segments {p,p}, whose "
        "Closest is 0/0, are skipped and - p being an end point of a proper segment - the result is still the minimum over every "
        "point of every piece), mesh2_sdf_exhaustive_min; b.coll/b.tcoll3/b.tcoll2 (ColliderToSDF, also over "
        "TransformCollider): collider_sdf_brackets (the bisection returns +-res with |res - D| < D/2^(iters+1) for a threshold ball "
        "query D <= r), transformed_collider(2)_sdf_brackets (the transformed collider's query |s| <= inv.ApplyDistance(r) is the "
        "threshold query for D = k*|SDF(t^-1 c)|) and transformed_collider_sdf_vs_original (= k * the field of the original collider "
        "at the mapped point up to k|s|/2^iters); b.tsdf3/b.tsdf2 (TransformSDF): transform(2)_sdf_exact (value = k*SDF(t^-1 c), same "
        "sign, every point p maps to a point at k times the distance, so nearest points map to nearest points) with "
        "joined_transform(2)_similarity (a JoinedTransform of Translate, Scale k != 0 and distance-preserving matrices multiplies "
        "squared distances by k^2, Inverse() inverts it, ApplyDistance d = d*k, inverse d/k). x.* kinds print what those theorems require on exact "
        "(dyadic) inputs: x.rect3/x.rect2 = inside flag, exact squared distance to the reported point, value = exact face distance "
        "resp. minus the correctly rounded root of the exact squared distance, face of the normal, exact nearest point "
        "(rect_sdf_exact); x.seg3/x.seg2/x.tri3 = which end point / vertex is the exact minimiser (segClosestQ3 = segClosest3 by "
        "segment_closest_optimal; triClosestQ); x.tri2 = region and vertex distance of the 2-D triangle; x.mesh = the face returned "
        "by the real FaceSDF attains the exact minimum of the squared triangle distances; x.mesh2 = the segment returned by the real "
        "2-D FaceSDF is a proper segment attaining the exact minimum over the proper segments of a dyadic outline with zero-length "
        "pieces (mesh2_sdf_exhaustive_min_degenerate); x.tsdf3/x.tsdf2 (Rect under dyadic "
        "translations and power-of-two scalings, all float operations exact) = k * exact face distance inside, minus the correctly "
        "rounded root of the exact squared distance times k outside (transform_sdf_exact + rect_sdf_exact); x.tcoll3/x.tcoll2 = 'ok' "
        "iff the value returned by the real ColliderToSDF(TransformCollider(t, rect)) has the sign of containment of the inverse image "
        "and lies in the bracket | |v| - D | * 2^(iters+1) < D of transformed_collider_sdf_brackets around the exact D = k * distance "
        "(evaluated over the rationals, no tolerance)"
    ),
    rule=(
        "per case one shape instance (general position, axis aligned, dyadic, zero components; scales 1e-3..1e3; radius/length and "
        "box aspect ratios down to 1e-3 and up to 1e3) and query points drawn from: uniform in the inflated bounds, exact centres "
        "and tips, points on the axes of symmetry, rim/edge points, points of the surface itself (PointSDF of a random point) and a "
        "hair off it, far away, special point + tiny/axis-aligned offset; meshes: rect, icosahedron, cone, cylinder and random soups "
        "(<= 40 faces) queried at vertices, near face centroids and at random; 2-D meshes: star-shaped, regular, rectangular, two-loop, "
        "counter-clockwise and grid-rounded outlines (3..14 vertices) with zero-length segments in 3 of 4 cases (closing point repeated, "
        "vertices listed twice / three times), hierarchy from the listed, a shuffled or the GroupSegments order, queried around and beyond "
        "the vertices that carry a zero-length piece, at vertices, next to segments, inside, far; collapsed 3-D triangles (segment a b "
        "from the general/axis-aligned/dyadic vector generator at scales 1e-3..1e3, the four corner orders with a repeated corner, "
        "drawn on purpose in every run: #stat tri3d/aab|abb|aba|baa) queried on the line of the segment (inside, at the ends, beyond), "
        "at a, b and the midpoint, a hair off the segment, beyond an end, in general position and far away; three dyadic corners on a "
        "line (cross product exactly 0); meshes with 1..3 collapsed slivers {f[k], f[k], f[k+1]} (any of the four orders) added on "
        "edges of their faces, queried at the sliver's corners and midpoint, next to it, around it and at random; profiles over Circle/Rect/Capsule/polar mesh with "
        "queries on/between/outside the z-planes; ColliderToSDF over Sphere/Rect/Capsule with 1..40 iterations; TransformSDF and "
        "ColliderToSDF(TransformCollider) over Sphere/Circle, Rect, Capsule under a bare or joined (1..4 members) transform of "
        "Translate, Scale (|k| < 1, > 1, negative, 1e-3..1e3) and Rotation, 2-D and 3-D, queried at images of inside/outside/"
        "surface/special/far points; exact twins with dyadic Rect/translations and power-of-two scalings. distinct = distinct "
        "op lines; #stat counters record query classes, inside/outside, parity, gradient checks performed/skipped"
    ),
    trusted=[
        "regenerated, not hand-written: lean/M3d/Gen/Kernels.lean is produced on every run by the Go->Lean translator "
        "harness/hlib/go2lean (typed, closed under calls, conservative) from model3d/model2d coords.go, matrix.go, primitives.go, "
        "shapes.go, transform.go; M3d.KernelsTie.Sdf.* re-prove against that text that the hand models of the vector algebra, "
        "OrthoBasis, Matrix3 det/inverse, NewSegment, Segment.Closest/Dist, Triangle.Normal, Sphere/Circle SDFs, Rect.Contains "
        "(2-D and 3-D), safeNormal, Sphere/Circle/Capsule(2-D,3-D)/Cylinder/Cone.Contains, Sphere.SphereCollision/Circle.CircleCollision "
        "(= the threshold ball query |SDF| <= r), Min/Max of Rect/Sphere/Circle/Capsule, Matrix2 MulColumn/Inverse, and the members "
        "of the transform model (Translate/Scale/Matrix{3,2}Transform Apply, ApplyDistance incl. d*|k|) "
        "are the functions the source defines now; M3d.KernelsTie.SdfPrim.* (round 3) re-prove against the regenerated "
        "genericSDF family (out-pointers as Option arguments/results) that SDF, NormalSDF and PointSDF of Rect (2-D, 3-D), Capsule "
        "(2-D, 3-D), Cylinder (with filledCircleDist), Cone and Torus, for every combination of nil/non-nil pointers, return the value, "
        "normal and point of the hand models rectOut3/2, capsuleOut3/2, cylinderOut, coneOut, torusOut (rect*_sdf_family, "
        "capsule*_sdf_family, cylinder_sdf_family, cone_sdf_family, torus_sdf_family), and that 2-D Segment.Normal is segNormal2; M3d.KernelsTie.SdfTri.* (round 6) re-prove that the "
        "regenerated 3-D Triangle.Dist, Triangle.Closest and Triangle.Segments are triDist/triClosest (triangle_dist_eq, "
        "triangle_closest_eq; hypothesis TriFinite: the first edge distance is below the HasInf constant); "
        "running minima that the code starts at math.Inf(1) are tied under the explicit hypothesis that the first candidate is "
        "below the HasInf constant (RectFinite3/2, CylFinite, ConeFinite; true for every finite float); the translator itself is "
        "validated on every run by executing every exported generated definition at Float against the real function (kind gk, bit for bit)",
        "modelled, not verified: float64 arithmetic as exact field arithmetic with an exact square root (theorems are about the "
        "model over every linear ordered field with E.Exact; the tie to the floats is the bit-for-bit Float run of the same model)",
        "safeNormal's 1e-5 threshold: in exact arithmetic the projected direction has norm 1, so the fallback is only taken for a "
        "zero direction; on floats a radial direction below 1e-5 of the distance is replaced by an arbitrary one (Cone accuracy "
        "1e-5*size, tolerance of the Go-side predicates for the cone is widened accordingly)",
        "OrthoBasis enters the normal theorems only through the explicit hypotheses 'unit and orthogonal to the axis' "
        "(cone_radial_unit_orth, torus decomposition centered = k*rp + z*A); not proved for the code's OrthoBasis",
        "Cylinder/Cone/Torus *distance* values: region tests use normalised axes; the models are the regenerated source "
        "(KernelsTieSdfPrim) and run bit-for-bit (b.*), but that the value is the Euclidean distance is validated by the Go-side "
        "predicates (nearest point at reported distance, on the surface, sign <=> Contains, 1-Lipschitz), not proved",
        "triangle_closest_optimal assumes a non-degenerate triangle (invertible (v1 v2 n), edges of positive length); Triangle.Dist of "
        "such a triangle is tied by correspondence only (its interior branch |components.Z| equals the distance because n is a unit normal)",
        "degenerate 3-D triangles: the theorems are about the float-run model triClosestSkip/triDistSkip (cross product exactly 0 => "
        "normal 0*(1/0) = NaN => in-plane test fails; zero-length edge => NaN distance => skipped); that the Go code behaves like this "
        "on floats is what b.tri3d/b.meshd check bit for bit with triClosestN/triDistN (same operations at Float, NaN by the order test "
        "x <= x) and x.tri3d exactly; a triangle with three identical corners a (the loops skip all three edges) returns Closest = t[0] = a, "
        "Dist = c.Dist(t[0]) since /repo d42705a (triangle_point_dist_exact; before: Coord3D{} and +Inf), nearly collinear triangles whose cross product is tiny but not 0 are not generated "
        "(the junk normal makes the in-plane test arbitrary; the documentation does not address them)",
        "meshDistFunc branch-and-bound = linear scan is C08's theorem (M3d.Spatial.MDF.dist_spec); here the linear scan is the model "
        "and the real pruned search is compared with it (b.mesh value bit-for-bit, x.mesh exact minimiser)",
        "ray-collision counts and InBounds of meshSDF come from the real collider (C07) and are inputs of the b.mesh/b.mesh2 lines "
        "(for clockwise 2-D outlines the sign is also compared with an independent even-odd crossing test, Go side)",
        "2-D meshes: a zero-length segment is covered by the theorems when its point is an end point of a proper segment of the mesh "
        "(the outlines generated); the NaN of its Closest is modelled by the order test x <= x (false exactly on NaN at Float, true "
        "in every ordered field), segments whose length underflows and isolated zero-length segments are not generated",
        "2-D Triangle: only the non-degenerate NewTriangle path (plain matrix inverse) is modelled",
        "colliderSDF/transformedCollider: the bracket theorems assume the wrapped collider's ball query is |SDF(c)| <= r (the source "
        "of Sphere/Circle is tied by KernelsTie; Rect/Capsule.SphereCollision have the same one-line body, covered by the b.tcoll/"
        "b.coll correspondence) and 2^-iters < D <= 2^iters (outside that range only the faithful bit-for-bit model applies); "
        "ColliderSolid.Contains (ray parity, C07) is an input of the b.coll/b.tcoll lines, its agreement with containment of the "
        "inverse image is checked by x.tcoll (exact) and a Go-side predicate",
        "transform members: Inverse() of Translate/Scale/Rotation/JoinedTransform is transcribed by hand (it returns an interface, "
        "not translated); a Rotation enters as its matrix (NewMatrix3Rotation/NewMatrix2Rotation use sin/cos) and the theorems "
        "assume it is distance preserving with Matrix.Inverse() its inverse (M3.Good; proved for every invertible matrix with "
        "orthonormal columns); TransformSDF exposes only SDF (no PointSDF/NormalSDF in the library)",
        "Go-side predicates use tolerances (1e-7*scale distances, 1e-4 gradient) and are validation, not the deciding argument",
    ],
    assumptions=[
        "no NaN/Inf coordinates; Rect MinVal <= MaxVal; P1 != P2, Tip != Base, Torus axis != 0 and InnerRadius < OuterRadius",
        "zeros are compared without sign (-0 == +0)",
    ],
    level_text=(
        "Machine-checked (Lean 4, every linear ordered field, exact sqrt): Rect 2D/3D sign <=> containment, inside value = min "
        "over faces of the face distance, outside value^2 = squared distance to the clamped point which is the nearest point of "
        "the box, nearest point on the face the normal names; Sphere/Circle value r-|p-c|, nearest point on the sphere, unit normal, "
        "incl. the centre; Segment.Closest (2D/3D) is the minimiser over the segment; Triangle.Closest is the nearest point of the triangle (projection onto the plane in the "
        "interior region, edge loop otherwise); Triangle.Dist/Closest of a triangle collapsed to a segment (repeated corner) are the "
        "distance to / nearest point of that segment and a mesh containing such slivers still reports the exhaustive minimum over all "
        "points of all faces; Capsule value = r - distance to the segment in all regions; normals of "
        "Cylinder side/caps, Cone slanted side (repaired formula; the pre-repair formula is proved NOT orthogonal) and Torus are "
        "unit, orthogonal to the face's tangent directions and outward; profileSDF^2 = min over side/caps of the squared distance "
        "and its sign; profilePointSDF point at the reported distance; mesh sign = bounds && odd parity; the mesh magnitude (2-D and 3-D) is the "
        "exhaustive minimum over all points of all pieces, NaN leaves (zero-length 2-D segments) never influence it and skipping them "
        "does not change the minimum when their point lies on a neighbour; a distance-to-set function "
        "(signed or not) is 1-Lipschitz; TransformSDF under a similarity of factor k is k * SDF of the inverse image with nearest "
        "points mapped to nearest points; ColliderToSDF's bisection brackets the threshold of the ball query within D/2^(iters+1), "
        "and over TransformCollider that threshold is k * |SDF of the inverse image| (so it is k times the original collider's "
        "field up to the bisection resolution). The models are tied to /repo on every run by bit-for-bit Float correspondence of SDF, "
        "PointSDF, NormalSDF (BarycentricSDF, FaceSDF, Closest, Dist) of all these shapes in 2D and 3D, of TransformSDF and of "
        "ColliderToSDF(TransformCollider) plus exact-mode kinds, and by the theorems of KernelsTieSdf / KernelsTieSdfPrim over the "
        "regenerated kernels (the models of Rect, Capsule, Cylinder, Cone, Torus SDF/NormalSDF/PointSDF ARE the translated source)."
    ),
    level_note=(
        "Exactness over fields, not floats (rounding is not bounded); Cylinder/Cone/Torus distance values and OrthoBasis are tied by "
        "correspondence and Go-side predicates only; mesh branch-and-bound is C08."
    ),
)
