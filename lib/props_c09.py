PROP = dict(
    module="M3d.Props.C09",
    corr=dict(quick=1500, thorough=6000),
    gen=[],
    corr_theorems=(
        "M3d.C09.fastmap_refines_map (slice/num histories on the maps) / M3d.C09.index_coherent + query_eq_fresh "
        "(mesh histories: Find/Neighbors/VertexSlice answered from the bare face list, for histories that include "
        "iterations with mutating callbacks) / M3d.C09.iterate_visits_current_members + iterate_sorted_snapshot "
        "(ops `its`: visit sequence of IterateSorted = sorted snapshot filtered by membership at the time of each visit) "
        "/ iterate_oracle_explains (ops `it`, `itv`: the model is run on a snapshot order rebuilt from the observed "
        "visits; it reproduces them iff some snapshot order explains them) / iterateVerts_visits_current_vertices "
        "(op `itv`) / invert_involutive (op `inv`); derived meshes (copy/deep/map) are specified directly from the "
        "face set; the `fresh` kinds compare the REAL mesh returned (or handed out mid-edit) by an in-place editor "
        "with a real mesh freshly built from the same faces - the answer `same-as-fresh` is what query_eq_fresh "
        "demands of every reachable mesh; kind `mesho` (programs over three mesh variables with derived meshes): "
        "M3d.C09.derived_meshes_are_new_objects + handles_answer_as_fresh (the driver runs the VALUE semantics, which "
        "is what the program over *Mesh objects computes when every derived mesh is a new object; every handle answers "
        "from the faces of its own mesh) / derive_builds_exact_faces (what `dv` installs behind the handle) / "
        "derived_same_connectivity (the faces found in a derived mesh must carry the mapped values) / bounds_eq_fresh "
        "(ops `min`, `max`: Mesh.Min()/Max() = componentwise bounds over the corners of the current faces, "
        "whatever the map order)"
    ),
    rule=(
        "operation histories (1-40 ops) on real CoordToSlice/CoordToNumber/CoordMap/EdgeMap/EdgeToSlice (3D, 2D) and on "
        "*model3d.Mesh / *model2d.Mesh (two handles: Copy/swap/AddMesh) over a key pool with signed-zero variants and "
        "hash-colliding coordinates found by search on the real hash; mesh histories include Iterate / IterateSorted "
        "(random comparator order) / IterateVertices with a scripted callback that Adds and Removes faces during its "
        "k-th invocation (faces that sort before or after the current one); fresh-oracle cases: ordinary outputs of 14 "
        "editors, plus degenerate-coordinate inputs (closed meshes with edges whose end points are 1 ulp apart or "
        "(0, denormal), lattice triangle soups with and without repeated corners / equal faces, overhang patches whose "
        "flattened vertices land on base vertices, search results converging onto grid corners, subdivision midpoints "
        "equal to an end point) for EliminateEdges (callback selects exactly the short edges, or random edges, and "
        "queries the mesh under edit), FlattenBase, Repair, FlipDelaunay, MarchingCubesSearch, Subdivider (in place), "
        "Decimate, EliminateCoplanar, DualContouring repair, each followed by a further Add/Remove history on the "
        "result; 2-D twin over Subdivide/Decimate/EliminateColinear/Repair/RepairNormals/Smooth/Blur/Invert(Normals); "
        "kind mesho (3-D and 2-D, one generic body): programs of 6-31 instructions over three mesh variables - "
        "Add/Remove/AddMesh and Contains/Num/faces/Find/Neighbors/VertexSlice/Min/Max through any handle, and "
        "vars[dst] = vars[src].Copy|DeepCopy|InvertNormals|MapCoords(identity, axis-flattening = vertex-merging, axis swap)|"
        "Translate|Center|Scale(1,2,-1,1/2)|Transform(&Translate, JoinedTransform{})|Rotate(0); offsets drawn on purpose: "
        "exactly zero with random signed zeros, i*step for i in {0,1,2} (stacking loop), lattice vectors, Center() of "
        "meshes on the symmetric lattice {-1,0,1}^d (often already centred); the two handles of the latest derivation "
        "are preferred afterwards, so a mutation of one followed by a query of the other occurs in nearly every program; "
        "dynamic key pool (real hash and exact coordinates of every key in the op line), face table grown from the "
        "pointers found in each result; "
        "distinct = distinct operation lines"
    ),
    trusted=[
        "modelled, not verified: Go maps as duplicate-free association lists; face pointers as ids; key identity = Go == on coordinates (NaN excluded)",
        "the hypothesis 'hash is a function of the key as compared by ==' is evaluated on the real fastHash64 for every key of the pool (signed zeros) on every run",
        "iteration callbacks are modelled as scripts (the Add/Remove calls of the k-th invocation); Go's map iteration order is an oracle parameter: for Iterate/IterateVertices the observed visit sequence is passed to the model, which accepts it iff a snapshot order explains it (iterate_oracle_explains)",
        "fresh-oracle kinds compare real mesh against real freshly built mesh inside the harness (NewMeshTriangles/NewMeshSegments + the same query code on a mesh without history is the trusted reference); an editor that panics or exceeds 6 s on a degenerate input, or returns NaN coordinates, makes that case inapplicable (counted in the distribution)",
        "kind mesho: the coordinate map of Translate/Scale/Center/Transform on the vertex keys is computed by the harness with the library's own Coord.Add/Scale/Mid on one representative per key and handed to the model (the arithmetic of the map is not C09's subject; the maps used respect ==); of a derived mesh only the VALUES of its faces and its independence as an object are demanded (a result sharing face pointers with its source would not be reported, except for Copy where sharing is documented)",
    ],
    assumptions=["NaN coordinates are excluded (Go maps never find them either)"],
    level_text=(
        "Theorems (Lean 4, all histories, all hash functions, all value types): the fast coordinate-keyed map observably "
        "equals an ordinary map over every finite Store/Delete/Load/Len history, the fast->slow switch is one-way and "
        "content-preserving; after any history of Add/Remove/index-forcing queries/iterations with mutating callbacks "
        "the lazily built vertex index is coherent with the face set, so Find/Neighbors/VertexSlice answer as the bare "
        "face list; Iterate/IterateSorted/IterateVertices with a callback that adds and removes faces visit exactly the "
        "snapshot elements that are current members (resp. corners of current faces) when reached, in snapshot order, "
        "none twice, none that was added. The models are tied to /repo by replaying random histories (real colliding "
        "and signed-zero keys, scripted callbacks) on the real maps and meshes and diffing against the model, and by "
        "the fresh oracle on the outputs and intermediate states of the library's in-place editors, including inputs "
        "where an edit's result coincides with an existing vertex. Programs over several mesh variables: for every "
        "program of Add/Remove/AddMesh/queries/derivations (Copy, DeepCopy, MapCoords, Transform, Scale, Translate, Center, "
        "Rotate, InvertNormals = a new object built by NewMesh+Add) the object heap gives behind every handle exactly the "
        "mesh of the value semantics, so every handle answers from the faces put into its own mesh; a derived mesh has the "
        "mapped faces with the same vertex/edge/face incidences; Min()/Max() are order-independent componentwise bounds "
        "attained at corners. Tied by replaying such programs on real 3-D and 2-D meshes, with zero offsets (signed zeros, "
        "first iteration of a stacking loop, Center() of a centred mesh), identity maps and vertex-merging maps drawn on purpose."
    ),
    level_note=(
        "Proved about the models in lean/M3d/Model/FastMap.lean, Mesh.lean, MeshIter.lean, MeshObj.lean, MeshBounds.lean. The in-place editors "
        "themselves (eliminateSegment, flattenCoord, mcSearch, mapInPlace, Subdivider) are NOT modelled: their index "
        "maintenance is checked per generated input against a freshly built real mesh, not proved for all inputs. "
        "Trusted: Lean kernel, propext/Classical.choice/Quot.sound, the Go harness and driver, Go maps ~ association lists."
    ),
)
