"""Shared machinery behind /verif/check (see that file's docstring)."""
import sys, os, json, subprocess, time, re, fcntl, argparse, shutil, hashlib
from concurrent.futures import ThreadPoolExecutor

REPO = os.environ.get("VERIF_REPO", "/repo")
ALLOWED_AXIOMS = {"propext", "Classical.choice", "Quot.sound"}
FORBIDDEN = re.compile(r"\b(sorry|admit|native_decide|bv_decide|implemented_by|unsafe)\b|^\s*axiom\s|maxHeartbeats\s+0\b")

GOENV = dict(GOFLAGS="-mod=mod", GOPROXY="off", GOSUMDB="off", GOTOOLCHAIN="local",
             CGO_ENABLED=os.environ.get("CGO_ENABLED", "1"))


class lake_lock:
    """Serialises `lake build` across concurrently running checks (lake has no lock of its own)."""
    def __init__(self, root):
        self.path = os.path.join(root, ".lakelock")
    def __enter__(self):
        self.f = open(self.path, "w")
        fcntl.flock(self.f, fcntl.LOCK_EX)
    def __exit__(self, *a):
        fcntl.flock(self.f, fcntl.LOCK_UN)
        self.f.close()


def log(*a):
    print("[check]", *a, file=sys.stderr, flush=True)


def run(cmd, cwd=None, env=None, timeout=None, stdin=None, stdout=subprocess.PIPE):
    e = dict(os.environ)
    if env:
        e.update(env)
    p = subprocess.run(cmd, cwd=cwd, env=e, timeout=timeout, stdin=stdin, stdout=stdout,
                       stderr=subprocess.STDOUT, text=True, shell=isinstance(cmd, str))
    return p.returncode, p.stdout if p.stdout is not None else ""


class Check:
    def __init__(self, root, pid, tier, seed):
        self.root, self.pid, self.tier, self.seed = root, pid, tier, seed
        self.lean = os.path.join(root, "lean")
        self.harness = os.path.join(root, "harness")
        self.work = os.path.join(root, ".work", pid)
        shutil.rmtree(self.work, ignore_errors=True)
        os.makedirs(self.work, exist_ok=True)
        if os.path.realpath(REPO) != "/repo":
            # VERIF_REPO=<worktree>: build a private copy of the harness against that tree
            h2 = os.path.join(self.work, "harness")
            shutil.copytree(self.harness, h2, ignore=shutil.ignore_patterns("bin"))
            gm = open(os.path.join(h2, "go.mod")).read().replace("=> /repo", "=> " + os.path.realpath(REPO))
            open(os.path.join(h2, "go.mod"), "w").write(gm)
            self.harness = h2
        os.makedirs(os.path.join(root, "evidence"), exist_ok=True)
        os.makedirs(os.path.join(root, "replays"), exist_ok=True)
        self.t0 = time.time()
        self.violations = []      # dicts: site, kind, detail, replay(dict)
        self.notes = []
        self.obligations = []     # names
        self.discharged = []      # names
        self.axioms = {}
        self.stats = {}
        self.samples = []
        self.evaluations = 0
        self.distinct = set()
        self.traces = 0
        self.extra_cov = {}
        self.checker_cmds = []

    # ---------------------------------------------------------------- build
    def regen(self, cfg):
        """Regenerate lean/M3d/Gen/<g>.lean from /repo's working tree: tables by executing the
        real code under the verif hooks, facts by go/ast — both live in the property's own
        harness command (`bin/cNN -gen <g> -repo <repo> -out <file>`)."""
        gens = cfg.get("gen", [])
        if not gens:
            return True
        gendir = os.path.join(self.lean, "M3d", "Gen")
        os.makedirs(gendir, exist_ok=True)
        tmp = os.path.join(self.work, "gen")
        os.makedirs(tmp, exist_ok=True)
        ok = True
        for g in gens:
            rc, out = run([os.path.join(self.harness, "bin", self.pid.lower()), "-gen", g, "-repo", REPO,
                           "-out", os.path.join(tmp, g + ".lean")], cwd=self.harness, env=GOENV, timeout=600)
            if rc != 0:
                self.notes.append(f"regenerating Gen/{g}.lean failed (the translator/extractor could not process the current source): {out[-2000:]}")
                ok = False
                continue
            dst = os.path.join(gendir, g + ".lean")
            new = open(os.path.join(tmp, g + ".lean")).read()
            old = open(dst).read() if os.path.exists(dst) else None
            if new != old:
                if old is not None:
                    log(f"Gen/{g}.lean changed - theorems depending on it will be re-checked")
                open(dst, "w").write(new)
                if g == "Kernels":
                    self.kernels_safety_net(tmp, dst)
        return ok

    def kernels_safety_net(self, tmp, dst):
        """The translated module must elaborate.  If the current source makes the translator emit a definition
        that Lean rejects (a translator limitation, not a property violation), the offending functions are
        excluded (VERIF_XLATE_EXCLUDE, inherited by the harness runs) and the module is regenerated, so that only
        the tie theorems which need those definitions fail - not every property that imports the module.
        Called with the lake lock held."""
        excl = [e for e in os.environ.get("VERIF_XLATE_EXCLUDE", "").split(",") if e]
        for attempt in range(4):
            rc, out = run(["lake", "build", "M3d.Gen.Kernels"], cwd=self.lean, timeout=1800)
            if rc == 0:
                return
            src = open(dst).read().splitlines()
            bad = set()
            for m in re.finditer(r"Kernels\.lean:(\d+):\d+", out):
                ln = min(int(m.group(1)), len(src)) - 1
                # a table line names its root; otherwise walk up to the doc comment of the enclosing definition
                mt = re.match(r'\s*\("([^"]+)",', src[ln])
                if mt:
                    bad.add(mt.group(1))
                    continue
                for k in range(ln, -1, -1):
                    md = re.match(r"^/-- `([^`]+)` \(", src[k])
                    if md:
                        bad.add(md.group(1))
                        break
            bad -= set(excl)
            if not bad:
                self.notes.append("Gen/Kernels.lean does not elaborate and the failing definitions could not be identified: " + out[-1500:])
                return
            excl += sorted(bad)
            os.environ["VERIF_XLATE_EXCLUDE"] = ",".join(excl)
            self.notes.append("generated definitions that did not elaborate were excluded from Gen/Kernels.lean (translator limitation on the current source): " + ", ".join(sorted(bad)))
            log("Gen/Kernels.lean: excluding " + ", ".join(sorted(bad)))
            rc2, out2 = run([os.path.join(self.harness, "bin", self.pid.lower()), "-gen", "Kernels", "-repo", REPO,
                             "-out", os.path.join(tmp, "Kernels.lean")], cwd=self.harness, env=GOENV, timeout=600)
            if rc2 != 0:
                self.notes.append("regenerating Gen/Kernels.lean with exclusions failed: " + out2[-1000:])
                return
            open(dst, "w").write(open(os.path.join(tmp, "Kernels.lean")).read())

    def lake_build(self, targets, locked=False):
        cmd = ["lake", "build"] + targets
        self.checker_cmds.append("cd lean && " + " ".join(cmd))
        if locked:
            rc, out = run(cmd, cwd=self.lean, timeout=3600)
        else:
            with lake_lock(self.root):
                rc, out = run(cmd, cwd=self.lean, timeout=3600)
        return rc, out

    def go_build(self):
        os.makedirs(os.path.join(self.harness, "bin"), exist_ok=True)
        shutil.copy(os.path.join(REPO, "go.sum"), os.path.join(self.harness, "go.sum"))
        rc, out = run(["go", "build", "-tags", "verif", "-o", os.path.join(self.harness, "bin", self.pid.lower()),
                       "./cmd/" + self.pid.lower()], cwd=self.harness, env=GOENV, timeout=900)
        return rc, out

    # ---------------------------------------------------------------- audit
    def theorem_names(self, module):
        path = os.path.join(self.lean, *module.split(".")) + ".lean"
        src = open(path).read()
        ns = []
        names = []
        for line in src.splitlines():
            m = re.match(r"^namespace\s+(\S+)", line)
            if m:
                ns.append(m.group(1))
            m = re.match(r"^end\s+(\S+)", line)
            if m and ns and ns[-1] == m.group(1):
                ns.pop()
            m = re.match(r"^(?:@\[[^\]]*\]\s*)?theorem\s+([^\s:({\[]+)", line)
            if m:
                names.append(".".join(ns + [m.group(1)]))
        return names, src

    def scan_forbidden(self, files):
        hits = []
        for f in files:
            depth = 0
            for i, line in enumerate(open(f).read().splitlines(), 1):
                # strip block and line comments (coarse but conservative)
                s = line
                out = ""
                j = 0
                while j < len(s):
                    if s.startswith("/-", j):
                        depth += 1; j += 2; continue
                    if s.startswith("-/", j) and depth > 0:
                        depth -= 1; j += 2; continue
                    if depth == 0 and s.startswith("--", j):
                        break
                    if depth == 0:
                        out += s[j]
                    j += 1
                if FORBIDDEN.search(out):
                    hits.append(f"{os.path.relpath(f, self.root)}:{i}: {line.strip()}")
        return hits

    def lean_sources_of(self, module):
        """Transitive M3d.* imports of a module (source files)."""
        seen, todo = set(), [module]
        files = []
        while todo:
            m = todo.pop()
            if m in seen or not m.startswith("M3d"):
                continue
            seen.add(m)
            p = os.path.join(self.lean, *m.split(".")) + ".lean"
            if not os.path.exists(p):
                continue
            files.append(p)
            for line in open(p).read().splitlines():
                mm = re.match(r"^import\s+(\S+)", line)
                if mm:
                    todo.append(mm.group(1))
        return files

    def audit(self, module):
        names, _ = self.theorem_names(module)
        self.obligations += names
        files = self.lean_sources_of(module)
        hits = self.scan_forbidden(files)
        if hits:
            self.notes.append("forbidden constructs: " + "; ".join(hits))
        auditf = os.path.join(self.work, "Audit.lean")
        with open(auditf, "w") as f:
            f.write(f"import {module}\n")
            for n in names:
                f.write(f"#print axioms {n}\n")
        cmd = ["lake", "env", "lean", auditf]
        self.checker_cmds.append(f"cd lean && lake env lean <generated: import {module}; #print axioms … for each of its {len(names)} theorems>")
        rc, out = run(cmd, cwd=self.lean, timeout=1800)
        text = out.replace("\n  ", " ").replace("\n ", " ")
        for n in names:
            m = re.search(r"'" + re.escape(n) + r"' depends on axioms: \[([^\]]*)\]", text)
            if m:
                ax = {a.strip() for a in m.group(1).split(",") if a.strip()}
            elif re.search(r"'" + re.escape(n) + r"' does not depend on any axioms", text):
                ax = set()
            else:
                self.axioms[n] = None
                continue
            self.axioms[n] = sorted(ax)
            if ax <= ALLOWED_AXIOMS and not hits:
                self.discharged.append(n)
        return rc == 0

    # ---------------------------------------------------------- correspondence
    def corr_once(self, seed, n, tag):
        outp = os.path.join(self.work, f"corr-{tag}.txt")
        env = dict(GOENV)
        env["GOMEMLIMIT"] = "6GiB"
        rc, out = run(["timeout", "1800", os.path.join(self.harness, "bin", self.pid.lower()), "-prop", self.pid,
                       "-seed", str(seed), "-n", str(n), "-out", outp], cwd=self.harness, env=env)
        if rc != 0:
            return dict(seed=seed, n=n, error=f"harness exited {rc}: {out[-1500:]}", cases=[], meta=[])
        ops, impls, sites, meta = [], [], [], []
        for line in open(outp, errors="replace").read().split("\n"):
            if not line:
                continue
            if line.startswith("#"):
                meta.append(line)
                continue
            parts = line.split("\t")
            ops.append(parts[0]); impls.append(parts[1] if len(parts) > 1 else "")
            sites.append(parts[2] if len(parts) > 2 else None)
        opf = os.path.join(self.work, f"ops-{tag}.txt")
        open(opf, "w").write("".join(o + "\n" for o in ops))
        drv = getattr(self, "drv", None) or os.path.join(self.lean, ".lake", "build", "bin", "drv_" + self.pid.lower())
        with open(opf) as fin:
            p = subprocess.run(["timeout", "3000", drv], stdin=fin, stdout=subprocess.PIPE, stderr=subprocess.PIPE, text=True)
        models = p.stdout.split("\n")
        if models and models[-1] == "":
            models.pop()
        err = None
        if p.returncode != 0 or len(models) != len(ops):
            err = f"driver exited {p.returncode}, {len(models)} outputs for {len(ops)} ops: {p.stderr[-500:]}"
        cases = list(zip(ops, impls, models + ["<missing>"] * (len(ops) - len(models)), sites))
        if not os.environ.get("VERIF_KEEP"):
            # the op stream and the harness output are in memory now (failing cases go to replays/): the scratch
            # files of a thorough run add up to gigabytes, so they are not kept (VERIF_KEEP=1 keeps them)
            for f in (outp, opf):
                try:
                    os.remove(f)
                except OSError:
                    pass
        return dict(seed=seed, n=n, error=err, cases=cases, meta=meta)

    def correspondence(self, cfg):
        ncfg = cfg.get("corr")
        if not ncfg:
            return
        n = ncfg[self.tier]
        seeds = [self.seed] if self.tier == "quick" else [self.seed + 7919 * i for i in range(cfg.get("thorough_seeds", 8))]
        with ThreadPoolExecutor(max_workers=min(len(seeds), 8)) as ex:
            results = list(ex.map(lambda s: self.corr_once(s, n, f"s{s}"), seeds))
        thm = cfg.get("corr_theorems", "")
        for r in results:
            if r["error"]:
                self.violations.append(dict(site=f"corr:{self.pid}/harness-or-driver-failure", kind="correspondence-broken",
                                            detail=r["error"], found_input=False,
                                            replay=dict(seed=r["seed"], n=r["n"], error=r["error"])))
            for line in r["meta"]:
                if line.startswith("#stat "):
                    _, k, v = line.split(" ", 2)
                    self.stats[k] = self.stats.get(k, 0) + int(v)
                elif line.startswith("#propfail "):
                    _, site, desc = (line.split(" ", 2) + [""])[:3]
                    self.violations.append(dict(site=site, kind="property-predicate-false-on-implementation",
                                                detail=desc, found_input=True,
                                                replay=dict(seed=r["seed"], n=r["n"], description=desc)))
            for idx, (op, impl, model, site) in enumerate(r["cases"]):
                self.evaluations += 1
                self.traces += 1
                self.distinct.add(hashlib.sha1(op.encode()).digest()[:8])
                if len(self.samples) < 3 and len(op) < 400:
                    self.samples.append(dict(op=op, impl=impl, model=model))
                if impl != model:
                    kind = " ".join(op.split(" ")[:2])
                    s = site or ("corr:" + kind)
                    if model == "bad-op":
                        s = "corr:" + kind + "/model-driver-rejected-op"
                    self.violations.append(dict(site=s, kind="model-vs-implementation", found_input=True,
                                                detail=f"impl={impl[:300]} model={model[:300]}",
                                                replay=dict(seed=r["seed"], n=r["n"], case_index=idx, op=op,
                                                            impl_output=impl, model_output=model, theorems=thm)))

    # --------------------------------------------------------------- verdict
    def known_findings(self):
        path = os.path.join(self.root, "known_findings.jsonl")
        out = []
        if os.path.exists(path):
            for line in open(path):
                line = line.strip()
                if line.startswith("{"):
                    out.append(json.loads(line))
        return out

    def finish(self, cfg):
        known = [k for k in self.known_findings() if k.get("property") == self.pid and k.get("status") == "known"]
        # group violations by site, keep the smallest replay per site
        by_site = {}
        for v in self.violations:
            key = v["site"]
            cur = by_site.get(key)
            size = len(json.dumps(v["replay"]))
            if cur is None or size < cur[0]:
                by_site[key] = (size, v)
        rc = 0
        nviol = 0
        lines = []
        shown_sites = set()
        for site, (_, v) in sorted(by_site.items()):
            kf = [k for k in known if k.get("site") == site]
            if kf:
                lines.append(f"KNOWN-FINDING: property={self.pid} {site} {kf[0].get('summary','')}")
                shown_sites.add(site)
                continue
            nviol += 1
            safe = re.sub(r"[^A-Za-z0-9_.-]+", "_", site)[:80]
            rp = os.path.join(self.root, "replays", f"{self.pid}-{self.seed}-{safe}.json")
            body = dict(property=self.pid, site=site, kind=v["kind"], detail=v["detail"], tier=self.tier,
                        replay=v["replay"], how_to_replay=f"./check {self.pid} --replay {os.path.relpath(rp, self.root)}")
            json.dump(body, open(rp, "w"), indent=1)
            tail = "" if v.get("found_input", True) else " no-failing-input-found"
            lines.append(f"VIOLATION property={self.pid} replay={rp}{tail}")
            rc = 1
        # every listed (unrepaired) finding of the property is named on every run, also when this run's
        # cases did not happen to reproduce it
        for k in known:
            if k.get("site") not in shown_sites:
                lines.append(f"KNOWN-FINDING: property={self.pid} {k.get('site')} {k.get('summary','')} (recorded finding; not reproduced by the cases of this run)")
        for n in self.notes:
            log("note:", n)
        for l in lines:
            print(l, flush=True)
        self.write_evidence(cfg, nviol)
        return rc

    def write_evidence(self, cfg, nviol):
        trusted = [
            "Lean 4.33.0 kernel (theorems re-checked by `lake build` on this run)",
            "axioms used by the property theorems: " + ", ".join(sorted({a for v in self.axioms.values() if v for a in v}) or ["none"]),
            "no sorry/admit/native_decide/bv_decide/own axioms (source scan + #print axioms on this run)",
            "tie to /repo: Go correspondence harness (harness/cmd/corr, build tag verif) + native Lean driver; generators, canonicalisation and the diff are trusted",
            "Go toolchain, Lean compiler for the executable side of the models",
        ] + cfg.get("trusted", [])
        cov = dict(
            obligations=len(self.obligations), discharged=len(self.discharged),
            checker_cmd=" ; ".join(self.checker_cmds) or "lake build",
            trusted_base=trusted,
            theorems={n: (self.axioms.get(n)) for n in self.obligations},
            evaluations=self.evaluations, distinct_nontrivial=len(self.distinct),
            rule=cfg.get("rule", "cases are generated from one PRNG seed by harness/cmd/corr; distinct = distinct operation lines (sha1), every line drives real model3d code and the Lean model"),
            samples=self.samples or [dict(obligation=n) for n in self.obligations[:3]],
            traces_validated_against_impl=self.traces,
            distribution=self.stats,
        )
        cov.update(self.extra_cov)
        ev = dict(property_id=self.pid, tier=self.tier, seed=self.seed, level="proof", coverage=cov,
                  assumptions=cfg.get("assumptions", []), wall_s=round(time.time() - self.t0, 2), violations=nviol)
        # evidence/<id>.json describes the run against /repo; a run against another tree (VERIF_REPO: seeded
        # worktrees of the self-test) writes its evidence next to its scratch files instead
        dst = os.path.join(self.root, "evidence", f"{self.pid}.json")
        if os.path.realpath(REPO) != "/repo":
            dst = os.path.join(self.work, f"evidence_{self.pid}.json")
        json.dump(ev, open(dst, "w"), indent=1)


def do_replay(root, pid, path):
    body = json.load(open(path))
    rp = body.get("replay", {})
    print(json.dumps(body, indent=1))
    if "op" not in rp:
        print("replay has no single operation line; re-run ./check", pid)
        return 0
    lean = os.path.join(root, "lean")
    drv = os.path.join(lean, ".lake", "build", "bin", "drv_" + pid.lower())
    p = subprocess.run([drv], input=rp["op"] + "\n", stdout=subprocess.PIPE, text=True)
    print("model now   :", p.stdout.strip())
    print("model then  :", rp.get("model_output"))
    # implementation: regenerate the same case from the same seed
    outp = os.path.join(root, ".work", "replay.txt")
    os.makedirs(os.path.dirname(outp), exist_ok=True)
    rc, out = run([os.path.join(root, "harness", "bin", pid.lower()), "-prop", pid, "-seed", str(rp["seed"]),
                   "-n", str(rp["n"]), "-out", outp], cwd=os.path.join(root, "harness"), env=GOENV)
    impl_now = None
    for line in open(outp, errors="replace"):
        parts = line.rstrip("\n").split("\t")
        if parts[0] == rp["op"]:
            impl_now = parts[1] if len(parts) > 1 else ""
            break
    print("impl now    :", impl_now)
    print("impl then   :", rp.get("impl_output"))
    return 0 if impl_now == p.stdout.strip() else 1


def setup(root):
    """MANIFEST.setup_cmd: build every claimed property's harness command, regenerate Gen/, build
    all theorems and drivers."""
    sys.path.insert(0, os.path.join(root, "lib"))
    import props
    targets = ["M3d"]
    rc_all = 0
    for pid, cfg in sorted(props.PROPS.items()):
        if cfg.get("unclaimed"):
            continue
        c = Check(root, pid, "quick", 1)
        rc, out = c.go_build()
        if rc != 0:
            print(out); rc_all = 1
            continue
        if not c.regen(cfg):
            print("\n".join(c.notes)); rc_all = 1
        targets += [cfg["module"], "drv_" + pid.lower()] + cfg.get("tie_modules", [])
    with lake_lock(root):
        rc, out = run(["lake", "build"] + targets, cwd=os.path.join(root, "lean"), timeout=7200)
    print(out[-3000:])
    return 1 if (rc != 0 or rc_all) else 0


def main(root, argv):
    if argv and argv[0] == "--setup":
        return setup(root)
    ap = argparse.ArgumentParser()
    ap.add_argument("pid")
    ap.add_argument("--tier", default=os.environ.get("VERIF_TIER", "quick"))
    ap.add_argument("--replay")
    a = ap.parse_args(argv)
    pid = a.pid.upper()
    tier = a.tier if a.tier in ("quick", "thorough") else "quick"
    try:
        seed = int(os.environ.get("VERIF_SEED", "1"))
    except ValueError:
        seed = 1
    sys.path.insert(0, os.path.join(root, "lib"))
    import props
    cfg = props.PROPS[pid]
    os.makedirs(os.path.join(root, ".work"), exist_ok=True)
    lockf = open(os.path.join(root, ".work", f".lock-{pid}"), "w")
    fcntl.flock(lockf, fcntl.LOCK_EX)
    if a.replay:
        return do_replay(root, pid, a.replay)
    c = Check(root, pid, tier, seed)
    log(f"{pid} tier={tier} seed={seed} repo={REPO}")
    rcg, outg = c.go_build()
    module = cfg["module"]
    # tie_modules: theorems that tie REGENERATED definitions (lean/M3d/Gen) to the hand-written models;
    # they are obligations of the property like the theorems of Props/Cxx.lean
    ties = cfg.get("tie_modules", [])
    # regeneration and the build that consumes it happen under ONE lock, so that a concurrent check (of
    # another property, possibly against another tree) cannot swap lean/M3d/Gen/* in between
    lk = lake_lock(root)
    lk.__enter__()
    try:
        ok_gen = c.regen(cfg) if rcg == 0 else (not cfg.get("gen"))
        rc, out = c.lake_build([module] + ties + ["drv_" + pid.lower()], locked=True)
        proofs_ok = rc == 0 and ok_gen
        if rc != 0:
            errs = [l for l in out.splitlines() if "error" in l][:20]
            c.notes.append("lake build failed: " + " | ".join(errs))
            # obligations are still counted; nothing is discharged for a module that does not build
            for m in [module] + ties:
                names, _ = c.theorem_names(m)
                c.obligations += names
        else:
            for m in [module] + ties:
                c.audit(m)
            if tier == "thorough":
                rc2, out2 = run(["lake", "env", "leanchecker", module], cwd=c.lean, timeout=3600)
                c.checker_cmds.append(f"cd lean && lake env leanchecker {module}")
                c.extra_cov["leanchecker"] = "ok" if rc2 == 0 else ("failed: " + out2[-500:])
                if rc2 != 0:
                    proofs_ok = False
                    c.notes.append("leanchecker failed: " + out2[-500:])
        # the native driver this run will use is copied aside while the lock is held
        drv_src = os.path.join(c.lean, ".lake", "build", "bin", "drv_" + pid.lower())
        c.drv = os.path.join(c.work, "drv_" + pid.lower())
        if os.path.exists(drv_src):
            shutil.copy2(drv_src, c.drv)
    finally:
        lk.__exit__(None, None, None)
    if rcg != 0:
        c.violations.append(dict(site=f"corr:{pid}/harness-does-not-build", kind="correspondence-broken", found_input=False,
                                 detail=outg[-1500:], replay=dict(error="go build -tags verif ./cmd/<pid> failed", output=outg[-3000:])))
    elif rc == 0 or os.path.exists(c.drv):
        hook = cfg.get("pre_corr")
        if hook:
            hook(c, cfg)
        c.correspondence(cfg)
        hook = cfg.get("post_corr")
        if hook:
            hook(c, cfg)
    missing = [n for n in c.obligations if n not in c.discharged]
    if missing or not proofs_ok:
        # a proof obligation no longer checks: search for a concrete failing input
        found = False
        srch = cfg.get("search")
        if srch:
            found = srch(c, cfg, missing)
        if not found and not any(v.get("found_input") for v in c.violations):
            c.violations.append(dict(site=f"proof:{pid}/obligation-not-discharged", kind="proof-obligation-broken", found_input=False,
                                     detail="; ".join(c.notes)[-1500:],
                                     replay=dict(theorems_not_checked=missing, notes=c.notes, axioms=c.axioms)))
    return c.finish(cfg)
