PROP = dict(
    module="M3d.Props.C02",
    corr=dict(quick=400, thorough=2500),
    gen=["Kernels"],
    tie_modules=["M3d.Lemmas.KernelsTieDC", "M3d.Lemmas.KernelsTieFilterBounds"],
    corr_theorems=(
        "mcv/msv: mc_vertex_iff_sign_change, mc_vertex_only_on_sign_change, mc_one_vertex_per_edge, mc_side_correct "
        "(and ms_*): the driver prints the set of sign-changing lattice edges after checking that the table-driven "
        "whole-lattice model mesh mcMesh/msMesh has exactly that vertex set; "
        "mcf/msf (and the Filter variants inside mcv/msv/mcs/mss): ms_filter_same_mesh, ms_filter_vertex_iff_sign_change, "
        "ms_filter_vertex_only_on_sign_change, ms_filter_side_correct (and mc_filter_*) with ms/mc_rect_filter_point_sound + "
        "ms/mc_filter_rect_covers_block_points (a filter that says no only where Contains is constant is a sound block oracle "
        "because Bounds covers the block's lattice points) and the tie M3d.KernelsTie.FilterBounds.* for the regenerated Bounds; "
        "the driver runs msFilterMesh1/mcFilterMesh1 with tightFilter (filter_tight_sound) and prints the sign-changing edges; "
        "mcs/mss: lookup_edge_point_recovers, ms_lookup_recovers, bisect_keeps_contained_end, bisect_width, bisect_result_between, bisect_within_spacing, "
        "search_picks_true_end, ms_normal_picks_contained_end + ms_search_picks_true_end, interior_point_contained, "
        "mc_search_vertex_on_edge (the driver runs M3d.Bisect.mcSearchPoint/msSearchPoint at Rat, edge recovered by the "
        "model of LookupEdgePoint / the msSearch window); "
        "bis/bis2: bisect_interior_contained, bisect_point_bracketed (driver runs bisectPoint/bisectInterior at Float, bit for bit; bis2 = the 2-D twin "
        "model2d.SolidSurfaceEstimator, same model with the third coordinate 0); "
        "dcidx/dcsz: dc_edge_cubes_consistent, dc_index_roundtrip, dc_four_cubes_round_edge (driver prints the Lean index "
        "functions the theorems are about); dc/dcr: dc_one_quad_per_active_edge, dc_quad_orientation, dc_clip_in_cell, "
        "dc_quad_crossed_once, dc_flip_reverses_normal, dc_quad_meets_only_own_edge; dcr additionally dc_repair_midpoint_between; "
        "dc/dcr through the wrappers DualContour / DualContourInterior(clip=true): dc_wrappers_pass_clip (the literal they build has Clip = clip) "
        "+ the same dual-contouring theorems; "
        "mcj/msj (MarchingCubesConj / MarchingSquaresConj): conj_vertex_round_trip, conj_back_is_reversed_inverses, conj_label_is_solid "
        "(and conj2_*) over C05's transform model M3d.Tf.Xf, + the search theorems of mcs/mss in the transformed space: the driver builds "
        "TransformSolid(joined, s) (conjSolid3/2: bounds through applyBounds, lattice through spacerCount), refines every sign-changing "
        "lattice edge and maps the vertex back with conjBack3/2; "
        "c2f2/c2f3 (MarchingSquaresC2F / MarchingCubesC2F): c2f_ms_filter_sound, c2f_mc_filter_sound (a coarse vertex within D <= total margin "
        "of every sign-changing fine edge => the filter is point-sound => ms/mc_filter_same_mesh), c2f_total_covers (extraSpace + bigDelta <= "
        "extraSpace + 2*bigDelta*sqrt3), c2f_mixed_coarse_cell_has_vertex / c2f_mixed_coarse_cube_has_vertex (a crossed coarse cell has a coarse vertex on its boundary): the "
        "driver builds the model's coarse mesh, re-evaluates the hypothesis with D = extraSpace + bigDelta (nearVertex2/3) and prints the plain fine mesh"
    ),
    rule=(
        "mcv/msv: all 256 (16) single-cell labellings, then random lattice-defined solids (voxel bitfields incl. noisy "
        "checkerboards, sparse, dense; spacings 1/4..2, dyadic origins) and dyadic CSG trees (boxes, exact balls, slabs "
        "thinner than the spacing, faces on lattice points and on cell midpoints) through MarchingCubes / "
        "MarchingCubesFilter / MarchingCubesSearch(0) and the 2-D twins: real vertex set (exact coordinates mapped to "
        "doubled lattice indices via the exported spacer arrays) must equal the set of sign-changing lattice edges, and "
        "the parity rule along every lattice line is evaluated on the real mesh; "
        "mcf/msf: MarchingCubesFilter / MarchingSquaresFilter / SearchFilter(0) with a real region filter and GOMAXPROCS 1..4 on "
        "lattices with several levels of block subdivision (2-D 10..53, 3-D 6..21 cells per side) and solids made of small features "
        "at arbitrary positions relative to the blocks (islands of 1/4..2 cells, thin bars, single voxels, holes, next to a large "
        "body); the filter answers false exactly when a three-valued exact evaluation of the CSG tree shows Contains constant on the "
        "rectangle (mode 1) or when all lattice points of the rectangle carry one label (mode 2); every false is cross-checked "
        "against the lattice labels; demanded output as for mcv/msv; counters record how many rectangles were kept only because of "
        "their last index layer; the Filter variants inside mcv/msv/mcs/mss draw one of {always true, mode 1, mode 2}; "
        "mcs/mss: MarchingCubesSearch / SearchFilter / Interior and MarchingSquaresSearch(+Filter) with 0..12 iterations "
        "(0..40 on box/half-space solids) in exact dyadic arithmetic: every refined vertex (and interior point) must equal "
        "the model's rational; additionally, on the real output, each vertex is strictly inside its lattice edge, the two "
        "samples at distance delta/2^(iters+1) are classified differently with the contained one on the side of the "
        "contained lattice end, and interior points satisfy Contains; 2-D solids are also translated so that Min() != 0; "
        "bis: Bisect/BisectInterior on arbitrary doubles with a half-space through/near an end point, bit for bit (bis2: one case in six through the "
        "2-D twin of model2d); all CSG solids may contain oblique half-spaces a*x+b*y+c*z <= d with small integer normals; "
        "dcidx: EdgeCubes/EdgeCorners/CubeEdges/CubeCorners for every index on all grids 2..4 x 2..4 x 2..4 and random "
        "larger ones, dcsz: slice lengths and BufRows; "
        "dc/dcr: DualContouring{Clip:true} with random NoJitter, MaxGos, BufferSize (forcing buffer shifts), CubeMargin "
        "(0 = default, 0.1, 0.25, 0.5), TriangleMode, Mesh/MeshInterior, Repair (dcr) on voxel solids and CSG solids: "
        "quads reconstructed from the real triangles (vertex -> cell by exact comparison with the exported layout) must "
        "equal the model's quads cell by cell incl. orientation; every vertex strictly inside its cell and within the "
        "margin; every lattice edge's crossings counted exactly (big.Rat) must be one with the predicted normal sign iff "
        "its ends differ; one contained interior point per active edge; one third of the CSG cases add zero-thickness plates / "
        "segments / points at lattice positions, and a focused batch of 3N small Repair cases (round body + such features, NoJitter, "
        "default margin) produces singular edges whose ends are clipped to the cube margin; 40 % of the dc/dcr cases go through the "
        "convenience wrappers DualContour(s, delta, repair, true) / DualContourInterior(s, delta, repair, true) (all other options at their "
        "zero value) and half of the CSG solids carry sharp features that are not aligned with the grid (3..5 oblique half-spaces with "
        "small integer normals: wedges, pyramid tips, oblique creases - where an unclipped QEF minimiser leaves its cell); "
        "mcj/msj: MarchingCubesConj / MarchingSquaresConj with 0..3 transforms (translations, uniform and per-axis scales by +-powers of two, "
        "signed permutation matrices with power-of-two factors, shears - all with exactly representable inverses, mostly non-commuting) on "
        "dyadic CSG solids, 0..8 iterations: the returned vertices must equal the model's rationals; on the real output, the vertices mapped "
        "forward through joined.Apply satisfy the parity / transition predicates on the lattice of the transformed solid; "
        "c2f2/c2f3: MarchingSquaresC2F / MarchingCubesC2F with coarse/fine ratios 1.5..64 (2-D) and 2..16 (3-D), bodies of balls and boxes of "
        "about one coarse cell (unions, differences) plus small islands, iterations 0..8, GOMAXPROCS 1..4; the harness measures the max-norm "
        "distance of every sign-changing fine edge to the vertices of the REAL coarse mesh and passes extraSpace = 0 (or one fine cell) when it "
        "is at most bigDelta, else the extraSpace that covers it (cases whose coarse mesh is empty are skipped: nothing is demanded); "
        "demanded output: the refined vertices of the plain fine mesh, exactly"
    ),
    trusted=[
        "regenerated, not hand-written: lean/M3d/Gen/Kernels.lean (Go->Lean translator harness/hlib/go2lean) contains the index "
        "functions of dcCubeLayout (model3d/dc.go); M3d.KernelsTie.DC.* re-prove against the current source that cornerIdx, cubeCoord "
        "(truncating % and /=), edgeCounts and x/y/zEdgeIdx are the layout functions of Model/DualContour.lean (nx = len(Xs), ny = len(Ys)), and "
        "(round 3) that CubeEdges, CubeCorners and EdgeCorners are cubeEdges, cubeCorners, edgeCorners entry by entry (cubeEdges_eq, cubeCorners_eq, "
        "edgeCorners_eq); EdgeCubes (function literal) is outside the translator's subset and tied by the exhaustive dcidx correspondence",
        "regenerated by the C01 check, imported here: the 256/16-row lookup tables (M3d/Gen/McTable.lean); "
        "C01.mc_rows_wellformed / ms_rows_wellformed are the only table facts the whole-lattice lift uses",
        "LookupEdgePoint's mod/int arithmetic and msSearch's window are modelled at Rat (M3d.Bisect.lookupEdgePoint/msLookup), "
        "tied by exact correspondence, and proved to recover the edge of a midpoint vertex over Rat "
        "(lookup_edge_point_recovers, ms_lookup_recovers); the float evaluation coincides on the dyadic lattices of the correspondence",
        "region filter: the block machinery (Split, Pieces, worker pool as an arbitrary schedule) is C12's M3d/Model/Partition.lean "
        "(tied to the source by C12's KernelsTiePartition); here the regenerated msBlock.Bounds / mcBlock.Bounds are tied by "
        "M3d.KernelsTie.FilterBounds (they contain every lattice point min..max of the block).  The harness's three-valued CSG "
        "evaluator (filter mode 1) is trusted Go code, cross-checked against the lattice labels on every rejected rectangle; "
        "MarchingSquaresC2F / MarchingCubesC2F: the filter closure (collider.RectCollision(r.Expand(extraSpace)) over MeshToCollider(coarseMesh)) is "
        "modelled as any F that reports a rectangle whose expansion contains a vertex of the coarse mesh (hypothesis hF of c2f_ms/mc_filter_sound; "
        "completeness of RectCollision is C07/C08's subject); math.Sqrt(3) enters only through 1 <= sqrt3; the reading of 'details totally missed "
        "by the coarse mesh' is: further than extraSpace + bigDelta (max-norm) from every vertex of the coarse mesh - a feature inside a coarse "
        "cell that the coarse mesh crosses is never missed (c2f_mixed_coarse_cell_has_vertex)",
        "MarchingCubesConj / MarchingSquaresConj: the transforms are C05's model M3d.Tf.Xf (Model/Transform.lean, Transform2.lean, tied to the "
        "source by C05's correspondence and KernelsTieTransform); here only the glue is modelled (conjSolid/conjBack, M3d/Model/MarchingGlue.lean) "
        "and tied by the exact mcj/msj correspondence; newSquareSpacer is modelled at Rat (spacerCount) - exact on the dyadic bounds used",
        "DualContour / DualContourInterior: the options literal is a hand-written model (dualContourOptions), tied by running dc/dcr through the wrappers",
        "floating point: the bisection theorems are over ordered fields; the code's float arithmetic coincides with them "
        "on the dyadic inputs of the exact correspondence (all sums exact).  For non-dyadic lattices (x += delta "
        "accumulation, delta*i + jitter) the lattice values are taken as given",
        "dual contouring: QEF solution, normal estimation (SolidSurfaceEstimator.Normal) and Repair's vertex moves are not "
        "modelled; the crossing theorem holds for ANY vertex positions strictly inside the cells, which Clip guarantees "
        "(dc_clip_in_cell) and the harness checks on every real vertex; for Repair=true only the crossing/orientation/"
        "interior checks are applied to the real mesh (dc_repair_midpoint_between covers the inserted midpoints of singular "
        "edges; no theorem covers the repaired topology as a whole)",
        "buffer shifting (dcCubeLayout.Shift, UsableEdges) is not modelled: the model is the whole lattice at once; the "
        "correspondence runs the real code with small BufferSize so that several shifts occur and demands the same quads",
        "the harness's exact crossing counter (big.Rat orientation tests) and quad reconstruction are trusted Go code; "
        "hitHalf in Lemmas/DualContour.lean is its specification",
        "the solids of the harness (csg.go) are inputs, evaluated identically (exactly) in Go and in the driver",
    ],
    assumptions=[
        "the solid is false on the outer layer of the sampling lattice (the scanners / appendMesh panic otherwise)",
        "Clip is set and 0 <= 2*CubeMargin <= 1 for the dual-contouring crossing claims",
    ],
    level_text=(
        "Machine-checked theorems for all inputs: the bisection loop keeps the contained end, halves the interval, "
        "stays strictly inside the lattice edge and ends within delta/2^(n+1) of an excluded and a contained sample; "
        "the end-selection rules of mcSearchPoint (generic) and msSearch (decided over the regenerated 16-row table) pick "
        "the contained end; interior points are contained; over the whole-lattice model of marching cubes/squares "
        "(regenerated tables) a vertex sits on a lattice edge iff its ends differ, nowhere else, one position per edge, "
        "and the parity of vertices along any lattice line equals the label; the Filter variants with any filter that says no "
        "only where Contains is constant (any worker schedule) produce a permutation of the unfiltered face list, because the "
        "rectangle of Bounds (regenerated, tied) contains every lattice point of its block; LookupEdgePoint and the msSearch "
        "window recover the lattice edge of a midpoint; for dual contouring the flat index "
        "functions are mutually inverse and EdgeCubes/CubeEdges are consistent for every grid size, exactly one quad "
        "per active edge with the four surrounding cells, oriented from the contained to the excluded end, clipped "
        "vertices stay in their cells, any quad with vertices inside its four cells is crossed by its edge exactly "
        "once with that normal and meets no other lattice edge, and the vertex Repair inserts on a singular edge stays between "
        "the edge's ends round every grid edge of the shared face; the vertex map of MarchingCubesConj/MarchingSquaresConj inverts the joined "
        "transform (members' inverses last to first) and the label of a lattice point of the transformed space is the solid's answer at its image "
        "under that map; the C2F filter is a sound block oracle (hence C2F = plain fine mesh) whenever every sign-changing fine edge starts "
        "within the total margin of a coarse-mesh vertex, which extraSpace + one bigDelta always is; the DualContour wrappers pass clip on.  Tie: exact (Rat) / bit-exact (Float) correspondence of the real MarchingCubes*, "
        "MarchingSquares* (incl. Conj and C2F), SolidSurfaceEstimator and DualContouring (struct and wrappers) code with these models, plus direct evaluation of "
        "the property predicates on real outputs."
    ),
    level_note=(
        "Not mechanised: QEF/normal numerics and the repaired topology as a whole; buffer shifting; float rounding on "
        "non-dyadic lattices; gluing the per-quad crossing statements into one theorem about real vertex positions.  Trusted: Lean kernel, C01's regenerated tables, harness "
        "(csg evaluator, crossing counter) and driver."
    ),
)
