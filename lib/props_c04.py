PROP = dict(
    thorough_seeds=48,
    module="M3d.Props.C04",
    corr=dict(quick=300, thorough=2500),
    gen=[],
    corr_theorems=(
        "bool: joined_eq_any / intersected_eq_all / subtracted_eq / joined_perm / intersected_perm; "
        "sj, sj2: smooth_eq_spec (closure = smoothSpec), smooth_perm, smooth_single, smooth_zero_radius, smooth_far; "
        "sjm, sj2m, sjf, sj2f: validate the faithful closure model (every permutation / IEEE doubles); "
        "opt: optimize_eq_joined; mux: mux_spec; stk: stacked_eq_translated_union + stackedSolid_eq; "
        "rs: rectset_build_eq_any (tree well-splitness is re-decided by the driver on every case)"),
    rule=("bool: ALL bit vectors of length 1..6 x all permutations, 2D and 3D (exhaustive); smooth: operand lists of "
          "length 1..6 with dyadic distances concentrated in [-r,0], radii incl. 0, every permutation evaluated on the real "
          "closure (SmoothJoin and SmoothJoinV2, 2D and 3D) plus IEEE-double runs; scenes: 1..9 FuncSolid leaves on a small "
          "lattice (duplicates, nested, coincident bounds), queries on box faces/corners, real Optimize/SolidMux "
          "(Contains/AllContains/IterContains with and without callback); stacks of 1..5 operands with inner boxes; RectSet "
          "Add/Remove histories of lattice boxes incl. the empty set, queries on and between split planes; "
          "distinct = distinct operation lines"),
    trusted=[
        "modelled, not verified: GroupBounders is an arbitrary reordering (theorems quantify over every permutation; the real "
        "order is passed to the model and checked to be a permutation on every case)",
        "modelled, not verified: RectSet.Add/Remove/addSplit/rebuildSplits (Go map as duplicate-free list) — tied by comparing "
        "the stored rects and split lists with the real ones (verif hook) on every case; that the built tree is well split is "
        "decided per case by the driver (Tree.wellSplitB, proved sufficient), not proved for all histories",
        "StackedSolid's own bounds test is shown redundant only by correspondence (stackedSolid_eq keeps it explicit)",
        "SmoothJoinV2 order independence is proved for the distances (shared with SmoothJoin); which normals accompany "
        "tied distances is inherently order dependent and excluded by the generator (ties share a normal)",
        "math.Sqrt in SmoothJoinV2 is a function parameter of the model (exact runs use normals with 1-cos^2 in {0,1}; "
        "IEEE runs use Float.sqrt)",
    ],
    assumptions=[
        "operands respect their own bounds (Solid contract, property C03) for Optimize / SolidMux / StackSolids",
        "no NaN distances or coordinates; finite radius >= 0 in generated cases (theorems hold for every radius)",
        "RectSet boxes have positive thickness (a zero-thickness box makes newRectSetSolid recurse forever; see notes/C04.md)",
    ],
    level_text=(
        "Theorems (Lean 4, every ordered field / linear order, all operand lists and points): Joined/Intersected/Subtracted = "
        "any/all/and-not and are permutation invariant; the SmoothJoin closure ends with exactly the two largest distances "
        "(smooth_top2), hence is permutation invariant, equals the plain union at radius 0, for one operand and wherever fewer "
        "than two operands are within the radius, and only adds points near two operands; Optimize and SolidMux "
        "(Contains, IterContains calls and count) equal the plain join for every grouping order given bounded operands; "
        "StackSolids/StackedSolid are the union translated by the accumulated offsets; the rect-set descent equals the union of "
        "the stored boxes on every well-split tree. The models are tied to /repo by running the real closures on every "
        "permutation of harness-chosen exact operands (and on IEEE doubles) and the real Optimize/SolidMux/StackSolids/RectSet "
        "on lattice scenes, diffing against the specification the theorems prove the model equal to."),
    level_note=(
        "Proved about the models in lean/M3d/Model/SolidAlg.lean and RectSet.lean. Partial: RectSet history invariants and "
        "StackedSolid bounds redundancy are checked per case, not proved; SolidMux.AllContains is tied by correspondence to the "
        "IterContains theorem. Trusted: Lean kernel, propext/Classical.choice/Quot.sound, Go harness + driver, "
        "GroupBounders as a permutation."),
)
