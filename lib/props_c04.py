PROP = dict(
    thorough_seeds=48,
    module="M3d.Props.C04",
    corr=dict(quick=300, thorough=2500),
    gen=["Kernels"],
    tie_modules=["M3d.Lemmas.KernelsTieRectSet"],
    corr_theorems=(
        "bool: joined_eq_any / intersected_eq_all / subtracted_eq / joined_perm / intersected_perm; "
        "sj, sj2: smooth_eq_spec / smoothV2_eq_spec (closure = smoothSpec), smooth_perm / smoothV2_perm, smooth_single, smooth_zero_radius, smooth_far; "
        "sjm, sj2m, sjf, sj2f: validate the faithful closure model (every permutation / IEEE doubles); where the two nearest operands report the same "
        "unit normal and IEEE arithmetic makes the fillet radius NaN (cos = 1.0000000000000002), the sj2f answer is the plain union by "
        "smoothV2_unordered_radius_eq_union (every scalar structure: an unordered radius adds nothing; the driver re-checks it per line), "
        "smoothV2_cos_above_one_eq_union / smoothV2_far_nan (ordered field + NaN: plain union whenever |cos| > 1, and for ANY normals when fewer than "
        "two operands are within the radius) and smoothV2_parallel_eq_union (exact arithmetic: parallel normals give radius 0, the plain union); "
        "sjb, sjb2: smoothSolid_eq_spec / smoothSolidV2_eq_spec (the solid = grown joint bounds and smoothSpec at the point), smoothSolid_perm / "
        "smoothSolidV2_perm (P=1), with smoothSolid_contains_union / _far / _zero_radius / _single / smoothSolidV2_far for the clauses the harness evaluates; "
        "opt: optimize_eq_joined; mux: mux_spec + mux_allcontains_eq; tree: nested_combinators_eq_formula (any nest of Joined / Optimize / SolidMux / "
        "Intersected / Subtracted = the pointwise boolean formula, which is order independent); "
        "stk: stacked_eq_translated_union + stackedSolid_eq_translated_union; "
        "rs: rectset_history_solid_eq_union (after every history: terminates, well split, = union of the stored boxes, = boxes added minus boxes "
        "removed at generic points) with rectset_history_aligned; "
        "rsp: rectset_program_solid_eq_union (every Solid() call of every program over several objects answers for the receiver's set at the time of "
        "the call) + rectset_solid_calls_have_no_effect; tie module KernelsTieRectSet: the regenerated toolbox3d.splitRect and model3d.Rect.Contains "
        "are the model's splitRect / Rect.contains"),
    rule=("bool: ALL bit vectors of length 1..6 x all permutations, 2D and 3D (exhaustive); smooth: operand lists of "
          "length 1..6 with dyadic distances concentrated in [-r,0], radii incl. 0, every permutation evaluated on the real "
          "closure (SmoothJoin and SmoothJoinV2, 2D and 3D) plus IEEE-double runs; IEEE-double operand lists whose two nearest operands share a unit normal "
          "(duplicates, concentric, opposite normals; half of the directions redrawn until the self-dot rounds above 1; half of the lists with fewer than two "
          "operands within the radius) in every operand order, and scenes of the REAL shapes (Sphere/Circle, Rect, Capsule, Cylinder: concentric, the same operand "
          "twice, coaxial, ordinary) whose real SmoothJoinV2 / SmoothJoin solids are asked at 8..15 points of their padded bounds; smooth solids (sjb, sjb2): 1..5 SDF operands with different lattice "
          "bounds and harness-chosen fields positive only inside their bounds and at most minus the distance to the bounds outside them, one solid object per operand order (listed, reversed, two random) asked at "
          "6..12 points inside / in the margin of / on / outside the grown joint bounds, forward and backward; scenes: 1..9 FuncSolid leaves on a small "
          "lattice (duplicates, nested, coincident bounds), queries on box faces/corners, real Optimize/SolidMux "
          "(Contains/AllContains/IterContains with and without callback); trees: random nests (depth <= 3) of JoinedSolid / Optimize / NewSolidMux / "
          "IntersectedSolid / SubtractedSolid over 1..6 leaves, each nest also with every operand list shuffled, 8..14 queries; stacks of 1..5 operands with "
          "inner boxes (queries aimed at the contents); RectSet Add/Remove/AddRectSet/RemoveRectSet histories of lattice boxes incl. the empty set and "
          "zero-thickness boxes, queries on and between split planes; RectSet PROGRAMS over 1..3 live objects (3..12 statements, Solid() after ~60% of them and "
          "for every object at the end, argument objects reused and changed later, self arguments, v = NewRectSet(), boxes between planes already in use), "
          "queries on the solid just obtained and on earlier solids; distinct = distinct operation lines"),
    trusted=[
        "modelled, not verified: GroupBounders is an arbitrary reordering (theorems quantify over every permutation; the real "
        "order is passed to the model and checked to be a permutation on every opt/mux case; tree cases run the model with the identity reordering)",
        "modelled, not verified: RectSet.Add/Remove/AddRectSet/RemoveRectSet/addSplit/rebuildSplits with the Go map as a duplicate-free list - tied by "
        "comparing the stored rects and split lists with the real ones (verif hook) on every rs case and at every Solid() call of every rsp program; "
        "splitRect and Rect.Contains are additionally tied to the regenerated source (KernelsTieRectSet)",
        "rsp heap model: *RectSet objects are values in a store, Solid() reads only, AddRectSet/RemoveRectSet change only the receiver (also when the "
        "argument is the receiver) - read off the code, tied by the R=/S= comparison at every Solid() call; earlier solids are expected to keep answering "
        "for the set they were created from (newRectSetSolid copies every rect)",
        "SmoothJoinV2 order independence is proved for the distances (shared with SmoothJoin); which normals accompany "
        "tied distances is inherently order dependent and excluded by the generator (ties share a normal)",
        "where two or more operands are within the radius and none is positive the property only demands order independence; the V bits of sj/sjb there "
        "compare the exact rounding formula of the closure (validation of the faithful model)",
        "math.Sqrt in SmoothJoinV2 is a function parameter of the model (exact runs use normals with 1-cos^2 in {0,1}; "
        "IEEE runs use Float.sqrt)",
        "IEEE NaN: Lean's Float is opaque, so that a NaN radius is unordered on doubles is not a Lean theorem; the theorems are stated for every scalar "
        "structure with an unordered radius and for the explicit NaN-extension NF K of an ordered field; the driver executes the closure model on Float "
        "(comparisons with NaN false, as in Go) and re-checks 'NaN radius => plain union' on every sj2f line",
    ],
    assumptions=[
        "operands respect their own bounds (Solid contract, property C03) for Optimize / SolidMux / StackSolids / nests; SDF operands of a smooth join "
        "are positive only inside their bounds",
        "no NaN distances or coordinates; finite radius >= 0 in generated cases (the closure theorems hold for every radius); a NaN FILLET radius "
        "(computed from identical normals) is covered: smoothV2_unordered_radius_eq_union, smoothV2_far_nan",
        "operand lists are non-empty (JoinedSolid.Min of an empty list indexes out of range)",
    ],
    level_text=(
        "Theorems (Lean 4, every ordered field / linear order, all operand lists and points): Joined/Intersected/Subtracted = "
        "any/all/and-not and are permutation invariant; Optimize and SolidMux (Contains, IterContains calls and count, AllContains) equal the plain join "
        "for every grouping order given bounded operands, and every NEST of these combinators (with the bounds each one reports to the next) equals the "
        "pointwise boolean formula; the SmoothJoin closure ends with exactly the two largest distances (smooth_top2), hence is permutation invariant, "
        "equals the plain union at radius 0, for one operand and wherever fewer than two operands are within the radius, and only adds points near two "
        "operands - also as a solid with its grown joint bounds, which never cut the union; SmoothJoinV2 adds nothing when its fillet radius is NaN "
        "(identical normals whose self-dot rounds above 1: concentric or duplicated operands) and, in an ordered field with a NaN, equals the plain union for "
        "arbitrary normals wherever fewer than two operands are within the radius; StackSolids/StackedSolid are the union translated by the "
        "accumulated offsets; after every RectSet history the representation invariant holds, newRectSetSolid terminates and the solid is the union of "
        "the stored boxes, and in every program over live RectSet objects every Solid() call answers for the receiver's current set. The models are tied "
        "to /repo by running the real closures on every permutation of harness-chosen exact operands (and on IEEE doubles), the real smooth-join solids at "
        "many points per object, the real SmoothJoinV2 / SmoothJoin solids over the library's own shapes (concentric, duplicated, coaxial, ordinary) "
        "on IEEE doubles, the real Optimize/SolidMux/nests/StackSolids on lattice scenes and the real RectSet objects through histories and "
        "programs with repeated Solid() calls, diffing against the specification the theorems prove the model equal to; splitRect / Rect.Contains are "
        "re-proved equal to the regenerated source on every run."),
    level_note=(
        "Proved about the models in lean/M3d/Model/SolidAlg.lean, SmoothSolid.lean, SmoothNaN.lean, SolidExpr.lean, RectSet.lean, RectSetProg.lean. Trusted: Lean kernel, "
        "propext/Classical.choice/Quot.sound, Go harness + driver, GroupBounders as a permutation, the map-as-list and heap-as-store reading of rect_set.go "
        "(tied per case by the rect/split comparison)."),
)
