PROP = dict(
    module="M3d.Props.C14",
    corr=dict(quick=400, thorough=2500),
    gen=[],
    corr_theorems=(
        "M3d.C14.triangulation_certificate_sound (+ cert_area_redundant, triangulation_cover_partial): the driver "
        "evaluates the proved checker certOk at Rat on the REAL triangle list of every call (kinds ear/mesh/single/face) "
        "and prints what the property requires; profile: profile_volume_eq_area_times_height + "
        "profile_mesh_manifold_partial (Surface.closedManifold_iff) on the real ProfileMesh soup, which must also equal "
        "the model profileSoup of its caps; mono/vtype/splits/earseq compare the faithful models monoTris / vertexType / "
        "sweepSplits / triangulate (monotone_stack_area, sweep_types_turn, ear_clip_area, ear_clip_orientation are about "
        "these) with the real internals exactly"),
    rule=(
        "random simple lattice polygons with dyadic coordinates (den 1..16): convex hulls, star-shaped, polygonal and "
        "rectilinear spirals, rectangular/triangular combs, staircases, 2-opt untangled random polygons (many reflex "
        "vertices), edge-splitting growth, near-degenerate slivers (|orient| = 1 lattice unit), long colinear runs "
        "(subdivided edges), x-monotone polygons; ear: every rotation of the start vertex (sampled above 10 vertices) x "
        "both vertex orders x one random rigid lattice map (rotations by 90 degrees, reflections, translations); "
        "mesh/profile: regions with up to 6 loops, holes and nested islands, several outer loops, documented orientation "
        "(outer clockwise, holes counter-clockwise), random rigid map; single/splits/vtype/mono: the un-rotated "
        "internals on inputs sheared to pairwise distinct x; face: 2-D polygons embedded by exact lattice-affine maps "
        "into axis planes and tilted planes (incl. the 3-4-5 rotation). Distinct = distinct op line (input + returned "
        "triangles)"),
    trusted=[
        "modelled, not verified: floating point. Every decision the Go code takes through clockwiseAngle (atan2/sin) is "
        "modelled as the sign of the exact determinant orient; the tolerances 1e-8 of removeColinearPoints and of the "
        "ear's diagonal test are modelled as exact colinearity / the closed condition X+Y<=1. On the generated dyadic "
        "inputs the two coincide (smallest non-zero |sin| ~1e-6), which the exact earseq/mono/splits/vtype "
        "correspondence confirms; for inputs whose features are below 1e-8 the tolerance removes near-colinear vertices "
        "and the area is then only exact up to that tolerance (by design of the code)",
        "not mechanised: (a) a positively oriented triangle has winding number = indicator of its interior, (b) the "
        "polygonal Jordan theorem for the INPUT boundary, (c) subdivision-additivity of the crossing functional; with "
        "them triangulation_cover_partial + clause 4 of triangulation_certificate_sound give non-overlap/inside/cover "
        "pointwise. Proved instead: the chain-level statement (boundary of the sum of oriented triangles = oriented input "
        "boundary) for every antisymmetric subdivision-additive functional, the area equation, orientation, vertex set",
        "not mechanised: functional correctness of the sweep (its diagonals are non-crossing and inside), of the face "
        "walk, of misalignMesh/mesh hierarchy, and that colinear removal preserves the area (true for polygons without "
        "repeated consecutive points): certified PER RUN by the proved checker on the real output, not for all inputs",
        "monotone_stack_area is about the chain-dictated orientation rawFan; the Go code's fixCW agrees with it when "
        "the triangle is clockwise (fixCW_eq_rawFan); that every fan triangle of a monotone polygon is clockwise is a "
        "geometric fact checked per run (mono correspondence, certificate), not proved",
        "profile_mesh_manifold_partial: ClosedManifold of the ProfileMesh soup is decided per instance by Surface's "
        "proved decider (and the soup is compared with the model profileSoup); the universal counting proof from the "
        "cap certificate is not mechanised; the volume identity IS proved for all certified caps",
        "TriangulateFace: the projection uses Normalize (sqrt), so its chart is not executed exactly; the certificate is "
        "evaluated in the exact chart obtained by dropping a coordinate, justified by orient_affine",
        "input validity (simple, properly nested, oriented) is decided by untrusted code in the driver (simpleLoop / "
        "validRegion) and in the harness (isSimple); a generator bug would show as 'invalid-input' disagreements",
    ],
    assumptions=[
        "inputs are strictly simple polygons / regions bounded by pairwise disjoint simple loops with the documented "
        "orientation (normals out of the solid), planar faces; holes touching the outer boundary are out of scope",
        "known finding (left in the code): TriangulateMesh returns zero-area triangles for exactly colinear boundary "
        "vertices (site corr:c14 mesh/zero-area-triangle-on-colinear-boundary); on those outputs the checker still "
        "verifies everything else (edgesOkG false)",
    ],
    level_text=(
        "Machine-checked (Lean 4, all linear ordered fields): ear clipping with ANY choice of ears preserves the "
        "shoelace area, emits n-2 triangles on input vertices (shoelace_fan, ear_clip_area), the ear test only accepts "
        "ears oriented like the polygon (ear_clip_orientation), diagonals added in both directions cancel for any "
        "decomposition into closed walks (diagonals_cancel), the stack algorithm's triangles sum to the monotone "
        "polygon's area with n-2 triangles and empty final stack (monotone_stack_area), the sweep classification is the "
        "textbook start/split/end/merge/chain by turn direction (sweep_types_turn/exhaustive), ProfileMesh's volume is "
        "area x height for every certified cap triangulation (profile_volume_eq_area_times_height), and the certificate "
        "checker is sound (triangulation_certificate_sound: input vertices only, documented orientation, glued along "
        "interior edges with boundary exactly the input boundary incl. T-junction refinement, chain-level boundary "
        "equation, exact area). Tie: the checker is executed at Rat, with no tolerance, on the real outputs of "
        "Triangulate / TriangulateMesh / triangulateSingleMesh / TriangulateFace / ProfileMesh for generated inputs; "
        "the models of Triangulate, the stack algorithm, VertexType and the sweep's helper bookkeeping are compared "
        "with the real internals exactly."),
    level_note=(
        "Universal for the algebraic/combinatorial cores and the checker; the statement 'the real code's output passes "
        "the checker' is established per generated instance (the sweep's geometric correctness is not proved). The "
        "pointwise non-overlap/cover conclusion rests on three standard geometric lemmas that are not mechanised "
        "(triangle winding number, polygonal Jordan theorem, crossing subdivision). One known finding (zero-area "
        "triangles from TriangulateMesh on exactly colinear boundary vertices) is left in the code."),
)
