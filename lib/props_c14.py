PROP = dict(
    unclaimed=True,
    module="M3d.Props.C14",
    corr=dict(quick=120, thorough=700),
    gen=[],
    corr_theorems="(being built)",
    rule="(being built)",
    trusted=[],
    assumptions=[],
    level_text="(being built)",
    level_note="(being built)",
)
