PROP = dict(
    module="M3d.Props.C14",
    corr=dict(quick=400, thorough=2500),
    gen=["Kernels"],
    tie_modules=["M3d.Lemmas.KernelsTieTriangulate"],
    corr_theorems=(
        "M3d.C14.triangulation_certificate_sound (+ cert_area_redundant, triangulation_winding_sum, "
        "triangle_winding_indicator, triangulation_cover_partial): the driver "
        "evaluates the proved checker certOk at Rat on the REAL triangle list of every call (kinds ear/mesh/single/face/off) "
        "and prints what the property requires; for op lines with a dyadic unit of length `S k` (the Go code was given "
        "2^k times the written coordinates) the checker is run on the written coordinates and the verdict transferred by "
        "M3d.C14.cert_scale_invariant (certOk/edgesOkG invariant under scaling, areas scale by k^2; "
        "cert_similarity_invariant: under every rotation+scaling+translation), the printed area is computed on the "
        "scaled coordinates; for op lines with a far placement `O ox oy` (the Go code was given 2^k·(p + (ox,oy)), exact "
        "in float64) the checker is likewise run on the written points and the verdict, the orientation flag and the "
        "area transferred by M3d.C14.cert_placement_invariant (certOk/edgesOkG/isClockwise invariant under "
        "translate-then-scale, shoelace areas independent of the translation); "
        "inputs scaled by a non-dyadic factor are carried exactly (big integers over 2^m) and "
        "checked directly; profile: profile_volume_eq_area_times_height + "
        "profile_mesh_edge_manifold + profile_mesh_manifold_partial (Surface.closedManifold_iff) on the real ProfileMesh soup, which must also equal "
        "the model profileSoup of its caps, every vertex at exactly minZ or maxZ (profile_vertices_on_caps; the two "
        "float64 arguments are carried exactly, `ZQ`); mono/vtype/splits/earseq compare the faithful models monoTris / vertexType / "
        "sweepSplits / triangulate (monotone_stack_area, sweep_types_turn, ear_clip_area, ear_clip_orientation, "
        "triangulate_translation_equivariant are about these) with the real internals exactly, also far from the origin; "
        "tie module M3d.Lemmas.KernelsTieTriangulate (blocks_tie, projectFace_tie, lift_tie) re-proves against the "
        "regenerated Matrix2.Inverse/MulColumn/Det, Coord.Sub, Coord3D.Dot/Sub, XYZ that the models compute the same"),
    rule=(
        "random simple lattice polygons with dyadic coordinates (den 1..16): convex hulls, star-shaped, polygonal and "
        "rectilinear spirals, rectangular/triangular combs, staircases, 2-opt untangled random polygons (many reflex "
        "vertices), edge-splitting growth, near-degenerate slivers (|orient| = 1 lattice unit), long colinear runs "
        "(subdivided edges), x-monotone polygons, random quadrilaterals and pentagons (convex and concave; a "
        "quarter of the face/off cases) and explicit darts (narrow and wide arrow heads); ear: every rotation of the start vertex (sampled above 10 vertices) x "
        "both vertex orders x one random rigid lattice map (rotations by 90 degrees and by the Pythagorean angles "
        "(3,4,5), (5,12,13) composed with the scaling the lattice absorbs, reflections, translations); "
        "mesh/profile: regions with up to 6 loops, holes and nested islands, several outer loops, documented orientation "
        "(outer clockwise, holes counter-clockwise), random rigid map; single/splits/vtype/mono: the un-rotated "
        "internals on inputs sheared to pairwise distinct x; face: 2-D polygons embedded by exact lattice-affine maps "
        "into axis planes and tilted planes (incl. the 3-4-5 rotation), a quarter of them written as a one-face OFF "
        "file and read back through ReadOFF (kind off). UNIT OF LENGTH: every ear polygon is triangulated at unit "
        "scale and again in another unit, half of the mesh/face/profile cases and a third to a half of the "
        "single/mono/vtype/splits/earseq cases are placed in another unit: 2^k, k in [-30,30] (exact in float64, "
        "all families incl. colinear runs; small units twice as often as large ones), or a non-dyadic factor "
        "(1e-4 1e-5 1e3 1e-3 1e-6 3e-5 0.1 1e5 7 1/3 2.5e-7; ear/mesh/profile and axis-parallel faces only): "
        "the product is rounded, so these inputs are first put in general position (lattice x256, every vertex "
        "jittered by up to 8, re-validated, every triple of vertices with |sin| > 1e-6 at each corner, far above "
        "removeColinearPoints' documented 1e-8) and the op line carries the rounded float64 coordinates exactly. "
        "Half of the non-dyadic placements are additionally rotated by an arbitrary float64 angle before the factor "
        "is applied (rounded coordinates carried exactly). "
        "RIGID PLACEMENT FAR FROM THE ORIGIN: every ear polygon is triangulated a third time translated by a "
        "whole-number vector with |ox|,|oy| ~ 2^31..2^44 (offset/size 1e7..1e12; random mantissas and signs, round "
        "values such as 3e9, one component only one time in six; a quarter also in a dyadic unit), a third of the "
        "earseq and face/off cases (3-D offsets), a quarter of mesh/profile and two ninths of "
        "single/mono/vtype/splits (2^31..2^36 there, because misalignMesh rotates absolute coordinates); all sums "
        "are exact in float64 (re-verified per coordinate with big.Rat), so the input is exactly the translated "
        "polygon. PROFILE Z RANGE: a third lattice values, a third decimals as typed (-0.7, 0.1, -12.5), a third "
        "arbitrary float64 with full mantissas, half of the latter two mirrored to lie mostly below zero (more than "
        "a third of all ranges have minZ+(maxZ-minZ) != maxZ in float64); the two arguments are carried exactly. "
        "Distinct = distinct op line (input + returned triangles)"),
    trusted=[
        "modelled, not verified: floating point. Every decision the Go code takes through clockwiseAngle (atan2/sin) is "
        "modelled as the sign of the exact determinant orient; the tolerances 1e-8 of removeColinearPoints and of the "
        "ear's diagonal test are modelled as exact colinearity / the closed condition X+Y<=1. On the generated dyadic "
        "inputs the two coincide (smallest non-zero |sin| ~1e-6; angles are dimensionless, so this holds at every "
        "unit of length, which the scaled cases check), which the exact earseq/mono/splits/vtype "
        "correspondence confirms; for inputs with nearly-colinear-but-not-colinear vertices (|sin| <= 1e-8) the "
        "tolerance removes them and the area is then only exact up to that tolerance (by design of the code): such "
        "inputs are not generated (dyadic scaling preserves angles exactly; non-dyadic scaling is applied to inputs "
        "in certified general position only)",
        "far placements: the translated coordinates are exact float64 values and Triangulate / TriangulateFace / the "
        "stack algorithm only look at coordinate differences (exact), so every offset is a legitimate input there; "
        "TriangulateMesh (and ProfileMesh through it) first rotates the ABSOLUTE coordinates (misalignMesh), which "
        "rounds them to ~offset*2^-53: offsets for mesh/profile/single/mono/vtype/splits are limited to 2^36 "
        "and, per region, to 2^b with 64*2^(b-52) <= the region's clearance (smallest distance between a vertex and "
        "an edge it is not an end point of); larger offsets are not exercised for these kinds",
        "not mechanised: the polygonal Jordan theorem for the INPUT boundary (a simple, correctly oriented region "
        "boundary has winding number -1 at interior points, 0 outside). Everything about the OUTPUT is proved: "
        "triangulation_cover_partial shows that every point off the triangle edges is contained in exactly "
        "|winding number of the input boundary| triangles (triangle winding number = indicator of its interior: "
        "triangle_winding_indicator; T-junction refinement: triangulation_winding_sum via crossing_segAdditive), so "
        "non-overlap / inside / cover hold pointwise relative to the region defined by the boundary's winding number",
        "not mechanised: functional correctness of the sweep (its diagonals are non-crossing and inside), of the face "
        "walk, of misalignMesh/mesh hierarchy, and that colinear removal preserves the area (true for polygons without "
        "repeated consecutive points): certified PER RUN by the proved checker on the real output, not for all inputs",
        "monotone_stack_area is about the chain-dictated orientation rawFan; the Go code's fixCW agrees with it when "
        "the triangle is clockwise (fixCW_eq_rawFan); that every fan triangle of a monotone polygon is clockwise is a "
        "geometric fact checked per run (mono correspondence, certificate), not proved",
        "profile_mesh_manifold_partial: ClosedManifold of the ProfileMesh soup is decided per instance by Surface's "
        "proved decider (and the soup is compared with the model profileSoup). Universal from the cap certificate "
        "(profile_mesh_edge_manifold): the soup is closed, consistently oriented and edge-manifold (EdgeBalanced) "
        "without degenerate faces, and the volume identity; NOT universal: FanConnected (no pinched vertex), which "
        "does not follow from the combinatorial gluing conditions alone and needs the geometric part of the "
        "certificate (not mechanised)",
        "TriangulateFace: the projection uses Normalize (sqrt), so its chart is not executed exactly; the certificate is "
        "evaluated in the exact chart obtained by dropping a coordinate, justified by orient_affine",
        "input validity (simple, properly nested, oriented) is decided by untrusted code in the driver (simpleLoop / "
        "validRegion) and in the harness (isSimple); a generator bug would show as 'invalid-input' disagreements",
    ],
    assumptions=[
        "inputs are strictly simple polygons / regions bounded by pairwise disjoint simple loops with the documented "
        "orientation (normals out of the solid), planar faces; holes touching the outer boundary are out of scope",
        "known finding (left in the code): TriangulateMesh returns zero-area triangles for exactly colinear boundary "
        "vertices (site corr:c14 mesh/zero-area-triangle-on-colinear-boundary); on those outputs the checker still "
        "verifies everything else (edgesOkG false)",
    ],
    level_text=(
        "Machine-checked (Lean 4, all linear ordered fields): the certificate is invariant under every similarity "
        "(rotation, translation, change of the unit of length: cert_similarity_invariant, cert_scale_invariant, "
        "cert_placement_invariant), every "
        "point off the triangle edges lies in exactly |winding number of the boundary| triangles "
        "(triangulation_cover_partial, triangle_winding_indicator, triangulation_winding_sum); ear clipping with ANY choice of ears preserves the "
        "shoelace area, emits n-2 triangles on input vertices (shoelace_fan, ear_clip_area), the ear test only accepts "
        "ears oriented like the polygon (ear_clip_orientation), diagonals added in both directions cancel for any "
        "decomposition into closed walks (diagonals_cancel), the stack algorithm's triangles sum to the monotone "
        "polygon's area with n-2 triangles and empty final stack (monotone_stack_area), the sweep classification is the "
        "textbook start/split/end/merge/chain by turn direction (sweep_types_turn/exhaustive), ProfileMesh's volume is "
        "area x height and its soup is closed, consistently oriented and edge-manifold for every certified cap "
        "triangulation (profile_volume_eq_area_times_height, profile_mesh_edge_manifold), and the certificate "
        "checker is sound (triangulation_certificate_sound: input vertices only, documented orientation, glued along "
        "interior edges with boundary exactly the input boundary incl. T-junction refinement, chain-level boundary "
        "equation, exact area). Tie: the checker is executed at Rat, with no tolerance, on the real outputs of "
        "Triangulate / TriangulateMesh / triangulateSingleMesh / TriangulateFace / ReadOFF / ProfileMesh for generated "
        "inputs at unit scale, in units from 2^-30 to 2^30 and non-dyadic factors (1e-6 .. 1e5), and translated up to "
        "1e12 times their size away from the origin (cert_placement_invariant; the faithful model of Triangulate "
        "commutes with translation: triangulate_translation_equivariant), ProfileMesh over arbitrary float64 "
        "Z ranges (profile_vertices_on_caps); the arithmetic kernels of the ear test, of TriangulateFace's chart and of "
        "ProfileMesh's corners are regenerated from the source and proved equal to the model's (KernelsTieTriangulate); "
        "the models of Triangulate, the stack algorithm, VertexType and the sweep's helper bookkeeping are compared "
        "with the real internals exactly."),
    level_note=(
        "Universal for the algebraic/combinatorial cores and the checker; the statement 'the real code's output passes "
        "the checker' is established per generated instance (the sweep's geometric correctness is not proved). The "
        "pointwise non-overlap/cover conclusion is proved relative to the winding number of the input boundary; that "
        "this winding number is the indicator of the region (polygonal Jordan theorem, a fact about the input) is not "
        "mechanised. One known finding (zero-area "
        "triangles from TriangulateMesh on exactly colinear boundary vertices) is left in the code."),
)
