PROP = dict(
    thorough_seeds=48,
    module="M3d.Props.C05",
    corr=dict(quick=150, thorough=1000),
    gen=["Kernels"],
    tie_modules=["M3d.Lemmas.KernelsTieTransform", "M3d.Lemmas.KernelsTieSqueeze", "M3d.Lemmas.KernelsTieSqueezeApply"],
    corr_theorems=(
        "faithful kinds (apply bounds invdesc appdist solidr inner outer nilcb sphin cbounds vmball mat* 'pinch apply/invdesc') compare the "
        "model of each Go method with the method; property kinds print the right-hand sides of M3d.C05.inverse_apply/apply_inverse "
        "(roundtrip), apply_bounds_encloses (encl), apply_distance_exact (dist), transform_solid_conj (solid), transform_sdf_conj (sdf), "
        "transform_metaball_conj (mball), transform_collider_conj + transform_collider_hits + transform_collider_first (coll, first), "
        "transform_collider_sphere (sphc), matrix3_inverse_mul/matrix2_inverse_mul (invmul), and refuse (MODEL-NE-SPEC) if the model "
        "evaluated on a table stub of the wrapped object does not give that value; bits.* kinds compare the Float run of the same model "
        "bit for bit with the Go methods on arbitrary doubles (rotations by angle included: rotation3_orthogonal / rotation2_orthogonal "
        "discharge the ortho hypotheses); smart / meshxf3 compare the models of SmartSqueeze.Transform and of the MarchingCubesConj vertex map "
        "(smart_squeeze_pieces / smart_squeeze_slope / smart_squeeze_rigid say what those pieces do); nest.* kinds (wrappers nested 2-4 deep, "
        "op token 'N k t1..tk', t1 innermost): the driver folds the model's wrapper over the list and prints the right-hand side of the "
        "single-wrap theorem for JoinedTransform{t1..tk}, justified by M3d.C05.nested_solid / nested_solid_conj / nested_sdf_metaball / "
        "nested_collider / nested_collider_conj (+ nested_solid_sdf_metaball_2d, nested_collider_2d): the nested wrapper equals the wrapper "
        "of the join in application order; prop:c05/nested_collider_hit_points and prop:c05/nested_collider_bounds evaluate the conjugacy "
        "directly on the real outputs (hit points are the images of the inner hit points under t1;..;tk applied one by one); "
        "hist3 / hist2 kinds (one case = one HISTORY of a transform object: 'inv i' = objs[i].Inverse(), 'mut i path edit' = in-place edit "
        "(field stores, Matrix.Scale, *Matrix = m, Matrix.InvertInPlace, Matrix = &m, j[k] = x, append, swap), 'snap i' = wrappers built and "
        "kept, 'o kind ...' = any single-object kind on '@i' (the object as it is now) or '%w' (kept wrappers)): the driver runs the value "
        "semantics M3d.Tf.HStep.run (every object has a current value; inv appends Xf.inverse of the CURRENT value; an edit changes the "
        "edited object only) and answers the 'o' steps with the right-hand sides listed above for that current value; justified by "
        "M3d.C05.inverse_fresh (Inverse() on the heap: appends cells only, result = inverse of what the receiver denotes now, read from "
        "appended cells only), inverse_not_aliased (edits of the result never reach older objects and vice versa), inverse_after_history "
        "(after ANY heap history - in-place stores into any object, allocations, Inverse() calls - Inverse() of object i is the inverse of "
        "its current value and changes no existing object), history_edits_are_local, history_value_semantics + history_roundtrip (the heap "
        "run of every history of Inverse() calls / wrapper constructions / flat edits represents exactly the state the value semantics "
        "computes, and Inverse() now undoes the object as it is now in both orders), and their _2d twins; "
        "prop:c05/history_marching_cubes_conj evaluates MarchingCubesConj after an in-place edit against a fresh transform with the same matrix; "
        "scene3 / scene2 kinds (one case = a SCENE GRAPH 'X t (G|C n members)' whose members are probes, transformed probes, transformed groups: "
        "TransformCollider round a multi-member collider - the harness' own group type G or the real NewJoinedCollider C - round transformed "
        "colliders; modes cb / nil / first / re (the RayCollisions callback casts a secondary ray at the same scene on every collision) / sph / "
        "bounds): the driver answers with the collider VALUE built from M3d.Tf.groupCollider and transformCollider, justified by "
        "M3d.C05.transform_group_distrib (a transform round a group = the group of the transformed members: collisions, count, first collision, "
        "sphere - any transform, any members; with nested_collider every leaf of a scene answers as ONE wrapper of the join of the transforms on "
        "its path), scene_two_level (the collisions of TransformCollider(t1, group{TransformCollider(t2, a), b}) spelled out: b is asked about "
        "the ray pulled back through t1 alone), scene_pointer_semantics (the pointer-level program Scene.run - colliders are handed the ADDRESS "
        "of a Ray in the store of all Ray objects, innerRay allocates, a group passes its address to each member in turn, the callback may do "
        "anything that only allocates - leaves every existing Ray untouched and reports exactly the collisions of the value), scene_shadow_rays "
        "(a callback casting secondary rays at a scene is such a callback) and the _2d twins; the ray modes also run Scene.run in the driver and "
        "refuse (MODEL-NE-SPEC) unless it agrees with the value; sphin / nest.sphin: when the wrapper answers a sphere query without asking "
        "the wrapped collider, the case is reported ('not-asked') unless every collider with the stub's bounds would have led to that answer "
        "(the pulled-back sphere does not reach the bounds and the answer is no collision): transform_collider_sphere"
    ),
    rule=(
        "exact mode: every case is a line of small dyadic rationals; transforms are random primitives or (nested) joins of 0-4 of "
        "Translate (integer/dyadic), Scale ±2^k, VecScale with signed 2^k components, Matrix transforms with det ±1 or ±2^k (products of signed "
        "permutations, integer shears, power-of-two axis scalings), orthogonal transforms given by signed permutation matrices (via the verif "
        "hook), AxisSqueeze with power-of-two ratios; wrapped objects are real Rect/Sphere/Triangle (2D: Rect/Circle/Segment) values and a "
        "recording stub collider; rays are aimed at the collider with non-unit directions; all Go float operations on these inputs are exact, "
        "outputs must be equal as rationals. One DistTransform in three is a 3-6 member join containing a reflection (negative uniform scale), a translation and an orthogonal matrix, possibly nested. bits mode: arbitrary doubles, real Rotation(axis,theta)/Rotation(theta) members, Go's own cos/sin/pow values passed to the Float model, results equal as IEEE bit patterns (-0 as +0). SmartSqueeze: overlapping, inverted, empty unsqueezable ranges and pinches. distinct = distinct operation lines; the #stat counters record kinds, negative scales, join "
        "lengths, hit counts per collider kind. nested: TransformSolid/SDF/Metaball/Collider wrapped 2-4 times (2-D and 3-D) with members "
        "that always contain a non-zero translation and a non-trivial linear member (scale != +-1, non-identity signed permutation / quarter "
        "turn, reflecting join; for solids also per-axis scale, integer matrix, squeeze), shuffled, total scale shift <= 14 bits so that all "
        "float64 operations stay exact; textbook cases translate/scale and translate/quarter-turn in both orders; #stat nestN.non-commuting "
        "counts instances whose members do not commute at a probe point. small-scale matrices: integer matrices x 2^-k (k=14..30, |det| < 1e-12) "
        "in exact mode through mat3/mat2 inv/invmul/mulcolinv, roundtrip, invdesc, solid, solidr, encl, nested solids; rotation x shear x "
        "1e-5..1e-9 in bits mode through finvdesc, fapply, fsolidr. histories (hist3/hist2, 180 per dimension and run at quick): "
        "5 scripted scenarios on a Matrix transform, each with its own site (used then Matrix.Scale'd / overwritten / inverted in place and "
        "used again; a frame loop overwriting *Matrix; the matrix of a RETURNED inverse edited, then the source used again; wrappers kept "
        "while a returned inverse is edited; a matrix inside a JoinedTransform) and random histories of 3-9 steps over up to 6 objects "
        "(the start object is a matrix transform, a join containing matrix transforms, a reflecting DistTransform join or any transform; "
        "steps: observation 35%, in-place edit 25% (half of them aimed at a matrix), Inverse() 15%, snap 10%, query of kept wrappers 15%); "
        "kept wrappers are only queried while their object has not been edited since they were built (the library does not say what a "
        "wrapper built earlier does after such an edit); #stat histN.pattern.use-edit-use / edit-returned-inverse-then-use-source count the "
        "histories that contain the two critical patterns (87 and 26 of 180 at seed 2), histN.step.* the step kinds. sphere queries (sphc / nest.sphc): half of the query spheres have their centre OUTSIDE the "
        "collider's bounding box at a distance d = 2^-3..2^2 from a face (sometimes off two faces) with radius d/2..4d - spheres that just "
        "miss, just reach and overlap the box from outside - under enlarging, shrinking and rigid transforms (#stat sphcN.outside.<enlarging|"
        "shrinking|same-scale>.<missing-box|reaching-box|reaching-box.mixed-units-would-miss>: the last class is where comparing a distance "
        "measured in one space with a radius measured in the other gives the wrong answer; 39 / 36 / 61 / 48 cases at seed 1). AxisPinch: one "
        "case in three puts the points at t = ±4^-k from the centre of the pinched range (k = 1..11 for any range, up to 120 for a range centred "
        "at 0; bits mode: centre ± [0.5,1)·2^-e·half, e = 1..48), where the power law is singular: apply, roundtrip in both orders, bounds, "
        "TransformSolid(pinch, box) (#stat pinch.near-centre.*). scene graphs (sceneN, 150+4 per dimension at quick): X t (group of 2-4 members: "
        "probe 40%, transformed probe 35%, transformed group 20%, group 5%, depth <= 3, group type G or real JoinedCollider at random), at most "
        "10 binary digits of scaling on a root-to-leaf path so every float64 operation is exact; probes report 0-2 collisions whose parameter "
        "has a·origin + b·direction of the ray they are HANDED added (integer a, b), so a probe shown the wrong ray is visible in its "
        "parameters; three scenes in four have a transformed member that is followed by another member (#stat sceneN.moved-member-before-"
        "sibling.1: 142 / 149 of 154 at seed 1); the textbook scene T(5,0,0){T(1,0,0) probe, probe} in both member orders and both group types "
        "comes first (smallest replay)"
    ),
    trusted=[
        "regenerated, not hand-written: lean/M3d/Gen/Kernels.lean (Go->Lean translator harness/hlib/go2lean, run on the current "
        "source on every check); M3d.KernelsTie.Transform.* re-prove against it that Apply/ApplyBounds/ApplyDistance of Translate, "
        "Scale, VecScale, Matrix3Transform and the ortho wrapper (3-D) and of model2d's Translate, Scale, VecScale, Matrix2Transform and ortho "
        "wrapper (2-D, against Xf2), the Coord3D/Coord vector operations (Add Sub Scale Mul Recip Min Max Abs Dot Normalize MaxCoord), "
        "the Matrix3/Matrix2 algebra (Det, Inverse, MulColumn, MulColumnInv, Mul, Transpose, NewMatrix3Columns), Coord3D.OrthoBasis and "
        "NewMatrix3Rotation / NewMatrix2Rotation (math.Sqrt and math.Cos/Sin uninterpreted) are the clauses of Xf/Xf2 apply/applyBounds/"
        "applyDistance, M3/M2, orthoBasis, rotation3, M2.rotation that the C05 theorems are about; Matrix3Transform/Matrix2Transform.ApplyBounds "
        "(a loop) and the wrappers themselves are tied by the correspondence only; the translator is validated by execution against the real "
        "functions (C06 kind gk)",
        "modelled, not verified: float64 arithmetic as exact field arithmetic (the theorems are exact identities; rounding error of Apply∘Inverse is not bounded)",
        "math.Sqrt is a parameter sqrtF of the model (hypothesis: sqrtF(x)^2 = x for x > 0; Float.sqrt in bits mode); math.Pow in AxisPinch is a parameter powF (hypotheses: monotone, pow 0 = 0, pow 1 = 1, pow(pow(x,p),1/p) = x), tied exactly for Power in {2, 1/2, 1} and bit-for-bit with Go's pow values for a sweep of powers",
        "wrapped Solid/SDF/Collider/Metaball are arbitrary functions (parameters of the model); their own correctness is C03/C06/C07",
        "math.Cos/math.Sin are inputs (c, s) of the rotation model under the hypothesis c^2+s^2 = 1 (true of real cos/sin, only approximately of the doubles)",
        "SmartSqueeze.Transform: termination, validity, monotonicity, inverse, the shape of the pieces (ascending, inside the bounds, disjoint from every unsqueezable/pinch range, covering everything else) and the piecewise-linear action (slope = ratio on squeezed intervals, 1 elsewhere) are proved about the model, which the 'smart' kind ties to the code member by member; pinches inside it are AxisPinch members (math.Pow a parameter); prop:c05/smart_squeeze_piecewise_linear re-checks the slopes on the real code; the meshing inside MarchingCubesConj is not modelled (C01/C02), its solid and vertex map are; prop:c05/marching_cubes_conj checks the glue",
        "histories: the heap semantics (M3d/Model/TransformHist.lean: cells, addresses, allocation in Inverse()) is a model of Go's "
        "pointers/slices (a slice is one cell holding the member addresses; append is a store); it is tied to the code by the hist3/hist2 "
        "correspondence through the value semantics it is proved equal to; the simulation theorem covers flat edits (struct fields, the matrix "
        "behind a Matrix transform), slice stores are covered by the general heap theorems (inverse_after_history, history_edits_are_local) only; "
        "mutable state the library documents as such: the exported fields Offset/Scale/Matrix/Min/Max/Ratio, the in-place mutators of "
        "Matrix2/Matrix3 and slice elements of JoinedTransform; the result of Rotation() has no state a caller can reach and is treated as "
        "immutable; what a wrapper or an Inverse() result obtained EARLIER does after its source is edited is not specified by the property "
        "and not checked (transformedCollider keeps the live transform next to a snapshot of the inverse)",
        "regenerated toolbox3d.AxisSqueeze.Apply/ApplyBounds = Xf.squeezeApply (the squeeze clause of Xf.apply / applyBounds) and "
        "toolbox3d.AxisPinch.Apply/ApplyBounds = Pinch.apply / Pinch.applyBounds with powF t = math.Pow(t, Power) uninterpreted, for each of "
        "the three axes (M3d.KernelsTie.SqueezeApply.squeeze_apply, squeeze_bounds, pinch_apply, pinch_bounds)",
        "regenerated SmartSqueeze.checkSqueezed = the model's scanRanges (M3d.KernelsTie.Squeeze.checkSqueezed_eq) under the hypothesis that "
        "every range start is below HasInf.posInf; Matrix2Transform/Matrix3Transform.ApplyBounds = matrixBounds (matrix_bounds, matrix_bounds2)",
        "scene graphs: the store of Ray objects (M3d/Model/TransformScene.lean: a list of cells, &Ray{} = append) is a model of Go's "
        "allocation; probes and the callback read rays but never write them (Go's convention for a *Ray argument; a wrapped collider that "
        "writes into the ray it is handed is outside the theorem and outside the generator); JoinedCollider's own bounds gate is not modelled "
        "(C07): the generated probe bounds contain every ray origin and sphere centre, so the gate passes; goroutine-concurrent queries are "
        "not modelled or generated (single-threaded histories only)",
        "nested colliders: nested_collider assumes the wrapped collider reports normals whose squared length is a perfect square (unit normals) and sqrtF exact on perfect squares (true of the driver's sqrtQ and of the real square root); normals of other lengths are renormalised at every level by the code and by the model alike (faithful kinds nest.outer)",
    ],
    assumptions=[
        "scale factors non-zero, determinants non-zero, squeeze Min<=Max and Ratio>0 (the library's own Inverse divides by them)",
        "no NaN/Inf coordinates",
    ],
    level_text=(
        "Machine-checked (Lean 4, every linear ordered field): Inverse∘Apply = Apply∘Inverse = id for Translate/Scale/VecScale/Matrix/ortho/"
        "AxisSqueeze and all nested joins (joined inverse = reversed inverses), Matrix2/3 Inverse is a two-sided inverse, ApplyBounds encloses the "
        "image of every point of the box (negative scales, matrix hull of corner images, squeeze monotone) and stays ordered, ApplyDistance is the "
        "exact change of distance for DistTransforms, TransformSolid is exactly the image (membership conjugacy), TransformSDF scales by the "
        "positive factor, TransformMetaball/VecScaleMetaball conjugacy and bound, TransformCollider: inner ray = (t^-1 o, L^-1 d), every ray "
        "point corresponds with the same parameter, hits = inner hits with same parameter/count/Extra and unit normal = normalised L n = "
        "factor^2 L^-T n, nil callback safe, SphereCollision conjugacy. Wrappers applied to wrappers (any depth) equal ONE wrapper of "
        "JoinedTransform{t1..tn} in application order - solids (any invertible members), SDFs, metaballs, colliders (DistTransform members) - in "
        "2-D and 3-D, so all of the above holds for nested instances with the composite transform. Histories of one mutable transform "
        "object: on the heap model of the Go pointers Inverse() only allocates, returns the inverse of the receiver AS IT IS NOW in cells "
        "of its own, and edits reach only the object they are addressed to - after every history (2-D and 3-D), so every law above holds "
        "at every moment of an object's life, tied by running whole histories on the real code. Scene graphs: a transform round a multi-member collider is the multi-member collider of the "
        "transformed members, and the pointer-level program (shared *Ray among members, allocation in innerRay, re-entrant secondary queries "
        "from the callback) reports exactly the collisions of the collider value, so the single-wrapper laws hold leaf by leaf in every scene. "
        "SmartSqueeze.Transform terminates, "
        "squeezes exactly the material outside the unsqueezable ranges and acts with slope ratio / 1. The model is tied to /repo on every run by "
        "regenerated definitions (63 + checkSqueezed + 10 AxisSqueeze/AxisPinch tie theorems) and exact-mode correspondence "
        "with the real Go code on all these methods in 2D and 3D and by bit-exact Float runs on arbitrary doubles (rotations, pinch powers)."
    ),
    level_note=(
        "Proved about lean/M3d/Model/{Transform,Transform2,TransformNest,SmartSqueeze,TransformHist,TransformHist2,TransformScene,TransformScene2}.lean; exactness over fields, not floats (rounding error is not bounded; "
        "the bits mode shows the model performs the same float operations). cos/sin/pow are inputs under algebraic hypotheses. Meshing itself is C01/C02."
    ),
)
