PROP = dict(
    module="M3d.Props.C12",
    gen=["McTable", "C2FMargin", "RastMargin", "Kernels"],
    tie_modules=["M3d.Lemmas.C2FMarginTie", "M3d.Lemmas.RastMarginTie", "M3d.Lemmas.KernelsTiePartition"],
    corr=dict(quick=600, thorough=1500),
    corr_theorems=(
        "mc/ms kinds: M3d.C12.mesh_indep_of_workers_and_filter, ms_mesh_indep_of_workers_and_filter, "
        "mc_scan_mesh_indep_of_procs (the driver answers with the plain mcMesh/msMesh of the labelling, which these "
        "theorems prove equal - as face multisets - to the filter/worker/slab models for every schedule and conservative filter); "
        "dc kind: dc_windows_each_edge_once, dc_mesh_indep_of_bufsize, dc_shift_preserves_overlap; "
        "rast kind: tiles_partition_pixels, tile_fill_eq_render, raster_indep_of_filter, raster_samples_in_tile, raster_rect_filter_indep; "
        "same rastcollider: collider_filter_conservative, raster_collider_indep_of_filter (the tile filter c.CircleCollision(center, MinVal.Dist(center)+margin) is conservative for "
        "the hollow solid of radius e whenever margin >= e >= 0, every scale/line width/geometry) together with the tie module M3d.Lemmas.RastMarginTie "
        "(rc_filter_radius_covers, raster_collider_code_margin: halfDiag + hollow radius <= filter radius for the two expressions REGENERATED from RasterizeCollider, "
        "Gen/RastMargin.lean, for every scale > 0); same rastcollidersolid: rcs_filter_radius_covers (the circle contains the tile; uniformity of the even-odd solid is not proved); "
        "same mcsearch/mssearch: search_commutes_with_filter, ms_search_commutes_with_filter on top of mesh_indep_of_workers_and_filter; "
        "same dcrepair: dc_repair_indep_of_enumeration (repair steps applied in a sorted order do not depend on the map enumeration order) on top of dc_mesh_indep_of_bufsize; "
        "msc2f/mcc2f kinds (coarse-to-fine on tapered solids): the driver evaluates M3d.C2F.seenAll2/3 with reach R = m (one coarse cell) on the two "
        "labellings and, when it holds, answers with the plain fine mesh: c2f_ms_sound / c2f_mc_sound (filter rejects only blocks without sign change when "
        "margin >= (R+m)*smallDelta = 2*bigDelta; via c2f_ms_mesh_eq / c2f_mc_mesh_eq, c2f_cover, coarse_mixed_cell_has_vertex2/3, c2f_search_stays_on_edge) "
        "together with the tie module M3d.Lemmas.C2FMarginTie (ms/mc_margin_ge_two_coarse, c2f_ms/mc_sound_code_margin: 2*bigDelta <= the margin expression "
        "REGENERATED from MarchingSquaresC2F/MarchingCubesC2F, Gen/C2FMargin.lean); "
        "split/pieces/scan/dcwin kinds validate the faithful models (split_partitions, pieces_partition, "
        "scan_visits_each_layer_once, dcRun) against the real mcBlock/msBlock/squareSpacer/dcCubeLayout through hooks"
    ),
    rule=(
        "one case per (solid, setting): solids are dyadic voxel solids (checkerboard/sparse/dense/single/full/empty/blob, voxel = 1..4 lattice steps), "
        "dyadic balls/discs and unions/differences, sampled by the harness on the same lattice the library builds; sizes from 2 to ~90 points per axis, "
        "elongated slabs, and lattices of > 300k cells (divideVolume = Volume/4096 > 64); settings: GOMAXPROCS in {1,2,3,8,16}, "
        "filters {true, exact, padded 1-2 cells, random conservative}, repeated runs, MarchingCubesC2F/MarchingSquaresC2F with coarse spacings 1..4x (up to 8x/32x on fat voxels) "
        "that still see every feature; DualContouring MaxGos in {0,1,2,8} x BufferSize from 1 (BufRows=4) over k*row to 2^40 x GOMAXPROCS, "
        "triangle modes, clip on/off; Repair=true and/or default jitter (same dcrepair: repetition of the same setting, MaxGos 8 + BufferSize 1, random setting; half-filled voxel solids "
        "with many singular edges/vertices; one fixed regression solid with equal angles round a singular edge); search refinement (same mcsearch/mssearch: iters in {1,2,4,7}, "
        "Search/SearchFilter/Interior/Conj across GOMAXPROCS, exact float face multisets); Rasterizer subsamples in {1,2,3,4,8,16,17} (tiles of 16..1 px), images up to ~150x150, a quarter "
        "with explicit Rasterizer.Bounds; RasterizeCollider against the unfiltered rendering of NewColliderSolidHollow(c, 0.5*LineWidth/Scale) on line drawings (closed stars, open polylines, "
        "separate strokes) sized to 24..140 px with Scale log-uniform over 1/16..32 (half of the cases below one pixel per unit), LineWidth 0.4..7 px or default, Subsamples 1..16, optional Bounds; "
        "RasterizeColliderSolid on the closed drawings. Coarse-to-fine group (msc2f/mcc2f): tapered solids of random orientation "
        "(2-D spikes, blunt wedges, spikes on a disc, tapering slots cut into a box; 3-D cones, blades, pyramids, also on a ball), base wider than bigDelta, "
        "tips narrowing to 0..0.3 bigDelta, spacing ratios 8/16/32 (2-D) and 8/16 (3-D), random phase against the coarse lattice; a candidate is emitted only when "
        "every fine sign-change cell is within one coarse spacing (max-norm) of a coarse sign-change cell (evaluated by the harness AND re-evaluated by the driver), "
        "preferring candidates whose deepest feature is >= 1.45 bigDelta away from every coarse-mesh vertex (distribution: c12.c2f*.depth_iters8.*); iters in {0,3..12}, "
        "extraSpace in {0, smallDelta}; searched vertices are snapped to their lattice edge for the hash, and the exact float face multiset is compared with the "
        "direct MarchingSquaresSearch/MarchingCubesSearch mesh (same msc2f-direct / mcc2f-direct); same *-hverts checks on the real coarse mesh that every coarse "
        "sign-change cell carries a vertex. The implementation output is count + multiset hash of the "
        "exact face list (doubled lattice coordinates / lattice edges / pixels); the model output is computed from the labelling by the plain "
        "sequential model, so any dependence on the setting is a disagreement whose replay names the setting. distinct = distinct op lines"
    ),
    trusted=[
        "regenerated, not hand-written: lean/M3d/Gen/Kernels.lean (Go->Lean translator harness/hlib/go2lean) contains mcBlock.Split/"
        "Volume (model3d/mc.go) and msBlock.Split/Area (model2d/marching.go) with their run-time axis index; "
        "M3d.KernelsTie.Partition.split_eq/split2_eq/volume_eq/area_eq re-prove against the current source that they are Block.split/"
        "volume and Block2.split/area of the partition theorems (well-formed blocks)",
        "regenerated, not modelled: rows of mcLookupTable()/msLookupTable() (Gen/McTable.lean, same generator as C01); the theorems cite rows 0/255 (0/15) being empty by `decide`",
        "modelled, not verified: the worker pool as 'any schedule' (any split of the block queue among workers, any merge order) - goroutine interleavings "
        "enter only through which worker receives which block and the order of AddMesh; absence of data races is C13",
        "modelled, not verified: the filter as a pure oracle on index blocks (in Go: f(Bounds(delta*1e-3)) on float rects; the harness' filters recover the index block from the rect)",
        "dual contouring: the window theorem is per edge slot (one Triangulated flag per edge, flags of different edges do not interact); that cube vertices / "
        "hermite data depend only on the global lattice position, not on the window, is tied by the exact-coordinate comparison across settings (kind `same dc`), not proved",
        "rasteriser: the shade function floor((1-k/n)*255.999) is abstract in the theorems except shade(n,n)=0 and shade(0,n)=255 (checked on the real code by every fully "
        "inside/outside tile of the corpus; the driver evaluates it with the same float operations); that the sub-sample points of a tile's pixels lie in the tile's "
        "rectangle is now proved (raster_samples_in_tile) in exact arithmetic",
        "RasterizeCollider: the collider enters as an exact circle test (hits c r <-> some collider point within r: C07/C08); math.Sqrt inside Coord.Dist is uninterpreted with "
        "sqrt(x)^2 = x, sqrt(x) >= 0; exact arithmetic. RasterizeColliderSolid: that a tile whose circumscribed circle misses a closed curve is uniform for the even-odd solid is not proved "
        "(tied by same rastcollidersolid on closed drawings)",
        "regenerated, not modelled: the radius of the hollow solid and the radii of the filter circles of RasterizeCollider/RasterizeColliderSolid and the shape of their closures "
        "(Gen/RastMargin.lean, go/ast; r.lineWidth()/r.scale() are parameters)",
        "DualContouring Repair=true: only the ORDER of the repair steps is modelled (sorted by coordinates since the fix: commits 09ce28e/08bc264), the steps are abstract; tied by same dcrepair",
        "coarse-to-fine: 'a coarse spacing that still sees every feature' is READ as: every fine sign-change cell is within one coarse spacing (max-norm) of a coarse "
        "sign-change cell (seenAll2/3 with R = m; the margin then needed is 2*bigDelta, which two 3-D cell diagonals 2*sqrt(3)*bigDelta cover); solids violating it are "
        "not compared (a documented limitation of C2F itself). Hypotheses of c2f_ms_sound/c2f_mc_sound that are not proved about the code: the filter keeps a block "
        "whenever a coarse-mesh vertex lies in its expanded bounds (completeness of RectCollision: C07/C08; Rect.Expand/Bounds read from the source), the real coarse "
        "mesh is the modelled one (tied by the ms/mc kinds) and msSearch/mcSearch keep a vertex on its lattice edge (modelled: searchAxis, c2f_search_stays_on_edge; "
        "checked on the real coarse meshes by the *-hverts cases); integer spacing ratios only; float rounding of the bounds is absorbed by the slack "
        "(2*sqrt(3) - 2)*bigDelta",
        "regenerated, not modelled: the margin expressions of MarchingSquaresC2F/MarchingCubesC2F and the shape of the filter closure (Gen/C2FMargin.lean, go/ast); "
        "math.Sqrt is uninterpreted with sqrt(x)^2 = x and sqrt(x) >= 0",
        "MeshInterior's interior points and DualContourSDF are not compared (not faces)",
    ],
    assumptions=[
        "solids are pure functions of the point (same answer every time) and false on the outer lattice layer",
        "filters are conservative: they reject only blocks/tiles on which the labelling is constant",
        "GOMAXPROCS >= 1, len(Zs) >= 3 for dual contouring, minVolume >= 1 for Pieces (the code uses 64 and max(Volume/4096,64))",
    ],
    level_text=(
        "Machine-checked for ALL sizes/configurations: Split halves partition a block and are proper when Volume>=2; Pieces terminates (Volume measure) and its leaves "
        "plus the rejected blocks partition the cells of the root, for every minVolume>=1 and filter oracle (3-D and 2-D); hence MarchingCubesFilter's face multiset equals "
        "MarchingCubes' for every worker count, every distribution of queue blocks over workers, every merge order and every conservative filter (rows 0/255 of the "
        "REGENERATED table are empty), same for marching squares; Scan's ring of g+1 caches presents every consecutive layer pair exactly once in order for every "
        "GOMAXPROCS and layer count; dcCubeLayout's windows triangulate every edge slot exactly once for every BufRows in [3..nz] with the needed cube rows inside the "
        "buffer; raster tiles partition the pixels, their sample points lie in the rectangle the filter sees, and a conservative tile filter changes no pixel; RasterizeCollider's own filter is "
        "conservative for every scale > 0 and line width with the radii as written in the source (regenerated; proved: filter radius >= half tile diagonal + radius of the hollow solid); search "
        "refinement commutes with filtering; repair steps applied in sorted order are independent of map enumeration; coarse-to-fine: for every integer spacing ratio, solid, schedule and "
        "extraSpace >= 0, if every fine sign-change cell is within one coarse spacing of a coarse sign-change cell then MarchingSquaresC2F/MarchingCubesC2F with the "
        "margin as written in the source (regenerated; proved >= 2*bigDelta) yield the plain fine face multiset. The models are tied to /repo on every run by executing the real "
        "routines under the listed settings and comparing with the plain model computed from the lattice labelling, and by hooks on the real Split/Pieces/Scan/dcCubeLayout."
    ),
    level_note=(
        "Proved about the models in lean/M3d/Model/Partition.lean; worker scheduling, filter oracle and per-edge independence are modelling assumptions listed under trusted; "
        "C2F: proved up to the explicit hypotheses on RectCollision / the coarse mesh / msSearch listed under trusted, for the stated reading of 'sees every feature'; RasterizeCollider up to exactness of CircleCollision; DC Repair: order of steps only. Trusted: Lean kernel, table dump hook, Go harness and Lean driver (hashes, lattice replication)."
    ),
)
