PROP = dict(
    thorough_seeds=48,
    module="M3d.Props.C03",
    corr=dict(quick=500, thorough=3000),
    gen=["Kernels"],
    tie_modules=["M3d.Lemmas.KernelsTieBounded", "M3d.Lemmas.KernelsTiePolytope", "M3d.Lemmas.KernelsTieRectSet"],
    corr_theorems=(
        "kind `triline` (toolbox3d.TriangularLine and the one-segment TriangularPolygon, line_join.go): BoundsValid and Contains of the REAL "
        "solid against the definition `triDef` (projection between the endpoints, L1 distance over the candidates of Segment.ClosestL1 < thickness) "
        "evaluated exactly at Rat — M3d.C03.wrapper_does_not_cut_triline / triline_def_in_box / triline_bounds_ordered / triline_bounded; "
        "only points whose deciding quantities are 1e-6 away from zero enter a case (float closure = exact definition there); "
        "kind `tree` compares Min()/Max()/BoundsValid/Contains of the REAL solid built by the library's constructors with "
        "SolidExpr.bounds/contains of the model (M3d.Bd.SolidExpr.eval) on the same expression and points — mode q at Rat (the instance "
        "M3d.C03.bounded_sound / bounds_ordered / wrapper_does_not_cut_* cover), mode f at Float (same operations in the same order); "
        "kinds cab/cyl/cone/torus/capsule/sphere compare circleAxisBound and the primitive Min()/Max() bit for bit with the model that "
        "circle_axis_bound / cylinder_bounded / cone_bounded / torus_bounded / capsule_bounded / sphere_bounded are about; kind `shell` "
        "prints the property's requirement `ok` for an opaque leaf (valid bounds, nothing contained on the shell outside the box); "
        "kind `polycut` (q and f) builds the REAL ConvexPolytope.Solid() (2-D and 3-D) from constraints {Normal: n*s, Max: m*s} with one positive "
        "factor s per constraint and compares `valid bounds` + Contains/in-box on points that the half-space test puts robustly inside or outside "
        "with the model's polyContains on the UNSCALED system {n, m}: justified by polytope_scale_invariant (the half-space test ignores the "
        "factors), wrapper_does_not_cut_polytope (with an enclosing box the solid IS the half-space test) and, for the model of Mesh(), "
        "mesh_vertices_scale_invariant + polytope_box_encloses + wrapper_does_not_cut_polytope_mesh(2); kind `pvert` validates the faithful model "
        "of an internal step: the vertices Mesh() enumerates (real vertex()/spatialEpsilon() through the hook VerifPolytopeVertices) bit for bit "
        "against meshVerts3/meshVerts2 at Float, on the scaled systems; kind `prect` (q and f, 2-D and 3-D) calls the REAL "
        "NewConvexPolytopeRect(min, max) and compares its constraint list, its ConvexPolytope.Contains per point, the Min()/Max()/BoundsValid "
        "of its Solid() and Solid().Contains per point with the requirement: the constraints rectCons3/rectCons2 "
        "(M3d.KernelsTie.Polytope.newConvexPolytopeRect(2): the regenerated constructor IS that list), the box test of [min, max] "
        "(rect_polytope_contains), the box [min, max] itself (rect_polytope_mesh_box, min <= max) and the box test again "
        "(wrapper_does_not_cut_polytope_rect); all arithmetic of the real code is exact on these systems, so mode f is compared exactly too; "
        "kind `rsprog` runs a program over 2-3 REAL *toolbox3d.RectSet objects (Add, Remove, AddRectSet, RemoveRectSet - also of a set with itself -, "
        "v = NewRectSet(), Solid() calls whose solids are kept and queried after the whole program) and prints per Solid() call "
        "`BoundsValid and RectSet.Min()<=Max() finite` plus, per probe point, not contained / contained inside both the solid's box and the "
        "RectSet.Min()/Max() of that moment / contained outside; the model prints the requirement computed on a store of VALUES (no object shares "
        "a split slice or the rect map with another): `1:` + `some rect stored in the receiver at the time of the call contains the point` - "
        "justified by rectset_bounds (Min<=Max, the box encloses every stored rect, after every history), wrapper_does_not_cut_rectset "
        "(newRectSetSolid terminates, Contains = stored-rect test at every point, only inside the reported box), rectset_solid_ordered, "
        "rectset_program_bounds / rectset_program_final_bounds / rectset_program_solid_ordered (the same at every Solid() call of every program over "
        "objects) and rectset_program_answers (the driver's output IS that requirement; its internal failure markers are unreachable)"
    ),
    rule=(
        "kind triline: random segments (7/8 oblique; axis-aligned, planar and exact-diagonal special cases), thickness 1/16..5, 36 points per case "
        "just inside the flat end caps, past the endpoints, on the L1 ridges (offset along a coordinate axis) and in the cross-section plane at "
        "0.2..1.3 of the thickness; "
        "random expression trees of depth 0..6 (2D and 3D, half exact/half float) over Rect/Sphere/Circle leaves and opaque leaves "
        "(every primitive and toolbox part), built with ForceSolidBounds, CacheSolidBounds, JoinedSolid, IntersectedSolid (incl. disjoint "
        "boxes), SubtractedSolid, StackSolids, StackedSolid, TransformSolid over Translate/Scale/VecScale (negative, anisotropic)/"
        "Matrix3/Matrix2/JoinedTransform, ProfileSolid, CrossSectionSolid, SliceSolid, RevolveSolid, ClampAxis*, SDFToSolid (out/inset), "
        "SmoothJoin, NewColliderSolidInset/Hollow, MetaballSolid, ConvexPolytope.Solid (modelled `poly` leaves in 2-D and 3-D, both modes: "
        "rect + oblique cuts, intercept-form simplices x/a+y/b+z/c<=1 with intercepts up to 2e5, intercept-form boxes and cross polytopes, "
        "duplicated and touching redundant constraints; every constraint multiplied by its own factor: none, one 2^k for all, independent 2^k "
        "with k in [-60,60], mixed long/short (2^-60..2^-35 next to 2^35..2^60), some short, decimal factors — #stat poly_min_normal_* gives "
        "the distribution of the shortest normal); the same systems feed the dedicated streams polycut (robustly-inside points next to every "
        "vertex, on faces and edges, and the centre) and pvert; stream prect: NewConvexPolytopeRect(min, max) with dyadic (q) or random (f, scales "
        "1e-3..1e6) corners, thickness >= 1e-4*scale per axis, 1/12 flat on one axis, 1/12 inverted on one axis (empty), ~45-57 points: shell just "
        "outside each face (q: 1/1024..1/4; f: 1e-12*scale.. and one ulp either side of every face), faces/edges/corners, inward corners, centre; per tree ~45 query points: a thin shell just "
        "outside each face of the reported box (exact: 1/1024..1/4; float: 1.01e-8*scale..), faces/edges/corners, images of the operands' "
        "corners and surfaces. exact mode: dyadic parameters (5 fractional bits, scales ±2^k, unimodular integer matrices) so that every Go "
        "+,-,* is exact — outputs must be EQUAL to the Rat model. distinct = distinct operation lines; #stat counters give the number of "
        "nodes per constructor, negative scales, disjoint intersections, no-cut evaluations per wrapper, shell points per leaf type. "
        "stream rsprog (n/4+10 programs, exact): 1/5 free programs of 3-10 statements over 2-3 RectSet objects; 4/5 copy-then-edit: a source set of 1-4 "
        "boxes of the 0..3 integer lattice (shared faces: 3/5/6/7 splits on an axis, i.e. split slices with spare capacity; sometimes after a Remove, "
        "sometimes grown again), AddRectSet into an EMPTY receiver (fresh, reset, or filled and emptied), optional Solid(), 1-3 edits of either "
        "object on the quarter/half/integer lattice (new splits strictly inside the old range; 1/8 of the added boxes flat on x), then Solid() of "
        "every object; probe points: corners, face centres and centres of every box of the program and 30 points of the grid {coordinates, "
        "midpoints, 1/2 beyond either end}; #stat rsprog_copy_into_empty_receiver, rsprog_copy_source_axis_with_3_5_6_7_splits, "
        "rsprog_edit_after_copy_with_new_inner_split count how often the aliasing-sensitive situation was drawn"
    ),
    trusted=[
        "regenerated, not hand-written: lean/M3d/Gen/Kernels.lean (Go->Lean translator harness/hlib/go2lean, run on the current "
        "source on every check); M3d.KernelsTie.Bounded.* re-prove against it that Min()/Max() of Sphere, Capsule, Cylinder, Cone and "
        "Torus (with circleAxisBound and its variable array index), Rect.Contains, Sphere.Contains and LinearConstraint.Contains are the "
        "boxes and membership tests of the primitive leaves (sphereS, capsuleBox, cylinderBox, coneBox, torusBox, inB, "
        "sphereContainsSqrt, polyContains) of the C03 expression trees; the model2d twins (Circle.Min/Max/Contains, Capsule.Min/Max, "
        "Rect.Contains, LinearConstraint.Contains, Coord.Norm) are the d3=false instances of the same definitions; Matrix3.Det / "
        "Matrix3.MulColumnInv / Matrix2.Det / Matrix2.MulColumnInv of the matrix ConvexPolytope.vertex builds are det3 / mulColInv3 / det2 / "
        "mulColInv2 of the polytope model, operation for operation (rfl)",
        "regenerated polytope code (loops over the constraint slice are the structural recursion loopFrom, ConvexPolytope is a List): "
        "M3d.KernelsTie.Polytope.* re-prove against lean/M3d/Gen/Kernels.lean that model3d/model2d ConvexPolytope.Contains is polyContains "
        "(convexPolytope_contains(_gen), via loopFrom_all: the loop is List.all of LinearConstraint.Contains), ConvexPolytope.spatialEpsilon is "
        "spatialEps with the literal 1e-8 (via loopFrom_eq_foldl), NewConvexPolytopeRect is rectCons3/rectCons2 constraint for constraint (rfl), "
        "polytopeSolid.Min/Max return the stored bounds, and that InBounds && P.Contains assembled from the regenerated pieces is the model's "
        "polytopeS (polytopeSolid_eq) - hence polytopeSolid_bounded (a contained point lies in [Min(), Max()]: the polytope leaf of bounded_sound "
        "applied to the regenerated code), newConvexPolytopeRect_contains (= regenerated Rect.Contains) and newConvexPolytopeRect_solid "
        "(reports [min, max], contains exactly its points); the _gen forms quantify over every value of the generated types (gcs_ofGcs). "
        "Not translated (interface / recursion / map-based Mesh): InBounds (its body is that of Rect.Contains, tied), polytopeSolid.Contains "
        "(assembled by hand in polytopeSolidContains), ConvexPolytope.vertex (recursive index sort; modelled as vertex3/vertex2, tied by kind pvert), "
        "Mesh(), addConvexFace",
        "RectSet objects: the value model (Model/RectSet.lean, Model/RectSetProg.lean, shared with C04) represents the rect map as a duplicate-free "
        "list and sort.SearchFloat64s by its specification on ascending slices (ascending is part of the proved invariant); a program over *RectSet "
        "objects is run on a store of values - that the real objects behave like values (no shared slices/maps, Solid() returns an independent tree) "
        "is exactly what kind rsprog tests on every run, it is not proved about the Go heap; the regenerated toolbox3d.splitRect and Rect.Contains are "
        "proved equal to the model's by M3d.Lemmas.KernelsTieRectSet (C04's tie, now also an obligation of C03); the box a RectSet reports is only "
        "required to enclose the set (a looser box is not reported)",
        "modelled, not verified: float64 as an ordered field (mode q is exact by construction of the inputs; mode f re-runs the same model at IEEE doubles and must agree bit for bit, signed zeros identified)",
        "opaque leaves (Cylinder/Cone/Torus/Capsule Contains, Triangle, toolbox ScrewSolid, Teardrop2D/3D, SpurGear/HelicalGear, involute profile, LineJoin, RadialCurve, TriangularLine/Ball, HeightMap, RectSet, Ramp, bitmap, mesh solids): their Contains is a function parameter; the hypothesis `Bounded leaf` of bounded_sound is TESTED on the shell stream (kind shell) and is an assumption, not a theorem",
        "SDF / Collider / Metaball operands enter through their contracts (SDFBoxed, ColOK, MBBounded) — assumptions about the operand, used only by the does-not-cut theorems; boundedness of the derived solids needs none of them",
        "math.Sqrt is the parameter sq with sq(x)^2 = x, sq(x) >= 0 (satisfied by Real.sqrt; example in Props/C03.lean); Sphere.Contains is executed in the square-root-free form proved equal to it (sphere_contains_sq_iff)",
        "ConvexPolytope.Solid: in the expression trees the box is the bounds of the real Mesh() and is taken as given; that this box encloses the "
        "half-space intersection is PROVED for the model of Mesh()'s vertex enumeration (polytope_box_encloses: bounded system, no basic point "
        "rejected by the 1e-8 conditioning test; scale invariance: mesh_vertices_scale_invariant), the model of vertex()/spatialEpsilon() is "
        "tied by kind pvert (bit for bit) and by M3d.KernelsTie.Bounded.matrix3_det/matrix3_mulColumnInv/matrix2_* (regenerated Det and "
        "MulColumnInv), and TESTED on the implementation by kind polycut and the site c03:wrapper-cuts:polytope; not modelled: addConvexFace, "
        "Repair(epsilon), removal of degenerate triangles (they move a vertex by at most spatialEpsilon = 1e-8*extent; probe points keep a "
        "margin of 1e-6*extent). RevolveSolid/Metaball trees run in float mode only (sqrt)",
        "rounding: in float mode a point less than 1e-8*scale outside the box that is reported contained is only counted (stat float_leak_within_1e-8_slack, shell_ulp_contained_*): circleAxisBound's exact margin over the true extent is eps^2/(s+eps) ~ 1e-16, below rounding; everything above 1e-8*scale is a violation",
    ],
    assumptions=[
        "NaN/Inf coordinates and parameters excluded; Scale/VecScale factors non-zero; radii >= 0",
        "opaque leaves are bounded (tested on >= 30 000 shell points per run, all leaf types; counts in distribution)",
    ],
    level_text=(
        "Machine-checked (Lean 4, every linear ordered field): for the deep embedding SolidExpr of the library's solid constructors with "
        "bounds/contains computed as the Go code computes Min/Max/Contains — bounded_sound (contains p => p in bounds, by structural induction "
        "from bounded leaves), bounds_ordered (min <= max incl. disjoint IntersectedSolid, negative/anisotropic scales, collider insets), "
        "wrapper_does_not_cut_* for Cache/StackedSolid/Transform/Profile/CrossSection/Slice/Revolve/SDFToSolid/SmoothJoin/ColliderSolid "
        "inset+hollow/MetaballSolid/ConvexPolytope.Solid (un-normalised constraints: polytope_scale_invariant, mesh_vertices_scale_invariant, "
        "polytope_box_encloses — the box of the vertices Mesh() enumerates encloses every bounded, well-conditioned half-space intersection, "
        "2-D and 3-D; rect_polytope_contains / rect_polytope_mesh_box / wrapper_does_not_cut_polytope_rect — NewConvexPolytopeRect(min, max) "
        "is the rect: its half-space test is the box test, the vertices Mesh() enumerates are the eight (four) corners, its Solid() reports "
        "[min, max] and contains exactly its points), transform_bounds (ApplyBounds encloses the image for Translate/Scale/VecScale/Matrix/JoinedTransform), toolbox3d.RectSet as an OBJECT (rectset_bounds, wrapper_does_not_cut_rectset, "
        "rectset_solid_ordered, rectset_program_bounds: after every program of Add/Remove/AddRectSet/RemoveRectSet/NewRectSet over several sets every set "
        "reports ordered bounds enclosing all its rects and its Solid() is exactly the stored-rect test, so editing a set never moves the bounds of a set "
        "it was copied from or into), and the closed-"
        "form leaves sphere/rect/capsule/cylinder/cone/torus with circle_axis_bound (circleAxisBound >= the true extent sqrt(1-n_i^2)). "
        "The regenerated source (Go->Lean translation of shapes/polytope code, incl. the loops of ConvexPolytope.Contains/spatialEpsilon) is "
        "proved equal to the model by the tie theorems M3d.KernelsTie.Bounded.* and M3d.KernelsTie.Polytope.* on every run. "
        "Tied to /repo on every run by building the same expressions with the real constructors and diffing Min/Max/Contains against the model "
        "(exact at Rat on dyadic inputs, bit-for-bit at Float otherwise), plus direct evaluation of the property on the implementation."
    ),
    level_note=(
        "Leaves with transcendental or table-driven membership are hypotheses of the induction, validated on the shell stream, not proved. "
        "The float rounding slack of circleAxisBound (1e-8) is outside the model. Trusted: Lean kernel, propext/Classical.choice/Quot.sound, "
        "the Go harness and the native driver."
    ),
)
