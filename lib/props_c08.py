PROP = dict(
    module="M3d.Props.C08",
    corr=dict(quick=1000, thorough=4000),
    thorough_seeds=6,
    gen=["Kernels"],
    tie_modules=["M3d.Lemmas.KernelsTieBox", "M3d.Lemmas.KernelsTieSlab"],
    corr_theorems=(
        "hierarchical queries (kinds j3/j2/o3): M3d.C08.joined_ray_eq_concat, joined_first_eq_min, joined_sphere_iff, "
        "multi_segment_eq, multi_rect_eq / multi_rect_iff / multi2_rect_iff (the members are asked the caller's box itself; "
        "clip_contains(2): the intersection with the node bounds is only a point-set statement), multi_triangle_eq, joined2_*, bvh_object_cast_eq_min, nary_bvh_object_cast_eq_min, "
        "nary_bvh_collider_ray together with grouped_collider_wf / bvh_collider_wf / nary_bvh_collider_wf(2) (shapes of L/J nodes - "
        "BVHs with branches of any width, nests of joined colliders - are converted by bvhJoin) / flatten_same_leaves (the driver prints "
        "the pruned traversal and, for sound leaves, checks it against the "
        "linear scan); d3/d2: mesh_dist_eq_min(2); kd3/kd2: kd_invariant, kd_contains_iff, kd_nn_eq_min, kd_knn_eq_k_smallest, "
        "kd_knn_points_stored, kd_sphere_iff (run on the REAL tree), knntab: kd_knn_table_eq_scan (answers kept by the caller and read "
        "after later queries); group/bvh: group_bounders_perm, bvh_leaves_perm; bvhx (the exact tree of NewBVHAreaDensity rebuilt by the faithful newBVH "
        "with the real split rule bvhSplit/areaDensitySplit): bvh_area_density_perm, area_density_split_in_range; slab/pbd kinds validate the faithful "
        "models of rayCollisionWithBounds / pointToBoundsDistSquared used by slab_prefilter_sound, slab_prefilter_exact, "
        "slab_segment_prefilter_exact, slab_direction_length_irrelevant (the model's decision IS 'the ray / segment meets the box', "
        "for directions of every length), pt_box_dist_lower_bound, sphere_prefilter_sound"
    ),
    rule=(
        "exact mode: integer / dyadic boxes, points, rays, radii (every float operation of the hierarchy code is exact); object sets of "
        "sizes 0,1,2,3,...,200 with duplicates, flat boxes, equal coordinates along split axes, coincident bounds; queries aimed at the "
        "pruning boundary (rays through box corners/edges, spheres touching a box exactly, query coordinate equal to a split value, "
        "k-th and (k+1)-th distance equal, k > n, empty structures). Magnitudes are not restricted to O(1): 40% of the rays have their "
        "direction multiplied by 2^-100..2^100 (un-normalised, very short / long directions; canned hits move to t/sigma), directions "
        "with components of very different magnitude (2^-40..4, origin a tiny amount outside a slab), very short segments, and 15-20% "
        "of the scenes (boxes, primitives, clouds, queries, radii) are multiplied as a whole by 2^-40..2^30 - all exact in float64. "
        "Real sets include axis-aligned geometry whose INNER nodes have zero-thickness bounds (whole sets in one axis plane, 1..3 "
        "common planes, closed box meshes with two triangles per face, rectangle outlines / collinear runs in 2-D) and box queries that "
        "pierce a face / cross a segment in its interior (small boxes of half-width 0..1 around interior points, across the plane of a flat "
        "primitive): the leaf tests are edge tests, so the members must be asked the caller's box (#stat ...rect_queries_piercing_a_face_under_a_flat_node). "
        "Synthetic leaves (canned answers, sound or deliberately unsound) are functions of the query they are asked: the canned answer "
        "belongs to the caller's query (compared by value), any other query (clipped box, shortened segment, moved ray) gets 'nothing' and "
        "a negative trace entry; they "
        "record which leaves the real hierarchy code evaluates; real triangles / segments / points are compared three ways "
        "(implementation, Lean model, harness linear scan). BVHToObject / BVHToCollider also get hand-made BVHs whose branches have 2..5 "
        "(or all) children, objects in any order. Multi-step: tables of 2..6 consecutive KNN queries whose returned slices are kept and read "
        "after the last query; kept TriangleCollisions answers are re-read after all queries on a set. bvhx: the per-axis orders of the real "
        "sortBounders (hook) + the boxes -> the model must rebuild the exact NewBVHAreaDensity tree (scores exact on half-integer boxes). "
        "CoordTree.Dist / Empty / Leaf are compared with sqrt(min squared distance) / n == 0 / n <= 1. distinct = distinct operation lines"
    ),
    trusted=[
        "regenerated, not hand-written: lean/M3d/Gen/Kernels.lean (Go->Lean translator harness/hlib/go2lean, run on the current "
        "source on every check); M3d.KernelsTie.Box.* re-prove against it that pointToBoundsDistSquared and "
        "sphereTouchesBounds/circleTouchesBounds (the pruning bounds of every hierarchy query; axis loop unrolled by the translator) "
        "and Coord Min/Max/SquaredDist are the model functions ptBoxDistSq3/2, sphereTouches3/2, V.min/max/sqDist of the soundness theorems, "
        "and boundsArea is boundsArea3/2 (score of bestSplitAxis); M3d.KernelsTie.Slab.* re-prove that the regenerated "
        "model3d/model2d.rayCollisionWithBounds (unrolled loop, continue / early returns, math.Inf as class HasInf) is dec(rayBounds3/2) of the "
        "slab theorems for every HasInf instance under the explicit hypothesis SlabFinite3/2 (slab parameters of non-zero-rate axes strictly "
        "between negInf and posInf), that the two pruning decisions computed from it are rayAdmits / segAdmits, and that the regenerated "
        "knnResults.MaxDist is knnMaxDist; JoinedCollider.rayCollidesWithBounds, knnResults.Insert, bestSplitAxis, splitBounders, "
        "areaDensityBVHSplit are outside the translator's subset and tied by the correspondence kinds only",
        "modelled, not verified: slices returned by queries are values (that a later call does not overwrite an earlier answer is checked by "
        "the knntab kind / kept TriangleCollisions slices, not derived from a heap model; concurrent queries are not exercised); pointers as ids; sort.Slice as an arbitrary permutation per axis; areaDensityBVHSplit / the axis choice of newBVH are modelled faithfully (areaDensitySplit, bvhSplit; generic functions, "
        "outside the translator's subset) and tied by the bvhx kind only, the permutation theorem bvh_leaves_perm holds for EVERY in-range split oracle; "
        "splitBounders' index arithmetic as a stable partition (equal under the proved invariant, theorem split_positions)",
        "leaf behaviour (Triangle/Segment ray, sphere, segment, rect, triangle tests; Closest/Dist) is a parameter of the theorems: the only hypothesis is "
        "that what a leaf reports lies in its own bounding box (LeafSound3/2) - whether the real triangle code satisfies it under floating-point "
        "rounding is not proved (C07 covers the leaf routines); the correspondence feeds the real leaf answers through the model on every run",
        "floating point: theorems are over linear ordered fields; the tie runs the code on inputs where the hierarchy's own arithmetic is exact",
    ],
    assumptions=[
        "no NaN / infinite coordinates",
        "each leaf is sound w.r.t. its own bounding box (hits, touching points, closest points lie in its box)",
    ],
    level_text=(
        "Theorems (Lean 4, every linear ordered field, every leaf behaviour, every object set incl. duplicates / flat / empty): a generic "
        "branch-and-bound library (pruned search = linear scan for every sound bound: fold, any, collect, count, best; binary trees and n-ary "
        "forests); the bounding-box prefilters of bvh.go never reject a query that meets the box (slab test incl. zero direction components, "
        "sphere/box incl. touching, box/box incl. touching, point-to-box distance is a lower bound); on non-empty boxes the slab test is exact "
        "(admits iff some t >= 0, resp. 0 <= t <= 1, has its point in the box) and therefore independent of the length of the direction vector; GroupBounders / newBVH / NewCoordTree only "
        "permute their input for every comparison, axis and split oracle, and NewBVHAreaDensity with its real split rule (areaDensityBVHSplit cuts "
        "strictly inside, 2 <= index < n) terminates with every object exactly once; NewJoinedCollider's flattening keeps the leaves; JoinedCollider / "
        "joinedMultiCollider / BVHToObject / BVHToCollider queries equal the scan over the leaves asked the caller's own query (a box query is "
        "not replaced by its intersection with a node's bounds: non-vacuity example with a zero-thickness node), for binary and for n-ary BVHs (every object of "
        "every child of every branch exactly once); meshDistFunc.Dist returns a face at minimal distance; "
        "CoordTree Contains / NearestNeighbor / KNN / SphereCollision equal membership / argmin / k smallest sorted (stored points, own "
        "distances, multiplicities respected) / exists-within-radius; a table of KNN answers read after all queries equals the table of "
        "brute-force answers. The regenerated rayCollisionWithBounds and knnResults.MaxDist are proved equal to the model functions. "
        "The models are tied to /repo on every run by replaying generated scenes on the real code: traversal traces with instrumented leaves, "
        "real trees serialised and re-queried by the model, real triangles / segments / points compared three ways."
    ),
    level_note=(
        "Proved about the models in lean/M3d/Model/{Prune,Box,Spatial}.lean. Trusted: Lean kernel, propext/Classical.choice/Quot.sound, the Go "
        "harness and the driver, the modelling of pointers/sorting/split oracles listed above. Leaf routines are parameters (hypothesis: sound "
        "w.r.t. own box). The bvhx / group kinds replay the split heuristics exactly: an edit of a heuristic that keeps every object shows up as a "
        "model/implementation difference, not as a failing query. "
        "Exactness / length-independence of the slab test assume min <= max per axis (soundness does not)."
    ),
)
