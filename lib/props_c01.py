import os, subprocess


def search(c, cfg, missing):
    """A table theorem no longer checks: ask the (table-regenerated) driver which local obligation
    fails at which configuration.  The concrete failing input itself is produced by the
    correspondence's exhaustive single-cell sweep (a 2x2x2 lattice solid meshed by the real code
    whose mesh the deciders reject); this adds the diagnosis to the notes/replay."""
    drv = os.path.join(c.lean, ".lake", "build", "bin", "drv_c01")
    try:
        p = subprocess.run([drv], input="c01 tablecheck\n", stdout=subprocess.PIPE, text=True, timeout=600)
        c.notes.append("tablecheck: " + p.stdout.strip()[:2000])
        c.extra_cov["tablecheck"] = p.stdout.strip()[:2000]
    except Exception as e:  # noqa
        c.notes.append(f"tablecheck failed to run: {e}")
    return False


PROP = dict(
    module="M3d.Props.C01",
    gen=["McTable"],
    corr=dict(quick=150, thorough=1500),
    search=search,
    corr_theorems="M3d.C01.mc_* / ms_* (tables, kernel-decided) and bitmap_in_out_one; whole-lattice meshes are assembled from the regenerated table by M3d.Marching.mcMesh/msMesh/bitmapMesh and judged by executable deciders",
    rule="(a) exhaustive: all 256 (16) single-cell configurations as 2x2x2 (2x2) lattice solids through the real MarchingCubes/MarchingSquares; (b) random lattice labellings up to 4x4x4 / 6x6 (uniform, sparse, dense, noisy checkerboards = ambiguous configurations) through MarchingCubes, MarchingCubesFilter, MarchingSquares(+Filter), Bitmap.Mesh: real triangle/segment lists must equal the model's lists and the deciders must accept; (c) real outputs of every other generator named by the property (rect, icosahedron, icosphere, polar, cylinder, cone, torus, profile, polytope, rect-set, height-map, search-refined MC/MS) as id soups with exact float coordinates through the deciders + exact signed volume",
    trusted=[
        "regenerated, not modelled: the 256-row and 16-row lookup tables (dumped by executing mcLookupTable()/msLookupTable() of the current tree through the verif hook; the dump is repeated 20x and must be identical)",
        "MECHANISED lifts (all lattice sizes, all labellings with empty outer layer): ms_closed_on_every_lattice (2-D: one incoming and one outgoing segment at every vertex) and mc_edges_balanced_on_every_lattice (3-D: every directed edge occurs at most once and its reverse exactly as often), both from kernel-decided local facts (msLocalOk / mcLocalOk) about the regenerated tables",
        "NOT mechanised: in 3-D that no vertex pinches two sheets (the four fan paths round a lattice edge chain into one cycle) and outward orientation of the assembled surface follow from the kernel-decided per-cell theorem mc_fan_is_outward_path by the written argument in DESIGN.md §3 C01 / notes/C01.md; the bitmap lift (a pixel only puts vertices at its own corners and reads its 3x3 neighbourhood) likewise; both are exercised by the whole-lattice correspondence",
        "parametric generators (polar/cylinder/cone/torus/polytope/rect-set/height-map/profile): judged per generated instance by the executable deciders (seam/pole vertex coincidence is float equality of sin/cos results), not proved for all parameters",
        "executable deciders edgeBalanced/fanConnected/inOutOne in lean/M3d/Drv/C01.lean are trusted code (their proved counterparts live in M3d/Model/Surface.lean once C10 lands)",
    ],
    assumptions=["solids are seen only through their value on the sampling lattice, with an empty outer layer (the scanners panic otherwise)"],
    level_text="Kernel-decided theorems over the complete finite configuration space named by the property (256 cube / 16 square configurations, all 3x16 shared-face labellings, all 256x12 vertex fans incl. outward winding, all 65 536 4x4 pixel windows) about tables REGENERATED from /repo on every run, so an edit to baseTriangleTable, the rotation machinery, the first-rotation-wins rule or the inverse-row generation re-runs every theorem; plus exact correspondence of whole-lattice meshes with the real marching cubes/squares/bitmap code and decider verdicts on real outputs of all other mesh generators.",
    level_note="Local theorems are machine-checked; the local-to-global lift is mechanised for marching squares (in/out degree) and for marching-cubes edge balance; 3-D fan connectivity/orientation and the bitmap lift are written counting arguments backed by whole-lattice correspondence. Parametric generators are covered per instance. Trusted: Lean kernel, table dump hook, harness/driver.",
)
