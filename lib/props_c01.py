import os, subprocess


def search(c, cfg, missing):
    """A table theorem no longer checks: ask the (table-regenerated) driver which local obligation
    fails at which configuration.  The concrete failing input itself is produced by the
    correspondence's exhaustive single-cell sweep (a 2x2x2 lattice solid meshed by the real code
    whose mesh the deciders reject); this adds the diagnosis to the notes/replay."""
    drv = os.path.join(c.lean, ".lake", "build", "bin", "drv_c01")
    try:
        p = subprocess.run([drv], input="c01 tablecheck\n", stdout=subprocess.PIPE, text=True, timeout=600)
        c.notes.append("tablecheck: " + p.stdout.strip()[:2000])
        c.extra_cov["tablecheck"] = p.stdout.strip()[:2000]
    except Exception as e:  # noqa
        c.notes.append(f"tablecheck failed to run: {e}")
    return False


PROP = dict(
    module="M3d.Props.C01",
    gen=["McTable", "C01Margin"],
    tie_modules=["M3d.Lemmas.C01MarginTie"],
    corr=dict(quick=150, thorough=1500),
    search=search,
    corr_theorems=(
        "mc/ms/bitmap kinds: M3d.C01.mc_* / ms_* (tables, kernel-decided), ms_closed_on_every_lattice, mc_edges_balanced_on_every_lattice, mc_fans_one_cycle_on_every_lattice, bitmap_in_out_one and bitmap_closed_on_every_bitmap; "
        "whole-lattice meshes are assembled from the regenerated table by M3d.Marching.mcMesh/msMesh/bitmapMesh; "
        "msc2f/mcc2f kinds (coarse-to-fine): the driver evaluates the documented cover M3d.C2F.seenAll2/3 m (m+E) on the two labellings and answers with the plain fine mesh: "
        "c2f_ms_closed_under_documented_cover / c2f_mc_edges_balanced_under_documented_cover / c2f_mc_fans_one_cycle_under_documented_cover (via M3d.C12.c2f_ms_sound / c2f_mc_sound) together with the tie module "
        "M3d.Lemmas.C01MarginTie (ms/mc_total_ge_extra_plus_two_coarse, c2f_ms_closed_code_margin, c2f_mc_balanced_code_margin: the expansion REGENERATED from the source is at least "
        "E*smallDelta + 2*bigDelta); same msc2f-direct / mcc2f-direct: the same theorems (C2F face multiset = plain fine one); "
        "soup2/soup3/rectset verdicts balanced= fans= inout=: soup_closed_manifold_decided, soup_in_out_one_decided (the sort/bucket deciders decide exactly Surface.ClosedManifold / InOutOne); "
        "rectset verdicts tri= wind= vol=: exact evaluation of M3d.RectSpec on the real triangles against the boxes as a point set (per instance, no theorem for all inputs)"
    ),
    rule=(
        "(a) exhaustive: all 256 (16) single-cell configurations as 2x2x2 (2x2) lattice solids through the real MarchingCubes/MarchingSquares; "
        "(b) random lattice labellings up to 4x4x4 / 6x6 (uniform, sparse, dense, noisy checkerboards = ambiguous configurations) and blobs up to 8^3 / 26^2 through MarchingCubes, MarchingCubesFilter, "
        "MarchingSquares(+Filter), Bitmap.Mesh: real triangle/segment lists must equal the model's lists and the deciders must accept; "
        "(c) real outputs of every other generator named by the property (rect, icosahedron, icosphere, polar, cylinder, cone, torus, profile, polytope, height-map, search-refined MC/MS) as id soups "
        "with exact float coordinates through the deciders + exact signed volume; "
        "(d) box sets (kind rectset): RectSet.Mesh() on dyadic boxes - blocks with extents 2^-3..200 and beads / crumbs / plates of thickness 2^-4..2^-26 touching along edges or at vertices, placed in the "
        "FIRST and the LAST grid interval of each axis, diagonal chains, integer stairs, the 2^-13 bead on the 100x1x100 block in all four first/last combinations: judged against the boxes as a point set "
        "(closed manifold, per-triangle outward probe, winding number at three generic samples of every grid cell, exact volume); "
        "(e) coarse-to-fine (kinds msc2f/mcc2f): MarchingSquaresC2F/MarchingCubesC2F at spacing ratios 2,4,8,16,32 on rects, CSG of boxes with notches, convex polygons/polytopes with small-integer "
        "normals, boxes with a thin spike/rod strictly between two coarse lattice lines; tight or padded bounds (random phase against both lattices); extraSpace = the least number of fine steps for which "
        "the documented cover holds (0 for solids the coarse pass sees; > 0 for spikes/rods) plus {0,0,0,1,3}; iters in {0,4,8}; the real mesh is compared with the plain fine model mesh (lattice-edge-snapped "
        "multiset hash), sent through the soup deciders with exact float ids, and compared face-for-face with the direct Marching...Search mesh. distinct = distinct op lines"
    ),
    trusted=[
        "regenerated, not modelled: the 256-row and 16-row lookup tables (dumped by executing mcLookupTable()/msLookupTable() of the current tree through the verif hook; the dump is repeated 20x and must be identical)",
        "regenerated, not modelled: the expansion MarchingSquaresC2F/MarchingCubesC2F apply to a fine block's bounds as a function of the caller's extraSpace and the shape of the filter closure (Gen/C01Margin.lean, go/ast); math.Sqrt is uninterpreted with sqrt(x)^2 = x and sqrt(x) >= 0",
        "MECHANISED lifts (all lattice sizes, all labellings with empty outer layer): ms_closed_on_every_lattice (2-D: one incoming and one outgoing segment at every vertex), mc_edges_balanced_on_every_lattice (3-D: every directed edge occurs at most once and its reverse exactly as often), both from kernel-decided local facts (msLocalOk / mcLocalOk) about the regenerated tables, extended to the coarse-to-fine routines under the documented cover; and bitmap_closed_on_every_bitmap (Bitmap.Mesh: every segment end has one outgoing and one incoming segment, every image up to 15998 pixels per side - the bound is the model's 16-bit packing of quarter-pixel coordinates) from the 65 536 kernel-decided windows",
        "coarse-to-fine: the documented contract is READ as: with E*smallDelta <= extraSpace every fine sign-change cell within E fine steps + one coarse spacing (max-norm) of a coarse sign-change cell must be meshed (seenAll2/3 m (m+E)); solids violating it are not compared (the documented limitation of C2F). Hypotheses of the c2f theorems not proved about the code: the filter keeps a block whenever a coarse-mesh vertex lies in its expanded bounds (completeness of RectCollision: C07/C08), the real coarse mesh has a vertex on every coarse sign-change cell (M3d.C12.coarse_mixed_cell_has_vertex2/3, c2f_search_stays_on_edge; checked per case by C12's *-hverts kinds), integer spacing ratios; float rounding of bounds is absorbed by the slack (2*sqrt(3)-2)*bigDelta",
        "MECHANISED (3-D, second half): mc_fans_one_cycle_on_every_lattice - for every lattice size, labelling with empty outer layer and position V the link of V in the assembled mesh is empty or ONE simple closed cycle (no vertex pinches two sheets), from the kernel-decided mcFanLocalOk (256 rows x 12 edges: the fan is a simple path from its start face to its end face, counter-clockwise about inside->outside) and mc_edges_balanced_on_every_lattice; the orientation clause (normals from the contained to the excluded side) is the per-cell kernel-decided mc_fan_is_outward_path - a triangle's orientation is decided inside its cell",
        "parametric generators (polar/cylinder/cone/torus/polytope/rect-set/height-map/profile): judged per generated instance by the proved deciders (seam/pole vertex coincidence is float equality of sin/cos results), not proved for all parameters; RectSet.Mesh additionally by M3d.RectSpec (soundness of its margins - samples >= gap/3 from grid planes, probes gap/4 long, pull <= 0.1*gap - is a written argument in the file header)",
    ],
    assumptions=[
        "solids are seen only through their value on the sampling lattice, with an empty outer layer (the scanners panic otherwise)",
        "coarse-to-fine: the documented cover holds for the caller's extraSpace (evaluated by the driver on every case)",
    ],
    level_text=(
        "Kernel-decided theorems over the complete finite configuration space named by the property (256 cube / 16 square configurations, all 3x16 shared-face labellings, all 256x12 vertex fans incl. "
        "outward winding, all 65 536 4x4 pixel windows) about tables REGENERATED from /repo on every run, so an edit to baseTriangleTable, the rotation machinery, the first-rotation-wins rule or the "
        "inverse-row generation re-runs every theorem; mechanised local-to-global lifts for marching squares (in/out degree one), bitmap outlining (in/out degree one) and marching cubes (edge balance AND one cycle per vertex fan) on every lattice, edge balance carried over to "
        "MarchingSquaresC2F/MarchingCubesC2F for every spacing ratio, solid and extraSpace under the documented cover, with the margin as written in the source (regenerated) proved sufficient; proved "
        "manifold deciders for real outputs; plus exact correspondence of whole-lattice meshes with the real marching cubes/squares/bitmap/coarse-to-fine code and verdicts on real outputs of all other "
        "mesh generators (box sets also against the union of the boxes as a point set: orientation per triangle, winding numbers, volume)."
    ),
    level_note=(
        "Local theorems are machine-checked; the local-to-global lifts are mechanised for marching squares (in/out degree), bitmap outlining, and marching cubes (edge balance and fan connectivity; the C2F variants "
        "up to the explicit hypotheses on RectCollision / the coarse mesh listed under trusted). Parametric generators and RectSet.Mesh are covered per instance by proved deciders. Trusted: Lean kernel, "
        "table dump hook, go/ast margin extractor, harness/driver."
    ),
)
