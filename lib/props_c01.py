import os, subprocess


def search(c, cfg, missing):
    """A table theorem no longer checks: ask the (table-regenerated) driver which local obligation
    fails at which configuration.  The concrete failing input itself is produced by the
    correspondence's exhaustive single-cell sweep (a 2x2x2 lattice solid meshed by the real code
    whose mesh the deciders reject); this adds the diagnosis to the notes/replay."""
    drv = os.path.join(c.lean, ".lake", "build", "bin", "drv_c01")
    try:
        p = subprocess.run([drv], input="c01 tablecheck\n", stdout=subprocess.PIPE, text=True, timeout=600)
        c.notes.append("tablecheck: " + p.stdout.strip()[:2000])
        c.extra_cov["tablecheck"] = p.stdout.strip()[:2000]
    except Exception as e:  # noqa
        c.notes.append(f"tablecheck failed to run: {e}")
    return False


PROP = dict(
    module="M3d.Props.C01",
    gen=["McTable", "C01Margin", "Kernels"],
    tie_modules=["M3d.Lemmas.C01MarginTie", "M3d.Lemmas.KernelsTieC01"],
    corr=dict(quick=150, thorough=800),
    search=search,
    corr_theorems=(
        "mc/ms/bitmap kinds: M3d.C01.mc_* / ms_* (tables, kernel-decided), ms_closed_on_every_lattice, mc_edges_balanced_on_every_lattice, mc_fans_one_cycle_on_every_lattice, bitmap_in_out_one and bitmap_closed_on_every_bitmap; "
        "whole-lattice meshes are assembled from the regenerated table by M3d.Marching.mcMesh/msMesh/bitmapMesh; "
        "msc2f/mcc2f kinds (coarse-to-fine): the driver evaluates the documented cover M3d.C2F.seenAll2/3 m (m+E) on the two labellings and answers with the plain fine mesh: "
        "c2f_ms_closed_under_documented_cover / c2f_mc_edges_balanced_under_documented_cover / c2f_mc_fans_one_cycle_under_documented_cover (via M3d.C12.c2f_ms_sound / c2f_mc_sound) together with the tie module "
        "M3d.Lemmas.KernelsTieC01 (over the REGENERATED Gen/Kernels.lean: mcCorner_eq / msCorner_eq / mc_mid_eq_gvOf / ms_mid_eq_gv2Of - corner i of mcCornerCoordinates / msCornerCoordinates has the cell's max on axis k iff bit k of i is set, so corners[a].Mid(corners[b]) is the model's vertex position gvOf / gv2Of; quadMinMax_eq - the face key of ExactMesh is M3d.RectMesh.quadKey); "
        "M3d.Lemmas.C01MarginTie (ms/mc_total_ge_extra_plus_two_coarse, c2f_ms_closed_code_margin, c2f_mc_balanced_code_margin: the expansion REGENERATED from the source is at least "
        "E*smallDelta + 2*bigDelta); same msc2f-direct / mcc2f-direct: the same theorems (C2F face multiset = plain fine one); "
        "mcs/mss kinds (MarchingCubesSearch, MarchingCubesSearchFilter, the mesh of MarchingCubesInterior, MarchingSquaresSearch(+Filter)): the driver answers with the plain lattice mesh and the harness snaps every real vertex to the lattice edge it lies STRICTLY inside of: "
        "search_vertex_strictly_inside_edge, search_positions_distinct, mc_search_edges_balanced_on_every_lattice, mc_search_fans_one_cycle_on_every_lattice, ms_search_closed_on_every_lattice (the searched mesh is the lattice mesh under an injective vertex map, for every solid and iteration count), interior_probe_collapses (the interior probe must not be the vertex); mcj / msj kinds (MarchingCubesConj / MarchingSquaresConj, the returned mesh mapped forward again onto the lattice of the transformed solid; the driver answers with the plain lattice mesh, every face reversed iff the transform list reverses orientation) and soup3/mcj, soup2/msj (the returned mesh itself): conj_flip_iff_reversing / conj2_flip_iff_reversing (for every invertible affine map back the sign test reverses the faces exactly when det < 0), conj_normals_follow_the_solid / conj2_normals_follow_the_solid (normals point the way they did in the transformed space), mc_conj_outward_on_every_lattice_partial / ms_conj_outward_on_every_lattice_partial (the lattice instances; partial in the positivity of the total volume of the searched mesh, which the driver computes exactly on every case), mc_conj_edges_balanced_on_every_lattice, mc_conj_fans_one_cycle_on_every_lattice, ms_conj_closed_on_every_lattice (closed manifold for every injective map back and either outcome of the sign test) + the decider theorems; "
        "meshrect / meshrect2 kinds (model3d.NewMeshRect / model2d.NewMeshRect, exact triangle / segment multiset = M3d.RectMesh.meshRect / meshRect2): mesh_rect_is_closed_manifold, mesh_rect2_is_closed, exactmesh_quads_face_outward (closed outward manifold for EVERY box of positive extent); "
        "rsmesh kind (RectSet.ExactMesh() after a history of Add/Remove/AddRectSet/RemoveRectSet, exact triangle multiset = M3d.RectMesh.exactMesh on C04's model of the operations): validates the faithful model of exactmesh_face_kept_iff_unshared, exactmesh_shared_face_is_between_adjacent_cells, exactmesh_is_closed, exactmesh_quads_face_outward, rectset_history_positive (with M3d.C04.rectset_history_aligned / M3d.RectSet.hinv); "
        "soup2o/soup3/rectset/rectops verdicts balanced= fans= inout=: soup_closed_manifold_decided, soup_in_out_one_decided (the sort/bucket deciders decide exactly Surface.ClosedManifold / InOutOne); "
        "rectset/rectops verdicts tri= wind= vol=: exact evaluation of M3d.RectSpec on the real triangles against the boxes as a point set (rectops: the point set of the history, M3d.RectSet.Hist.sem, on the grid of its essential planes) - per instance, no theorem for all inputs"
    ),
    rule=(
        "(a) exhaustive: all 256 (16) single-cell configurations as 2x2x2 (2x2) lattice solids through the real MarchingCubes/MarchingSquares; "
        "(b) random lattice labellings up to 4x4x4 / 6x6 (uniform, sparse, dense, noisy checkerboards = ambiguous configurations) and blobs up to 8^3 / 26^2 through MarchingCubes, MarchingCubesFilter, "
        "MarchingSquares(+Filter), Bitmap.Mesh: real triangle/segment lists must equal the model's lists and the deciders must accept; "
        "(c) real outputs of every other generator named by the property (rect, icosahedron, icosphere, polar, cylinder, cone, torus, profile, polytope, height-map, search-refined MC/MS) as id soups "
        "with exact float coordinates through the deciders + exact signed volume (3-D) / exact shoelace sum (2-D: contained side on the right of every segment); "
        "(d) box sets (kind rectset): RectSet.Mesh() on dyadic boxes - blocks with extents 2^-3..200 and beads / crumbs / plates of thickness 2^-4..2^-26 touching along edges or at vertices, placed in the "
        "FIRST and the LAST grid interval of each axis, diagonal chains, integer stairs, the 2^-13 bead on the 100x1x100 block in all four first/last combinations: judged against the boxes as a point set "
        "(closed manifold, per-triangle outward probe, winding number at three generic samples of every grid cell, exact volume); "
        "(e) coarse-to-fine (kinds msc2f/mcc2f): MarchingSquaresC2F/MarchingCubesC2F at spacing ratios 2,4,8,16,32 on rects, CSG of boxes with notches, convex polygons/polytopes with small-integer "
        "normals, boxes with a thin spike/rod strictly between two coarse lattice lines; tight or padded bounds (random phase against both lattices); extraSpace = the least number of fine steps for which "
        "the documented cover holds (0 for solids the coarse pass sees; > 0 for spikes/rods) plus {0,0,0,1,3}; iters in {0,4,8}; the real mesh is compared with the plain fine model mesh (lattice-edge-snapped "
        "multiset hash), sent through the soup deciders with exact float ids, and compared face-for-face with the direct Marching...Search mesh; "
        "(f) searched members (kinds mcs/mss): MarchingCubesSearch / MarchingCubesSearchFilter / MarchingCubesInterior / MarchingSquaresSearch(+Filter) with iters in {0,0,1,2,3,5,8,12} on ORACLE solids - a random lattice labelling (as in (b)) whose value "
        "between the lattice points is always outside / always inside / a hash of the probe position / one crossing per lattice edge at k/16 incl. 0 and 16 (surface through a lattice point) - and on the sharp CSG / polytope solids of (e), whose faces lie ON lattice planes "
        "for a quarter of the coordinates: every real vertex must lie strictly inside exactly one lattice edge and the snapped mesh must be the model's lattice mesh; the exact-float mesh also goes through the deciders; "
        "(g) the discretisation parameter of the parametric generators COMPLETELY over a range: NewMeshPolar for every stops = 3..104 (thorough: 105..180 as well - every fourth value per seed with phase = seed mod 4, so the eight seeds of a thorough check cover each value twice) with varying radius functions (nil included) plus random stops up to 420, model2d.NewMeshPolar for every stops up to 208, "
        "cylinders / cones with 3..600 stops, tori up to 92x92 - whether a seam closes is float equality of sin/cos at k*(2*pi/stops), a property of the individual stops value; "
        "(h) box sets built the way a caller may: box by box with Add or as sub-sets merged with AddRectSet (recursively), incl. families where grid planes of one box pass through another (overlap, slab_on_post, cross); histories with Remove / RemoveRectSet "
        "(notches, through-cuts, slices, thin slots, removing exactly an earlier box): ExactMesh() triangle-for-triangle against the model (rsmesh) and Mesh() against the point set of the history (rectops); "
        "(i) NewMeshRect 3-D / 2-D on boxes with extents 2^-30..2^30, offsets up to 2^30, negative and non-dyadic coordinates: exact triangle / segment multiset against the model; "
        "(j) MarchingCubesConj / MarchingSquaresConj with 1-3 exact transforms - dyadic translations, VecScale by +-powers of two (independent signs), Scale by +-2^k, signed permutation matrices with power-of-two factors - about half of the lists ORIENTATION-REVERSING (mirror images, negative scales, reflection matrices, odd numbers of them), on the solids of (e), spacing chosen so that the lattice of the transformed solid stays small: the returned mesh mapped forward again (exactly) and snapped to that lattice must be the lattice mesh, reversed iff the list reverses orientation (faces hashed up to rotation of the vertex order), and the returned mesh itself goes through the deciders + exact signed volume / shoelace sum. distinct = distinct op lines"
    ),
    trusted=[
        "regenerated, not modelled: the 256-row and 16-row lookup tables (dumped by executing mcLookupTable()/msLookupTable() of the current tree through the verif hook; the dump is repeated 20x and must be identical)",
        "regenerated and TIED (Gen/Kernels.lean, go2lean translation of the current source): model3d.mcCornerCoordinates, model2d.msCornerCoordinates (the corner-index convention the lattice models place their vertices by) and toolbox3d.quadMinMax (= M3d.RectMesh.quadKey) - M3d.Lemmas.KernelsTieC01; the translator itself is validated bit for bit by C06's gk kinds",
        "regenerated, not modelled: the expansion MarchingSquaresC2F/MarchingCubesC2F apply to a fine block's bounds as a function of the caller's extraSpace and the shape of the filter closure (Gen/C01Margin.lean, go/ast); math.Sqrt is uninterpreted with sqrt(x)^2 = x and sqrt(x) >= 0",
        "MECHANISED lifts (all lattice sizes, all labellings with empty outer layer): ms_closed_on_every_lattice (2-D: one incoming and one outgoing segment at every vertex), mc_edges_balanced_on_every_lattice (3-D: every directed edge occurs at most once and its reverse exactly as often), both from kernel-decided local facts (msLocalOk / mcLocalOk) about the regenerated tables, extended to the coarse-to-fine routines under the documented cover; and bitmap_closed_on_every_bitmap (Bitmap.Mesh: every segment end has one outgoing and one incoming segment, every image up to 15998 pixels per side - the bound is the model's 16-bit packing of quarter-pixel coordinates) from the 65 536 kernel-decided windows",
        "coarse-to-fine: the documented contract is READ as: with E*smallDelta <= extraSpace every fine sign-change cell within E fine steps + one coarse spacing (max-norm) of a coarse sign-change cell must be meshed (seenAll2/3 m (m+E)); solids violating it are not compared (the documented limitation of C2F). Hypotheses of the c2f theorems not proved about the code: the filter keeps a block whenever a coarse-mesh vertex lies in its expanded bounds (completeness of RectCollision: C07/C08), the real coarse mesh has a vertex on every coarse sign-change cell (M3d.C12.coarse_mixed_cell_has_vertex2/3, c2f_search_stays_on_edge; checked per case by C12's *-hverts kinds), integer spacing ratios; float rounding of bounds is absorbed by the slack (2*sqrt(3)-2)*bigDelta",
        "MECHANISED (3-D, second half): mc_fans_one_cycle_on_every_lattice - for every lattice size, labelling with empty outer layer and position V the link of V in the assembled mesh is empty or ONE simple closed cycle (no vertex pinches two sheets), from the kernel-decided mcFanLocalOk (256 rows x 12 edges: the fan is a simple path from its start face to its end face, counter-clockwise about inside->outside) and mc_edges_balanced_on_every_lattice; the orientation clause (normals from the contained to the excluded side) is the per-cell kernel-decided mc_fan_is_outward_path - a triangle's orientation is decided inside its cell",
        "MECHANISED (searched members): for every lattice, labelling with empty outer layer, lattice origin, spacing > 0, solid (an arbitrary Bool-valued function of the point) and iteration count, the mesh of MarchingCubesSearch / SearchFilter / Interior / C2F's search step (model M3d.C01Search.searchMesh over C02's bisection model M3d.Bisect.mcSearchPoint) is edge-balanced and every vertex fan is one cycle, "
        "and the MarchingSquaresSearch outline is closed, because the searched vertex lies strictly inside its lattice edge (search_vertex_strictly_inside_edge) and the vertex map is therefore injective (search_positions_distinct); the bisection loop itself is tied bit-for-bit by C02, here only through the snapped comparison",
        "Conj members (after /repo d1d50a8): MECHANISED for every injective map back: closed manifold whatever the sign test decides; for every invertible AFFINE map back (Translate, Scale, VecScale, Matrix3Transform, their inverses and joins): the sign test of the code (signed volume / area of the mapped mesh, measured from any of its vertices) reverses the faces exactly when the map reverses orientation, and the normals point the way they did in the transformed space - given that the searched mesh of the transformed solid is closed (proved) and has positive signed volume (NOT mechanised for all lattices: per cell mc_fan_is_outward_path / ms_role_rule; the total is computed exactly by the driver on every case). Non-affine transforms (toolbox3d squeezes / pinches) are covered by the closedness theorems only; the harness generates affine lists",
        "MECHANISED (box sets, ExactMesh): for every history of Add/Remove/AddRectSet/RemoveRectSet of boxes of positive extent the uniqueQuads loop keeps exactly the faces of stored boxes that no other stored box has, a shared face is the face between two adjacent cells, the result is a CLOSED surface (every directed triangle side as often as its reverse, exactmesh_is_closed), and the listed quads face away from their box; NewMeshRect (3-D, 2-D) is a closed outward manifold for every box of positive extent (mesh_rect_is_closed_manifold, mesh_rect2_is_closed) "
        "(exactmesh_*; representation invariant from C04: M3d.RectSet.hinv). NOT mechanised: the singular edge / vertex repair of Mesh() (FixSingularEdges / FixSingularVertices, float geometry) - judged per instance by M3d.RectSpec; the state of the real RectSet is compared with the model of the operations by C04's kind rs, here only through ExactMesh()",
        "parametric generators (polar/cylinder/cone/torus/polytope/rect-set/height-map/profile): judged per generated instance by the proved deciders (seam/pole vertex coincidence is float equality of sin/cos results), not proved for all parameters; RectSet.Mesh additionally by M3d.RectSpec (soundness of its margins - samples >= gap/3 from grid planes, probes gap/4 long, pull <= 0.1*gap - is a written argument in the file header)",
    ],
    assumptions=[
        "solids are seen only through their value on the sampling lattice, with an empty outer layer (the scanners panic otherwise)",
        "coarse-to-fine: the documented cover holds for the caller's extraSpace (evaluated by the driver on every case)",
    ],
    level_text=(
        "Kernel-decided theorems over the complete finite configuration space named by the property (256 cube / 16 square configurations, all 3x16 shared-face labellings, all 256x12 vertex fans incl. "
        "outward winding, all 65 536 4x4 pixel windows) about tables REGENERATED from /repo on every run, so an edit to baseTriangleTable, the rotation machinery, the first-rotation-wins rule or the "
        "inverse-row generation re-runs every theorem; mechanised local-to-global lifts for marching squares (in/out degree one), bitmap outlining (in/out degree one) and marching cubes (edge balance AND one cycle per vertex fan) on every lattice, edge balance carried over to "
        "MarchingSquaresC2F/MarchingCubesC2F for every spacing ratio, solid and extraSpace under the documented cover, with the margin as written in the source (regenerated) proved sufficient; proved "
        "the searched variants (Search / SearchFilter / Interior / MarchingSquaresSearch) for every solid and iteration count via injectivity of the vertex map; the Conj variants closed for every injective map back and outward for every invertible affine transform list, mirror images included (the reversal decided by the sign of the mapped volume); RectSet.ExactMesh's face cancellation and closedness for every history of box operations; NewMeshRect for every box; proved "
        "manifold deciders for real outputs; plus exact correspondence of whole-lattice meshes with the real marching cubes/squares/bitmap/coarse-to-fine code and verdicts on real outputs of all other "
        "mesh generators (box sets also against the union of the boxes as a point set: orientation per triangle, winding numbers, volume)."
    ),
    level_note=(
        "Local theorems are machine-checked; the local-to-global lifts are mechanised for marching squares (in/out degree), bitmap outlining, and marching cubes (edge balance and fan connectivity; the C2F variants "
        "up to the explicit hypotheses on RectCollision / the coarse mesh listed under trusted). Parametric generators and RectSet.Mesh are covered per instance by proved deciders. Trusted: Lean kernel, "
        "table dump hook, go/ast margin extractor, harness/driver."
    ),
)
