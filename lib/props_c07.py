PROP = dict(
    module="M3d.Props.C07",
    corr=dict(quick=400, thorough=3000),
    gen=[],
    corr_theorems=(
        "obs2/obs3 lines print the verdict of M3d.Col.obsVerdict (the Boolean obsOk; M3d.C07.contract_obs: it is implied by "
        "the contract) on the observation of the real collider; rectx/rectb = rectCollider (M3d.C07.rect_hits), trix/trib = "
        "triCollider + triRay (triangle_hit_iff), seg2x/seg2b = seg2Collider (segment2d_hit_iff), sphereb (3-D Sphere and 2-D "
        "Circle) = sphereCollider (sphere_hits_on_surface, sphere_normal_unit_outward), planeb/circleb = castPlane/castCircle "
        "(plane_circle_hit), cylb = cylCollider (plane_circle_hit + first_is_min), capb = capsuleCollider "
        "(capsule_phantom_contract), joinx = joined with an always-admitting prefilter, i.e. brute force (joined_contract), "
        "profx = profileCollider over joined 2-D segments (profile_contract, profile_faces_and_sides), ballx/circx = the "
        "sqrt-free closest-point specification triBallSpec/seg2BallSpec (ball_touches_iff_triangle, ball_touches_iff_segment2d; refused with "
        "MODEL-NE-SPEC if the faithful model triSphere/seg2Circle disagrees), segx = triSegment"
    ),
    rule=(
        "every case is one ray (or ball/segment/box) against one collider built by the real constructors. obs: all collider "
        "kinds (Sphere Rect Capsule Cylinder Cone Torus Triangle, mesh colliders via MeshToCollider/BVHToCollider/ungrouped/"
        "InterpNormal over box, icosphere, cylinder, torus, cone, icosahedron, polar meshes, JoinedCollider incl. nested, "
        "ProfileCollider, TransformCollider with translate/scale(+-)/rotation/joins, SolidCollider, nullCollider; 2-D: Circle "
        "Rect Capsule Segment Triangle mesh Joined Transform), origins in/around/far/on-surface/centre, directions axis-aligned/"
        "planar/random/aimed, all scaled to non-unit length. exact kinds: dyadic data, axis-aligned power-of-two triangles/"
        "segments/boxes, directions with components 0 or +-2^k (non-unit, not axis-aligned), origins aimed at lattice points "
        "inside / on edges and vertices / outside, also from behind. bits kinds: arbitrary doubles incl. parallel and "
        "through-vertex rays. distinct = distinct operation lines; #stat counters give hits per kind, ray classes, parity "
        "inside counts, soup query outcomes"
    ),
    trusted=[
        "modelled, not verified: float64 arithmetic as exact field arithmetic in the theorems; the bits kinds tie the same generic definitions to the Go code operation by operation on arbitrary doubles",
        "math.Sqrt is the parameter sqrtF (hypothesis SqrtOK: non-negative and squares back); the 1e-8 of the parallel tests is the parameter eps; the near-parallel rejection appears as an explicit condition in triangle_hit_iff / segment2d_hit_iff / plane_circle_hit",
        "Cone side and Torus intersections go through numerical.Polynomial.IterRealRoots: not modelled; only the contract (obs) and tolerance residuals labelled validation: are checked for the hit parameters (the cone normal formula itself is proved perpendicular: cone_normal_perpendicular)",
        "SolidCollider is approximate by documentation: contract only",
        "parity: proved for the convex cells Rect and Sphere only (parity_inside_box_partial, parity_inside_sphere_partial); for meshes, tori, cones, capsules, cylinders, profiles and transformed shapes it is checked on the real code against winding numbers / analytic containment (PropFail c07:parity-vs-contains)",
        "ball queries: theorems for 2-D Segment.CircleCollision (the Go method itself), for |SDF|<=r on Sphere/Circle, and for the sqrt-free vertex/edge/face specification triBallSpec of Triangle.SphereCollision (= some point of the triangle within r, closest-point lemma proved); the Go method Triangle.SphereCollision (square roots, rayCollision along the normal) is tied to triBallSpec by exact-mode correspondence (ballx refuses MODEL-NE-SPEC), not by theorem; other primitives' |SDF|<=r rely on C06",
        "bounding-box prefilters of JoinedCollider are sound by C08; joined_contract holds whatever the prefilter answers",
        "sort.Slice in Capsule.RayCollisions is modelled as an insertion sort; only the first and last element are used (cases with tied parameters are skipped in capb)",
        "residual / outward-normal / parity checks compare floats with a tolerance (1e-7 relative; 1e-5 for root-finder shapes): they are PropFail predicates on the implementation, not what the theorems rest on",
    ],
    assumptions=[
        "non-zero ray directions, non-degenerate shapes (positive radii, P1 != P2, triangles of non-zero area), no NaN/Inf",
        "general position for parity: origin not on the surface, no two hits coinciding",
        "open-ball convention for Triangle/Segment SphereCollision (strict <), closed ball for |SDF| <= r primitives, as in the code",
    ],
    level_text=(
        "Machine-checked (Lean 4, every linear ordered field): the collider contract (count = callbacks = count without "
        "callback, parameters >= 0, first = minimum, exists iff count != 0) for JoinedCollider/joinedMultiCollider given "
        "the children (callbacks = concatenation, first = min over children), profileCollider (vertical/flat/general cases, "
        "side filter = z-range, faces on the planes), Capsule's phantom removal (reported = min/max of candidates, phantoms "
        "lie inside), transformedCollider, and every min-callback FirstRayCollision; exact hits: Sphere/Circle quadratic "
        "(roots on the surface, complete, ordered, >= 0 filter, none when disc < 0, unit outward normal), Rect slab method "
        "(the reported parameters are entry/exit of the exact parameter interval of the box), Triangle Moller-Trumbore "
        "(hit iff unique barycentric solution in range with t >= 0, non-unit directions, exactly-parallel rays report "
        "nothing), 2-D Segment, castPlane/castCircle, the repaired Cone normal is perpendicular to the cone; parity for "
        "the convex cells Rect and Sphere; ball queries: 2-D segments, |SDF| <= r on spheres, and the vertex/edge/face analysis of "
        "Triangle.SphereCollision = squared distance to the triangle < r^2 (closest-point lemma proved). The generic models "
        "are tied to /repo on every run: bit-for-bit at Float on arbitrary doubles (Sphere, Circle, Rect, Triangle, "
        "Segment, castPlane, castCircle, Cylinder, Capsule) and exactly at Rat on dyadic data (Rect, Triangle, Segment, "
        "triangle soups through the real mesh colliders, ProfileCollider, ball/segment queries); the contract predicate "
        "itself is evaluated on observations of every collider kind."
    ),
    level_note=(
        "Proved about lean/M3d/Model/Collide.lean over ordered fields, not floats. Cone/Torus root finding and SolidCollider "
        "are only covered by the contract and tolerance residuals; parity beyond convex cells is tied by independent "
        "winding-number / analytic containment computation in the harness, not by theorem."
    ),
)
