PROP = dict(
    module="M3d.Props.C07",
    corr=dict(quick=400, thorough=3000),
    gen=["Kernels"],
    tie_modules=["M3d.Lemmas.KernelsTieCollide", "M3d.Lemmas.KernelsTieCollideQuery"],
    corr_theorems=(
        "obs2/obs3 lines print the verdict of M3d.Col.obsVerdict (the Boolean obsOk; M3d.C07.contract_obs: it is implied by "
        "the contract) on the observation of the real collider; rectx/rectb = rectCollider (M3d.C07.rect_hits), trix/trib = "
        "triCollider + triRay (triangle_hit_iff), seg2x/seg2b = seg2Collider (segment2d_hit_iff), sphereb (3-D Sphere and 2-D "
        "Circle) = sphereCollider (sphere_hits_on_surface, sphere_normal_unit_outward), planeb/circleb = castPlane/castCircle "
        "(plane_circle_hit), cylb = cylCollider (cylinder_hits_on_surface, first_is_min), capb = capsuleCollider "
        "(capsule_phantom_contract, capsule_hits_on_surface), coneb = coneCollider, the complete Cone.RayCollisions "
        "(cone_hits_on_surface, cone_normal_perpendicular, first_is_min), joinx = joined with an always-admitting prefilter, "
        "i.e. brute force (joined_contract), profx = profileCollider over joined 2-D segments (profile_contract, "
        "profile_faces_and_sides), ballx/circx = the sqrt-free closest-point specification triBallSpec/seg2BallSpec "
        "(ball_touches_iff_triangle, ball_touches_iff_segment2d_spec; refused with MODEL-NE-SPEC if the faithful model "
        "triSphere/seg2Circle disagrees), segx = triSegment, tballx/tcircx = the ball test of the IMAGE triangles/segments "
        "(transformed_ball_touches_iff_triangle, transformed_circle_touches_iff_segment2d, joined_ball_any; refused with "
        "MODEL-NE-SPEC if the faithful model tSphere/tCircle of transformedCollider.SphereCollision/CircleCollision - centre "
        "through t.Inverse(), radius through t.Inverse().ApplyDistance - disagrees; transformed_ball_query, "
        "transformed_ball_touches_iff), tsphx/tcirc2x = the sqrt-free sphere/ball test of the image sphere/circle "
        "(transformed_ball_touches_iff_sphere, transformed_circle_touches_iff_circle2d, ball_touches_iff_sphere), containx = "
        "colliderContains over the brute-force joined collider (parity_inside_closed_mesh, parity_direction_independent: for "
        "a closed mesh that parity is the parity along every general-position ray); rect2x = seg2RectSpec on some segment, "
        "i.e. some segment of the 2-D mesh has a point in the closed box (rect_touches_iff_segment2d_spec; refused with "
        "MODEL-NE-SPEC if the faithful model seg2Rect of Segment.RectCollision disagrees on a segment - "
        "rect_touches_iff_segment2d - or, mode G, if the faithful model meshRect2 of the hierarchy with the bounds test of "
        "joinedMultiCollider.RectCollision at every node disagrees - mesh_rect_touches_iff, rect_bounds_test_iff); tritrix = "
        "triTri, the model of Triangle.TriangleCollisions, reports a segment (triangle_collisions_iff: the computed segment "
        "is exactly the set of common points of the two triangles, nothing computed = at most one common point; "
        "triangle_collisions_report: when nothing is returned; triangle_shared_edge_only); mtritrix = number of mesh "
        "triangles for which triTri reports a segment (mesh_triangle_collisions: a hierarchy returns the concatenation of "
        "its leaves' answers; mode G refuses MODEL-NE-SPEC if the faithful model meshTriTri of the hierarchy differs); "
        "msegx / mseg2x = some triangle's Triangle.SegmentCollision (triSegment) / some segment's Segment.SegmentCollision "
        "(seg2Segment) answers true (segment_touches_iff_triangle, segment_touches_iff_segment2d; mesh_segment_touches_iff, "
        "mesh_segment_touches_iff_2d, segment_bounds_test_sound, joined_tree_any; mode G refuses MODEL-NE-SPEC if the "
        "faithful hierarchy meshSegment3 / meshSegment2 with the rayCollisionWithBounds test at every node differs); "
        "profballx = profBallSpec, the square-root-free form of profileCollider.SphereCollision (profile_ball_touches_iff, "
        "profile_ball_touches_iff_mesh: the open ball meets a wall or a face of the extrusion; refused with MODEL-NE-SPEC if "
        "the faithful model profSphere with the square root differs)"
    ),
    rule=(
        "every case is one ray (or ball/segment/box) against one collider built by the real constructors. obs: all collider "
        "kinds (Sphere Rect Capsule Cylinder Cone Torus Triangle, mesh colliders via MeshToCollider/BVHToCollider/ungrouped/"
        "InterpNormal over box, icosphere, cylinder, torus, cone, icosahedron, polar meshes, JoinedCollider incl. nested, "
        "ProfileCollider, TransformCollider with translate/scale(+-)/rotation/joins, SolidCollider, nullCollider; 2-D: Circle "
        "Rect Capsule Segment Triangle mesh Joined Transform), origins in/around/far/on-surface/centre, directions axis-aligned/"
        "planar/random/aimed, all scaled to non-unit length. exact kinds: dyadic data, axis-aligned power-of-two triangles/"
        "segments/boxes, directions with components 0 or +-2^k (non-unit, not axis-aligned), origins aimed at lattice points "
        "inside / on edges and vertices / outside, also from behind. transformed ball kinds (tballx tsphx tcircx tcirc2x): "
        "dyadic Translate, Scale +-2^k with k in -2..2 (mostly non-unit, negative too), all signed permutation matrices as "
        "orthoMatrix transforms, JoinedTransforms of up to three of them (nested), wrapped Triangle / mesh colliders / Sphere / "
        "2-D Segment / mesh / Circle; radii next to the true distance d of the centre from the image surface, next to d/f, "
        "d*f, d/f^2, d*f^2 (f the distance factor) and arbitrary, exactly tangent balls only where every operation is exact; "
        "the counter between-r-and-r*f^2 gives the cases whose answer changes when the radius is converted with the wrong "
        "direction of ApplyDistance. containx: ColliderContains with margins on dyadic box meshes, pairs of boxes, soups, "
        "origins on a 1/16-offset grid. bits kinds: arbitrary doubles incl. parallel and through-vertex rays, cones incl. "
        "axis-aligned ones, rays through the apex and along the axis. trix/joinx also aim 2^-28..2^-36 (barycentric) next "
        "to an edge of the triangle / next to the diagonal two triangles of a box mesh share (still exact). rect2x: 2-D "
        "meshes with straight axis-aligned runs - outlines of rectangles whose sides are split into 1..8 pieces, outlines "
        "of random sets of grid cells, polylines with repeated steps, soups; vectors with components 0 or +-2^k, dyadic "
        "positions, boxes with power-of-two sides (every float operation of Segment.RectCollision is exact) - through "
        "GroupedSegmentsToCollider in construction / GroupSegments / shuffled order (mode G), MeshToCollider, "
        "BVHToCollider; boxes across a point of a segment, with the point on their boundary, next to it, big, random "
        "(counter across-axis-aligned-segment = the box strictly straddles an axis-aligned segment). tritrix: pairs of "
        "dyadic triangles - random, one through a point of the other, exactly one common vertex with the opposite edge "
        "through the other triangle (one-common-vertex.1 = they meet in a segment), a common edge, identical, co-planar / "
        "parallel, a vertex on the other's face, axis-aligned; emitted only where rounding cannot decide (exact common "
        "segment computed with big.Rat by plane clipping: none / a point / longer than 1e-5, no edge of one triangle in "
        "the plane of the other, not within the documented near-co-planarity tolerance). mtritrix: grid-split boxes, "
        "tetrahedra, soups through GroupedTrianglesToCollider (given / GroupTriangles order, mode G), MeshToCollider, "
        "BVHToCollider, query triangles with a corner bit-equal to a mesh vertex. msegx: box meshes and soups of the exact "
        "family, segments s0 + [0,1]*d aimed so that the hit parameter is -1/2 .. 3 (incl. exactly 0 and 1), through the "
        "same four hierarchies; mseg2x: the 2-D meshes of rect2x with an axis-aligned or power-of-two-sloped query segment "
        "(one of the two segments axis-aligned, so the determinant is a power of two). profballx: ProfileCollider over one "
        "or two rectangles, subdivided rectangles, cell outlines; ball centres off the outline's grid, below / between / "
        "above the faces, over and beside the solid; radii next to the true distance of the centre from the surface of the "
        "extrusion and arbitrary, tangent balls skipped. distinct = distinct operation lines; #stat counters give "
        "hits per kind, ray classes, radius classes, parity inside counts, soup query outcomes"
    ),
    trusted=[
        "regenerated, not hand-written: lean/M3d/Gen/Kernels.lean (Go->Lean translator harness/hlib/go2lean, run on the current "
        "source on every check); M3d.KernelsTie.Collide.* re-prove against it that segmentEntersSphere and the 2-D segment collider "
        "(Segment.rayCollision with its near-parallel test and in-place inverse, Segment.Normal, Segment.CircleCollision) are the "
        "model functions segEntersSphere, seg2Ray, seg2Normal, seg2Circle of the hit and ball-touch theorems; "
        "M3d.KernelsTie.Collide.rect2_contains_eq / segment2_segment_eq / segment2_rect_eq re-prove that model2d.Rect.Contains, "
        "Segment.SegmentCollision and Segment.RectCollision are rect2Contains, seg2Segment, seg2Rect of rect_touches_iff_segment2d",
        "Triangle.TriangleCollisions (closures, infinities) and joinedMultiCollider (interfaces) are outside the translator's subset: "
        "their models triTri / findRange / treeRect2 / treeTriTri are hand-written and tied by the tritrix, mtritrix, rect2x correspondence "
        "(mode G runs the faithful hierarchy); TriangleCollisions' floats are inexact on dyadic data, so only the decision (a segment or "
        "none; the number of segments) is compared, on cases where the exact intersection (big.Rat in the harness) leaves no room for "
        "rounding, and the reported end points are validated against the exact ones with a 1e-7 tolerance (PropFail "
        "c07:triangle-touches/*/segment-not-the-intersection)",
        "profile_ball_touches_iff assumes that the 2-D outline bounds the 2-D solid (a segment from a point of the solid to a point "
        "outside it meets the outline) - a Jordan-type property of model2d.ColliderSolid's even-odd containment that is a hypothesis, "
        "not a theorem; Solid2D.Contains is modelled in the driver as in profx (bounds + even-odd along the fixed direction)",
        "box queries: 3-D Triangle.RectCollision / Segment.RectCollision are not modelled (the 3-D bounds test is: rect_bounds_test_iff_3d, joined_tree_any); they are compared "
        "with an exact big.Rat clipping in the harness (PropFail c07:ball-touches/mesh-rect, now also on grid-split box meshes whose inner "
        "nodes have bounding boxes without volume); the 2-D mesh RectCollision on arbitrary dyadic segments likewise (c07:box-touches/mesh2d)",
        "modelled, not verified: float64 arithmetic as exact field arithmetic in the theorems; the bits kinds tie the same generic definitions to the Go code operation by operation on arbitrary doubles",
        "math.Sqrt is the parameter sqrtF (hypothesis SqrtOK: non-negative and squares back); the 1e-8 of the parallel tests is the parameter eps, the 1e-5 of safeNormal the parameter tol; the near-parallel rejection appears as an explicit condition in triangle_hit_iff / segment2d_hit_iff / plane_circle_hit and in the hypotheses of the parity theorems",
        "Torus intersections go through the quartic branch of numerical.Polynomial.IterRealRoots: not modelled; only the contract (obs) and tolerance residuals labelled validation: are checked for the hit parameters. (Cone.RayCollisions is modelled completely: its side polynomial has degree <= 2.)",
        "SolidCollider is approximate by documentation: contract only",
        "parity: theorems for Rect, Sphere, every convex solid given by half-spaces, closed convex meshes, and - direction independence and agreement with ColliderContains - arbitrary closed triangle meshes and closed 2-D polygon systems, all for rays in general position stated as explicit hypotheses; that ColliderContains agrees with a geometric inside (winding number) and parity for tori, cones, capsules, cylinders, profiles and transformed shapes are checked on the real code (PropFail c07:parity-vs-contains, c07:collider-contains)",
        "ball queries: theorems for 2-D Segment.CircleCollision (the Go method itself), Sphere/Circle (|SDF| <= r, the Go method), the sqrt-free vertex/edge/face specification triBallSpec of Triangle.SphereCollision (= some point of the triangle within r, closest-point lemma proved) and for all of these behind a transformedCollider (= the image shape meets the ball); the Go method Triangle.SphereCollision (square roots, rayCollision along the normal) is tied to triBallSpec by exact-mode correspondence (ballx/tballx refuse MODEL-NE-SPEC), not by theorem; other primitives' |SDF| <= r rely on C06; exactly tangent balls are generated only where every float operation is exact",
        "the transform model (Translate, Scale, orthoMatrix transforms, JoinedTransform: Apply, Inverse, ApplyDistance) and its lemmas are C05's (M3d/Model/Transform*.lean, M3d/Lemmas/Transform*.lean), tied to transform.go by C05's correspondence and here by the t...x kinds",
        "bounding-box prefilters of JoinedCollider are sound by C08; joined_contract / joined_ball_any hold whatever the prefilter answers",
        "sort.Slice in Capsule.RayCollisions is modelled as an insertion sort; only the first and last element are used (cases with tied parameters are skipped in capb)",
        "residual / outward-normal / parity checks compare floats with a tolerance (1e-7 relative; 1e-5 for root-finder shapes), the transformed-ball PropFail sites keep radii 5 % away from the true distance: they are PropFail predicates on the implementation, not what the theorems rest on",
        "known finding c07:hit-not-on-surface/profile/degenerate-2d-projection: a ProfileCollider reports a face hit outside the outline when the projected ray grazes a vertex of the outline (see known_findings.jsonl, notes/C07.md)",
    ],
    assumptions=[
        "non-zero ray directions, non-degenerate shapes (positive radii, P1 != P2, Tip != Base, triangles of non-zero area), no NaN/Inf",
        "general position for parity: origin not on the surface, no two hits coinciding, rays not parallel to faces; for the direction independence on closed meshes: no vertex in the plane of the two rays, edges cross that plane off the two lines through the origin",
        "open-ball convention for Triangle/Segment SphereCollision (strict <), closed ball for |SDF| <= r primitives, as in the code",
        "transforms accepted by TransformCollider: translations, uniform scales with a non-zero factor, orthogonal matrices, joins of these",
    ],
    level_text=(
        "Machine-checked (Lean 4, every linear ordered field): the collider contract (count = callbacks = count without "
        "callback, parameters >= 0, first = minimum, exists iff count != 0) for JoinedCollider/joinedMultiCollider given "
        "the children (callbacks = concatenation, first = min over children), profileCollider (vertical/flat/general cases, "
        "side filter = z-range, faces on the planes), Capsule's phantom removal, transformedCollider, and every min-callback "
        "FirstRayCollision; exact hits: Sphere/Circle quadratic (roots on the surface, complete, ordered, >= 0 filter, unit "
        "outward normal), Rect slab method, Triangle Moller-Trumbore (hit iff unique barycentric solution in range with "
        "t >= 0), 2-D Segment, castPlane/castCircle, and - every reported collision has t >= 0, lies on the surface and carries "
        "the unit outward normal - Cylinder (side + discs, side complete), Capsule (outer half spheres + side) and the complete "
        "Cone.RayCollisions (side polynomial, linear/quadratic root branch, safeNormal, base disc); parity: Rect, Sphere, every "
        "convex solid given as an intersection of half-spaces, closed convex meshes on the model's hit list, and for arbitrary "
        "closed triangle meshes (and closed 2-D polygon systems) the crossing parity is independent of the ray direction "
        "(crossing-number argument) and equals ColliderContains; ball queries: 2-D segments, spheres, the vertex/edge/face analysis of Triangle.SphereCollision = "
        "squared distance to the triangle < r^2, and for transformed colliders (any similarity: translation, scale of either "
        "sign, orthogonal matrix, joins) the query equals the wrapped query at the inverse-mapped centre with the radius "
        "divided by the distance factor, i.e. it answers touching iff the IMAGE surface meets the ball (generic surfaces, "
        "triangles, segments, spheres, circles). The generic models are tied to /repo on every run: bit-for-bit at Float on "
        "arbitrary doubles (Sphere, Circle, Rect, Triangle, Segment, castPlane, castCircle, Cylinder, Capsule, Cone) and "
        "exactly at Rat on dyadic data (Rect, Triangle, Segment, triangle soups through the real mesh colliders, "
        "ProfileCollider, ball/segment queries, ball/circle queries against TransformCollider over triangles, meshes, "
        "spheres, segments, circles with non-unit and negative scale factors, ColliderContains); the contract predicate "
        "itself is evaluated on observations of every collider kind. Box and triangle queries: model2d.Segment.RectCollision "
        "answers touching iff some point of the segment lies in the closed box; the bounds test of "
        "joinedMultiCollider.RectCollision passes iff the query box and the node's bounding box share a point (degenerate "
        "overlaps included), and the 2-D mesh colliders - any hierarchy - answer touching iff some segment has a point in the "
        "box; Triangle.TriangleCollisions' interval computation (line of the common points of the two planes, "
        "findContainedRange with its infinite bounds and early exits, intersection of the ranges) yields exactly the segment of "
        "common points of the two closed triangles, or nothing when they share at most one point - also for triangles with one "
        "common vertex -, triangles sharing an edge meet in that edge only, parallel planes are always rejected by the "
        "co-planarity test, and the 3-D mesh colliders return the concatenation of their triangles' answers; "
        "Triangle.SegmentCollision and model2d.Segment.SegmentCollision answer touching iff the segment has a point "
        "(parameter in [0,1]) on the triangle / the other segment, the bounds test of joinedMultiCollider.SegmentCollision "
        "(rayCollisionWithBounds) admits every segment with a point inside the bounds, and the 2-D and 3-D mesh colliders' "
        "SegmentCollision is the disjunction over their primitives - whatever the hierarchy; profileCollider.SphereCollision "
        "answers touching iff the open ball meets a wall or one of the two faces of the extrusion (given that the outline "
        "bounds the 2-D solid). Tied at Rat to the "
        "real mesh colliders (rect2x, msegx, mseg2x exact on power-of-two data incl. flat inner nodes; profballx; tritrix/mtritrix on the decision where "
        "rounding cannot decide) and through the regenerated kernels (Segment.RectCollision, SegmentCollision, Rect.Contains)."
    ),
    level_note=(
        "Proved about lean/M3d/Model/Collide*.lean over ordered fields, not floats. Torus root finding and SolidCollider "
        "are only covered by the contract and tolerance residuals; parity for tori, cones, capsules, cylinders, profiles and "
        "transformed shapes, and the agreement of ColliderContains with the winding number, are tied by independent "
        "computation in the harness, not by theorem; general position is an explicit hypothesis of the parity theorems."
    ),
)
