PROP = dict(
    unclaimed=True,
    module="M3d.Props.C11",
    corr=dict(quick=300, thorough=1200),
    gen=[],
    corr_theorems="(being built)",
    rule="(being built)",
    trusted=[],
    assumptions=[],
    level_text="(being built)",
    level_note="(being built)",
)
