PROP = dict(
    module="M3d.Props.C11",
    corr=dict(quick=300, thorough=1000),
    gen=["HierAxis", "Kernels"],
    tie_modules=["M3d.Lemmas.KernelsTieHier", "M3d.Lemmas.KernelsTieProbe"],
    corr_theorems=(
        "M3d.C11.needs_repair_iff / needs_repair_iff_two_faces / inconsistent_edges_eq / edge_balanced_iff_clean (diag3, diagd3), "
        "singular_vertices_eq / singular_search_exact / fan_adjacency_is_shared_edge_at_vertex / singular_iff_clusters / fan_connected_no_singular_vertices / closed_manifold_diagnostics_clean (diag3 sv), clusters_partition (clus3), "
        "orientations_consistent / orientation_groups_are_components / orientations_consistent_whole_mesh / orientation_search_exact (rnm3 groups, diag3 or=), "
        "majority_minimal_flips / repair_normals_majority_consistent / repair_normals_majority_clean (rnm3), repair_normals_restores (rn3), repair_normals2_restores (rn2), "
        "rn2 / rn3 THE PROBE POINT: repair_normals2_probe_is_epsilon_off_the_midpoint / repair_normals3_probe_is_epsilon_off_the_centroid (center + epsilon * unit normal lies at distance exactly epsilon, on the normal's side, whatever the size of the face), "
        "repair_normals2_unnormalised_probe_is_epsilon_times_length_off (without Normalize the point is epsilon*|s| away), probe_parity_constant_within_clearance / repair_normals2_offset_irrelevant_within_clearance / "
        "repair_normals2_ray_offset_irrelevant_within_clearance / repair_normals3_offset_irrelevant_within_clearance (between two points of the normal line the even-odd answer changes only where the mesh crosses the line: "
        "every probe inside the clearance of its face gives the same RepairNormals - so the driver may evaluate the exact even-odd rule at the rational point at distance eps*|n|_2/|n|_1 <= eps and demand the same flip set from the source, "
        "after checking exactly that nothing touches the normal line up to eps*65/64), repair_normals2_documented_probe_within_clearance (that instance spelled out, l1_offset_le), repair_normals2_restores_within_clearance (geometric form of the restore theorem: "
        "the mirror probes of a segment and of its reversal get opposite answers when the segment itself is the only crossing of its normal line within the clearance on both sides, so any re-orientation of an outward-oriented mesh is undone), "
        "repair_normals2_unnormalised_probe_unsound (1000 x 1 plate, eps = 1/100: the source's probe restores the plate, the un-normalised probe keeps the long sides reversed - the seeded change C11-11 at model level); "
        "KernelsTieProbe: segMid / segLeft / segNormal / probeDoc / triCross / triNormal / probeDoc3 ARE the regenerated Segment.Mid / Segment.Normal / Triangle.crossProduct / Triangle.Normal composed as in RepairNormals; "
        "repair_merges_classes (rep3, rep2), components_partition / hierarchy_partition / hierarchy_nodes_are_components / hierarchy_probe_independent / "
        "hierarchy2_partition (hier2 full=: on closed oriented curves the 2-D loop tracer never panics and FullMesh is a permutation of the segments, every oracle) / "
        "hierarchy_nesting / hierarchy_contains_eq_evenodd / hierarchy_sweep_order_from_key / hierarchy_nesting_of_sweep_key (hier3, hier2: parent = deepest exact encloser, ancestors = all enclosers, Contains = exact even-odd of the whole mesh; "
        "the order hypothesis is derived from the sweep key), hierarchy_root_prefilter_sound / bbox_far_corner_prefilter_sound / bbox_max_corner_prefilter_sound_of_nonneg / bbox_max_corner_is_not_the_far_corner "
        "(a shortcut in front of the root-level containment test must never reject an encloser: sound with the far bounding-box corner, with Max() only for an axis without negative component - so the expected hier3 answer is the unpruned one; "
        "hierarchy_axis_signs / max_corner_shortcut_sound_for_the_2d_axis / max_corner_is_not_the_far_corner_for_the_3d_axis instantiate this for the axes of the CURRENT source, Gen/HierAxis.lean is regenerated from var arbitraryAxis "
        "of both mesh_hierarchy.go files, and the driver sweeps with these values), manifold2_iff / inconsistent_vertices2_eq / in_out_one_iff_clean2 (diag2); "
        "hist3 / hist2 and the call order of diag3 / diagd3 (section O): mesh_index_coherent_on_every_history (the lazily built vertex index, maintained by Add / swap-with-last Remove, describes the current face set after every history), "
        "needs_repair_after_any_history / needs_repair_same_faces_same_answer (NeedsRepair is a function of the face set: same answer with or without a cached index), singular_vertices_after_any_history / "
        "singular_vertices_same_faces_same_answer / singular_vertices_fresh_mesh (the stack search on the history-ordered slices reports the vertices whose fan graph is disconnected), manifold2_after_any_history (2-D Manifold on the slices), "
        "needs_repair_fan_below_two_prefilter_sound / needs_repair_fan_below_three_prefilter_unsound (a shortcut that looks at the cached index is harmless iff it only fires on meshes that need repair: 'a vertex with < 2 triangles' is, "
        "'< 3 triangles' is not - the double cover of a triangle has every edge used twice), gate= is the NeedsRepair / Manifold gate of MeshToHierarchy; "
        "no_singular_vertices_fan_connected / closed_manifold_iff_diagnostics_clean (the driver's cross-check fanConnected = (sv = {}) on edge-balanced cases is now a theorem: the three 3-D diagnostics are clean iff the mesh is a Surface.ClosedManifold); "
        "self3 (Mesh.SelfIntersections): self_intersections_eq_exhaustive (the sum over the faces of what the hierarchy of MeshToCollider returns = the number of ordered pairs of faces for which Triangle.TriangleCollisions reports a segment, for EVERY hierarchy over the faces - "
        "any shape, width, grouping - and every iteration order: the bounds test min > max never hides a pair, because a reported pair has a common point, which lies in the bounding box of the query and in the bounds of every node holding the other face, also when a box has no thickness), "
        "self_intersections_counts_crossing_pairs (a counted pair shares at most one vertex and has two different common points: the faces cut through each other along the reported segment), self_intersections_zero_iff (0 iff no ordered pair reports; 0 whenever faces with at most one common vertex meet in at most one point), "
        "self_intersections_volume_gate_unsound (two faces in the planes z = 0 and x = 1/2 that cut through each other: definition 2, hierarchy of the source 2, a bounds test that wants a common VOLUME of the boxes 0 - the seeded change C11-13 at model level). "
        "The driver prints what the DEFINITIONS give (edge multiplicities, naive closures, exact rational even-odd ray casting, Surface's proved "
        "deciders) and flags any disagreement between a faithful model and its definition (MODELDIFF), so a difference with the real output is a failing input."
    ),
    rule=(
        "closed manifolds (boxes, grid boxes, octa/tetrahedra, icospheres, tori, marching-cubes lattice solids incl. hollow ones, nested shells, "
        "several components, Moebius/annulus/Klein/torus grids) with 0-3 damages (open, open a vertex star, pinch two vertices, flip faces, flip a "
        "component, duplicate a face, fin, doubled fin/pillow, touching copy, tetrahedron glued on an edge / a vertex); jittered and chained "
        "near-duplicate vertices for Repair (power-of-two epsilon; chains of copies 0.9*eps apart - consecutive ones share a grid hash, copies two steps apart "
        "share none - around many vertices, along every axis and both directions, so that a non-transitive merge shows in several vertices whatever Go's map order); "
        "forests of nested boxes/octahedra to depth 5 with siblings for the hierarchy, and NON-CONVEX, NON-CONCENTRIC nests: polyominoes (U, C, L, T, S, comb, "
        "spiral, hook, ring with a hole, plus, random growths, all 8 symmetries) moved inwards by an inset, whose children live in their MATERIAL - followers (a "
        "connected part of the parent's cells with a larger inset: a thin U in the material of a thick U) and slot children (fresh polyominoes on a finer grid "
        "inside one cell), depth up to 5, several siblings per level, bounding-box centres in notches (counted: poly:nodes-with-bbox-centre-outside); in 3-D as "
        "prisms with nested z-ranges built directly on the compressed coordinate grid or with ProfileMesh; query points in material cells and notches of every "
        "node, all off-grid; 24 fixed cases box > thick U/C > thin U/C > small shapes in two arms (2-D and 3-D); every hierarchy scene (2-D and 3-D) is replaced by its image under an "
        "axis-aligned affine map - signed permutation of the axes, power-of-two scale per axis, shift on the 1/8 grid: identity 1/4, signed permutation 1/8, NEEDLE 3/8 (one axis stretched by 2^3..2^6, the others "
        "scaled by 2^-1..2^-3, the long axis cycling x,y,z), slab 1/8, independent scales 1/8 - with the query points mapped along, so that inner components start anywhere relative to the corners of their "
        "enclosers' bounding boxes along the sweep axis (counted: hier3:bbox-nested-pairs-inner-starts-beyond-max-corner-of-outer, ...-beyond-second-furthest-corner..., hier3-xform:*); fixed: the 12 demo nests as "
        "needles along x/y/z under 12 signed permutations and 24 corner needles (a needle along each axis with two voids in opposite corners of its bounding box, all 8 corner pairs); 2-D: nested polygons, circles, figure-eights, polylines with reversed/duplicated/removed/degenerate segments; "
        "RepairNormals (rn2, rn3): the scene is MEASURED first (clearance = the smallest distance, over all faces and both sides, from the centre of a face along its normal line to the next touch of the mesh - closed test, in float with a tolerance that only adds touches; the driver repeats it exactly) "
        "and epsilon is clearance/2, /4 * 13/16, /16, /256, a float32 decimal below clearance/3, or one of the old absolute values when it fits; scenes: circles, nested rectangles, polyomino nests (thin followers in the material of thick shapes), and THIN SHAPES WITH LONG SIDES - plates whose sides are cut into unequal pieces, thin-walled frames, "
        "onions of 2-5 loops with walls and gaps of 1-12 units, slivers (long base, low chain above it), bent strips of slanted pieces, two plates with a narrow gap (lengths 8..1000, thickness 1/8..2, log-uniform) - and in 3-D slabs (two huge triangles per face or cut into cells), thin-walled hollow boxes, onions of boxes, stacked plates, next to the nests / icospheres / tori / lattice solids, "
        "all under the axis-aligned affine maps above (needles, slabs, power-of-two scales); re-orientation: none, random subset, every second face, all, whole components, only the longest / largest faces; counted: rn2:segments-with-eps*length>clearance (about a third of all segments; 36 of 43 cases at seed 1), rn3:faces-with-eps*2area>clearance; "
        "24 fixed rn2 cases: the demo nests as they are and as needles, all / every second segment reversed, epsilon = clearance/2 and /8; "
        "HISTORIES (hist3, hist2): one mesh object, initial soup = closed manifold (1/2) / empty / damaged as above, in half of the cases plus 1-2 DOUBLE-COVERED TRIANGLES (two faces on the same three vertices, opposite or equal "
        "orientation, 0-2 corners shared with the rest), then 0-8 steps: Remove a face, Add a removed pointer again, undo the last change, Add a reversed / equal copy of a face, a fin, a random triangle, a double cover in two halves with a call in "
        "between, empty the mesh face by face and refill it in another order, no-op Add/Remove, ADDMESH OF A SHALLOW COPY (an optional index-building call, then Add of every present face pointer / a component / a random subset AGAIN, then mostly Remove of a component or one of them, observations; counted: hist3:add-of-a-pointer-already-in-the-mesh-with-index-cached), m = m.Copy(), calls that build the vertex index (SingularVertices, Find, Neighbors, VertexSlice, Repair, Orientable) or do not "
        "(NeedsRepair, InconsistentEdges, Iterate), and observations nr / sv / ie / or / gate (MeshToHierarchy refuses the mesh) in random order after 35% of the steps and at the end; the op line carries the steps and whether the index "
        "existed after each call (hook VerifMeshHasIndex); counted: hist3:nr-observed-with-index-cached(-on-closed-mesh-with-a-2-fan-vertex), ...-without-index; 2-D: segments split, digons and triangles added, Manifold / "
        "InconsistentVertices / the MeshToHierarchy gate observed; fixed histories: the double cover alone before/after each index-building call, next to and touching a tetrahedron, grown face by face on an index built for the "
        "empty mesh, a tetrahedron emptied and refilled, opened and closed with the index cached, two tetrahedra touching in a vertex whose pointers are all added again (index built by SingularVertices / VertexSlice / not at all) before one of them is removed; diag3 / diagd3 call the four diagnostics in the declaration order (1/2) or a random order (recorded in section O), the fixed inputs in both; "
        "SELF-INTERSECTIONS (self3): scenes of 1-4 objects whose faces mostly lie exactly in axis-aligned planes - boxes (NewMeshRect, also slabs/needles), flat plates in a random axis plane cut into 1..4 x 1..4 cells (so that inner nodes of the hierarchy have bounding boxes without thickness too), "
        "next to icospheres, octahedra and random triangles: boxes through boxes, a box through an icosphere, perpendicular plates, plate through box / sphere, two spheres (slanted control), single objects and disjoint objects (must report 0); the objects of a scene take their coordinates from different residue classes of the 1/32 grid; "
        "every pair of faces whose bounding boxes meet is classified with big.Rat and a scene is used only if no pair is one where rounding may decide (see self.go); 8 fixed scenes (two boxes, box through sphere, two plates plain and subdivided, plate through box, two spheres, clean box, disjoint boxes); "
        "counted: self3:meshes-that-cut-through-themselves (13 of 27 at seed 1), self3:meshes-with-a-crossing-of-an-axis-aligned-face (12), self3:crossing-ordered-pairs(-with-an-axis-aligned-face); "
        "plus a fixed list of edge cases; distinct = distinct operation lines"
    ),
    trusted=[
        "modelled, not verified: Go maps/sets as lists in an arbitrary order (all theorems are for every order); counting maps as multisets of keys; "
        "face pointers as list positions; Repair's hashToClass map as 'the live class holding the hash' (no stale entries: every hash of a merged class is re-pointed)",
        "oracles: Solid.Contains / ColliderSolid ray parity are parameters of the models (C07 covers colliders); the harness compares them against exact "
        "rational even-odd ray casting in Lean on every rn3/rn2/hier3/hier2 case",
        "RepairNormals probe: the clearance theorems count the even-odd rule ALONG THE NORMAL (the ray the documentation of RepairNormals names; 2-D with the half-open side rule, 3-D for normal lines that meet no edge); that ColliderSolid.Contains, which counts along one fixed direction, "
        "gives the same parity on the clear stretch is the hypothesis hdir of repair_normals2_offset_irrelevant_within_clearance / repair_normals2_restores_within_clearance (direction independence = the collider's correctness, C07) - the driver compares the two counts exactly on every rn2 case and on every rn3 face whose normal line is in general position (MODELDIFF:ray-direction); "
        "sqrt is an exact square root in the theorems and Float.sqrt in the source (the probe of the source is within rounding of distance epsilon; the driver demands a clear stretch of eps*65/64)",
        "the sweep-order hypothesis of hierarchy_nesting (a component is swept after every component enclosing it) is derived (hierarchy_sweep_order_from_key) from: vertices "
        "visited by non-decreasing key, and an encloser has a vertex with a smaller key than every vertex of the enclosed component; that last, geometric, fact (enclosed => strictly inside the "
        "convex hull of the encloser's vertices; hull_point_not_before_all is its linear half) is an assumption, checked by the driver on every hier3 case (MODELDIFF:sweep-key)",
        "2-D hierarchy: hierarchy2_partition is proved for closed oriented curves (Surface.InOutOne) and every oracle; nesting / Contains of the 2-D forest follow the generic forest theorems (hierarchy_nesting, hierarchy_contains_eq_evenodd are stated on the 3-D loop) and are checked by correspondence (hier2)",
        "histories: the stateful model (M3d/Model/MeshDiagHist.lean) covers Add / Remove / Copy / index-building calls and NeedsRepair / InconsistentEdges / SingularVertices / 2-D Manifold on the state; Orientable / RepairNormalsMajority and "
        "2-D InconsistentVertices on a state are compared with their definitions on the current face list (their order abstraction - Neighbors answers like a fresh list - is C09's theorem); CoordToSlice as an association list (C09 proves the real map behaves like one)",
        "SelfIntersections (self3): Triangle.TriangleCollisions and the n-ary hierarchy are C07's models (M3d.Col.triTri, bvhTriTri, boxOverlap3; C07 ties them to the source with tritrix / mtritrix and proves triangle_collisions_iff), reused read-only; the theorems are over ordered fields with an exact square root, the source computes in float64: "
        "the harness only uses scenes in which, for every pair of faces with meeting bounding boxes, the exact answer is far from every threshold of the float computation (>= 2 common vertices, exactly parallel planes, at most one common point - there the computed parameter ranges can only meet in a stretch of rounding size, dropped by the 1e-8 'collision at a vertex' filter - or a common segment longer than 1e-5 in general position); "
        "the shape of the hierarchy MeshToCollider builds is not modelled (the theorem is for every hierarchy; the driver runs the faithful model over a binary split as a cross-check, MODELDIFF:self)",
        "Gen/HierAxis.lean: the literals of var arbitraryAxis read with go/ast (plain decimal literals only; anything else breaks the generator and is reported); the sign theorems are about the exact decimal values, the float64 values are their roundings (same signs)",
    ],
    assumptions=[
        "no NaN coordinates; SingularVertices / Orientable / RepairNormalsMajority are compared on meshes without degenerate triangles "
        "(on a degenerate triangle Triangle.inCommon is not symmetric and the fan search depends on Go's map order; diagd3 compares NeedsRepair and InconsistentEdges there)",
        "Repair is compared for power-of-two epsilon (so that c/epsilon is exact and the rounded cells can be recomputed in exact arithmetic)",
        "2-D MeshToHierarchy panics ('mesh is non-manifold') on inconsistently oriented input that passes Manifold(); the model reproduces this documented precondition",
    ],
    level_text=(
        "Theorems (Lean 4, all meshes, every iteration order): NeedsRepair <-> some undirected edge not used exactly twice; InconsistentEdges = directed edges "
        "used twice; both together <-> Surface.EdgeBalanced; SingularVertices = vertices whose fan graph (share an edge at v) is disconnected; Clusters = its "
        "components; the orientation search succeeds iff the mesh is orientable (some set of flips leaves no directed edge used twice), never reaches its 'impossible' "
        "panic, its groups are exactly the Neighbors-components, its flags orient the whole mesh; the majority vote flips min(k,n-k) faces per group and the output of "
        "RepairNormalsMajority is EdgeBalanced whenever NeedsRepair is false and the mesh is orientable; "
        "RepairNormals restores exactly what the even-odd oracle reports; Repair merges exactly the equivalence closure of 'share a grid hash' and maps to a "
        "representative inside the class; the hierarchy's FullMesh is a permutation of the input for every oracle (3-D; 2-D on closed oriented curves, where the loop tracer never panics), its nodes are the vertex-connected components; "
        "the hierarchy depends only on how the probes classify whole components (hierarchy_probe_independent); with a laminar, sweep-compatible containment oracle, "
        "ancestor <-> encloses and Contains = parity of containing components; the sweep compatibility follows from sorting by a key under which every encloser starts first; "
        "a cheap test in front of the root-level containment call is harmless iff it never rejects an encloser - true for the bounding-box corner furthest along the axis, for Max() only "
        "when the axis has no negative component (2-D yes, 3-D no); 2-D Manifold/InconsistentVertices "
        "<-> Surface.InOutOne; 2-D RepairNormals restores what its oracle reports; the probe of RepairNormals (2-D and 3-D) lies at distance exactly epsilon from the centre of the face whatever its size, any two probes inside the clearance of a face give the same answer, and with clearance on both sides every re-orientation of an outward-oriented 2-D mesh is undone (a probe without normalisation is epsilon*|face| away and fails on the 1000 x 1 plate); the three 3-D diagnostics are all clean iff the mesh is a closed oriented manifold (every link one cycle - both directions proved); "
        "on a mesh with a history (Add, Remove, Copy, lazily built and incrementally maintained vertex index) the index describes the current face set after every history, NeedsRepair / SingularVertices / 2-D Manifold answer as their definitions on the "
        "current faces whatever the history and whether or not the index is cached, and a shortcut in NeedsRepair that reads the cached index is sound for 'some vertex has < 2 triangles' but not for '< 3' (double-covered triangle); SelfIntersections through every bounding-volume hierarchy over the faces = the number of ordered pairs of faces that Triangle.TriangleCollisions reports (the bounds test never hides a pair, flat boxes included), and a counted pair cuts through each other along a segment. Tie: the real diagnostics, repairs and hierarchies on damaged meshes are diffed against the definitions evaluated in Lean "
        "(exact rational even-odd), with the faithful models run alongside."
    ),
    level_note=(
        "Proved about the models in lean/M3d/Model/MeshDiag.lean, MeshDiagSweep.lean, MeshDiagHist.lean, MeshDiagProbe.lean and MeshDiagSelf.lean (the latter on C07's CollideQuery / CollideBVH models); models tied to /repo by correspondence (14 kinds, 3-D and 2-D), the regenerated sweep axes (Gen/HierAxis.lean), the regenerated Dot (KernelsTieHier) and the regenerated Segment.Mid / Segment.Normal / Triangle.Normal (KernelsTieProbe). Trusted: Lean kernel, "
        "propext/Classical.choice/Quot.sound, Go harness + Lean driver, the abstractions listed under trusted. One defect found and fixed (5660fd7: "
        "SingularVertices never joined coincident triangles)."
    ),
)
