PROP = dict(
    unclaimed=True,
    module="M3d.Props.C19",
    corr=dict(quick=300, thorough=1500),
    gen=[],
    corr_theorems="(filled in below)",
    rule="tbd",
    trusted=[],
    assumptions=[],
    level_text="tbd",
    level_note="tbd",
)
