PROP = dict(
    thorough_seeds=48,
    module="M3d.Props.C19",
    corr=dict(quick=500, thorough=2500),
    gen=["ReflectAmount", "Kernels"],
    tie_modules=["M3d.Lemmas.KernelsTieRS"],
    corr_theorems=(
        "schlick schlickg: M3d.C19.schlick_endpoints_monotone / reflectAmount_range / reflectAmount_source_is_schlick (schlickg runs the definition regenerated from material.go); rdens rddens rsamp rsampd rbsdf: "
        "refract_sampler_matches_density, lobe_split_sums_to_one, dest_density_symmetry; cyl: cylinder_sample_on_surface, "
        "cylinder_cap_sample_on_surface, cylinder_part_proportional, total_emission_eq_emission_times_area; sphere: "
        "sphere_sample_on_surface; mesh: mesh_sample_on_surface, triangle_sample_inside, triangle_sample_on_plane, "
        "cumulative_selection_proportional; join selgrid: cumulative_selection_proportional; jsel jdens (and the exact Q "
        "variants): mixture_selection_interval, mixture_density; lsamp ldens lbsdf: lambert_cdf, lambert_energy; adsamp "
        "addens psamp pdens pbsdf maxcos: phong_cdf, phong_mixture, phong_energy_le, lobe_sample_cosine; hgsamp hgdens "
        "hgnum hgbsdf: hg_cdf, hg_sample_is_direction, hg_energy_le; finfo ausamp audens fdens fsamp: uniform_cap_cdf, "
        "focus_info_tangent_cone, focus_density_matches_sampler; pfsamp pfdens: focus_density_matches_sampler_phong; jbsdf: "
        "joined_energy; rbsdf also: refract_energy_le, refract_lobe_energy_pointwise; rsamp rsampd also: "
        "refract_sample_has_positive_weight; mesh also: triangle_jacobian, triangle_map_area_preserving, "
        "join_lights_selection_proportional (zero-area triangles); jnest (nested JoinAreaLights, model = LTree.select/total on the "
        "member tree the object really has, read through the hook VerifJoinedMembers): nested_join_selection_proportional, "
        "nested_join_total_emission; jnestgrid (all N^d midpoint draw vectors, integer weights, every join's total dividing N; "
        "expected count N^d*m/T, independent of the implementation's structure): nested_join_grid_exact, "
        "nested_join_midpoint_grid_exact; audens fdens with narrow cones (1-minCos < cosineEpsilon): uniform_cap_cdf"),
    rule=(
        "one case = one call of a real render3d sampler / density / BSDF / light with the randomness scripted (a rand.Source "
        "replaying harness-chosen raw values, so gen.Float64()/Intn(2)/NormFloat64() return known numbers) and arguments drawn "
        "from: unit vectors incl. axis-aligned and tie cases of OrthoBasis; indices of refraction above, below and equal to 1; "
        "normal and grazing incidence; exponents 0..1e4; G in [-2,2]; radii != 1; uniforms k/2^53 incl. 0, 1-2^-53 and values "
        "on the boundaries of the cumulative tables / of the reflectance (incl. reflectance exactly 0); degenerate weights; meshes "
        "with zero-area triangles; focus points inside/outside/filtered out and 1..1e7 radii away (cones narrower than "
        "cosineEpsilon), PhongFocusPoint with point == Target; joined lights passed to JoinAreaLights again (random trees of "
        "stub lights, depth <= 4, a nested join with >= 2 members in most cases, draws steered into members' intervals and "
        "onto table boundaries; dyadic trees with the full midpoint grid of draws; nested joins of real sphere/cylinder/mesh lights).  "
        "Distinct = distinct op lines (mesh cases depend on Go's map iteration order, read back through a hook)."),
    trusted=[
        "regenerated, not hand-written: lean/M3d/Gen/Kernels.lean (Go->Lean translator harness/hlib/go2lean, run on the current "
        "source on every check) contains render3d/material.go's RefractMaterial.refract/refractInverse/refractBSDF/reflectBSDF/BSDF/"
        "SourceDensity/DestDensity/reflectAmount, maximumCosine, LambertMaterial.SourceDensity/BSDF, HGMaterial.numericalG/cosDensity/"
        "SourceDensity/BSDF, densityAroundUniform, densityAroundDirection, PhongMaterial.specularDensity/SourceDensity/BSDF (math.Pow with "
        "a non-integer exponent stays the abstract HasLibm.pow); M3d.KernelsTie.RS.* re-prove against it that the models of Model/RenderSampling.lean are those functions "
        "(constants = the doubles of Go's constant folding, math.Pow(x,5) = pow5 as a hypothesis validated bit for bit by the "
        "correspondence); exported ones are also executed against the real code (C06 kind gk)",
        "modelled, not verified: IEEE rounding (theorems are over ordered fields; the Float run of the same definitions is compared bit for bit with Go)",
        "libm results (cos, sin, acos, pow with non-integer exponent) are passed to the model as arguments computed by the harness with the expression the Go code uses; their closed forms are only validated with a tolerance (validate: sites)",
        "math.Pow(x,5) is modelled as x*((x*x)*(x*x)) (Go's square-and-multiply), confirmed bit for bit on every run",
        "the scripted rand.Source relies on math/rand's documented mapping raw->Float64/Intn/NormFloat64; the mapping is self-checked at start-up",
        "statements about the histogram of a pseudo-random stream are outside the theorems: what is proved is the change of variables (CDF o sampler = id, CDF' = density/2) for ideal uniform draws",
    ],
    assumptions=[
        "directions passed to materials are unit vectors, index of refraction >= 0, NaN excluded",
        "SqrtOK: sqrt x * sqrt x = x and sqrt x >= 0 for x >= 0 (holds of Real.sqrt; non-vacuity example in Props/C19.lean)",
    ],
    level_text=(
        "Lean 4 theorems, for every ordered field / over the reals and all parameter values: reflectAmount is Schlick's "
        "approximation (R0 at normal incidence, 1 at grazing, antitone, in [R0,1]); lobe weights sum to one and are the "
        "probabilities the sampler uses; mixture densities are sum p_i*density_i with the selection intervals of length p_i; "
        "Phong/Lambert reflected energy bounded lobe by lobe; cumulative-table selection (with Go's binary search) is "
        "proportional to weight; every sphere / cylinder cap / cylinder shaft / mesh-triangle sample lies on its surface with "
        "the unit outward normal for every radius; TotalEmission = emission x area; joined lights select parts in proportion to "
        "TotalEmission and never a zero-weight part for a positive draw; a joined light passed to JoinAreaLights again (any "
        "nesting) reports the sum of its primitive lights' TotalEmission and reaches each primitive light on a cell of draws of "
        "volume weight/total (and on a midpoint grid with exactly N^d*weight/total of the draw vectors); the triangle map has constant Frechet-Jacobian 1/2 and "
        "maps the rectangles [0,t^2]x[0,q] onto sub-triangles of area fraction t^2 q; RefractMaterial / JoinedMaterial / "
        "HGMaterial energy bounds for every linear functional; HG samples are unit vectors for every draw (clamp) and the clamp "
        "is the identity in exact arithmetic; Sphere/PhongFocusPoint densities are the ones their samplers draw from "
        "(with acos/cos/sin over the reals); for Lambert, Phong lobe, Henyey-Greenstein "
        "and the uniform cap the sampler's radial map inverts the closed-form CDF whose derivative is density/2 (HasDerivAt, "
        "Mathlib).  The models are the functions the driver executes; they are compared bit for bit (Float) or exactly (Rat) "
        "with the real Go code driven by scripted randomness on every run."),
    level_note=(
        "Partial: the step from 'equal on the generating rectangles' / 'constant Jacobian' to equality of measures is the "
        "standard pi-lambda / change-of-variables argument and is not formalised; sampling histograms are not theorems; the delta-lobe approximation (2/eps caps) is checked only for split weights and support; "
        "libm-dependent values are oracle arguments; the nested-join kind jnest models the member tree the object really has (hook), "
        "so only selection schemes that descend such a tree are covered there (jnestgrid is structure-independent).  Trusted: Lean kernel + Mathlib, the Go harness and driver, math/rand's raw mapping."),
)
