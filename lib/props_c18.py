PROP = dict(
    module="M3d.Props.C18",
    corr=dict(quick=400, thorough=1200),
    gen=["Kernels"],
    tie_modules=["M3d.Lemmas.KernelsTieParam"],
    corr_theorems=(
        "grow: the charts of M3d.Param.planeGraphs (the state machine charts_partition / boundary_refcount_invariant / "
        "growth_keeps_disc_partial / growth_keeps_boundary_simple are about) must equal the real nextMeshPlaneGraphs' charts; "
        "charts: disc_decider_sound (isDisc on every real chart) + partition; bseq: boundarySeq model; "
        "system: floaterRow/floaterSystem (floater_row_convex_comb) in exact arithmetic; param/atlas: uvValid_sound "
        "(+ weighted-mean residual, validation); circle: runSums/arcParams (arc_params_increasing; libm, near); pack: buildQT/joined/toBounds (quadtree_cells_disjoint_in_unit, "
        "to_bounds_affine) in exact arithmetic; mapfn: bary2/atBary3 (mapfn_barycentric_roundtrip)"
    ),
    rule=(
        "generated manifolds: icospheres, tori, boxes, grid boxes, marching-cubes genus-1/2 frames and random blobs, "
        "cylinders, tetrahedron, single triangle, height-field patches, L-shaped patches, half spheres, two-component "
        "unions; per mesh one real operation (growth with random integer priorities / size / area limits, "
        "MeshToPlaneGraphs[Limited], SplitPlaneGraph, boundarySequence, Floater97 / StretchMinimizingParameterization over "
        "Circle / PNorm / lattice-polygon boundaries with uniform / chord / shape-preserving / dyadic weights, "
        "BuildAutomaticUVMap, PackMeshUVMaps on dyadic charts, MapFn at dyadic barycentric points incl. shared edges); "
        "distinct = distinct operation lines"
    ),
    trusted=[
        "regenerated, not hand-written: lean/M3d/Gen/Kernels.lean (Go->Lean translator harness/hlib/go2lean, run on the current "
        "source on every check); M3d.KernelsTie.Param.* re-prove against it that model2d.Triangle.Barycentric (with the inverse "
        "matrix NewTriangle stores) and Triangle.AtBarycentric (2-D, 3-D) are bary2 / atBary2 / atBary3 of the MapFn theorems",
        "modelled, not verified: Go maps/pointer sets as lists over vertex ids (ids = distinct coordinates); the splay-tree "
        "queue as a list with argmax; growth fuel (|m|+1)^2 stands for 'until the queue is empty'",
        "Tutte's theorem (convex boundary + positive weights => no flipped/overlapping triangle) is NOT proved: the proved "
        "checker uvValid is run in exact rational arithmetic on every real solver / atlas output instead",
        "that the boundary of a grown chart stays ONE cycle is derived from chi = 1 + connectedness (classification of "
        "surfaces, not formalised); proved: Euler characteristic of a step, no pinch is created, and the proved decider "
        "isDisc is run on every real chart",
        "the iterative solver (BiCGSTAB) and stretch minimisation are numerical: the weighted-mean equation is checked "
        "on the solver output with tolerance 1e-6 (validation); CircleBoundary/PNormBoundary use libm",
        "MapFn's nearest-point fallback (query outside every UV triangle) and GroupBounders are not modelled: queries "
        "are generated inside triangles",
    ],
    assumptions=[
        "input meshes are manifold (possibly with boundary), without repeated or degenerate faces; NaN/Inf excluded",
        "Floater weights are non-negative and sum to 1 per interior vertex (Go panics otherwise, up to 1e-4)",
        "charts passed to PackMeshUVMaps have positive 3-D area and a non-degenerate UV bounding box",
    ],
    level_text=(
        "Theorems (Lean 4, every policy/oracle, every ordered field): chart growth never loses or duplicates a triangle "
        "and the outer loop terminates; the tracked segment set / vertex reference counts are exactly the boundary of "
        "the chart after every step; a step that passes wouldDivideBoundary keeps V-E+F (+1 when the chart closes into "
        "a sphere) and never creates a pinched boundary vertex; a solution of a Floater row is the convex combination "
        "(weighted mean) of the neighbours, lies in their hull, and the maximum is attained on the boundary; quad-tree "
        "cells are interior-disjoint and inside the root, borders shrink them inward, ToBounds is an affine bijection "
        "onto the cell; Barycentric/AtBarycentric round-trip; soundness of the UV validity checker and of the disc "
        "decider. Tie: the real code is run on generated manifolds and compared with the models (exact for growth, "
        "system assembly, packing, MapFn on dyadic data), and the proved deciders are run on every real chart and "
        "every real UV layout in exact arithmetic."
    ),
    level_note=(
        "Partial: Tutte's theorem and 'boundary stays one cycle' are not proved (decided per instance by proved "
        "checkers). Numerical solver outputs are validated with a stated tolerance. Trusted: Lean kernel, the Go "
        "harness and driver, the list models of Go maps."
    ),
)
