PROP = dict(
    module="M3d.Props.C18",
    corr=dict(quick=400, thorough=1200),
    gen=["Kernels"],
    tie_modules=["M3d.Lemmas.KernelsTieParam"],
    corr_theorems=(
        "grow: the charts of M3d.Param.planeGraphs (the state machine charts_partition / boundary_refcount_invariant / "
        "growth_keeps_disc_partial / growth_keeps_boundary_simple are about) must equal the real nextMeshPlaneGraphs' charts; "
        "charts: disc_decider_sound (isDisc on every real chart) + partition; bseq: boundarySeq model; "
        "system: floaterRow/floaterSystem (floater_row_convex_comb) in exact arithmetic, and floater_operator_is_the_system "
        "(component k of matrix.Apply on the SparseMatrix built by floater97's Set calls IS row k of floaterSystem, for every "
        "valence) + floater_solution_is_weighted_mean (a solution of that operator equation puts every interior vertex at the "
        "weighted mean of all its neighbours); sparse: sparse_rows_independent / sparse_apply_is_matrix_product / sparse_apply_linear / "
        "sparse_transpose_permute (the model SM the real numerical.SparseMatrix must EQUAL: exact rationals on dyadic data, bit "
        "for bit at Float); cg: the model M3d.CG of BiCGSTAB / SolveLinearSystem must EQUAL the real solver bit for bit "
        "(bicgstab_residual_invariant: tracked residual = true residual, terminate flag => exact solution; "
        "bicgstab_solver_returns_an_iterate); param/atlas: uvValid_sound "
        "(+ weighted-mean residual, validation); circle: runSums/arcParams (arc_params_increasing; libm, near); pack: buildQT/joined/toBounds (quadtree_cells_disjoint_in_unit, "
        "to_bounds_affine) in exact arithmetic; mapfn: bary2/atBary3 (mapfn_barycentric_roundtrip; for clockwise / mirrored / "
        "relabelled UV triangles mapfn_clockwise_roundtrip, mapfn_barycentric_affine_invariant, mapfn_mirrored_map_same_answer, "
        "mapfn_weights_follow_corner_order: the expected point is the interpolation in the STORED corner order whatever the "
        "orientation of the UV triangle, and a mirrored map answers the mirrored query with the same point); "
        "hist: floater_history_keeps_boundary (every solve of a history over ONE boundary map leaves that map unchanged and "
        "extends it by this solve's solution) + floater_row_convex_comb for THIS solve's weights (residual <= 1e-6, "
        "validation of the iterative solver) + uvValid_sound; near T: findUV = the faithful model of newTri2dLookup/Find "
        "(halving tree, containment scan, nearestGo) must EQUAL the real tri2dLookup.Find; near M/N: "
        "mapfn_outside_returns_nearest + mapfn_nearest_search_eq_scan + mapfn_lookup_tree_sound (the pruned search over the "
        "tree newTri2dLookup builds returns a triangle at the smallest distance over ALL triangles, for every sound bound; "
        "instance of Prune.Forest.search_eq_foldl) + mapfn_nearest_point_closest (nearest point of the SOLID triangle): the driver recomputes the smallest "
        "distance by a linear scan in Q; mapfn_none_means_outside / mapfn_outside_nearest_point_of_atlas close the chain (no containing triangle => "
        "outside every triangle => the interpolated point is the nearest point of the whole triangulation); atlas cover: "
        "atlas_covers_every_triangle_once / atlas_recursion_partitions (+ charts_partition); pack: atlas_every_chart_gets_one_cell "
        "(the model side never lacks a cell for charts of positive area); ext S: extend_boundary_moves_only_ears (nothing but ear "
        "apexes may differ between the map before and after ExtendBoundaryUVs), extend_boundary_ear_moves_away + "
        "extend_boundary_origin_side (a moved apex stays strictly on its side of the opposite edge, is not closer to it, moved by "
        "<= maxDist; for counter-clockwise AND clockwise maps around the origin), extend_boundary_commutes_with_isometries (mirrored / "
        "rotated maps are in the function's domain), uvValid_sound on the result; ext F: extendBoundary (the model those theorems "
        "are about) at Float must EQUAL the real result bit for bit"
    ),
    rule=(
        "generated manifolds: icospheres, tori, boxes, grid boxes, marching-cubes genus-1/2 frames and random blobs, "
        "cylinders, tetrahedron, single triangle, height-field patches, L-shaped patches, half spheres, two-component "
        "unions; per mesh one real operation (growth with random integer priorities / size / area limits, "
        "MeshToPlaneGraphs[Limited], SplitPlaneGraph, boundarySequence, Floater97 / StretchMinimizingParameterization over "
        "Circle / PNorm / lattice-polygon boundaries with uniform / chord / shape-preserving / dyadic weights, "
        "BuildAutomaticUVMap, PackMeshUVMaps on dyadic charts, MapFn at dyadic barycentric points incl. shared edges, on grids "
        "with legs from 1 down to 2^-18 next to a coarse chart; every chart of these grids and every block of the near layouts is "
        "laid out through one of the eight symmetries of its box - four of them mirror it: clockwise UV triangles -, in "
        "half of the layouts a third of the triangles are stored with their corners in the reverse order, so a map holds clockwise, "
        "counter-clockwise or both kinds of UV triangles; half of the real atlases are queried through a mirrored copy "
        "v -> 1-v / u -> 1-u / u <-> v); meshes with high-valence vertices in every pool: latitude / "
        "longitude spheres, wheels and cylinders with 3..32 slices / spokes / sides, and hub discs (wheel over a random height "
        "profile, dome, cylinder without a cap; for the recorded exact system also punctured latitude / longitude spheres and "
        "spindles) whose hub has 16..32 interior neighbours - rows of the Floater system with 17..33 entries - in a third of "
        "the system cases and a quarter of the param / hist / ext cases; numerical.SparseMatrix on its own: random Set "
        "sequences on distinct positions (n <= 48, rows empty / short / full, filled row by row, in random row order, round "
        "robin, or fully interleaved), Apply after a prefix and after all calls, ApplyVec2, Iterate, Transpose, Permute; "
        "BiCGSTABSolver.SolveLinearSystem and BiCGSTAB.Iter on Floater-like, diagonally dominant, scaled-permutation, singular "
        "and random systems with zero right-hand sides, exact / random initial guesses, iteration budgets and tolerances; "
        "histories of 2..4 solves (Floater97 / StretchMinimizingParameterization; uniform / inverse chord / shape-preserving / "
        "random dyadic weights) that share ONE boundary CoordMap, with the boundary map recorded after every solve; UV layouts of "
        "up to four separate blocks of right isosceles triangles with power-of-two legs (holes, ragged borders) queried at "
        "points in 1/64 outside every triangle (gaps between blocks, next to corners and edges, outside the box, far away) "
        "through the real MapFn and through tri2dLookup over random / GroupBounders orders; atlas inputs with thin spikes, "
        "needles, cones and spindles (stretch ~ height/(2 radius) from 3 to 200, area share often < 1/512) as separate "
        "components or grown out of a face of a sheet / patch / icosphere / box, and long ringed cones (deep recursion), with "
        "the covered triangle set of the returned MeshUVMap compared with the mesh; MapFn of real atlases at points off the "
        "chart borders, outside the unit square and far away; ExtendBoundaryUVs on library parameterisations of discs with ears "
        "(both solvers, three boundary kinds, four weightings) sent through a linear map of the UV plane - identity, V flip, U flip, "
        "transposition, quarter turns, Pythagorean and arbitrary rotations with or without a reflection, rotation + axis scaling, "
        "applied to the solution or to the boundary map before the solve (user-supplied clockwise boundary); half of the maps "
        "reverse the orientation; maxDist from 0.01 to 1; distinct = distinct operation lines"
    ),
    trusted=[
        "regenerated, not hand-written: lean/M3d/Gen/Kernels.lean (Go->Lean translator harness/hlib/go2lean, run on the current "
        "source on every check); M3d.KernelsTie.Param.* re-prove against it that model2d.Triangle.Barycentric (with the inverse "
        "matrix NewTriangle stores) and Triangle.AtBarycentric (2-D, 3-D) are bary2 / atBary2 / atBary3 of the MapFn theorems",
        "modelled, not verified: Go maps/pointer sets as lists over vertex ids (ids = distinct coordinates); the splay-tree "
        "queue as a list with argmax; growth fuel (|m|+1)^2 stands for 'until the queue is empty'",
        "Tutte's theorem (convex boundary + positive weights => no flipped/overlapping triangle) is NOT proved: the proved "
        "checker uvValid is run in exact rational arithmetic on every real solver / atlas output instead",
        "that the boundary of a grown chart stays ONE cycle is derived from chi = 1 + connectedness (classification of "
        "surfaces, not formalised); proved: Euler characteristic of a step, no pinch is created, and the proved decider "
        "isDisc is run on every real chart",
        "the iterative solver BiCGSTAB is modelled (M3d/Model/ParamCG.lean, compared bit for bit: kind cg) and its exactness "
        "invariant is proved over every vector space; its CONVERGENCE in floating point is not (the method can break down), and "
        "stretch minimisation is numerical: the weighted-mean equation is checked on the solver output with tolerance 1e-6 "
        "(validation); CircleBoundary/PNormBoundary use libm",
        "modelled, not verified: Go slices of numerical.SparseMatrix as lists (a row is a value: append on one row cannot reach "
        "the storage of another - exactly what the sparse kind compares with the real code for rows of up to 48 entries in four "
        "fill orders); Vec.Add/Sub/Scale/Dot/Norm as list folds in the order of the Go loops; the BiCGSTAB theorems are about the "
        "generic model M3d.CG instantiated with the operations of a vector space and a linear operator, the executed instance "
        "uses the list operations (that lists of length n under zipWith / map are K^n is not stated as a theorem; "
        "sparse_apply_linear gives the linearity of matrix.Apply on lists)",
        "regenerated too: Coord.SquaredDist, Coord.Dot, Rect.Contains and the clamp c.Min(max).Max(min) (building blocks of "
        "Triangle.genericSDF / Rect.genericSDF, which write through pointers and are outside the translated subset) are tied to "
        "dist2 / dot2 / rectContains / clamp1 of the nearest-triangle model",
        "modelled, not verified: Go *CoordMap pointers as indices into an explicit heap of association lists (the frame "
        "theorem floater_history_keeps_boundary is about that heap); model2d.GroupBounders is NOT modelled: the nearest "
        "theorems hold for every order of the triangles (every tree newTri2dLookup can build), the faithful comparison "
        "(near T) feeds the order GroupBounders produced or a random one through the hook VerifNewTri2dLookup",
        "regenerated too: Coord.Norm, Coord.Dist, Coord.Normalize, Coord.ProjectOut, Segment.Closest / Dist / Length (2-D and 3-D) "
        "and NewSegment - everything ExtendBoundaryUVs computes with - are tied to norm2 / distE2 / normalize2 / projectOut2 / "
        "segClosest2 / segDist2 / segLen2 / newSegment3 / segDist3 / segLen3 / ratio2 / ratio3 / pushOut of M3d/Model/ParamExt.lean; "
        "the loop itself (CoordMap, Mesh.Find, boundarySequence) is hand-modelled and compared bit for bit (ext F); math.Sqrt is an "
        "uninterpreted function with the hypothesis SqrtSpec (non-negative square root; true of Real.sqrt) in the theorems",
        "ExtendBoundaryUVs: that two DIFFERENT extended ears do not overlap each other is not proved (each lies on the outer side of "
        "its own chord of the convex boundary polygon); uvValid is run in exact arithmetic on every result; ext S allows 1e-12 "
        "relative slack on 'not closer to the opposite edge' and on the displacement bound (float rounding of the stored point)",
        "Rect.SDF / genericSDF use sqrt: the "
        "model compares squared distances (s -> s|s| is strictly increasing), exact on the dyadic layouts of near T / near M; "
        "near N (real atlases, float UVs) allows 1e-9 relative slack on squared distances: validation",
    ],
    assumptions=[
        "input meshes are manifold (possibly with boundary), without repeated or degenerate faces; NaN/Inf excluded",
        "Floater weights are non-negative and sum to 1 per interior vertex (Go panics otherwise, up to 1e-4)",
        "charts passed to PackMeshUVMaps have positive 3-D area and a non-degenerate UV bounding box",
        "numerical.SparseMatrix: every (row, col) position is Set at most once (documented: 'the entry should not already be "
        "set'), indices inside the matrix, vectors as long as the matrix; BiCGSTABSolver with MaxIters > 0",
        "the texture resolution passed to BuildAutomaticUVMap is large enough for the number of charts: every quad-tree "
        "cell is wider than its two borders (otherwise ToBounds panics or flattens the chart - behaviour the pack kind "
        "compares exactly); spiked / long-cone inputs are run with resolution >= 256",
        "Floater97 / StretchMinimizingParameterization called directly: the exact solution's UV triangles are larger than the "
        "resolution of the iterative solver (default MSE tolerance 1e-16): discs with a scale ratio >= 1e3 inside one chart or "
        "many rings between boundary and interior (also a closed surface minus one triangle, whose far side is squeezed below "
        "that resolution: such discs go to the recorded exact system kind only) are only fed to BuildAutomaticUVMap, which (since fix 6c979e5) detects "
        "flipped / zero-area UV triangles and splits such discs",
        "ExtendBoundaryUVs: the boundary map is a convex polygon with the origin on the inner side of both boundary edges at every "
        "ear apex ('centered around the origin', the documented precondition; either sense of rotation) and the map is a valid "
        "embedding before the call (checked on every generated input, reported as a generator fault)",
    ],
    level_text=(
        "Theorems (Lean 4, every policy/oracle, every ordered field): chart growth never loses or duplicates a triangle "
        "and the outer loop terminates; the tracked segment set / vertex reference counts are exactly the boundary of "
        "the chart after every step; a step that passes wouldDivideBoundary keeps V-E+F (+1 when the chart closes into "
        "a sphere) and never creates a pinched boundary vertex; a solution of a Floater row is the convex combination "
        "(weighted mean) of the neighbours, lies in their hull, and the maximum is attained on the boundary; a SparseMatrix row "
        "holds exactly what was Set in it whatever the order and the row lengths, Apply is A.x, Transpose / Permute are the "
        "transposed / permuted matrix, the operator floater97 hands to the solver is the system of the mesh for every valence, so a "
        "solution of it places every interior vertex at the weighted mean of all its neighbours; BiCGSTAB's tracked residual is the "
        "true residual after every iteration and its terminate flag means an exact solution, and SolveLinearSystem returns an "
        "iterate that passed the tolerance test on the true residual when it leaves early; quad-tree "
        "cells are interior-disjoint and inside the root, borders shrink them inward, ToBounds is an affine bijection "
        "onto the cell; Barycentric/AtBarycentric round-trip for counter-clockwise and clockwise UV triangles alike, "
        "the computed weights are invariant under every invertible affine map of the UV plane and MapFn of a V- / U-mirrored or "
        "transposed map answers the mirrored query with the same point and triangle, the weights follow the stored corner order; soundness of the UV validity checker and of the disc "
        "decider; a history of solves over one boundary map never changes that map and every result extends it; the "
        "atlas recursion (split or append, any stretch oracle) covers every triangle exactly once; MapFn's pruned "
        "nearest-triangle search equals the linear scan for every sound bound, the Rect.SDF bound of the tree "
        "newTri2dLookup builds is sound for every query, so a query outside every UV triangle gets a triangle at the "
        "smallest distance and its closest boundary point - the nearest point of the whole triangulation, since 'no containing triangle' "
        "means a negative barycentric coordinate in every triangle; every chart of positive area gets exactly one quad-tree cell; "
        "ExtendBoundaryUVs writes nothing but ear apexes, moves an apex straight away from its opposite edge by at most maxDist "
        "(orientation kept, ear less flat) for clockwise and counter-clockwise maps around the origin alike, and commutes with every "
        "rotation / reflection about the origin. Tie: the real code is run on generated manifolds and compared with the models (exact for growth, "
        "system assembly incl. discs with hubs of valence up to 32, the sparse matrix, packing, MapFn on dyadic data inside and "
        "outside the triangles down to UV areas of 2^-37, the tri2dLookup search; bit for bit for the sparse matrix and the "
        "BiCGSTAB solver at Float), "
        "histories of solves, atlas covers and the maps before / after ExtendBoundaryUVs (on mirrored and rotated parameterisations too; "
        "its model also bit for bit) are compared with what the theorems demand, and the proved deciders are run on every real chart and "
        "every real UV layout in exact arithmetic."
    ),
    level_note=(
        "Partial: Tutte's theorem and 'boundary stays one cycle' are not proved (decided per instance by proved "
        "checkers). Numerical solver outputs are validated with a stated tolerance. Trusted: Lean kernel, the Go "
        "harness and driver, the list models of Go maps."
    ),
)
