PROP = dict(
    module="M3d.Props.C17",
    corr=dict(quick=300, thorough=4000),
    gen=["Binomial", "Kernels"],
    tie_modules=["M3d.Lemmas.KernelsTieNumeric", "M3d.Lemmas.KernelsTieRotation", "M3d.Lemmas.KernelsTiePoly"],
    corr_theorems=(
        "exact mode (q): the driver prints the SPECIFICATION wherever M3d.C17 proves the faithful model equal to it — "
        "bezier_eval_eq_decasteljau (bez eval -> de Casteljau), bezier_split_eval (bez spliteval), segment_curve_eval (seg eval -> arclength walk), "
        "mat{2,3}_inverse_mul/mul_inverse (invmul -> identity), divide_root (divrootid -> 0), canonical_angle_congruent/angle_dist_circular (angle), "
        "search_best_of_samples/line_search_best_of_samples/grid*_best_of_samples/rls_best_of_samples/gss_best_of_samples (ls g2 g3 rls gss: result and full evaluation trace), joined_curve_eval, bisection_search_bracket; "
        "bit mode (f): the same generic models run at Float, same operations in the same order; "
        "scale covariance (scov.f, DECIDING, bit for bit): the real outputs on 2^k*M must equal the real outputs on M scaled by the exponents of "
        "mat2_smul_inverse/mat3_smul_inverse (Inverse: -1), mat{2,3,4}_smul_det (Det: n), mat4_smul_charpoly (CharPoly coefficient i: 4-i), "
        "mat2_smul_charpoly + mat2_smul_eigenpair (Matrix2.Eigenvalues, symEigDecomp: 1), mat_smul_gram + mat2_svd_smul (Matrix2.SVD: U, V 0, S 1) - "
        "multiplication by a power of two is exact, so the verdict on M (faithful models for Inverse/Det/CharPoly; resid.v for SVD/Eigenvalues) carries to every scale; "
        "the m2/m3/m4 kinds themselves are also generated at scales 2^k (k in [-40,40]) and decided by the Rat/Float models directly; "
        "Matrix2.Eigenvalues / symEigDecomp / SVD (eig2.q, eig2.f, symeig2.f, svd2.f, DECIDING): the faithful models M2.eigenvalues / symEigDecomp / svd (Model/Svd2.lean) run at Rat "
        "(square discriminants) and at Float bit for bit on arbitrary, rank-one, conformal, diagonal, tiny-integer matrices at every scale; mat2_eigenvalues_real/_complex, mat2_sym_disc_nonneg, "
        "mat2_symEigDecomp_reconstructs and mat2_svd_reconstructs prove that these models reconstruct EVERY matrix (U S V^T = M, U, V orthogonal, S sorted, non-negative); "
        "polynomials in bit mode (poly.f eval/mul/scale/deriv, DECIDING): Poly.eval, Poly.mulLoop (the double loop res[i+j] += x*y in the order of the Go loops; poly_mul_loop_eq proves it equal to Poly.mul, "
        "the sum of shifted rows of poly_eval_mul), Poly.scale, Poly.derivative run at Float bit for bit; numerical.Vec (vec.q, vec.f, DECIDING): VecN.normSquared/scale/distSquared/zeros/add/sub/dot/at/norm/dist/normalize/projectOut "
        "(vecN_normSquared_sum, vecN_scale_normSquared, vecN_normalize_unit, vecN_distSquared_eq, vecN_projectOut_orthogonal), length mismatches of Add/Sub/Dot answer panic; "
        "M3d.KernelsTie.Poly.* (tie module) proves that Polynomial.Eval/Mul/Derivative/Scale, Matrix4.CharPoly and Vec.Scale/NormSquared/DistSquared/Norm/Dist/Normalize/At/Len/Zeros AS REGENERATED from the source are these models; "
        "kind resid (incl. *_scaled with residuals RELATIVE to the matrix norm, rot2/rot3): validation only"
    ),
    rule=(
        "cases from one PRNG seed: integer matrices with det +-2^k (shears of a power-of-two diagonal) and small dyadic matrices; dyadic polynomials with forced "
        "cancellation, closed-form root cases (zero polynomial, constant, linear, quadratic with none/double/two roots, zero leading coefficients); dyadic angles "
        "of both signs against the exact rational value of the double 2*pi; control polygons of 0..17 points (every Eval branch: panic, 3 closed forms, every table "
        "row, recursive fallback) at dyadic t sized so that float64 arithmetic is exact, and at arbitrary doubles in bit mode; axis-aligned power-of-two polylines "
        "(exact) and Pythagorean/generic polylines (bit mode) incl. the L-shape at t=1/4; joined curves; table objectives (piecewise constant, arbitrary shape) "
        "for Line/Grid2D/Grid3D/RecursiveLineSearch with even and odd stops and 0-3 recursions, plus spikes sitting on/next to the first or last stop (clamped refinement window), GSS, bisection; polynomials lead*prod(x-r_i)*prod((x-h)^2+k) of degree 1-8 with known dyadic roots and BOTH signs of the leading coefficient (expected roots computed by the driver); Bezier.Length vs chord sum of Eval and vs Split halves (closed, repeated, collinear, tiny, point polygons); every matrix family (inverse, det, mulcolinv, invmul, mul, charpoly; SVD 2/3/4, Eigenvalues, symEigDecomp, LeastSquares3, SparseCholesky incl. ring patterns with fill-in; rotations) ALSO at dyadic scales 2^k, k in [-40,40] (a third at k=0, small and large scales over-weighted), symmetric and non-symmetric 3x3 with known real eigenvalues, numerical and model2d/model3d twins; numerical.Vec of length 0..32 (small dyadics, Pythagorean and power-of-two-norm vectors in exact mode; arbitrary doubles at scales 2^+-20 in bit mode; mismatched lengths for Add/Sub/Dot); polynomials with arbitrary double coefficients of length 0..10 for Eval/Mul/Scale/Derivative in bit mode; distinct = distinct operation lines"
    ),
    trusted=[
        "regenerated, not hand-written: lean/M3d/Gen/Kernels.lean (Go->Lean translator harness/hlib/go2lean, run on the current "
        "source on every check) contains numerical/matrix2.go, matrix3.go, matrix4.go and vecs.go; M3d.KernelsTie.Numeric.* re-prove "
        "against it that Det, Inverse (through InvertInPlaceDet and the in-place Scale loop), Mul, MulColumn, MulColumnInv, "
        "Transpose, Add of Matrix2/3 and Det, Mul, Transpose of Matrix4 are the model functions of the reconstruction theorems",
        "regenerated, loops over slices (M3d.KernelsTie.Poly.*, an obligation of C17): numerical.Polynomial.Eval/Mul/Derivative/Scale, Matrix4.CharPoly, Vec.Scale/NormSquared/DistSquared/Norm/Dist/Normalize/At/Len/Zeros as generated from the "
        "current source (structural recursion loopFrom, slices as lists) are Poly.eval/mulLoop = mul/derivative/scale, M4.charPoly, VecN.*; stated on the generated definitions: Eval p x = sum p[i] x^i, Eval (Mul p q) = Eval p * Eval q, "
        "Derivative is the formal derivative, Eval (CharPoly m) t = regenerated Matrix4.Det (t I - m), the closed-form root branches / the Cauchy window / deflation by divideRoot speak about the zeros of the regenerated Eval, "
        "Matrix2.Eigenvalues returns zeros of the characteristic quadratic evaluated by it; float64(i) is read as the cast of the field (HasOfInt), math.Sqrt uninterpreted",
        "regenerated and proved about directly (M3d.KernelsTie.Rotation.*, an obligation of C17): numerical/model3d NewMatrix3Rotation, numerical/model2d NewMatrix2Rotation, "
        "Vec3/Coord3D.OrthoBasis as generated from the source are orthogonal with determinant 1, fix the axis, and R(-t) = R(t)^T (math.Cos/Sin/Sqrt uninterpreted, "
        "constrained by cos^2+sin^2=1 and sqrt(x)^2=x); numerical.Vec2/3/4 Add/Sub/Scale/Dot/Cross/Sum/DistSquared/Norm/Dist/Normalize/ProjectOut are the V2/V3/V4 model functions (KernelsTieNumeric)",
        "modelled, not tied by regeneration: the coefficient computation inside Matrix2/Matrix3.Eigenvalues (M2.eigCoeffs, M3.eigCoeffs: locals of a function that goes on through complex128/cmplx.Pow, "
        "outside the translator's subset) - mat3_eigen_charpoly / mat3_smul_charpoly are about these models; the code is tied to them only through resid.v eigvals3* (validation) and scov.f eig2 (deciding, 2x2)",
        "modelled, not verified: sort.SearchFloat64s as 'least index with a[i] >= x' (true on the sorted cumulative offsets); math.Mod as the exact x - trunc(x/y)*y; math.Sqrt / int() / trunc as function parameters constrained by their defining property in the theorems",
        "Coord/Vec Scale/Add/Sub are component-wise, so Bezier kernels are modelled per coordinate (both coordinates are compared by the correspondence)",
        "Polynomial.Mul is modelled twice: as the sum of shifted rows (Poly.mul, exact mode, the model of poly_eval_mul) and as the Go double loop (Poly.mulLoop, bit mode); poly_mul_loop_eq proves them equal over every field and M3d.KernelsTie.Poly.polynomial_mul_loop ties the regenerated definition to the latter",
        "modelled, not tied by regeneration (outside the translator's subset): Polynomial.Add (essentials.MaxInt, trimming loop), divideRoot, IterRealRoots, Vec.Add/Sub/Dot/ProjectOut (panic on length mismatch) - tied by the poly / vec kinds only",
        "VALIDATION ONLY, not proved: BezierCurve.Length (tolerance 1e-5*L+1e-7 against Eval chord sums and Split halves), RealRoots on known-root polynomials (tolerance 2^-17, kind realroots.q); 3x3/4x4 eigenvalues/SVD/symEigDecomp (the cubic formula goes through cmplx.Pow, Matrix4.SVD through the root finder; the 2x2 kernels are modelled, proved and compared bit for bit - see above - and additionally validated here)/LeastSquares3/SparseCholesky/RCM+Permute/BiCGSTAB/RealRoots of degree 3-8 are checked through residual contracts at tolerance 1e-6 on well-conditioned generated inputs (kind 'resid'), at unit scale and at every dyadic scale 2^k, k in [-40,40], with the residual relative to the matrix norm (1e-4 for Matrix4.SVD); rotations (libm cos/sin) through orthogonality/determinant/axis/composition/inverse contracts; their convergence and conditioning are floating-point analysis",
        "floating-point rounding is outside the theorems: they are over ordered fields; the exact mode ties the field instance to the code on inputs where float64 arithmetic is exact, the bit mode ties the operation order",
    ],
    assumptions=[
        "matrices: Det() != 0 for the inverse theorems (the scale-covariance theorems hold for every matrix and every scale factor)",
        "Matrix2 Eigenvalues/symEigDecomp/SVD theorems: exact arithmetic, math.Sqrt any function with sqrt(x)^2 = x and sqrt(x) >= 0 on x >= 0 (the real square root is one); no conditioning hypothesis",
        "rotation theorems: unit axis, cos^2 + sin^2 = 1 at the angle used, sqrt(x)^2 = x on x > 0; R(-t) = R(t)^T additionally cos even / sin odd at t",
        "scaled instances: dyadic scale factors 2^k with |k| <= 40, so that scaling is exact and no intermediate leaves the normal range of float64",
        "SegmentCurve: every segment has positive length (a zero-length segment makes Eval divide 0/0 at its own arclength)",
        "search optimisers: Stops >= 1 and the objective returns ordinary numbers (no NaN / -Inf)",
        "JoinedCurve.Eval: 0 <= t <= 1 (for t >= 1 + 1/n the Go code indexes out of range)",
        "divideRoot: at least three coefficients (for a linear polynomial it returns the constant 1 by design)",
    ],
    level_text=(
        "Theorems (Lean 4, all inputs, every linearly ordered field): 2x2/3x3 Inverse is a two-sided inverse when Det != 0, MulColumnInv solves, Det is multiplicative, "
        "Transpose is an involution; Matrix4.CharPoly is det(xI - m); scale covariance: det(sM)=s^n det M, Inverse(sM)=s^-1 Inverse(M) and MulColumnInv likewise (all s, all M), eigenpairs, the quadratic/cubic of Matrix2/3.Eigenvalues are the characteristic polynomials and chi_{sM}(s x)=s^n chi_M(x) (2x2, 3x3, 4x4 CharPoly coefficient-wise), Gram matrices scale by s^2, U S V^T = M implies U (sS) V^T = sM; Matrix2.Eigenvalues returns the roots of the characteristic polynomial (real branch: ascending, sum trace, product det; complex branch: no real eigenvalue, the conjugate pair), Matrix2.symEigDecomp and Matrix2.SVD reconstruct EVERY (symmetric / arbitrary) 2x2 matrix with orthogonal factors and sorted non-negative singular values (sigma1^2+sigma2^2 = Frobenius^2, sigma1 sigma2 = |det|) for any sqrt with sqrt(x)^2 = x, sqrt(x) >= 0; rotation constructors (as regenerated from the source) are orthogonal with det 1, fix the axis and are inverted by the opposite angle; Vec3.Cross is orthogonal to its arguments, Normalize gives unit vectors, ProjectOut removes the component; list polynomials Eval/Add/Mul (also as the double loop in the order of the source)/Scale/Derivative/divideRoot satisfy their defining equations - Eval, Mul, Scale, Derivative, Matrix4.CharPoly and the numerical.Vec kernels (NormSquared = sum of squares, Scale, DistSquared, Normalize unit, ProjectOut orthogonal) also as REGENERATED from the source - and the "
        "closed-form root branches return exactly the real roots and the Cauchy window of the bracketing branch contains every real root; CanonicalAngle returns the congruent angle in [0, tau) and AngleDist the circular distance; the binomial "
        "table regenerated from the source equals Nat.choose (kernel-decided); BezierCurve.Eval equals de Casteljau for every degree (closed forms, table branch, recursive "
        "fallback), Split reparametrises, Polynomials converts; SegmentCurve.Eval is the point at arclength fraction t; the grid/line/golden-section searches return a "
        "point at least as good as every sample evaluated at any recursion level. Tie: the same generic definitions are executed at Rat and compared for equality with the "
        "real Go code on exactly-representable inputs, and at Float bit-for-bit on arbitrary doubles."
    ),
    level_note=(
        "Proved about the models in lean/M3d/Model/{Numeric,Svd2,Curves,Search}.lean and, for rotations and the vector/matrix algebra, about the definitions regenerated from the source (lean/M3d/Gen/Kernels.lean); libm-based and iterative kernels are only validated by residual contracts (not proved); "
        "floating-point rounding itself is not modelled. Trusted: Lean kernel, propext/Classical.choice/Quot.sound, the Go harness and driver, the modelling of library calls listed above."
    ),
)
