PROP = dict(
    module="M3d.Props.C17",
    corr=dict(quick=300, thorough=4000),
    gen=["Binomial", "Kernels"],
    tie_modules=["M3d.Lemmas.KernelsTieNumeric"],
    corr_theorems=(
        "exact mode (q): the driver prints the SPECIFICATION wherever M3d.C17 proves the faithful model equal to it — "
        "bezier_eval_eq_decasteljau (bez eval -> de Casteljau), bezier_split_eval (bez spliteval), segment_curve_eval (seg eval -> arclength walk), "
        "mat{2,3}_inverse_mul/mul_inverse (invmul -> identity), divide_root (divrootid -> 0), canonical_angle_congruent/angle_dist_circular (angle), "
        "search_best_of_samples/line_search_best_of_samples/grid*_best_of_samples/rls_best_of_samples/gss_best_of_samples (ls g2 g3 rls gss: result and full evaluation trace), joined_curve_eval, bisection_search_bracket; "
        "bit mode (f): the same generic models run at Float, same operations in the same order; kind resid: validation only"
    ),
    rule=(
        "cases from one PRNG seed: integer matrices with det +-2^k (shears of a power-of-two diagonal) and small dyadic matrices; dyadic polynomials with forced "
        "cancellation, closed-form root cases (zero polynomial, constant, linear, quadratic with none/double/two roots, zero leading coefficients); dyadic angles "
        "of both signs against the exact rational value of the double 2*pi; control polygons of 0..17 points (every Eval branch: panic, 3 closed forms, every table "
        "row, recursive fallback) at dyadic t sized so that float64 arithmetic is exact, and at arbitrary doubles in bit mode; axis-aligned power-of-two polylines "
        "(exact) and Pythagorean/generic polylines (bit mode) incl. the L-shape at t=1/4; joined curves; table objectives (piecewise constant, arbitrary shape) "
        "for Line/Grid2D/Grid3D/RecursiveLineSearch with even and odd stops and 0-3 recursions, plus spikes sitting on/next to the first or last stop (clamped refinement window), GSS, bisection; polynomials lead*prod(x-r_i)*prod((x-h)^2+k) of degree 1-8 with known dyadic roots and BOTH signs of the leading coefficient (expected roots computed by the driver); Bezier.Length vs chord sum of Eval and vs Split halves (closed, repeated, collinear, tiny, point polygons); distinct = distinct operation lines"
    ),
    trusted=[
        "regenerated, not hand-written: lean/M3d/Gen/Kernels.lean (Go->Lean translator harness/hlib/go2lean, run on the current "
        "source on every check) contains numerical/matrix2.go, matrix3.go, matrix4.go and vecs.go; M3d.KernelsTie.Numeric.* re-prove "
        "against it that Det, Inverse (through InvertInPlaceDet and the in-place Scale loop), Mul, MulColumn, MulColumnInv, "
        "Transpose, Add of Matrix2/3 and Det, Mul, Transpose of Matrix4 are the model functions of the reconstruction theorems",
        "modelled, not verified: sort.SearchFloat64s as 'least index with a[i] >= x' (true on the sorted cumulative offsets); math.Mod as the exact x - trunc(x/y)*y; math.Sqrt / int() / trunc as function parameters constrained by their defining property in the theorems",
        "Coord/Vec Scale/Add/Sub are component-wise, so Bezier kernels are modelled per coordinate (both coordinates are compared by the correspondence)",
        "Polynomial.Mul is modelled as the sum of shifted rows (equal to the Go double loop over any commutative ring; compared in exact mode only)",
        "VALIDATION ONLY, not proved: BezierCurve.Length (tolerance 1e-5*L+1e-7 against Eval chord sums and Split halves), RealRoots on known-root polynomials (tolerance 2^-17, kind realroots.q); eigenvalues/SVD (2,3,4)/symEigDecomp/LeastSquares3/SparseCholesky/RCM+Permute/BiCGSTAB/RealRoots of degree 3-8 are checked through residual contracts at tolerance 1e-6 on well-conditioned generated inputs (kind 'resid'); their convergence and conditioning are floating-point analysis",
        "floating-point rounding is outside the theorems: they are over ordered fields; the exact mode ties the field instance to the code on inputs where float64 arithmetic is exact, the bit mode ties the operation order",
    ],
    assumptions=[
        "matrices: Det() != 0 for the inverse theorems",
        "SegmentCurve: every segment has positive length (a zero-length segment makes Eval divide 0/0 at its own arclength)",
        "search optimisers: Stops >= 1 and the objective returns ordinary numbers (no NaN / -Inf)",
        "JoinedCurve.Eval: 0 <= t <= 1 (for t >= 1 + 1/n the Go code indexes out of range)",
        "divideRoot: at least three coefficients (for a linear polynomial it returns the constant 1 by design)",
    ],
    level_text=(
        "Theorems (Lean 4, all inputs, every linearly ordered field): 2x2/3x3 Inverse is a two-sided inverse when Det != 0, MulColumnInv solves, Det is multiplicative, "
        "Transpose is an involution; Matrix4.CharPoly is det(xI - m); list polynomials Eval/Add/Mul/Scale/Derivative/divideRoot satisfy their defining equations and the "
        "closed-form root branches return exactly the real roots and the Cauchy window of the bracketing branch contains every real root; CanonicalAngle returns the congruent angle in [0, tau) and AngleDist the circular distance; the binomial "
        "table regenerated from the source equals Nat.choose (kernel-decided); BezierCurve.Eval equals de Casteljau for every degree (closed forms, table branch, recursive "
        "fallback), Split reparametrises, Polynomials converts; SegmentCurve.Eval is the point at arclength fraction t; the grid/line/golden-section searches return a "
        "point at least as good as every sample evaluated at any recursion level. Tie: the same generic definitions are executed at Rat and compared for equality with the "
        "real Go code on exactly-representable inputs, and at Float bit-for-bit on arbitrary doubles."
    ),
    level_note=(
        "Proved about the models in lean/M3d/Model/{Numeric,Curves,Search}.lean; libm-based and iterative kernels are only validated by residual contracts (not proved); "
        "floating-point rounding itself is not modelled. Trusted: Lean kernel, propext/Classical.choice/Quot.sound, the Go harness and driver, the modelling of library calls listed above."
    ),
)
