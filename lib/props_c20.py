PROP = dict(
    thorough_seeds=48,
    module="M3d.Props.C20",
    corr=dict(quick=600, thorough=5000),
    gen=["Kernels"],
    tie_modules=["M3d.Lemmas.KernelsTieRender"],
    corr_theorems=(
        "estq/estf: M3d.C20.pixel_is_mean (+ early_stop_only_when_converged) — the driver prints meanOf(the samples actually drawn) and their number; "
        "varq/varf/rvarf: variance_unbiased_form; map/img: coords_row_major, each_pixel_once, image_independent_of_schedule, "
        "constant_stream_mean, uniform_emitter_radiance; castq/camf: uncast_cast_id, matrix_inverse_correct; dircam: directional_camera_contains; "
        "treeq/treef/joinf/bvhf: joined_cast_is_nearest, filtered_cast_sound, bvh_cast_is_nearest; "
        "treeq/treef/xprim: translated_cast_conj, matrix_cast_conj, matrix_normal_conformal; litf: lit_matte_surface_radiance; bouncef: one_bounce_closed_form, focus_selection_intervals, source_density_is_mixture, mixture_importance_sampling_unbiased; pendf/densf/bptf: path_ender_cutoff_roulette, roulette_unbiased, mis_weights_sum_to_one, mis_estimator_unbiased; dircamf: directional_search_invariant, directional_camera_full_contains; imops/dsq/dsf: image_set_at, image_copy_from_spec, downsample_is_block_mean; treef/xprim normals: matrix_normal_inverse_transpose"
    ),
    rule=(
        "per seed: estimateColor of RecursiveRayTracer and BidirPathTracer through the verif hook with a scripted radiance stream "
        "(NumSamples 1..64, MinSamples 0..10, no check / MaxStddev (+OversaturatedStddevs) / scripted custom Convergence, antialias 0/.25/.5/1/2; "
        "dyadic streams compared as exact rationals when the count is a power of two, arbitrary doubles bit-for-bit incl. the statistics handed to Convergence; "
        "every traced ray compared with caster(x+jitter) from the same generator seed); estimateVariance / RayVariance; mapCoordinates at GOMAXPROCS 1..16 "
        "and sizes 0..12; Camera axes/Caster/Uncaster on NewCameraAt, orthonormal and skew cameras, all aspect ratios, six fields of view; DirectionalCamera "
        "on random boxes for seven fields of view; random wrapper trees (Joined/Filtered/Translate/MatrixMultiply/Rotate/Scale) over probe leaves whose "
        "answer is an affine function of the ray they receive (exact over Q with monomial power-of-two matrices, bit-for-bit over doubles otherwise); "
        "JoinedObject and BVHToObject over real Sphere/Rect/Triangle parts incl. duplicates; wrappers of real primitives vs the transformed primitive built "
        "directly (dyadic data); per-pixel RayCaster and RecursiveRayTracer(MaxDepth 0) values of lit matte spheres/boxes/triangles with and without occluders and 0-3 point lights (primitive Cast answers as oracle data, everything else recomputed bit-for-bit); whole images (RayCaster, RecursiveRayTracer, BidirPathTracer) of closed uniform emitters at GOMAXPROCS 1..16. "
        "Round 2: one RecursiveRayTracer.recurse sample (MaxDepth 0-3, Cutoff, scripted materials, 0-2 scripted FocusPoints with FocusPointProbs, gen.Float64 replayed through a scripted rand.Source, every Cast of the real floor/light/enclosure scene recorded and replayed as the model's scene oracle) bit-for-bit; bptPathEnder with scripted coins; bptLightPath.Densities on random vertex data; BidirPathTracer.rayColor given the two sampled paths (hook re-samples them with the same seed) on floor + light panel (+ enclosure, + occluder) scenes, MaxDepth 1-3, MaxLightDepth 0-2, roulette on/off, visibility casts replayed; the whole of DirectionalCamera (NewCameraAt, Uncaster, 32 bisection steps) bit-for-bit; Image Set/At/SetAll/CopyFrom histories with out-of-bounds coordinates and Downsample (exact for factor 1,2,4; bit-for-bit otherwise); wrappers of real triangles/boxes under anisotropic scales and unit-determinant shears. "
        "distinct = distinct operation lines; non-trivial = early stop taken, >1 worker received, hit found, matrix wrapper present (see #stat counters)"
    ),
    trusted=[
        "regenerated, not hand-written: lean/M3d/Gen/Kernels.lean (Go->Lean translator harness/hlib/go2lean, run on the current "
        "source on every check); M3d.KernelsTie.Render.* re-prove against it that Camera.axes, NewCameraAt, "
        "PointLight.ShadeCollision and the Matrix3 algebra (Det, Inverse, MulColumn, Transpose, Mul, NewMatrix3Columns) are the "
        "model functions of the camera-inverse and lit-scene theorems (plane distance = 1/tan(fov/2))",
        "modelled, not verified: float64 arithmetic is related to the field the theorems are proved over only through the two executions of the same generic model (Rat: exact on dyadic inputs; Float: bit-for-bit)",
        "modelled, not verified: the Go channel + WaitGroup of mapCoordinates as 'every queued entry is received by exactly one worker' (any assignment of queue positions to workers); scheduler, memory model and data-race freedom of img.Data[idx] writes belong to C13",
        "math.Tan (field of view -> plane distance), math.Sqrt and math/rand are parameters of the models (pd, sqrt, draw); Object.Cast of leaf primitives (Sphere/Rect/Triangle intersection, C07) is an oracle — the wrappers are proved correct relative to it",
        "BidirPathTracer: the path *samplers* (sampleEyePath/sampleLightPath: material and light sampling, C19) are not modelled - their output vertices are data; the combination stage (allPathCombinations, combinePaths, EvalMaterial, Densities, balance-heuristic weighting, visibility test, pathEnder roulette) is modelled and tied bit-for-bit; PowerHeuristic != 0 (math.Pow) and RouletteDelta > 0 are not exercised",
        "materials and focus points in the bounce/BPT kinds are harness-defined (constant BSDF/densities, formula samplers): what is tied is the estimator bookkeeping, not any physical material",
    ],
    assumptions=[
        "NaN/Inf radiance samples and NaN ray data are excluded",
        "uncast_cast_id needs non-parallel screen axes, positive image size, tan(fov/2) finite non-zero, and the point in front of the camera (t > 0)",
        "bvh_cast_is_nearest assumes each branch's bounding collider is hit by every ray that hits a leaf below it (checked on real Rect bounds by the bvhf kind)",
        "mixture_importance_sampling_unbiased / mis_estimator_unbiased are exact expectations over finite outcome sets (the continuous integrals are not formalised)",
    ],
    level_text=(
        "Lean 4 theorems over every linearly ordered field, for all inputs: the sampling loop shared by both ray tracers returns exactly the arithmetic mean of "
        "the samples it drew and their number for every stream, NumSamples>=1, MinSamples and convergence oracle, and stops early only when the oracle said yes "
        "on the true statistics after max(MinSamples,2) samples; estimateVariance is the unbiased sample variance; mapCoordinates hands every pixel index to exactly "
        "one worker for every worker count and interleaving and the image does not depend on the schedule; Uncaster inverts Caster for every camera/aspect/fov; "
        "DirectionalCamera's result contains the box; Joined/Filtered/BVH casts return the nearest hit among the leaves; Translate/MatrixMultiply cast exactly the "
        "transformed surface (same parameter, image point, inverse-transpose normal); a closed uniform emitter renders to its emission; a lit matte surface renders to its closed form at MaxDepth 0 and, with one bounce onto an emitter chosen through FocusPoints, to emission + L*BSDF*cos/mixture-density, the mixture density being the density of the selection rule (exact unbiasedness over finite direction sets); the bidirectional tracer's balance-heuristic weights sum to one and its roulette compensation is unbiased; DirectionalCamera's bisection invariants; Image Set/CopyFrom/Downsample write each pixel as specified (block mean). The models are tied to /repo on every "
        "run by running the real code (hooks under build tag verif) and the same models on generated inputs: equality over Q on dyadic data, bit-for-bit over doubles."
    ),
    level_note=(
        "Proved about lean/M3d/Model/Render.lean; the correspondence makes the code agree with the model on the generated cases only. Trusted: Lean kernel, "
        "propext/Classical.choice/Quot.sound, the Go harness and native driver, libm, the Go runtime's channel semantics. Not covered: BPT path sampling and the power heuristic, "
        "Monte-Carlo convergence of non-constant scenes (statistical; recursion with non-zero BSDF is modelled and tied sample by sample at MaxDepth 0-3 through the recorded-Cast replay of round 2; whole images only at MaxDepth 0 and for zero-BSDF emitters), image I/O. Three genuine defects were found by this "
        "check and repaired in /repo (estimateColor count after early stop; DirectionalCamera field of view; MatrixMultiply normals)."
    ),
)
