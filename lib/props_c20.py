PROP = dict(
    unclaimed=True,
    module="M3d.Props.C20",
    corr=dict(quick=150, thorough=1200),
    gen=[],
    corr_theorems="placeholder",
    rule="placeholder",
    trusted=[],
    assumptions=[],
    level_text="placeholder",
    level_note="placeholder",
)
