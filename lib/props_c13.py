import os, re, subprocess

from vlib import run, GOENV, log

EXPECTED_DCL = "atomicLoad retIfSet lock deferUnlock atomicLoad retIfSet alloc build atomicStore ret"


def _frames(par):
    """(function, file:line) frames of one stack paragraph of a race report."""
    lines = par.split("\n")[1:]
    out = []
    i = 0
    while i + 1 < len(lines):
        fn = lines[i].strip()
        loc = lines[i + 1].strip().split(" +0x")[0]
        if fn.endswith(")"):
            fn = fn[:fn.rfind("(")]
        out.append((fn, loc))
        i += 2
    return out


def parse_races(text):
    """Distinct races of a `go build -race` run: site = the pair of innermost library functions."""
    res = {}
    for blk in text.split("=================="):
        if "WARNING: DATA RACE" not in blk:
            continue
        pars = [p for p in blk.strip().split("\n\n") if p.strip()]
        stacks = [p for p in pars if re.match(r"^(WARNING: DATA RACE\n)?(Previous )?(read|write|atomic \w+) at 0x", p.strip(), re.I)]
        tops, harness = [], False
        for p in stacks[:2]:
            p = p.replace("WARNING: DATA RACE\n", "")
            fr = _frames(p.strip())
            lib = [f for f, _ in fr if "unixpickle/model3d/" in f]
            if fr and fr[0][0].startswith("main."):
                harness = True
            top = lib[0] if lib else (fr[0][0] if fr else "?")
            tops.append(top.replace("github.com/unixpickle/model3d/", ""))
        site = ("harness-race:" if harness else "race:") + " | ".join(sorted(set(tops)))
        res.setdefault(site, blk.strip())
    return res


def post_corr(c, cfg):
    """Race-detector leg: the same scenarios, built with -race, GOMAXPROCS >= 4.  Every distinct
    report whose racing accesses are in library code is a violation (the report is the replay)."""
    out = os.path.join(c.harness, "bin", "c13race")
    rc, o = run(["go", "build", "-race", "-tags", "verif", "-o", out, "./cmd/c13"], cwd=c.harness, env=GOENV, timeout=1800)
    if rc != 0:
        c.violations.append(dict(site="race:C13/race-build-failed", kind="correspondence-broken", found_input=False,
                                 detail=o[-1500:], replay=dict(error="go build -race -tags verif ./cmd/c13 failed", output=o[-3000:])))
        return
    n = 60 if c.tier == "quick" else 200
    seeds = [c.seed] if c.tier == "quick" else [c.seed, c.seed + 7919, c.seed + 2 * 7919]
    env = dict(GOENV)
    env["GORACE"] = "halt_on_error=0 history_size=3"
    env["GOMAXPROCS"] = str(max(8, min(16, os.cpu_count() or 8)))
    total = 0
    for seed in seeds:
        outp = os.path.join(c.work, f"race-{seed}.txt")
        cmd = ["timeout", "1500", out, "-prop", "C13RACE", "-seed", str(seed), "-n", str(n), "-out", outp]
        rc, o = run(cmd, cwd=c.harness, env=env)
        c.checker_cmds.append("cd harness && go build -race -tags verif -o bin/c13race ./cmd/c13 && GOMAXPROCS=%s bin/c13race -prop C13RACE -seed %d -n %d" % (env["GOMAXPROCS"], seed, n))
        races = parse_races(o)
        total += len(races)
        try:
            ncases = sum(1 for l in open(outp) if l and not l.startswith("#"))
        except OSError:
            ncases = 0
        c.evaluations += ncases
        c.traces += ncases
        if rc not in (0, 66) and not races:
            c.violations.append(dict(site="race:C13/race-run-failed", kind="correspondence-broken", found_input=False,
                                     detail=f"exit {rc}: {o[-1500:]}", replay=dict(seed=seed, n=n, output=o[-3000:])))
        for site, report in races.items():
            c.violations.append(dict(
                site=site, kind="data-race" if site.startswith("race:") else "harness-data-race", found_input=True,
                detail=report[:600],
                replay=dict(seed=seed, n=n, how="cd harness && go build -race -tags verif -o bin/c13race ./cmd/c13 && GOMAXPROCS=%s bin/c13race -prop C13RACE -seed %d -n %d" % (env["GOMAXPROCS"], seed, n),
                            race_report=report[:6000],
                            theorems="M3d.C13.facts_workers_safe / updateAt_racy (model witness: schedule 0,1,0,1); facts_queries_readonly / query_field_scratch_racy (model witness: interrupted 2)")))
    c.extra_cov["race_detector"] = dict(runs=len(seeds), n=n, gomaxprocs=env["GOMAXPROCS"], distinct_reports=total)


def _driver(c, line):
    drv = os.path.join(c.lean, ".lake", "build", "bin", "drv_c13")
    try:
        p = subprocess.run([drv], input=line + "\n", stdout=subprocess.PIPE, text=True, timeout=300)
        return p.stdout.strip()
    except Exception as e:  # noqa
        return f"driver-failed: {e}"


def search(c, cfg, missing):
    """A facts obligation no longer checks: exhibit the failure.  (1) For a changed getVertexToFace
    shape the model driver enumerates every complete schedule of two threads of the program the
    extracted shape denotes and prints a witness (race / second build / different returned
    objects / read of an unbuilt index).  (2) Unsafe worker effects are named.  The concrete run
    on the real code is the correspondence (pointer identity of the index, answers) and the race
    detector leg, which ran before this."""
    found = False
    try:
        src = open(os.path.join(c.lean, "M3d", "Gen", "ConcFacts.lean")).read()
    except OSError:
        return False
    for dim in ("3d", "2d"):
        m = re.search(r"def getVertexToFace%s : List DclTok := \[(.*?)\]" % dim, src)
        if not m:
            continue
        toks = " ".join(t.strip().lstrip(".") for t in m.group(1).split(",") if t.strip())
        if toks == EXPECTED_DCL:
            continue
        res = _driver(c, f"c13 dclsearch 2 {toks}")
        c.notes.append(f"getVertexToFace ({dim}) shape is [{toks}]; model search: {res}")
        if res.startswith("witness"):
            found = True
            c.violations.append(dict(
                site=f"model:c13/getVertexToFace{dim}-shape", kind="model-witness-schedule", found_input=True,
                detail=f"shape [{toks}] : {res}",
                replay=dict(shape=toks, expected=EXPECTED_DCL, witness=res,
                            op=f"c13 dclsearch 2 {toks}",
                            theorems="M3d.C13.facts_getVertexToFace, dcl_single_creation")))
        else:
            c.violations.append(dict(
                site=f"facts:c13/getVertexToFace{dim}-shape", kind="facts-do-not-match-model", found_input=False,
                detail=f"shape [{toks}] differs from the modelled one; two-thread search: {res}",
                replay=dict(shape=toks, expected=EXPECTED_DCL, search=res)))
    for dim in ("3d", "2d"):
        m = re.search(r"def v2fTouchers%s : List String := \[(.*?)\]\n" % dim, src)
        if m and m.group(1).replace(" ", "") != '"clearVertexToFace","getVertexToFace","getVertexToFaceOrNil"':
            # more lazily built state behind the creation lock (e.g. a cached face list): what the readers
            # do with it is not covered by dcl_single_creation; the enumeration model shows what goes wrong
            # when such a list is shared by the enumerations and sorted in place
            wit = _driver(c, "c13 itersearch shared")
            c.notes.append(f"functions touching vertexToFace / v2fCreateLock ({dim}): [{m.group(1)}]; two enumerations over one face list cached in the mesh and sorted in place: {wit}")
            c.violations.append(dict(
                site=f"facts:c13/v2f-touchers{dim}", kind="facts-do-not-match-model", found_input=False,
                detail=f"functions using the index fields: [{m.group(1)}], modelled: clearVertexToFace, getVertexToFace, getVertexToFaceOrNil",
                replay=dict(touchers=m.group(1), model_witness=wit,
                            theorems="M3d.C13.facts_getVertexToFace, iterate_private_list_eq_sequential, iterate_shared_list_racy",
                            concrete="see the corr:c13 meshiter3 / meshiter2 / sharediter and race: violations of this run")))
    for m in re.finditer(r'\{ file := "([^"]*)", func := "([^"]*)", launcher := "[^"]*", effects := \[(.*?)\] \}', src):
        bad = re.findall(r'⟨\.(plainWrite|sharedMutCall), "([^"]*)"⟩', m.group(3))
        if bad:
            what = ", ".join(f"{k} {t}" for k, t in bad)
            if any(k == "plainWrite" and t.startswith("append(") for k, t in bad):
                # a per-goroutine buffer cut out of captured state: the workers' buffers share one backing array
                wit = _driver(c, "c13 collsearch aliased") + " (buffers of their own: " + _driver(c, "c13 collsearch own") + ")"
                c.notes.append(f"unsafe worker {m.group(1)}:{m.group(2)}: {what}; two workers collecting into slices of one backing array and reducing under the mutex: {wit}")
            else:
                wit = _driver(c, "c13 redsearch" if all(k == "plainWrite" for k, _ in bad) else "c13 updsearch")
                c.notes.append(f"unsafe worker {m.group(1)}:{m.group(2)}: {what}; two-thread model of the unguarded read-modify-write: {wit}")
            c.violations.append(dict(
                site=f"facts:c13/{m.group(1)}:{m.group(2)}", kind="worker-writes-shared-state-unguarded", found_input=False,
                detail=what, replay=dict(worker=m.group(2), file=m.group(1), effects=what, model_witness=wit,
                                         theorems="M3d.C13.facts_workers_safe, facts_collect_sites, collect_reduce_correct, collect_aliased_buffers_racy",
                                         concrete="see the corr:c13 dcinterior / kmeans / heightmap / meshing and race: violations of this run")))
    m = re.search(r"def cacheScalarFunc : List String := \[(.*?)\]\n", src)
    if m and m.group(1).replace(" ", "") != '"decl:sync.Map","call:Load","call:Store"':
        wit = _driver(c, "c13 cachesearch claim")
        c.notes.append(f"CacheScalarFunc uses its cache as [{m.group(1)}], not Load/compute/Store; model of 'claim the entry, fill it later': {wit}")
        c.violations.append(dict(
            site="facts:c13/cacheScalarFunc-shape", kind="facts-do-not-match-model", found_input=False,
            detail=f"cache operations [{m.group(1)}] differ from the modelled Load / Store",
            replay=dict(shape=m.group(1), expected="decl:sync.Map, call:Load, call:Store", model_witness=wit,
                        theorems="M3d.C13.facts_cacheScalarFunc, cache_memo_returns_fx, cache_claim_first_racy",
                        concrete="see corr:c13 nestcache / cachefunc of this run")))
    m = re.search(r"def queryReceiverWrites : List String := \[(.*?)\]\n", src)
    if m and m.group(1).strip():
        writes = re.findall(r'"((?:[^"\\]|\\.)*)"', m.group(1))
        wit = _driver(c, "c13 qsearch field")
        ok = _driver(c, "c13 qsearch local")
        c.notes.append("query methods write their receiver: " + "; ".join(writes) +
                       f" -- two staged queries with the staging area on the shared structure: {wit}; with call-local staging: {ok}")
        by_method = {}
        for w in writes:
            by_method.setdefault(w.split(":")[0], []).append(w.split(":", 1)[1].strip() if ":" in w else "")
        cfg_wit = None
        opt_wit = None
        for meth, ws in sorted(by_method.items()):
            w, thms, conc = wit, "M3d.C13.facts_queries_readonly, owned_state_noninterference, query_field_scratch_racy", \
                "see the corr:c13 nestq / nestobj / rendersched / sharedq / sharedobj and race: violations of this run"
            if meth.rsplit(".", 1)[-1] in ("Render", "RenderVariance", "RayVariance"):
                # an entry point of a renderer writes the renderer: RayVariance + Render on one renderer
                if cfg_wit is None:
                    cfg_wit = _driver(c, "c13 cfgsearch field") + " (private copy: " + _driver(c, "c13 cfgsearch private") + ")"
                    c.notes.append(f"renderer entry points write the renderer: RayVariance (goroutine 0) zeroing the renderer's own Antialias=2 while Render (goroutine 1) runs: {cfg_wit}")
                w, thms, conc = cfg_wit, "M3d.C13.facts_queries_readonly, renderer_calls_private_config_eq_sequential, renderer_config_field_racy", \
                    "see the corr:c13 rendercfg / sharedrender and race: violations of this run"
            if any("stores into the elements of its argument" in x for x in ws):
                # a derivation (Optimize) hands the receiver's own slice to a function that permutes it
                if opt_wit is None:
                    opt_wit = _driver(c, "c13 optsearch inplace") + " (grouping a copy of its own: " + _driver(c, "c13 optsearch copy") + ")"
                    c.notes.append(f"a read-only method hands memory of its receiver to a function that stores into it: Contains (goroutine 0, point in part 1 of the union 3,2,1) while Optimize (goroutine 1) groups the union's own slice: {opt_wit}")
                w, thms, conc = opt_wit, "M3d.C13.facts_queries_readonly, optimize_private_copy_eq_sequential, optimize_in_place_racy", \
                    "see the corr:c13 nestderive3 / nestderive2 / sharedderive and race: violations of this run"
            c.violations.append(dict(
                site=f"facts:c13/query-writes-receiver:{meth}", kind="query-method-writes-shared-structure", found_input=False,
                detail=f"{meth} writes {', '.join(ws)}",
                replay=dict(method=meth, writes=ws, model_witness=w, model_local=ok, theorems=thms, concrete=conc)))
    m = re.search(r"def queryClosureWrites : List String := \[(.*?)\]\n", src)
    if m and m.group(1).strip():
        writes = re.findall(r'"((?:[^"\\]|\\.)*)"', m.group(1))
        wit = _driver(c, "c13 qsearch field")
        ok = _driver(c, "c13 qsearch local")
        c.notes.append("query closures write variables captured from their constructor: " + "; ".join(writes) +
                       f" -- two staged queries with the staging area shared by all calls: {wit}; with call-local staging: {ok}")
        by_site = {}
        for w in writes:
            by_site.setdefault(w.split(":")[0], []).append(w.split(":", 1)[1].strip() if ":" in w else "")
        for site, ws in sorted(by_site.items()):
            c.violations.append(dict(
                site=f"facts:c13/query-closure-writes-captured:{site}", kind="query-closure-writes-shared-variable", found_input=False,
                detail=f"{site} writes {', '.join(ws)}",
                replay=dict(closure=site, writes=ws, model_witness=wit, model_local=ok,
                            theorems="M3d.C13.facts_query_closures_readonly, owned_state_noninterference, query_field_scratch_racy",
                            concrete="see the corr:c13 nestsolid / nestsolid2 / sharedsolid / meshing and race: violations of this run")))
    return found


PROP = dict(
    module="M3d.Props.C13",
    gen=["ConcFacts"],
    corr=dict(quick=300, thorough=1500),
    thorough_seeds=4,
    post_corr=post_corr,
    search=search,
    corr_theorems="M3d.C13.dcl_single_creation / readers_eq_sequential (mesh first queries, same index object), index_partition_race_free + concurrentMap_eq_sequential (rasterise, dc/mc populate, KMeans.Assign), mutex_reduction_correct + mutex_reduction_eq_sequential_all_worker_counts (KMeans.Iterate), collect_reduce_correct + collect_eq_sequential_all_worker_counts (dcinterior: per-goroutine buffers appended to the shared result by the reduce function under the launcher's mutex give, for every worker count, the multiset one goroutine collects; collect_aliased_buffers_racy is the model witness for buffers cut out of one backing array), chan_each_index_once (render, mapc), updateAt_locked_is_max (height map), cache_memo_returns_fx (cachefunc, nestcache), owned_state_noninterference + query_local_scratch_eq_sequential (nestq, nestobj, nestsolid, nestsolid2, rendersched, sharedq, sharedobj, sharedsolid, sdfhist, derived3/2: a query that stages its results in state of its own call returns, under every schedule, what it returns alone; query_field_scratch_racy is the model witness for the interrupted-query schedule the harness forces), iterate_private_list_eq_sequential (meshiter3, meshiter2, sharediter: an enumeration that sorts and ranges over the face list allocated by its own call visits every face exactly once in its own order whatever other readers do, also while it is parked inside its callback or its comparison function; iterate_shared_list_racy is the model witness for a list cached in the mesh and sorted in place), renderer_calls_private_config_eq_sequential (rendercfg, sharedrender: Render / RenderVariance / RayVariance of one renderer each sample with the configuration of the private copy their call made; renderer_config_field_racy is the model witness for RayVariance zeroing the renderer's own Antialias field), optimize_private_copy_eq_sequential (nestderive3, nestderive2, sharedderive: a Contains / Min / Max of a JoinedSolid that loads the parts one by one from the shared slice, also while it is parked inside a part, and an Optimize() that groups a copy made by its own call do not disturb each other -- every query returns the fold over the parts in their listed order, every Optimize builds from the grouping of the original list; optimize_in_place_racy is the model witness for GroupBounders on the receiver's own slice), progress_reports_single_consumer + facts_progress_channel (renderlog: only the goroutine that called Render counts and reports; progress_counters_in_workers_racy is the witness for counters updated by the workers): the model answer of every scenario is the answer of sequential use",
    rule="scenario instances from one PRNG seed: N in {2,3,4,8,16,32} goroutines issuing first queries (Find/Neighbors/VertexSlice/IterateVertices/Find2) on a fresh 3D/2D mesh so that they race the lazy index build, plus identity of the index object; concurrent queries on shared and concurrently derived MeshToCollider/MeshToSDF/ColliderSolid (3D, 2D); sharedq/sharedobj: N goroutines with their own query lists on one library structure (ProfileCollider, wide JoinedCollider, TransformCollider, nested joins, the ColliderSolid/Inset/Hollow and ColliderToSDF derived from it; Objectify with a nowhere-constant ColorFunc, JoinedObject, FilteredObject, Translate/Rotate/Scale) over plain leaves; nestq/nestobj: the same structures over user-supplied leaves that report entry/exit to a gate -- goroutine A is parked at its k-th callback into user code (for objects also between Cast and the use of the material), goroutine B runs 1-3 complete queries, A continues; every park position k of A's query is tried (all when <= 10, else 10 sampled), answers of A, of B and of A afterwards vs sequential use; rendersched: a real RecursiveRayTracer.Render (MaxDepth 0, 1 sample: deterministic) of an Objectify'd scene in which the worker of a lit pixel P is held at its shadow-ray cast until another worker has cast the primary ray of a pixel Q of another color, image vs the one-goroutine rendering (hook VerifRenderSequential); RasterizeSolid/Rasterize/RasterizeColliderSolid, KMeans.Iterate+Assign (exact integer data), MarchingCubes/Search/Filter/C2F/DualContouring and MarchingCubes over ColliderSolid(ProfileCollider), RayCaster.Render (incl. an Objectify'd object) at GOMAXPROCS 2,3,4,8,16 vs GOMAXPROCS 1; HeightMap.AddSpheresSDF vs sequential replay of the recorded spheres; CacheScalarFunc free-running and (nestcache) with the first evaluation of f(x) parked at entry / at exit while another goroutine asks for the same x; nestsolid/nestsolid2: solids and fields built from function literals (SmoothJoinV2, SmoothJoin, SDFToSolid over TransformSDF/ProfileSDF, Joined/Intersected/SubtractedSolid, Translate/Rotate/Scale/VecScale+CacheSolidBounds, ProfileSolid and RevolveSolid over a 2-D structure; the 2-D twins) over user-supplied gated fields and solids -- A's Contains is parked at its k-th callback into a leaf (every k), B runs 1-3 complete Contains, A continues; query points are drawn near the structure's surface (2-10 bisection steps), where the answer depends most on the query's working state; sharedsolid: the free-running twin (N goroutines, 48 points each, 3-D and 2-D); sdfhist: a mesh field is asked tie points (centre / symmetry planes of cube, box, icosphere, torus, square, polygon) and random ones, then 40 unrelated queries, then the same points again (FaceSDF/PointSDF/NormalSDF must answer alike); dcinterior: DualContouring.MeshInterior with a BufferSize of 4-9 grid layers (3-13 buffer passes) at MaxGos 2,3,5,8 vs MaxGos 1, sorted interior points and mesh (the solid's Contains yields in the concurrent runs so that workers overlap); meshing2: MarchingSquares/Search/Filter/C2F at GOMAXPROCS 2,3,4,8,16 vs 1; kmeanssched: KMeans.Iterate over a user vector type whose Add holds the first merge into the shared sums open until a second merge is in flight (bounded wait: under the lock none can start), integer data, GOMAXPROCS 2-4 vs 1; meshiter3/meshiter2: one small 3-D / 2-D mesh (fresh for every run, so that its lazily built parts are built during it) enumerated by reader A (Iterate, IterateSorted with a total order on the face ids: ascending, descending, rotated, random permutation; IterateVertices, MapCoords) that is parked at its k-th callback into user code -- the visiting callback or, for a third of the sorted enumerations, the comparison function -- while reader B runs 1-3 complete enumerations (the same kinds plus Copy / DeepCopy and 'derive' = MeshToCollider + MeshToSDF of the shared mesh, answered by a ray-collision count and two distances) of the same mesh, A continues, then A once more; up to 6 park positions per scenario; compared: the exact visit sequence of a sorted enumeration, the multiset of visited faces of Iterate, the copies, vs sequential use of a twin mesh; sharediter: the free-running twin (N goroutines, 6 enumerations each); rendercfg: one RecursiveRayTracer / BidirPathTracer (Antialias 0-1.5, NumSamples 1-5, optional MinSamples/MaxStddev, MaxDepth 1-3) shared by call A (Render / RenderVariance / RayVariance; RayVariance in half of the cases) that is parked inside the Cast of its own empty recording scene at its first / middle / last cast while 1-3 complete calls B with scenes of their own run on the same renderer, A continues, A and a plain Render once more; a call is compared through what is a function of the configuration alone: number of camera rays, number of distinct directions, number of rays exactly through a pixel centre (all without antialiasing, none with it), the all-black image / returned variance; sharedrender: the free-running twin (up to 6 goroutines, 3 calls each); renderlog: the LogFunc reports of a real Render (up to 64 pixels) whose first report is held open 150 ms or until a second report arrives, GOMAXPROCS 2-4, vs the reports of the same Render at GOMAXPROCS 1: fractions k/n in order, constant sample rate, no overlapping calls; nestderive3/nestderive2: a JoinedSolid of 3-9 user-supplied gated parts (spheres / rects / FuncSolids; laid out along an axis from high to low, along an axis shuffled, or anywhere in a cube, so that in more than 90 % of the scenarios the listed order is not the grouped one -- stat nestderive3-union-not-in-grouped-order / nestderive2-...) whose Contains(pa) (pa inside one part, the later parts preferred, or anywhere in the bounds) is parked at its k-th callback into a part (every k) while goroutine B runs 1-3 complete derivations / queries of the same union (the first one in turn: Optimize() in every second scenario, NewSolidMux + AllContains, IntersectedSolid{j, j.Optimize()}, Contains/Min/Max, Optimize twice, CacheSolidBounds; each answered at 4 points -- one of them a neighbour of pa in half of the cases -- + bounds), A continues, A once more; every run gets a FRESH slice with the same parts in the same order (a derivation that reorders the slice it is given must do so during the interrupted run), compared with sequential use of a twin slice; sharedderive: the free-running twin (n goroutines on one 3-D and one 2-D union over plain parts: even ones query the union, odd ones derive Optimize() / NewSolidMux and query that); mapCoordinates index hand-out. A panic while a scenario builds its structures or computes its sequential answers is reported as a case of its own (c13 <kind> scenario-setup) instead of ending the run. distinct = distinct op lines. The free-running scenarios run a second time under the race detector (GOMAXPROCS >= 8); the gated ones are fully synchronised by construction and are not.",
    trusted=[
        "modelled, not verified: the Go memory model (happens-before from program order, mutex, sequentially consistent atomics, channels) and the scheduler (any interleaving of atomic steps); a racy read returns the latest value in the interleaving (no weak-memory behaviours); index build and queries are single plain accesses of one cell; a query is a straight-line sequence of plain reads/writes (no branches) in owned_state_noninterference",
        "the tie is the SHAPE of the code (go/ast, no type information): the statement sequence of getVertexToFace, mapCoordinates, updateAt, CacheScalarFunc and the syntactic class of every write/mutating call on captured state in every worker closure (plus plain writes of package-level variables in callees, resolved by name, and writes/appends through a worker-local slice expression of captured state; a plain copy `buf := captured.f` is not tracked because without types it may be an array copy); 'own index' means the index expression mentions the worker's own parameter (injectivity of e.g. indices[i] -> (x,y) is not checked)",
        "'query methods do not write their receiver' (facts_queries_readonly) is syntactic: assignments whose root is the receiver, element writes/appends through a slice expression of a receiver field, and the same through methods of the same type; writes through other aliases (a pointer field copied into a local, a callee of another type) are invisible to it -- the interrupted-query and free-running scenarios and the race detector cover those only for the structures they build",
        "query closures (facts_query_closures_readonly) are the function literals that reach FuncSolid / CheckedFuncSolid / FuncSDF / FuncPointSDF syntactically or are returned as a color function / by CacheScalarFunc; a literal stored in a struct field or handed through a helper, and writes through a captured pointer copied into a local, are invisible to it",
        "collectProgN abstracts a worker's buffer to one cell and the append to the shared result to one read-modify-write step under the mutex; that the workers' backing arrays are distinct (hypothesis hinj of collect_reduce_correct) is the facts check 'no slice alias of captured state in the factory', not a proof about append; dcinterior relies on runtime.Gosched() in the user's Contains to make the workers overlap (nothing is forced)",
        "face lists are abstracted to one cell (iterLocalProg: the face set, the sorted list of a call and the callback's record are single values; sort / nth / append are parameters of the theorem), so the element-wise damage of a shared list sorted in place is shown for the list as a whole; that TriangleSlice / SegmentSlice return a fresh slice is not extracted from the source (no types) -- it is what meshiter3/meshiter2 observe",
        "the sampling renderers are randomised: rendercfg / sharedrender compare what is a function of the renderer's configuration with probability 1 (counts of camera rays, of distinct directions, of rays through pixel centres over an empty scene), not pixel values; renderCallProg models the configuration as the one field Antialias",
        "renderlog holds the first LogFunc call open for a bounded time (150 ms); on a machine where no second worker finishes a pixel in that time a change that lets workers report themselves is only caught by the facts and the race detector",
        "the part list of a union is abstracted to one cell (unionProg: the listed parts, the grouped list of an Optimize call and a query's answer are single values; grouping / nth / the fold of a part's answer are parameters of the theorem) and Contains' early return is modelled as folding over all parts (same answer, more loads); that append([]Solid{}, j...) yields a fresh array is the facts check 'Optimize hands no memory of its receiver to a function that stores into its argument' (paramWriters: a per-package fixed point over plain functions, resolved by bare name, same package only) plus what nestderive3/nestderive2 observe, not a proof about append",
        "user-supplied leaves (Solid.Contains, SDF, Collider, Object.Cast, materials, ColorFunc) are assumed safe for concurrent calls",
        "the race detector only sees the schedules that occur in the run; it backs the theorem, it does not decide the property",
    ],
    assumptions=[
        "callers do not mutate a mesh/collider/solid while others read it (the property is about read-only use)",
        "user-supplied solids, SDFs, filters and materials are themselves safe for concurrent calls",
    ],
    level_text="Theorems (Lean 4) over an interleaving semantics with happens-before, for EVERY schedule and every number of threads, proved by inductive invariants: double-checked creation of the vertex index builds exactly once, every reader gets the same fully built object and the sequential answer, no data race (dcl_single_creation, readers_eq_sequential); disjoint index hand-out never conflicts and equals the sequential map, instantiated with ConcurrentMap's strided hand-out (index_partition_race_free, concurrentMap_eq_sequential); mutex-guarded reduction equals the sequential fold for commutative-associative merges (mutex_reduction_correct); per-goroutine buffers handed to a reduce function under the launcher's mutex reach the shared result exactly once when the goroutines' backing arrays are distinct, and with the library's strided hand-out the result is, for every worker count, the fold one goroutine computes (collect_reduce_correct, collect_eq_sequential_all_worker_counts, mutex_reduction_eq_sequential_all_worker_counts; strided_flatten_perm: the hand-outs are a permutation of 0..n-1), while buffers cut out of one backing array have a decided race + lost/duplicated-element witness (collect_aliased_buffers_racy); a pre-filled channel delivers every index exactly once (chan_each_index_once); updateAt under a mutex ends at the maximum with consistent 'changed' flags, the unsynchronised version has a decided two-thread race + lost-update witness (updateAt_locked_is_max, updateAt_racy); Load/compute/Store memoisation returns f(x) to every caller, claim-first has a decided witness (cache_memo_returns_fx, cache_claim_first_racy); immutable query structures: goroutines that write only state owned by their own call and read only that and the never-written structure are race-free and each computes exactly what it computes alone, for arbitrary straight-line query programs and any ownership map (owned_state_noninterference), instantiated with the staged query (query_local_scratch_eq_sequential), while staging in a field of the shared structure has a decided race + wrong-answer witness under the interrupted-query schedule (query_field_scratch_racy); enumerations of one mesh that sort and range over a list of their own call give every reader every face exactly once in its own order (iterate_private_list_eq_sequential; a cached list sorted in place: iterate_shared_list_racy); calls on one renderer sample with the configuration of their own copy (renderer_calls_private_config_eq_sequential; RayVariance zeroing the renderer's field: renderer_config_field_racy); queries of a JoinedSolid and Optimize() calls that group a copy of their own do not disturb each other (optimize_private_copy_eq_sequential; grouping the receiver's own slice: optimize_in_place_racy); progress is counted and reported by the caller of Render alone (progress_reports_single_consumer; progress_counters_in_workers_racy). Tie: M3d/Gen/ConcFacts.lean is regenerated from /repo with go/ast on every run and facts_* theorems require the extracted statement sequences to equal the modelled ones, every worker closure's effects on captured state to be in a proved-safe class, and none of the ~390 query methods (Collider/Solid/SDF/Object/Material/mesh queries incl. Iterate/IterateSorted, the renderers' Render/RenderVariance/RayVariance, and the read-only derivations Optimize/Copy/DeepCopy/MapCoords, of model2d, model3d, render3d, toolbox3d) to assign memory of its receiver or to hand it to a function of the package that stores into the elements of that argument (GroupBounders, GroupTriangles, ...) (facts_queries_readonly, facts_queries_cover), none of the 34 query closures (function literals behind FuncSolid / CheckedFuncSolid / FuncSDF / FuncPointSDF, returned color functions) to assign a variable it did not declare (facts_query_closures_readonly, facts_query_closures_cover), and no worker to write through a slice alias of captured state (facts_workers_safe, facts_collect_sites); the real scenarios are run concurrently vs sequentially (outputs must be identical) -- free-running, under schedules forced through gated user callbacks (every park position of the interrupted query; a real rendering with two workers forced to overlap), and once more under the race detector.",
    level_note="The Go memory model and scheduler are modelled, not verified; the tie covers the shape of the code, not the runtime; the race detector sees only schedules that occur. Weak-memory effects, compiler reordering, goroutine starvation and panics inside workers are outside the model.",
)
