#!/usr/bin/env python3
"""Regenerate MANIFEST.json from lib/props.py (run from /verif)."""
import json, os, sys, subprocess
sys.path.insert(0, os.path.join(os.path.dirname(__file__)))
import props

ALL = ["C%02d" % i for i in range(1, 21)]
hooks_commits = subprocess.run(["git", "-C", "/repo", "log", "--format=%H", "--grep=^verif hooks"], capture_output=True, text=True).stdout.split()
checks = []
for pid in ALL:
    cfg = props.PROPS.get(pid)
    if not cfg or cfg.get("unclaimed"):
        continue
    checks.append(dict(
        property_id=pid,
        quick_cmd=f"./check {pid} --tier quick",
        thorough_cmd=f"./check {pid} --tier thorough",
        evidence_file=f"/verif/evidence/{pid}.json",
        replay_cmd_template=f"./check {pid} --replay {{path}}",
        engine="lean4-proof+correspondence",
        level_claimed=dict(category="proof", text=cfg["level_text"], design_ref=cfg.get("design_ref", f"DESIGN.md §3 {pid}")),
        level_note=cfg["level_note"],
        technique=cfg.get("technique", "machine-checked proof in Lean 4 about an executable model, tied to /repo by a differential correspondence check"),
    ))
na = [dict(property_id=pid, reason=props.NOT_CLAIMED.get(pid, "check not built yet in this session; see DESIGN.md build order")) for pid in ALL if pid not in {c["property_id"] for c in checks}]
m = dict(
    version=1,
    setup_cmd="./setup.sh",
    hooks=dict(guard="verif", enable="go build -tags verif (harness/ builds /repo through a replace directive)",
               baseline_off_cmd="cd /repo && go build ./... && go test -vet=off -count=1 ./...",
               source_commits=hooks_commits, add_only=True),
    engines=[dict(name="lean4-proof+correspondence", path="/verif/check",
                  serves_properties=[c["property_id"] for c in checks],
                  kind_free_text="Lean 4.33 theorems about executable models (lean/M3d), models regenerated from /repo (lean/M3d/Gen via harness/cmd/extract) or tied by a line-protocol correspondence (harness/cmd/corr vs native Lean driver)")],
    checks=checks,
    notes="See DESIGN.md. known_findings.jsonl lists repaired defects (fixed:) and recorded findings.",
    not_applicable=na,
)
json.dump(m, open("MANIFEST.json", "w"), indent=1)
print("claimed:", [c["property_id"] for c in checks])
