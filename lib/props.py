"""Per-property configuration for /verif/check.

Each property may live in its own lib/props_cNN.py defining PROP = dict(...) (and optionally
NOT_CLAIMED_REASON); those are merged in at the bottom of this file."""
import importlib, os, glob

PROPS = {}
NOT_CLAIMED = {}

for _f in sorted(glob.glob(os.path.join(os.path.dirname(__file__), "props_c[0-9][0-9].py"))):
    _m = importlib.import_module(os.path.basename(_f)[:-3])
    _pid = os.path.basename(_f)[6:-3].upper()
    if hasattr(_m, "PROP"):
        PROPS[_pid] = _m.PROP
    if hasattr(_m, "NOT_CLAIMED_REASON"):
        NOT_CLAIMED[_pid] = _m.NOT_CLAIMED_REASON
