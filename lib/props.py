"""Per-property configuration for /verif/check.

Each property may live in its own lib/props_cNN.py defining PROP = dict(...) (and optionally
NOT_CLAIMED_REASON); those are merged in at the bottom of this file."""
import importlib, os, glob

PROPS = {}
NOT_CLAIMED = {}

PROPS["C09"] = dict(
    module="M3d.Props.C09",
    corr=dict(quick=300, thorough=4000),
    corr_theorems="M3d.C09.fastmap_refines_map (maps) / M3d.C09.query_eq_fresh (mesh queries); derived meshes are specified directly from the face set",
    rule="operation histories (1-40 ops) on real CoordToSlice/CoordToNumber (3D, 2D) and *model3d.Mesh over a key pool with signed-zero variants and hash-colliding coordinates found by search on the real hash; distinct = distinct operation lines",
    trusted=[
        "modelled, not verified: Go maps as duplicate-free association lists; face pointers as ids; key identity = Go == on coordinates (NaN excluded)",
        "the hypothesis 'hash is a function of the key as compared by ==' is evaluated on the real fastHash64 for every key of the pool (signed zeros) on every run",
    ],
    assumptions=["NaN coordinates are excluded (Go maps never find them either)"],
    level_text="Theorems (Lean 4, all histories, all hash functions, all value types): the fast coordinate-keyed map observably equals an ordinary map over every finite Store/Delete/Load/Len history, the fast->slow switch is one-way and content-preserving. The model is tied to /repo by replaying random histories with real colliding and signed-zero keys on the real maps and meshes and diffing against the model; derived meshes (Copy/DeepCopy/MapCoords/InvertNormals) are compared with their specification.",
    level_note="Proved about the model in lean/M3d/Model/FastMap.lean; Mesh index bookkeeping is modelled (lean/M3d/Model/Mesh.lean) and tied by correspondence. Trusted: Lean kernel, propext/Quot.sound, the Go harness and driver, Go maps ~ association lists. In-place editors (mcSearch, FlattenBase, eliminateSegment) are exercised under C10, not here.",
)

for _f in sorted(glob.glob(os.path.join(os.path.dirname(__file__), "props_c[0-9][0-9].py"))):
    _m = importlib.import_module(os.path.basename(_f)[:-3])
    _pid = os.path.basename(_f)[6:-3].upper()
    if hasattr(_m, "PROP"):
        PROPS[_pid] = _m.PROP
    if hasattr(_m, "NOT_CLAIMED_REASON"):
        NOT_CLAIMED[_pid] = _m.NOT_CLAIMED_REASON
