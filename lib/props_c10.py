PROP = dict(
    unclaimed=True,
    module="M3d.Props.C10",
    corr=dict(quick=300, thorough=600),
    gen=[],
    corr_theorems="M3d.C10.closed_manifold_decider_correct / closed_curves_decider_correct (the deciders run on the real outputs), placement models of M3d.MeshOps",
    rule="chains of <= 6 real operations on generated closed manifolds; distinct = distinct operation lines",
    trusted=[],
    assumptions=[],
    level_text="(being built)",
    level_note="(being built)",
)
