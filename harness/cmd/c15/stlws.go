package main

// Kind `stlw`: ASCII STL written to the specification whose tokens are separated by arbitrary
// non-empty runs of spaces and tabs, with optional leading / trailing white space on every line
// (column-aligned output of CAD exporters).  The property demands the same faces as for the
// single-space text; the model tokenises with `fields` (strings.Fields).

import (
	"bytes"
	"fmt"
	"io"
	"strconv"
	"strings"

	"verif/harness/codec"
	"verif/harness/hlib"

	ff "github.com/unixpickle/model3d/fileformats"
)

// wsRun draws a white-space run of spaces and tabs with at least min bytes.
func wsRun(c *hlib.Ctx, min int) string {
	r := c.Rng
	n := min
	switch r.Intn(4) {
	case 0:
	case 1:
		n += 1
	default:
		n += r.Intn(6)
	}
	var b strings.Builder
	tabs := r.Intn(3) // 0: spaces only, 1: tabs only, 2: mixed
	for k := 0; k < n; k++ {
		if tabs == 1 || (tabs == 2 && r.Intn(2) == 0) {
			b.WriteByte('\t')
		} else {
			b.WriteByte(' ')
		}
	}
	return b.String()
}

func wsLine(c *hlib.Ctx, text *strings.Builder, toks ...string) {
	multi := false
	text.WriteString(wsRun(c, 0))
	for k, t := range toks {
		if k > 0 {
			s := wsRun(c, 1)
			if s != " " {
				multi = true
			}
			text.WriteString(s)
		}
		text.WriteString(t)
	}
	text.WriteString(wsRun(c, 0))
	text.WriteString("\n")
	if multi {
		c.Stat("c15.stlw.lines-multi-sep", 1)
	}
}

func caseSTLWs(c *hlib.Ctx, i int) {
	r := c.Rng
	nt := 1 + r.Intn(4)
	tb := codec.NewTables()
	var fl strings.Builder
	var text strings.Builder
	wsLine(c, &text, "solid", "m3d")
	f := func(x float32) string { return strconv.FormatFloat(float64(x), 'f', -1, 32) }
	for j := 0; j < nt; j++ {
		var w [12]float32
		for k := range w {
			w[k] = codec.Float32(r, false)
			tb.AddF32(w[k])
			fmt.Fprintf(&fl, " %s", codec.H32(w[k]))
		}
		wsLine(c, &text, "facet", "normal", f(w[0]), f(w[1]), f(w[2]))
		wsLine(c, &text, "outer", "loop")
		for v := 1; v <= 3; v++ {
			wsLine(c, &text, "vertex", f(w[3*v]), f(w[3*v+1]), f(w[3*v+2]))
		}
		wsLine(c, &text, "endloop")
		wsLine(c, &text, "endfacet")
	}
	wsLine(c, &text, "endsolid", "m3d")
	for _, t := range []string{"solid", "m3d", "facet", "normal", "outer", "loop", "vertex", "endloop", "endfacet", "endsolid"} {
		tb.AddTok(t)
	}
	lawCheck(c, tb)
	data := []byte(text.String())
	op := fmt.Sprintf("c15 stlw %s %d%s %s", codec.HexBytes(data), nt, fl.String(), tb.String())
	out := guardT(func() string {
		rd, err := ff.NewSTLReader(bytes.NewReader(data))
		if err != nil {
			return "error"
		}
		var recs []string
		for {
			nrm, vs, err := rd.ReadTriangle()
			if err == io.EOF {
				break
			} else if err != nil {
				return "error"
			}
			s := fmt.Sprintf("%s %s %s", codec.H32(nrm[0]), codec.H32(nrm[1]), codec.H32(nrm[2]))
			for _, v := range vs {
				s += fmt.Sprintf(" %s %s %s", codec.H32(v[0]), codec.H32(v[1]), codec.H32(v[2]))
			}
			recs = append(recs, s)
		}
		res := fmt.Sprintf("ok %d", len(recs))
		if len(recs) > 0 {
			res += " " + strings.Join(recs, " ")
		}
		return res
	})
	c.Stat("c15.stlw.cases", 1)
	c.Emit(op, out)
}
