package main

// Kind `stlr`: ASCII STL written to the specification whose numbers are decimal literals of ANY
// length.  STL is a single-precision format: a written number must be read back as the float32
// nearest to it (ties to even) — i.e. rounded ONCE.  The model side parses the literal to an exact
// fraction and rounds it with M3d.Codec.roundF32 (theorem M3d.C15.f32_round_nearest_even); this side
// runs the real fileformats.STLReader / model3d.ReadSTL on the text.
//
// The interesting literals sit just above / just below / exactly on the midpoint between two adjacent
// float32 values, with the deciding digit far beyond the 17th: a reader that goes through float64
// rounds them twice and comes back one float32 ulp off.

import (
	"bytes"
	"encoding/hex"
	"fmt"
	"io"
	"math"
	"math/big"
	"math/rand"
	"strconv"
	"strings"

	"verif/harness/codec"
	"verif/harness/hlib"

	ff "github.com/unixpickle/model3d/fileformats"
	"github.com/unixpickle/model3d/model3d"
)

// exact value of a finite float32 / of 2^128
func ratOf32(x float32) *big.Rat {
	r := new(big.Rat)
	r.SetFloat64(float64(x))
	return r
}

var twoTo128 = new(big.Rat).SetInt(new(big.Int).Lsh(big.NewInt(1), 128))

// overflowThreshold = MaxFloat32 + half an ulp = (2^25-1)*2^103: literals at or above it are outside
// the binary32 range.
var overflowThreshold = new(big.Rat).SetInt(new(big.Int).Lsh(big.NewInt(1<<25-1), 103))

// sigDigits returns the exact decimal expansion of the positive dyadic rational v as (digits, e10)
// with v = 0.d1d2d3… × 10^e10, d1 != 0, no trailing zeros.
func sigDigits(v *big.Rat) (string, int) {
	s := v.FloatString(200) // dyadic with <= 150+24 fractional bits: exact
	ip, fp, _ := strings.Cut(s, ".")
	fp = strings.TrimRight(fp, "0")
	ip = strings.TrimLeft(ip, "0")
	if ip != "" {
		d := strings.TrimRight(ip+fp, "0")
		return d, len(ip)
	}
	nz := len(fp) - len(strings.TrimLeft(fp, "0"))
	return fp[nz:], -nz
}

// decString renders 0.digits × 10^e10 in one of several notations.
func decString(r *rand.Rand, digits string, e10 int) string {
	if digits == "" {
		digits, e10 = "0", 1
	}
	var s string
	switch r.Intn(5) {
	case 0, 1: // plain positional notation
		switch {
		case e10 <= 0:
			s = "0." + strings.Repeat("0", -e10) + digits
		case e10 >= len(digits):
			s = digits + strings.Repeat("0", e10-len(digits))
			if r.Intn(2) == 0 {
				s += ".0"
			}
		default:
			s = digits[:e10] + "." + digits[e10:]
		}
	case 2, 3: // d.ddd e±xx
		exp := e10 - 1
		s = digits[:1]
		if len(digits) > 1 {
			s += "." + digits[1:]
		}
		s += expSuffix(r, exp)
	default: // the decimal point at a random place
		k := 1 + r.Intn(len(digits))
		s = digits[:k]
		if k < len(digits) {
			s += "." + digits[k:]
		} else if r.Intn(2) == 0 {
			s += "."
		}
		s += expSuffix(r, e10-k)
	}
	return s
}

func expSuffix(r *rand.Rand, exp int) string {
	e := "e"
	if r.Intn(4) == 0 {
		e = "E"
	}
	switch {
	case exp < 0:
		return e + strconv.Itoa(exp)
	case r.Intn(2) == 0:
		return e + "+" + strconv.Itoa(exp)
	case r.Intn(3) == 0:
		return e + "0" + strconv.Itoa(exp)
	}
	return e + strconv.Itoa(exp)
}

// decDec / decInc: digit string minus / plus one unit in its last place (same length, may get a leading 0 / carry).
func decDec(d string) string {
	b := []byte(d)
	for i := len(b) - 1; i >= 0; i-- {
		if b[i] > '0' {
			b[i]--
			return string(b)
		}
		b[i] = '9'
	}
	return string(b)
}

func decInc(d string) (string, int) {
	b := []byte(d)
	for i := len(b) - 1; i >= 0; i-- {
		if b[i] < '9' {
			b[i]++
			return string(b), 0
		}
		b[i] = '0'
	}
	return "1" + string(b), 1
}

var special32 = []uint32{0, 1, 2, 0x007fffff, 0x00800000, 0x00800001, 0x3f800000, 0x3f800001, 0x3f7fffff, 0x3f000000,
	0x40000000, 0x4b800000, 0x4b800001, 0x4b7fffff, 0x7f7fffff, 0x7f7ffffe, 0x7f000000, 0x00000100, 0x3dcccccd, 0x41200000}

// midpointToken: a literal at / just above / just below the midpoint between a float32 x and its
// successor (for x = MaxFloat32 the successor is 2^128: the overflow threshold).
func midpointToken(c *hlib.Ctx) string { return midpointTokenFor(c, -1) }

// midpointTokenFor: forced >= 0 fixes the float32 x (bit pattern).
func midpointTokenFor(c *hlib.Ctx, forced int64) string {
	r := c.Rng
	var bits uint32
	if forced >= 0 {
		bits = uint32(forced)
	} else if r.Intn(3) == 0 {
		bits = special32[r.Intn(len(special32))]
	} else {
		bits = r.Uint32() & 0x7fffffff
		for bits >= 0x7f800000 {
			bits = r.Uint32() & 0x7fffffff
		}
		if r.Intn(8) == 0 {
			bits &= 0x007fffff // subnormal
		}
	}
	x := ratOf32(math.Float32frombits(bits))
	var y *big.Rat
	if bits == 0x7f7fffff {
		y = twoTo128
	} else {
		y = ratOf32(math.Float32frombits(bits + 1))
	}
	mid := new(big.Rat).Add(x, y)
	mid.Quo(mid, big.NewRat(2, 1))
	digits, e10 := sigDigits(mid)
	p := 18 + r.Intn(23) // position (significant digit) of the perturbation: 18..40
	mode := r.Intn(7)
	switch mode {
	case 0: // exactly the midpoint: ties to even
		c.Stat("c15.stlr.midpoint_exact", 1)
	case 1, 2: // above: pad to p-1 digits (at least all digits), append a non-zero digit
		for len(digits) < p-1 {
			digits += "0"
		}
		digits += string(rune('1' + r.Intn(9)))
		c.Stat("c15.stlr.midpoint_above", 1)
	case 3, 4: // below: pad, subtract one unit in the last place, append digits
		for len(digits) < p-1 {
			digits += "0"
		}
		digits = decDec(digits)
		if r.Intn(2) == 0 {
			digits += strings.Repeat("9", 1+r.Intn(12))
		}
		if strings.TrimLeft(digits, "0") != digits { // 1000…0 - 1: keep the invariant d1 != 0
			nz := len(digits) - len(strings.TrimLeft(digits, "0"))
			digits, e10 = digits[nz:], e10-nz
		}
		c.Stat("c15.stlr.midpoint_below", 1)
	case 5: // truncate the expansion at p digits: at or below the midpoint
		if len(digits) > p {
			digits = digits[:p]
			c.Stat("c15.stlr.midpoint_below", 1)
		} else {
			c.Stat("c15.stlr.midpoint_exact", 1)
		}
	default: // truncate at p digits and round the last one up: above
		if len(digits) > p {
			var carry int
			digits, carry = decInc(digits[:p])
			e10 += carry
			c.Stat("c15.stlr.midpoint_above", 1)
		} else {
			c.Stat("c15.stlr.midpoint_exact", 1)
		}
	}
	if bits == 0x7f7fffff {
		c.Stat("c15.stlr.at_overflow_threshold", 1)
	}
	if bits < 0x00800000 {
		c.Stat("c15.stlr.subnormal_midpoints", 1)
	}
	return decString(r, digits, e10)
}

var fixedTokens = []string{"0", "-0", "0.0", "1", "-1", "1.5", "0.1", "1e0", "1E5", "5.", ".5", "+2.5", "007", "1e-45", "7e-46", "7.1e-46",
	"7.006492321624085e-46", "7.0064923216240853546186479164495806564013097093825788587853914e-46", "7.0064923216240853546186479164495806564013097093825788587853915e-46",
	"1e-46", "1e-60", "-1e-60", "1e-400", "0e999", "3.4028235e38", "3.4028234e+38", "3.40282346638528859811704183484516925440e38",
	"340282356779733661637539395458142568447", "3.4028235677973366e38", "1.17549435e-38", "1.1754942e-38", "1.00000005960464478",
	"1.00000017881393432617187499999999", "16777217.0000000001", "16777218.9999999999", "-2.000000119209289550781250000001",
	"0.50000002980232238769531250000001", "16777217", "16777219", "33554434", "33554438", "0.3", "123456789", "9.999999e-39",
	"1.401298464324817e-45", "2.1019476964872256e-45", "2.1019476964872257e-45", "2.10194769648722560638594375e-45"}

// out-of-range literals (at or above the overflow threshold)
var overflowTokens = []string{"1e39", "3.5e38", "1e400", "-1e39", "3.4028236e38", "340282356779733661637539395458142568448",
	"3.40282356779733661637539395458142568448e38", "340282366920938463463374607431768211456", "-4e38", "1e4000", "9e99"}

func ordinaryToken(c *hlib.Ctx) string {
	r := c.Rng
	switch r.Intn(6) {
	case 0:
		return fixedTokens[r.Intn(len(fixedTokens))]
	case 1: // shortest / %.9g / %e text of a float32
		x := codec.Float32(r, false)
		for math.IsInf(float64(x), 0) {
			x = codec.Float32(r, false)
		}
		switch r.Intn(3) {
		case 0:
			return strconv.FormatFloat(float64(x), 'g', -1, 32)
		case 1:
			return strconv.FormatFloat(float64(x), 'e', 8, 32)
		default:
			return strconv.FormatFloat(float64(x), 'f', -1, 32)
		}
	case 2: // %.17g of a float64 in the float32 range
		x := float64(math.Float32frombits(r.Uint32()&0x7f7fffff)) * (1 + r.Float64()*1e-7)
		if x >= math.MaxFloat32 {
			x = 1.25
		}
		return strconv.FormatFloat(x, 'g', 17, 64)
	default: // random digit string, random exponent within the range
		nd := 1 + r.Intn(45)
		b := make([]byte, nd)
		for i := range b {
			b[i] = byte('0' + r.Intn(10))
		}
		if b[0] == '0' {
			b[0] = '1'
		}
		return decString(r, strings.TrimRight(string(b), "0")+"1", r.Intn(84)-46)
	}
}

func litOverflows(tok string) bool {
	v, ok := new(big.Rat).SetString(tok)
	if !ok {
		return false
	}
	v.Abs(v)
	return v.Cmp(overflowThreshold) >= 0
}

func caseSTLRound(c *hlib.Ctx, i int) {
	r := c.Rng
	nt := 1 + r.Intn(3)
	ovf := i%12 == 5
	if ovf {
		nt = 1
	}
	toks := make([]string, 12*nt)
	for k := range toks {
		var t string
		switch {
		case ovf && r.Intn(2) == 0:
			t = overflowTokens[r.Intn(len(overflowTokens))]
		case ovf:
			// exactly at / just above the threshold MaxFloat32 + half an ulp (ties to even = out of range)
			for t = midpointTokenFor(c, 0x7f7fffff); !litOverflows(t); {
				t = midpointTokenFor(c, 0x7f7fffff)
			}
			if r.Intn(3) == 0 {
				t = "-" + t
			}
		case r.Intn(4) == 0:
			t = ordinaryToken(c)
		default:
			t = midpointToken(c)
		}
		if !ovf && !strings.HasPrefix(t, "-") && !strings.HasPrefix(t, "+") && r.Intn(3) == 0 {
			t = "-" + t
		}
		// a literal generated as in-range may sit at/above the threshold (midpoint of MaxFloat32, above)
		if !ovf && litOverflows(t) {
			c.Stat("c15.stlr.threshold_literal_replaced", 1)
			t = "3.40282356779733661637539395458142568447e38" // just below the threshold: MaxFloat32
		}
		toks[k] = t
		c.Stat("c15.stlr.tokens", 1)
		if len(t) > 19 {
			c.Stat("c15.stlr.tokens_over_19_chars", 1)
		}
	}
	var op, text strings.Builder
	fmt.Fprintf(&op, "c15 stlr %d", nt)
	for _, t := range toks {
		op.WriteString(" " + hex.EncodeToString([]byte(t)))
	}
	text.WriteString("solid m3d\n")
	for j := 0; j < nt; j++ {
		w := toks[12*j : 12*j+12]
		fmt.Fprintf(&text, "facet normal %s %s %s\nouter loop\n", w[0], w[1], w[2])
		for v := 1; v <= 3; v++ {
			fmt.Fprintf(&text, "vertex %s %s %s\n", w[3*v], w[3*v+1], w[3*v+2])
		}
		text.WriteString("endloop\nendfacet\n")
	}
	text.WriteString("endsolid m3d\n")
	data := []byte(text.String())
	out := guardT(func() string {
		res := readSTLRecords(data)
		if ovf {
			// numbers outside the binary32 range: the file is not in the format; an error and a
			// saturated (infinite, sign kept) reading are both accepted
			if res == "error" {
				return codec.HexBytes(data) + " ovf"
			}
			want := "ok 1"
			for _, t := range toks {
				if strings.HasPrefix(t, "-") {
					want += " ff800000"
				} else {
					want += " 7f800000"
				}
			}
			if res == want {
				return codec.HexBytes(data) + " ovf"
			}
		}
		return codec.HexBytes(data) + " " + res
	})
	c.Stat("c15.stlr.cases", 1)
	if ovf {
		c.Stat("c15.stlr.out_of_range_files", 1)
	}
	c.Emit(op.String(), out)
}

// readSTLRecords: fileformats.STLReader until io.EOF, cross-checked against model3d.ReadSTL
// (which must return float64(float32) of the same vertices).
func readSTLRecords(data []byte) string {
	rd, err := ff.NewSTLReader(bytes.NewReader(data))
	if err != nil {
		return "error"
	}
	var recs []string
	var verts [][3][3]float32
	for {
		nrm, vs, err := rd.ReadTriangle()
		if err == io.EOF {
			break
		} else if err != nil {
			return "error"
		}
		s := fmt.Sprintf("%s %s %s", codec.H32(nrm[0]), codec.H32(nrm[1]), codec.H32(nrm[2]))
		for _, v := range vs {
			s += fmt.Sprintf(" %s %s %s", codec.H32(v[0]), codec.H32(v[1]), codec.H32(v[2]))
		}
		recs = append(recs, s)
		verts = append(verts, vs)
	}
	tris, err := model3d.ReadSTL(bytes.NewReader(data))
	if err != nil || len(tris) != len(verts) {
		return "readstl-differs-from-stlreader"
	}
	for j, t := range tris {
		for k := 0; k < 3; k++ {
			a := t[k].Array()
			for q := 0; q < 3; q++ {
				if math.Float64bits(a[q]) != math.Float64bits(float64(verts[j][k][q])) {
					return "readstl-differs-from-stlreader"
				}
			}
		}
	}
	res := fmt.Sprintf("ok %d", len(recs))
	if len(recs) > 0 {
		res += " " + strings.Join(recs, " ")
	}
	return res
}
