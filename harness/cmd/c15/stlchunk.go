package main

// Kind `stlc`: STL files read from an io.Reader that delivers the bytes in pieces.
//
// io.Reader.Read may return fewer bytes than asked for although more follow (pipes, sockets, chunked
// bodies, io.MultiReader(header, body), iotest.OneByteReader, ...).  The property speaks about the
// faces that come back, not about how the bytes travel, so the reader has to return the same faces for
// every delivery of the same file.  The Lean side runs the reader-level model Stream.stlDecodeSrc
// (io.ReadFull / io.MultiReader / bufio.Reader over partial deliveries) on the same schedule;
// M3d.C15.stl_reader_delivery_independent proves its answer is the byte-level reader's on the whole file
// and stl_bin_roundtrip_any_delivery / stl_ascii_spec_any_delivery that it is the faces written.

import (
	"bytes"
	"fmt"
	"io"
	"math"
	"strconv"
	"strings"

	"verif/harness/codec"
	"verif/harness/hlib"

	ff "github.com/unixpickle/model3d/fileformats"
	"github.com/unixpickle/model3d/model3d"
)

// chunkReader delivers data in pieces of the scheduled sizes (run-length form: reps[i] deliveries of
// size[i] bytes; what is left after the schedule is one last piece).  A piece larger than len(p) is
// handed out over several calls.  It never returns 0, nil for a non-empty p.  eager: io.EOF is reported
// together with the last byte (iotest.DataErrReader).
type chunkReader struct {
	data       []byte
	reps, size []int
	cur        int
	eager      bool
}

func newChunkReader(data []byte, s *schedule, eager bool) *chunkReader {
	return &chunkReader{data: data, reps: append([]int{}, s.reps...), size: append([]int{}, s.size...), eager: eager}
}

func (r *chunkReader) Read(p []byte) (int, error) {
	if len(p) == 0 {
		return 0, nil
	}
	if len(r.data) == 0 {
		return 0, io.EOF
	}
	if r.cur == 0 {
		for len(r.reps) > 0 && (r.reps[0] <= 0 || r.size[0] <= 0) {
			r.reps, r.size = r.reps[1:], r.size[1:]
		}
		if len(r.reps) > 0 {
			r.cur = r.size[0]
			r.reps[0]--
		} else {
			r.cur = len(r.data)
		}
		if r.cur > len(r.data) {
			r.cur = len(r.data)
		}
	}
	n := r.cur
	if len(p) < n {
		n = len(p)
	}
	copy(p, r.data[:n])
	r.data = r.data[n:]
	r.cur -= n
	if r.eager && len(r.data) == 0 {
		return n, io.EOF
	}
	return n, nil
}

// a schedule in run-length form: reps[i] deliveries of size[i] bytes
type schedule struct {
	reps, size []int
}

func (s *schedule) add(reps, size int) {
	if reps <= 0 || size <= 0 {
		return
	}
	if k := len(s.size); k > 0 && s.size[k-1] == size {
		s.reps[k-1] += reps
		return
	}
	s.reps = append(s.reps, reps)
	s.size = append(s.size, size)
}

func (s *schedule) String() string {
	var sb strings.Builder
	fmt.Fprintf(&sb, "%d", len(s.reps))
	for i := range s.reps {
		fmt.Fprintf(&sb, " %dx%d", s.reps[i], s.size[i])
	}
	return sb.String()
}

// first delivery, given the file length (0 for an empty file)
func (s *schedule) first(total int) int {
	if len(s.size) == 0 || s.size[0] > total {
		return total
	}
	return s.size[0]
}

var fixedDeliveries = []int{1, 2, 3, 7, 50, 64, 80, 84, 100, 134, 300, 511, 512, 513, 1000, 4095, 4096, 4097}

// makeSchedule: class k of delivery schedules for a file of `total` bytes; writes = the sizes of the
// Write calls that produced the file (what an io.Pipe would deliver).
func makeSchedule(c *hlib.Ctx, k, total int, writes []int) (*schedule, string) {
	r := c.Rng
	s := &schedule{}
	switch k % 10 {
	case 0:
		return s, "whole"
	case 1:
		s.add(total, 1)
		return s, "one_byte"
	case 2:
		// a short first delivery, then everything else at once
		hi := 511
		if total > 1 && total-1 < hi {
			hi = total - 1
		}
		if hi < 1 {
			hi = 1
		}
		s.add(1, 1+r.Intn(hi))
		return s, "short_first"
	case 3:
		// io.MultiReader(header, body)
		if r.Intn(2) == 0 {
			s.add(1, 80)
			s.add(1, 4)
		} else {
			s.add(1, 84)
		}
		return s, "header_body"
	case 4:
		// the writer's own Write calls (an io.Pipe between writer and reader)
		for _, w := range writes {
			s.add(1, w)
		}
		return s, "writer_calls"
	case 5:
		sz := fixedDeliveries[r.Intn(len(fixedDeliveries))]
		s.add(total/sz+1, sz)
		return s, "fixed_size"
	case 6:
		for left := total; left > 0; {
			sz := 1 + r.Intn(600)
			s.add(1, sz)
			left -= sz
		}
		return s, "random_sizes"
	case 7:
		// exactly the sniffing chunk (or one byte less / more), then small pieces
		first := 511 + r.Intn(3)
		s.add(1, first)
		s.add(total, 1+r.Intn(3))
		return s, "sniff_chunk_boundary"
	case 8:
		// small pieces first, then large ones
		s.add(1+r.Intn(40), 1+r.Intn(20))
		s.add(total/4096+1, 4096)
		return s, "small_then_large"
	default:
		// ever shorter deliveries (iotest.HalfReader against a shrinking buffer)
		sz := 1 + r.Intn(1024)
		for left := total; left > 0; {
			s.add(1, sz)
			left -= sz
			if sz > 1 {
				sz = (sz + 1) / 2
			}
		}
		return s, "halving"
	}
}

func stlcMesh(c *hlib.Ctx, nt int) []*model3d.Triangle {
	r := c.Rng
	pool := make([]model3d.Coord3D, 3+r.Intn(6))
	for j := range pool {
		pool[j] = randCoord(r, true)
	}
	if r.Intn(2) == 0 {
		pool[0] = model3d.XYZ(0, 1, math.Copysign(0, -1))
	}
	var tris []*model3d.Triangle
	for j := 0; j < nt; j++ {
		t := &model3d.Triangle{}
		for k := 0; k < 3; k++ {
			if r.Intn(4) == 0 {
				t[k] = randCoord(r, true)
			} else {
				t[k] = pool[r.Intn(len(pool))]
			}
		}
		tris = append(tris, t)
	}
	return tris
}

// recordingWriter notes the size of every Write call.
type recordingWriter struct {
	buf    []byte
	writes []int
}

func (w *recordingWriter) Write(p []byte) (int, error) {
	w.buf = append(w.buf, p...)
	w.writes = append(w.writes, len(p))
	return len(p), nil
}

// readBoth reads `data` delivered by `sched` with fileformats.STLReader (D) and model3d.ReadSTL (M).
func readBoth(data []byte, sched *schedule, eager bool) string {
	var d string
	rd, err := ff.NewSTLReader(newChunkReader(data, sched, eager))
	if err != nil {
		d = "error"
	} else {
		var recs []string
		d = ""
		for {
			nrm, vs, err := rd.ReadTriangle()
			if err == io.EOF {
				break
			} else if err != nil {
				d = "error"
				break
			}
			s := fmt.Sprintf("%s %s %s", codec.H32(nrm[0]), codec.H32(nrm[1]), codec.H32(nrm[2]))
			for _, v := range vs {
				s += fmt.Sprintf(" %s %s %s", codec.H32(v[0]), codec.H32(v[1]), codec.H32(v[2]))
			}
			recs = append(recs, s)
			if len(recs) > 1<<20 {
				d = "runaway"
				break
			}
		}
		if d == "" {
			d = fmt.Sprintf("ok %d", len(recs))
			if len(recs) > 0 {
				d += " " + strings.Join(recs, " ")
			}
		}
	}
	var m string
	tris, err := model3d.ReadSTL(newChunkReader(data, sched, eager))
	if err != nil {
		m = "error"
	} else {
		m = showTris64(tris)
	}
	return "D " + d + " M " + m
}

var stlcBinCounts = []int{0, 1, 2, 8, 9, 10, 11, 25, 40, 60, 81, 82, 83, 120}
var stlcAsciiCounts = []int{0, 1, 2, 3, 4, 6, 12, 18, 30}

func caseSTLChunked(c *hlib.Ctx, i int) {
	r := c.Rng
	eager := r.Intn(4) == 0
	ascii := i%3 == 2
	klass := i / 3
	var op strings.Builder
	var data []byte
	var writes []int
	var tail string
	if !ascii {
		nt := stlcBinCounts[r.Intn(len(stlcBinCounts))]
		if klass%10 == 1 && nt > 40 {
			nt = 40
		}
		tris := stlcMesh(c, nt)
		var sb strings.Builder
		fmt.Fprintf(&sb, "%d", len(tris))
		for _, t := range tris {
			nrm := t.Normal()
			fmt.Fprintf(&sb, " %s %s %s", codec.H64(nrm.X), codec.H64(nrm.Y), codec.H64(nrm.Z))
			for _, p := range t {
				fmt.Fprintf(&sb, " %s %s %s", codec.H64(p.X), codec.H64(p.Y), codec.H64(p.Z))
			}
		}
		tail = sb.String()
		// the file, and the Write calls of the real STLWriter that make it up
		data = model3d.EncodeSTL(tris)
		rw := &recordingWriter{}
		w, err := ff.NewSTLWriter(rw, uint32(len(tris)))
		for _, t := range tris {
			if err != nil {
				break
			}
			var vs [3][3]float32
			for a := 0; a < 3; a++ {
				arr := t[a].Array()
				for b := 0; b < 3; b++ {
					vs[a][b] = float32(arr[b])
				}
			}
			n := t.Normal().Array()
			err = w.WriteTriangle([3]float32{float32(n[0]), float32(n[1]), float32(n[2])}, vs)
		}
		if err != nil || string(rw.buf) != string(data) {
			c.PropFail("c15:STLWriter-vs-EncodeSTL", "fileformats.STLWriter and model3d.EncodeSTL wrote different bytes for "+tail)
		}
		writes = rw.writes
		c.Stat("c15.stlc.binary", 1)
	} else {
		nt := stlcAsciiCounts[r.Intn(len(stlcAsciiCounts))]
		tb := codec.NewTables()
		var sb strings.Builder
		var text strings.Builder
		fmt.Fprintf(&sb, "%d", nt)
		f := func(x float32) string { return strconv.FormatFloat(float64(x), 'f', -1, 32) }
		line := func(s string) {
			text.WriteString(s)
			writes = append(writes, len(s))
		}
		line("solid m3d\n")
		for j := 0; j < nt; j++ {
			var w [12]float32
			for k := range w {
				w[k] = codec.Float32(r, false)
				tb.AddF32(w[k])
				fmt.Fprintf(&sb, " %s", codec.H32(w[k]))
			}
			line(fmt.Sprintf("facet normal %s %s %s\n", f(w[0]), f(w[1]), f(w[2])))
			line("outer loop\n")
			for v := 1; v <= 3; v++ {
				line(fmt.Sprintf("vertex %s %s %s\n", f(w[3*v]), f(w[3*v+1]), f(w[3*v+2])))
			}
			line("endloop\n")
			line("endfacet\n")
		}
		line("endsolid m3d\n")
		for _, t := range []string{"solid", "m3d", "facet", "normal", "outer", "loop", "vertex", "endloop", "endfacet", "endsolid"} {
			tb.AddTok(t)
		}
		lawCheck(c, tb)
		fmt.Fprintf(&sb, " %s", tb.String())
		tail = sb.String()
		data = []byte(text.String())
		c.Stat("c15.stlc.ascii", 1)
	}
	sched, name := makeSchedule(c, klass, len(data), writes)
	mode := "b"
	if ascii {
		mode = "a"
	}
	e := 0
	if eager {
		e = 1
		c.Stat("c15.stlc.eof_with_last_delivery", 1)
	}
	fmt.Fprintf(&op, "c15 stlc %s %d %s %s", mode, e, sched.String(), tail)
	c.Stat("c15.stlc.cases", 1)
	c.Stat("c15.stlc.schedule_"+name, 1)
	if len(data) > 512 {
		c.Stat("c15.stlc.file_longer_than_sniff_chunk", 1)
	}
	if len(data) > 4096 {
		c.Stat("c15.stlc.file_longer_than_bufio_buffer", 1)
	}
	if first := sched.first(len(data)); first < len(data) && first < 512 {
		c.Stat("c15.stlc.first_delivery_short_of_sniff_chunk", 1)
	}
	out := guardT(func() string {
		return codec.HexBytes(data) + " " + readBoth(data, sched, eager)
	})
	c.Emit(op.String(), out)
}

// ---------------------------------------------------------------------------
// deliveries for the other readers (PLY, OFF)

// A delivery says how the bytes of a file reach the real reader: at once from a bytes.Reader, or in
// pieces.  It is chosen before the file exists, so the schedules here do not depend on its length.
// The tag goes into the operation line (`@w`, `@e<0|1>;<reps>x<size>;…`) so that a replay names the
// delivery; the Lean driver skips it: what the property demands does not depend on it.
type delivery struct {
	whole bool
	sched *schedule
	eager bool
	name  string
}

const forever = 1 << 30

func pickDelivery(c *hlib.Ctx, kind string) *delivery {
	r := c.Rng
	d := &delivery{sched: &schedule{}}
	switch r.Intn(12) {
	case 0, 1, 2, 3:
		d.whole = true
		d.name = "bytes_reader"
	case 4:
		d.sched.add(forever, 1)
		d.name = "one_byte"
	case 5:
		d.sched.add(1, 1+r.Intn(200))
		d.name = "short_first"
	case 6:
		d.sched.add(forever, fixedDeliveries[r.Intn(len(fixedDeliveries))])
		d.name = "fixed_size"
	case 7:
		for k := 0; k < 200; k++ {
			d.sched.add(1, 1+r.Intn(300))
		}
		d.name = "random_sizes"
	case 8:
		// around bufio's buffer size, then small pieces
		d.sched.add(1, 4094+r.Intn(5))
		d.sched.add(forever, 1+r.Intn(5))
		d.name = "buffer_boundary"
	case 9:
		d.sched.add(1+r.Intn(40), 1+r.Intn(20))
		d.sched.add(forever, 4096)
		d.name = "small_then_large"
	case 10:
		for sz := 1 + r.Intn(2048); sz > 1; sz = (sz + 1) / 2 {
			d.sched.add(1, sz)
		}
		d.sched.add(forever, 1)
		d.name = "halving"
	default:
		// line by line / value by value is what a pipe fed by small writes gives: pieces of 1-64 bytes
		for k := 0; k < 400; k++ {
			d.sched.add(1, 1+r.Intn(64))
		}
		d.name = "small_writes"
	}
	if !d.whole {
		d.eager = r.Intn(4) == 0
		c.Stat("c15.delivery."+kind+".in_pieces", 1)
	}
	c.Stat("c15.delivery."+kind+"."+d.name, 1)
	return d
}

func (d *delivery) reader(data []byte) io.Reader {
	if d.whole {
		return bytes.NewReader(data)
	}
	return newChunkReader(data, d.sched, d.eager)
}

func (d *delivery) tag() string {
	if d.whole {
		return "@w"
	}
	var sb strings.Builder
	e := 0
	if d.eager {
		e = 1
	}
	fmt.Fprintf(&sb, "@e%d", e)
	for i := range d.sched.reps {
		fmt.Fprintf(&sb, ";%dx%d", d.sched.reps[i], d.sched.size[i])
	}
	return sb.String()
}
