package main

// Generic PLY streams with LONG list rows (kind `plys`, same protocol and the same model as
// casePlyStream): the list count types short/ushort/int/uint allow rows far longer than any bound
// the reader uses internally for pre-allocation (plyMaxListPrealloc = 4096).  Every long list is
// followed by further properties, rows and elements, so that a reader that consumes fewer (or more)
// entries than declared shifts everything after it.

import (
	"bytes"
	"fmt"
	"math"
	"math/rand"
	"strings"

	"verif/harness/codec"
	"verif/harness/hlib"

	ff "github.com/unixpickle/model3d/fileformats"
)

// lengths around and above the pre-allocation bound; the last four need an int/uint count type.
var longLens = []int{0, 1, 255, 256, 4095, 4096, 4097, 5000, 8191, 8192, 8193, 32767, 40000, 65535, 65536, 70001}

// count types (type codes, see codec.typeNames) able to hold n
func lenTypeFor(r *rand.Rand, n int) int {
	var kinds []int
	if n <= 127 {
		kinds = append(kinds, 0)
	}
	if n <= 255 {
		kinds = append(kinds, 1)
	}
	if n <= 32767 {
		kinds = append(kinds, 2)
	}
	if n <= 65535 {
		kinds = append(kinds, 3, 3)
	}
	kinds = append(kinds, 4, 5)
	return kinds[r.Intn(len(kinds))]*2 + r.Intn(2)
}

// longListValues draws n values of type code ec.  Floats come from a small pool so that the
// float-text oracle of an ASCII case stays small.
func longListValues(r *rand.Rand, ec, n int, ascii bool) []ff.PLYValue {
	vals := make([]ff.PLYValue, n)
	var pool []ff.PLYValue
	if ec/2 >= 6 {
		pool = make([]ff.PLYValue, 6)
		for j := range pool {
			pool[j] = codec.RandomScalar(r, ec, ascii)
		}
	}
	for j := range vals {
		if pool != nil {
			vals[j] = pool[r.Intn(len(pool))]
		} else {
			vals[j] = codec.RandomScalar(r, ec, ascii)
		}
	}
	return vals
}

// casePlyLong: case k of a run.  The first three cases are 4097 entries in each format, the next three
// one length far above the bound each (a few thousand, 65535, above 65535); the others draw a length
// from longLens.
var longFmtShift int

func casePlyLong(c *hlib.Ctx, k int) {
	r := c.Rng
	if k == 0 {
		longFmtShift = r.Intn(3) // which format gets which of the fixed lengths below varies with the seed
	}
	format := ff.PLYFormat((k + longFmtShift) % 3)
	ascii := format == ff.PLYFormatASCII
	var n int
	switch {
	case k < 3:
		n = 4097
	case k == 3:
		n = []int{5000, 8193, 40000}[r.Intn(3)]
	case k == 4:
		n = 65535
	case k == 5:
		n = []int{65536, 70001}[r.Intn(2)]
	default:
		n = longLens[r.Intn(len(longLens))]
	}
	lt := lenTypeFor(r, n)
	ec := r.Intn(16)
	if n > 10000 && ec/2 == 7 && ascii {
		ec = r.Intn(12) // keep the op line of the biggest ASCII cases moderate
	}

	// element 0: [optional scalar] list [scalar tag]; 1-2 rows (the long list is in the first row)
	e0 := &ff.PLYElement{Name: "polyline", Count: int64(1 + r.Intn(2))}
	if r.Intn(2) == 0 {
		e0.Properties = append(e0.Properties, &ff.PLYProperty{Name: "id", ElemType: codec.TypeOfCode(r.Intn(16))})
	}
	listAt := len(e0.Properties)
	e0.Properties = append(e0.Properties, &ff.PLYProperty{Name: "pts", LenType: codec.TypeOfCode(lt), ElemType: codec.TypeOfCode(ec)})
	if r.Intn(4) != 0 {
		e0.Properties = append(e0.Properties, &ff.PLYProperty{Name: "tag", ElemType: codec.TypeOfCode(r.Intn(16))})
	}
	// element 1: plain scalars (short, double as in the usual marker records) + sometimes a short list
	e1 := &ff.PLYElement{Name: "marker", Count: int64(1 + r.Intn(2)), Properties: []*ff.PLYProperty{
		{Name: "k", ElemType: "short"}, {Name: "w", ElemType: "double"}}}
	if r.Intn(3) == 0 {
		e1.Properties = append(e1.Properties, &ff.PLYProperty{Name: "l", LenType: "uchar", ElemType: codec.TypeOfCode(r.Intn(16))})
	}
	h := &ff.PLYHeader{Format: format, Elements: []*ff.PLYElement{e0, e1}}
	if r.Intn(3) == 0 {
		// a zero-count element between the two
		h.Elements = []*ff.PLYElement{e0, {Name: "edge", Count: 0, Properties: []*ff.PLYProperty{{Name: "a", ElemType: "int"}}}, e1}
	}

	tb := codec.NewTables()
	var rows [][]ff.PLYValue
	first := true
	for _, e := range h.Elements {
		for q := int64(0); q < e.Count; q++ {
			row := codec.RandomRow(r, e, ascii)
			if e == e0 && first {
				first = false
				row[listAt] = ff.PLYValueList{Length: codec.LengthScalar(lt, n), Values: longListValues(r, ec, n, ascii)}
			}
			if ascii {
				codec.RegisterFloats(tb, row)
			}
			rows = append(rows, row)
		}
	}
	lawCheck(c, tb)
	dl := pickDelivery(c, "plys_long")
	var op strings.Builder
	fmt.Fprintf(&op, "c15 plys %s %s %d", dl.tag(), codec.ShowHeader(h), len(rows))
	for _, row := range rows {
		fmt.Fprintf(&op, " %s", codec.ShowRow(row))
	}
	fmt.Fprintf(&op, " %s", tb.String())
	c.Stat("c15.plys.long.cases", 1)
	c.Stat("c15.plys.long.format_"+codec.ShowFormat(format), 1)
	if n > 4096 {
		c.Stat("c15.plys.long.above_prealloc_bound", 1)
	}
	if n == 4096 || n == 4095 || n == 4097 {
		c.Stat("c15.plys.long.at_prealloc_bound", 1)
	}
	if n > math.MaxUint16 {
		c.Stat("c15.plys.long.above_65535", 1)
	}
	out := guardT(func() string {
		var buf bytes.Buffer
		w, err := ff.NewPLYWriter(&buf, h)
		if err != nil {
			return "writeerr"
		}
		for _, row := range rows {
			if err := w.Write(row); err != nil {
				return "writeerr"
			}
		}
		data := buf.Bytes()
		return codec.HexBytes(data) + " 1 | " + readPlyAll(dl.reader(data))
	})
	c.EmitSite(op.String(), out, "corr:c15 plys/long-list")
}
