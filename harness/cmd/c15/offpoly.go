package main

// Kind `offp`: OFF text written to the specification whose faces are planar simple POLYGONS
// (quadrilaterals with the notch at every position of the index list, convex and star-shaped
// polygons, combs, straight corners), read with the real model3d.ReadOFF.  ReadOFF returns triangles;
// the property demands that the triangles of a face tile that face with the face's orientation and
// that the groups follow each other in file order.  The triangles go into the op line and the Lean
// driver decides with the verified certificate (M3d.Codec.Face.checkFaces, theorems
// M3d.C15.off_polygons_tiled / off_face_tiling_sound); nothing is decided here.

import (
	"fmt"
	"math"
	"math/big"
	"math/rand"
	"sort"
	"strconv"
	"strings"

	"verif/harness/codec"
	"verif/harness/hlib"

	"github.com/unixpickle/model3d/model3d"
)

type ipt struct{ x, y int64 }

func iorient(a, b, c ipt) int64 { return (b.x-a.x)*(c.y-a.y) - (b.y-a.y)*(c.x-a.x) }

func isgn(v int64) int {
	if v < 0 {
		return -1
	} else if v > 0 {
		return 1
	}
	return 0
}

func ionSeg(a, b, p ipt) bool {
	return iorient(a, b, p) == 0 && min64(a.x, b.x) <= p.x && p.x <= max64(a.x, b.x) &&
		min64(a.y, b.y) <= p.y && p.y <= max64(a.y, b.y)
}

func min64(a, b int64) int64 {
	if a < b {
		return a
	}
	return b
}

func max64(a, b int64) int64 {
	if a > b {
		return a
	}
	return b
}

func isegsTouch(a, b, c, d ipt) bool {
	o1, o2 := isgn(iorient(a, b, c)), isgn(iorient(a, b, d))
	o3, o4 := isgn(iorient(c, d, a)), isgn(iorient(c, d, b))
	return (o1*o2 < 0 && o3*o4 < 0) || ionSeg(a, b, c) || ionSeg(a, b, d) || ionSeg(c, d, a) || ionSeg(c, d, b)
}

// isimple: strictly simple closed lattice polygon (straight corners allowed, spikes not).
func isimple(p []ipt) bool {
	n := len(p)
	if n < 3 {
		return false
	}
	seen := map[ipt]bool{}
	var area int64
	for i, q := range p {
		if seen[q] {
			return false
		}
		seen[q] = true
		r := p[(i+1)%n]
		area += q.x*r.y - q.y*r.x
	}
	if area == 0 {
		return false
	}
	for i := 0; i < n; i++ {
		a, b, c := p[i], p[(i+1)%n], p[(i+2)%n]
		if iorient(a, b, c) == 0 && !ionSeg(a, c, b) {
			return false
		}
	}
	for i := 0; i < n; i++ {
		for j := i + 2; j < n; j++ {
			if i == 0 && j+1 == n {
				continue
			}
			if isegsTouch(p[i], p[(i+1)%n], p[j], p[(j+1)%n]) {
				return false
			}
		}
	}
	return true
}

func hasStraightCorner(p []ipt) bool {
	n := len(p)
	for i := range p {
		if iorient(p[i], p[(i+1)%n], p[(i+2)%n]) == 0 {
			return true
		}
	}
	return false
}

// anyColinearTriple: some three corners (consecutive or not) lie on a line.  Ear clipping can make
// any such triple consecutive, and the library then drops the middle one by a tolerance test
// (removeColinearPoints); that leaves an exact tiling (with a T-junction) only if the three float64
// corners are EXACTLY colinear, which a non-dyadic scale does not preserve.
func anyColinearTriple(p []ipt) bool {
	for i := range p {
		for j := i + 1; j < len(p); j++ {
			for k := j + 1; k < len(p); k++ {
				if iorient(p[i], p[j], p[k]) == 0 {
					return true
				}
			}
		}
	}
	return false
}

func isConvex(p []ipt) bool {
	n := len(p)
	s := 0
	for i := range p {
		o := isgn(iorient(p[i], p[(i+1)%n], p[(i+2)%n]))
		if o == 0 {
			continue
		}
		if s == 0 {
			s = o
		} else if s != o {
			return false
		}
	}
	return true
}

func rint(r *rand.Rand, m int64) int64 { return r.Int63n(2*m+1) - m }

// dart: an arrow-head quadrilateral.  A, B, C a random lattice triangle, the notch D a point
// strictly inside it (barycentric weights a,b,c >= 1 on the lattice refined by a+b+c); the corner
// list A B C D is rotated so that the notch comes at position `pos`.
func genDart(r *rand.Rand, pos int) []ipt {
	for {
		A, B, C := ipt{rint(r, 6), rint(r, 6)}, ipt{rint(r, 6), rint(r, 6)}, ipt{rint(r, 6), rint(r, 6)}
		if iorient(A, B, C) == 0 {
			continue
		}
		a, b, c := 1+r.Int63n(3), 1+r.Int63n(3), 1+r.Int63n(3)
		m := a + b + c
		D := ipt{a*A.x + b*B.x + c*C.x, a*A.y + b*B.y + c*C.y}
		q := []ipt{{m * A.x, m * A.y}, {m * B.x, m * B.y}, {m * C.x, m * C.y}, D}
		// notch currently at index 3
		out := make([]ipt, 4)
		for i := range q {
			out[(i+pos+1)%4] = q[i]
		}
		return out
	}
}

// convex hull (Andrew), counter-clockwise, no straight corners
func hull(pts []ipt) []ipt {
	sort.Slice(pts, func(i, j int) bool {
		if pts[i].x != pts[j].x {
			return pts[i].x < pts[j].x
		}
		return pts[i].y < pts[j].y
	})
	var h []ipt
	for pass := 0; pass < 2; pass++ {
		start := len(h)
		for _, p := range pts {
			for len(h) >= start+2 && iorient(h[len(h)-2], h[len(h)-1], p) <= 0 {
				h = h[:len(h)-1]
			}
			h = append(h, p)
		}
		h = h[:len(h)-1]
		for i, j := 0, len(pts)-1; i < j; i, j = i+1, j-1 {
			pts[i], pts[j] = pts[j], pts[i]
		}
	}
	return h
}

func genConvex(r *rand.Rand, want int) []ipt {
	for {
		pts := make([]ipt, want+3+r.Intn(4))
		for i := range pts {
			pts[i] = ipt{rint(r, 9), rint(r, 9)}
		}
		seen := map[ipt]bool{}
		var u []ipt
		for _, p := range pts {
			if !seen[p] {
				seen[p] = true
				u = append(u, p)
			}
		}
		if len(u) < 3 {
			continue
		}
		h := hull(u)
		if len(h) >= 4 && (want == 0 || len(h) == want) && isimple(h) {
			return h
		}
	}
}

// star-shaped polygon: k lattice points in distinct directions around the origin, sorted by angle,
// every angular gap < pi.
func genStar(r *rand.Rand, k int) []ipt {
	half := func(p ipt) int {
		if p.y > 0 || (p.y == 0 && p.x > 0) {
			return 0
		}
		return 1
	}
	for {
		pts := make([]ipt, 0, k)
		for len(pts) < k {
			p := ipt{rint(r, 9), rint(r, 9)}
			if p.x == 0 && p.y == 0 {
				continue
			}
			pts = append(pts, p)
		}
		sort.Slice(pts, func(i, j int) bool {
			hi, hj := half(pts[i]), half(pts[j])
			if hi != hj {
				return hi < hj
			}
			return pts[i].x*pts[j].y-pts[i].y*pts[j].x > 0
		})
		ok := true
		o := ipt{0, 0}
		for i := range pts {
			if iorient(o, pts[i], pts[(i+1)%k]) <= 0 {
				ok = false
			}
		}
		if ok && isimple(pts) {
			return pts
		}
	}
}

// comb: a rectilinear polygon with t teeth (not star-shaped for t >= 2)
func genComb(r *rand.Rand, t int) []ipt {
	h := 2 + r.Int63n(4)
	d := 1 + r.Int63n(h-1)
	var p []ipt
	p = append(p, ipt{0, 0})
	w := int64(2*t - 1)
	p = append(p, ipt{w, 0})
	for k := t - 1; k >= 0; k-- {
		x := int64(2 * k)
		p = append(p, ipt{x + 1, h}, ipt{x, h})
		if k > 0 {
			p = append(p, ipt{x, h - d}, ipt{x - 1, h - d})
		}
	}
	// shear / swap to leave the axes
	a, b := rint(r, 2), rint(r, 2)
	for i := range p {
		p[i] = ipt{p[i].x + a*p[i].y, p[i].y + b*(p[i].x+a*p[i].y)}
	}
	return p
}

// withStraight inserts the midpoint of `cnt` random edges (coordinates doubled).
func withStraight(r *rand.Rand, p []ipt, cnt int) []ipt {
	q := make([]ipt, len(p))
	for i := range p {
		q[i] = ipt{2 * p[i].x, 2 * p[i].y}
	}
	for ; cnt > 0; cnt-- {
		i := r.Intn(len(q))
		a, b := q[i], q[(i+1)%len(q)]
		if (a.x+b.x)%2 != 0 || (a.y+b.y)%2 != 0 {
			continue
		}
		m := ipt{(a.x + b.x) / 2, (a.y + b.y) / 2}
		q = append(q[:i+1], append([]ipt{m}, q[i+1:]...)...)
	}
	return q
}

// embedding of the lattice plane into space: o + a*u + b*v (integers), then a scale
type embed struct {
	o, u, v [3]int64
	scale   float64 // a power of two, or a non-dyadic factor for axis-parallel planes
	name    string
}

func genEmbed(r *rand.Rand, allowNonDyadic bool) embed {
	var e embed
	for a := 0; a < 3; a++ {
		e.o[a] = rint(r, 20)
	}
	switch k := r.Intn(10); {
	case k < 4:
		// axis-parallel plane, either handedness
		ax := r.Intn(3)
		e.u[(ax+1)%3], e.v[(ax+2)%3] = 1, 1
		if r.Intn(2) == 0 {
			e.u, e.v = e.v, e.u
		}
		e.name = "axis"
	default:
		for {
			for a := 0; a < 3; a++ {
				e.u[a], e.v[a] = rint(r, 3), rint(r, 3)
			}
			cx := e.u[1]*e.v[2] - e.u[2]*e.v[1]
			cy := e.u[2]*e.v[0] - e.u[0]*e.v[2]
			cz := e.u[0]*e.v[1] - e.u[1]*e.v[0]
			if cx != 0 || cy != 0 || cz != 0 {
				break
			}
		}
		e.name = "oblique"
	}
	e.scale = math.Ldexp(1, r.Intn(13)-6)
	if r.Intn(5) == 0 {
		// far from the origin: offsets up to 2^30 lattice units
		for a := 0; a < 3; a++ {
			e.o[a] = rint(r, 1<<30)
		}
		e.name += "-far"
	}
	if allowNonDyadic && e.name == "axis" && r.Intn(2) == 0 {
		e.scale = []float64{0.1, 1e-3, 2.5e-7, 7, 1.0 / 3, 1e5, 12.34}[r.Intn(7)]
		e.name = "axis-nondyadic"
	}
	return e
}

func (e embed) apply(p ipt) [3]float64 {
	var out [3]float64
	for a := 0; a < 3; a++ {
		out[a] = float64(e.o[a]+p.x*e.u[a]+p.y*e.v[a]) * e.scale
	}
	return out
}

// exactSimple3: the float64 corners (after rounding by a non-dyadic scale) still form a simple
// polygon without straight corners in the plane's two free axes; decided in exact rationals.
func exactSimple2(pts [][2]float64) bool {
	n := len(pts)
	R := func(v float64) *big.Rat { return new(big.Rat).SetFloat64(v) }
	or := func(a, b, c [2]float64) int {
		l := new(big.Rat).Mul(new(big.Rat).Sub(R(b[0]), R(a[0])), new(big.Rat).Sub(R(c[1]), R(a[1])))
		rr := new(big.Rat).Mul(new(big.Rat).Sub(R(b[1]), R(a[1])), new(big.Rat).Sub(R(c[0]), R(a[0])))
		return l.Cmp(rr)
	}
	for i := 0; i < n; i++ {
		if or(pts[i], pts[(i+1)%n], pts[(i+2)%n]) == 0 {
			return false
		}
		for j := i + 2; j < n; j++ {
			if i == 0 && j+1 == n {
				continue
			}
			a, b, c, d := pts[i], pts[(i+1)%n], pts[j], pts[(j+1)%n]
			o1, o2, o3, o4 := or(a, b, c), or(a, b, d), or(c, d, a), or(c, d, b)
			if o1 == 0 || o2 == 0 || o3 == 0 || o4 == 0 || (o1*o2 < 0 && o3*o4 < 0) {
				return false
			}
		}
	}
	return true
}

func caseOFFPoly(c *hlib.Ctx, i int) {
	r := c.Rng
	nPoly := 1 + r.Intn(3)
	var verts [][3]float64
	var faces [][]int
	addFace := func(corners [][3]float64) []int {
		f := make([]int, len(corners))
		for k, p := range corners {
			f[k] = len(verts)
			verts = append(verts, p)
		}
		faces = append(faces, f)
		return f
	}
	for q := 0; q < nPoly; q++ {
		var poly []ipt
		cls := (i + q) % 8
		switch cls {
		case 0, 1, 2, 3:
			// a dart with the notch at position cls of the index list
			poly = genDart(r, cls)
		case 4:
			poly = genConvex(r, []int{4, 4, 0}[r.Intn(3)])
		case 5:
			poly = genStar(r, 4+r.Intn(6))
		case 6:
			poly = genComb(r, 1+r.Intn(3))
		default:
			poly = genStar(r, 5+r.Intn(4))
			poly = withStraight(r, poly, 1+r.Intn(2))
		}
		if r.Intn(2) == 0 {
			// the other orientation (clockwise seen from +normal of the lattice plane)
			for a, b := 0, len(poly)-1; a < b; a, b = a+1, b-1 {
				poly[a], poly[b] = poly[b], poly[a]
			}
			c.Stat("c15.offp.reversed", 1)
		}
		if cls >= 4 && r.Intn(2) == 0 {
			// start anywhere
			k := r.Intn(len(poly))
			poly = append(append([]ipt{}, poly[k:]...), poly[:k]...)
		}
		if !isimple(poly) {
			c.Stat("c15.offp.generator_rejected", 1)
			continue
		}
		e := genEmbed(r, !anyColinearTriple(poly))
		corners := make([][3]float64, len(poly))
		for k, p := range poly {
			corners[k] = e.apply(p)
		}
		if e.name == "axis-nondyadic" {
			// the rounded corners must still be an exactly planar simple polygon
			var free [2]int
			n := 0
			for a := 0; a < 3; a++ {
				if e.u[a] != 0 || e.v[a] != 0 {
					free[n%2] = a
					n++
				}
			}
			p2 := make([][2]float64, len(corners))
			for k, p := range corners {
				p2[k] = [2]float64{p[free[0]], p[free[1]]}
			}
			if n != 2 || !exactSimple2(p2) {
				c.Stat("c15.offp.generator_rejected", 1)
				continue
			}
		}
		c.Stat("c15.offp.plane_"+e.name, 1)
		c.Stat(fmt.Sprintf("c15.offp.corners_%d", len(poly)), 1)
		if len(poly) == 4 {
			if isConvex(poly) {
				c.Stat("c15.offp.quad_convex", 1)
			} else {
				c.Stat("c15.offp.quad_nonconvex", 1)
				// position of the notch (the corner that turns against the polygon) in the index list
				var area int64
				for k := range poly {
					area += poly[k].x*poly[(k+1)%4].y - poly[k].y*poly[(k+1)%4].x
				}
				for k := range poly {
					if isgn(iorient(poly[(k+3)%4], poly[k], poly[(k+1)%4])) == -isgn(area) {
						c.Stat(fmt.Sprintf("c15.offp.quad_notch_at_%d", k), 1)
					}
				}
			}
		} else if !isConvex(poly) {
			c.Stat("c15.offp.polygon_nonconvex", 1)
		}
		if hasStraightCorner(poly) {
			c.Stat("c15.offp.straight_corner", 1)
		}
		f := addFace(corners)
		switch r.Intn(5) {
		case 0:
			// the back side: same vertices, opposite direction
			b := make([]int, len(f))
			for k := range f {
				b[k] = f[len(f)-1-k]
			}
			faces = append(faces, b)
			c.Stat("c15.offp.back_side_face", 1)
		case 1:
			// a triangle on three corners of the polygon (shared vertices)
			for k := 0; k+2 < len(poly); k++ {
				if iorient(poly[k], poly[k+1], poly[k+2]) != 0 {
					faces = append(faces, []int{f[k], f[k+1], f[k+2]})
					c.Stat("c15.offp.shared_triangle_face", 1)
					break
				}
			}
		case 2:
			// an unrelated triangle with its own vertices
			e2 := genEmbed(r, false)
			addFace([][3]float64{e2.apply(ipt{0, 0}), e2.apply(ipt{1 + r.Int63n(5), 0}), e2.apply(ipt{rint(r, 5), 1 + r.Int63n(5)})})
		}
	}
	if len(faces) == 0 {
		return
	}
	// vertex table in a random order, sometimes with an unused vertex
	if r.Intn(4) == 0 {
		verts = append(verts, [3]float64{float64(rint(r, 9)), float64(rint(r, 9)), float64(rint(r, 9))})
	}
	perm := r.Perm(len(verts))
	table := make([][3]float64, len(verts))
	for old, pos := range perm {
		table[pos] = verts[old]
	}
	for _, f := range faces {
		for k := range f {
			f[k] = perm[f[k]]
		}
	}

	tb := codec.NewTables()
	dl := pickDelivery(c, "offp")
	var op strings.Builder
	var text strings.Builder
	fmt.Fprintf(&op, "c15 offp %s %d", dl.tag(), len(table))
	for _, v := range table {
		for k := 0; k < 3; k++ {
			tb.AddF64(v[k])
			fmt.Fprintf(&op, " %s", codec.H64(v[k]))
		}
	}
	fmt.Fprintf(&op, " %d", len(faces))
	for _, f := range faces {
		fmt.Fprintf(&op, " %d", len(f))
		for _, x := range f {
			fmt.Fprintf(&op, " %d", x)
		}
	}
	fmt.Fprintf(&text, "OFF\n%d %d 0\n", len(table), len(faces))
	for _, v := range table {
		fmt.Fprintf(&text, "%s %s %s\n", strconv.FormatFloat(v[0], 'f', -1, 64), strconv.FormatFloat(v[1], 'f', -1, 64), strconv.FormatFloat(v[2], 'f', -1, 64))
	}
	for _, f := range faces {
		fmt.Fprintf(&text, "%d", len(f))
		for _, x := range f {
			fmt.Fprintf(&text, " %d", x)
		}
		text.WriteString("\n")
	}
	lawCheck(c, tb)
	fmt.Fprintf(&op, " %s", tb.String())
	data := []byte(text.String())
	var tris []*model3d.Triangle
	res := guardT(func() string {
		ts, err := model3d.ReadOFF(dl.reader(data))
		if err != nil {
			return "error"
		}
		tris = ts
		return "ok"
	})
	if res != "ok" {
		op.WriteString(" R x")
		c.Stat("c15.offp.read_failed", 1)
	} else {
		fmt.Fprintf(&op, " R %d", len(tris))
		for _, t := range tris {
			for _, p := range t {
				fmt.Fprintf(&op, " %s %s %s", codec.H64(p.X), codec.H64(p.Y), codec.H64(p.Z))
			}
		}
		c.Stat("c15.offp.triangles", len(tris))
	}
	c.Stat("c15.offp.cases", 1)
	c.Stat("c15.offp.faces", len(faces))
	c.Emit(op.String(), codec.HexBytes(data)+" ok")
}
