// Command c15: correspondence harness for C15 (mesh files round-trip through the library's writers
// and readers).  Every case writes with the REAL writers and reads back with the REAL readers; the
// Lean driver produces the bytes and the decoded data from the models the theorems are about.
package main

import (
	"bytes"
	"errors"
	"fmt"
	"io"
	"math"
	"math/rand"
	"sort"
	"strconv"
	"strings"
	"time"

	"verif/harness/codec"
	"verif/harness/hlib"

	ff "github.com/unixpickle/model3d/fileformats"
	"github.com/unixpickle/model3d/model2d"
	"github.com/unixpickle/model3d/model3d"
)

func main() { hlib.Main("C15", run) }

// guardT runs f under recover and a watchdog.
func guardT(f func() string) string {
	ch := make(chan string, 1)
	go func() { ch <- hlib.Guard(f) }()
	select {
	case s := <-ch:
		return s
	case <-time.After(10 * time.Second):
		return "timeout"
	}
}

func run(c *hlib.Ctx) {
	n := c.N
	for i := 0; i < n; i++ {
		caseSTL(c, i)
	}
	for i := 0; i < n; i++ {
		casePlyStream(c, i)
	}
	for i := 0; i < n; i++ {
		casePlyMesh(c, i)
	}
	// a few long-list streams per run (lengths around and above the reader's pre-allocation bound)
	nLong := 6 + n/60
	if nLong > 24 {
		nLong = 24
	}
	for k := 0; k < nLong; k++ {
		casePlyLong(c, k)
	}
	for i := 0; i < n/2+1; i++ {
		caseSTLAscii(c, i)
		caseSTLRound(c, i)
		caseCSV(c, i)
		caseOFF(c, i)
		caseOFFPoly(c, i)
		caseOBJ(c, i)
		caseThreeMF(c, i)
		caseOBJFile(c, i)
	}
	// STL files from readers that deliver the bytes in pieces (last, so that the random stream of the
	// kinds above is unchanged)
	for i := 0; i < n/2+1; i++ {
		caseSTLChunked(c, i)
	}
	// ASCII STL with runs of spaces / tabs between tokens (last: earlier random streams unchanged)
	for i := 0; i < n/4+2; i++ {
		caseSTLWs(c, i)
	}
}

// ---------------------------------------------------------------------------
// meshes

func randCoord(r *rand.Rand, nan bool) model3d.Coord3D {
	return model3d.XYZ(codec.Float64(r, nan), codec.Float64(r, nan), codec.Float64(r, nan))
}

// randMesh: i selects the shape class (0 empty, 1 single face, …); vertices are drawn from a small
// pool so that they are shared, plus exact duplicates of whole triangles.
func randMesh(c *hlib.Ctx, i int, nan bool) []*model3d.Triangle {
	r := c.Rng
	var nt int
	switch {
	case i == 0:
		nt = 0
	case i == 1:
		nt = 1
	case i%7 == 0:
		nt = 20 + r.Intn(30)
	default:
		nt = r.Intn(7)
	}
	pool := make([]model3d.Coord3D, 3+r.Intn(6))
	for j := range pool {
		pool[j] = randCoord(r, nan)
	}
	// signed-zero twins of one vertex: == but different bits
	if r.Intn(2) == 0 {
		pool[0] = model3d.XYZ(0, 1, math.Copysign(0, -1))
		pool[1] = model3d.XYZ(math.Copysign(0, -1), 1, 0)
	}
	var tris []*model3d.Triangle
	for j := 0; j < nt; j++ {
		if j > 0 && r.Intn(6) == 0 {
			d := *tris[r.Intn(len(tris))]
			tris = append(tris, &d)
			c.Stat("c15.mesh.duplicate_triangle", 1)
			continue
		}
		t := &model3d.Triangle{}
		for k := 0; k < 3; k++ {
			if r.Intn(4) == 0 {
				t[k] = randCoord(r, nan)
			} else {
				t[k] = pool[r.Intn(len(pool))]
			}
		}
		tris = append(tris, t)
	}
	if nt == 0 {
		c.Stat("c15.mesh.empty", 1)
	}
	return tris
}

func showTris64(tris []*model3d.Triangle) string {
	var sb strings.Builder
	fmt.Fprintf(&sb, "ok %d", len(tris))
	for _, t := range tris {
		for _, p := range t {
			fmt.Fprintf(&sb, " %s %s %s", codec.H64(p.X), codec.H64(p.Y), codec.H64(p.Z))
		}
	}
	return sb.String()
}

// ---------------------------------------------------------------------------
// binary STL through the mesh API

func caseSTL(c *hlib.Ctx, i int) {
	tris := randMesh(c, i, true)
	var op strings.Builder
	fmt.Fprintf(&op, "c15 stl %d", len(tris))
	for _, t := range tris {
		nrm := t.Normal()
		fmt.Fprintf(&op, " %s %s %s", codec.H64(nrm.X), codec.H64(nrm.Y), codec.H64(nrm.Z))
		for _, p := range t {
			fmt.Fprintf(&op, " %s %s %s", codec.H64(p.X), codec.H64(p.Y), codec.H64(p.Z))
		}
	}
	out := guardT(func() string {
		data := model3d.EncodeSTL(tris)
		back, err := model3d.ReadSTL(bytes.NewReader(data))
		if err != nil {
			return codec.HexBytes(data) + " error"
		}
		return codec.HexBytes(data) + " " + showTris64(back)
	})
	c.Stat("c15.stl.cases", 1)
	c.Stat("c15.stl.triangles", len(tris))
	c.Emit(op.String(), out)
}

// ---------------------------------------------------------------------------
// ASCII STL written to the specification

func caseSTLAscii(c *hlib.Ctx, i int) {
	r := c.Rng
	nt := r.Intn(5)
	if i == 0 {
		nt = 0
	}
	tb := codec.NewTables()
	var op strings.Builder
	var text strings.Builder
	fmt.Fprintf(&op, "c15 stla %d", nt)
	text.WriteString("solid m3d\n")
	f := func(x float32) string { return strconv.FormatFloat(float64(x), 'f', -1, 32) }
	for j := 0; j < nt; j++ {
		var w [12]float32
		for k := range w {
			w[k] = codec.Float32(r, false)
			tb.AddF32(w[k])
			fmt.Fprintf(&op, " %s", codec.H32(w[k]))
		}
		fmt.Fprintf(&text, "facet normal %s %s %s\nouter loop\n", f(w[0]), f(w[1]), f(w[2]))
		for v := 1; v <= 3; v++ {
			fmt.Fprintf(&text, "vertex %s %s %s\n", f(w[3*v]), f(w[3*v+1]), f(w[3*v+2]))
		}
		text.WriteString("endloop\nendfacet\n")
	}
	text.WriteString("endsolid m3d\n")
	for _, t := range []string{"solid", "m3d", "facet", "normal", "outer", "loop", "vertex", "endloop", "endfacet", "endsolid"} {
		tb.AddTok(t)
	}
	lawCheck(c, tb)
	fmt.Fprintf(&op, " %s", tb.String())
	data := []byte(text.String())
	out := guardT(func() string {
		rd, err := ff.NewSTLReader(bytes.NewReader(data))
		if err != nil {
			return codec.HexBytes(data) + " error"
		}
		var recs []string
		for {
			nrm, vs, err := rd.ReadTriangle()
			if err == io.EOF {
				break
			} else if err != nil {
				return codec.HexBytes(data) + " error"
			}
			s := fmt.Sprintf("%s %s %s", codec.H32(nrm[0]), codec.H32(nrm[1]), codec.H32(nrm[2]))
			for _, v := range vs {
				s += fmt.Sprintf(" %s %s %s", codec.H32(v[0]), codec.H32(v[1]), codec.H32(v[2]))
			}
			recs = append(recs, s)
		}
		res := fmt.Sprintf("ok %d", len(recs))
		if len(recs) > 0 {
			res += " " + strings.Join(recs, " ")
		}
		return codec.HexBytes(data) + " " + res
	})
	c.Stat("c15.stla.cases", 1)
	c.Emit(op.String(), out)
}

func lawCheck(c *hlib.Ctx, tb *codec.Tables) {
	for _, f := range tb.LawFailures {
		c.PropFail("c15:strconv-parse-fmt-law", "parse(fmt(x)) != x for "+f)
	}
	tb.LawFailures = nil
}

// ---------------------------------------------------------------------------
// generic PLY streams

func casePlyStream(c *hlib.Ctx, i int) {
	r := c.Rng
	h := codec.RandomHeader(r)
	ascii := h.Format == ff.PLYFormatASCII
	tb := codec.NewTables()
	var rows [][]ff.PLYValue
	for _, e := range h.Elements {
		for k := int64(0); k < e.Count; k++ {
			row := codec.RandomRow(r, e, ascii)
			if ascii {
				codec.RegisterFloats(tb, row)
			}
			rows = append(rows, row)
		}
		if e.Count == 0 {
			c.Stat("c15.plys.zero_count_elements", 1)
		}
		if len(e.Properties) == 0 {
			c.Stat("c15.plys.elements_without_properties", 1)
		}
	}
	// a few non-conforming sequences: one row too many, or a row with a wrong field count
	switch r.Intn(25) {
	case 0:
		rows = append(rows, []ff.PLYValue{ff.PLYValueUint8{Value: 1}})
		c.Stat("c15.plys.nonconforming", 1)
	case 1:
		if len(rows) > 0 {
			k := r.Intn(len(rows))
			rows[k] = append(append([]ff.PLYValue{}, rows[k]...), ff.PLYValueUint8{Value: 7})
			c.Stat("c15.plys.nonconforming", 1)
		}
	}
	lawCheck(c, tb)
	dl := pickDelivery(c, "plys")
	var op strings.Builder
	fmt.Fprintf(&op, "c15 plys %s %s %d", dl.tag(), codec.ShowHeader(h), len(rows))
	for _, row := range rows {
		fmt.Fprintf(&op, " %s", codec.ShowRow(row))
	}
	fmt.Fprintf(&op, " %s", tb.String())
	c.Stat("c15.plys.cases", 1)
	c.Stat("c15.plys.format_"+codec.ShowFormat(h.Format), 1)
	c.Stat("c15.plys.rows", len(rows))
	out := guardT(func() string {
		var buf bytes.Buffer
		w, err := ff.NewPLYWriter(&buf, h)
		if err != nil {
			return "writeerr"
		}
		for _, row := range rows {
			if err := w.Write(row); err != nil {
				return "writeerr"
			}
		}
		data := buf.Bytes()
		return codec.HexBytes(data) + " 1 | " + readPlyAll(dl.reader(data))
	})
	c.Emit(op.String(), out)
}

// readPlyAll: NewPLYReader + Read until an error; io.EOF (errors.Is) is the clean end.
func readPlyAll(src io.Reader) string {
	rd, err := ff.NewPLYReader(src)
	if err != nil {
		return "openerr"
	}
	h := rd.Header()
	var sb strings.Builder
	var rows []string
	end := "eof"
	for {
		vals, el, err := rd.Read()
		if err != nil {
			if !errors.Is(err, io.EOF) {
				end = "err"
			}
			break
		}
		idx := -1
		for k, e := range h.Elements {
			if e == el {
				idx = k
			}
		}
		rows = append(rows, fmt.Sprintf("@%d %s", idx, codec.ShowRow(vals)))
		if len(rows) > 1<<20 {
			end = "runaway"
			break
		}
	}
	fmt.Fprintf(&sb, "%s | %d", codec.ShowHeader(&h), len(rows))
	for _, s := range rows {
		sb.WriteString(" " + s)
	}
	sb.WriteString(" " + end)
	return sb.String()
}

// ---------------------------------------------------------------------------
// coloured PLY through the mesh API

func colorOf(p model3d.Coord3D) [3]uint8 {
	h := math.Float64bits(p.X)*31 + math.Float64bits(p.Y)*17 + math.Float64bits(p.Z)*7
	return [3]uint8{uint8(h), uint8(h >> 8), uint8(h >> 19)}
}

func casePlyMesh(c *hlib.Ctx, i int) {
	tris := randMesh(c, i, false)
	tb := codec.NewTables()
	dl := pickDelivery(c, "plym")
	var op strings.Builder
	fmt.Fprintf(&op, "c15 plym %s %d", dl.tag(), len(tris))
	type key [3]uint64
	seen := map[key]bool{}
	var cols []string
	for _, t := range tris {
		for _, p := range t {
			fmt.Fprintf(&op, " %s %s %s", codec.H64(p.X), codec.H64(p.Y), codec.H64(p.Z))
			k := key{math.Float64bits(p.X), math.Float64bits(p.Y), math.Float64bits(p.Z)}
			if !seen[k] {
				seen[k] = true
				col := colorOf(p)
				cols = append(cols, fmt.Sprintf("%s %s %s %d %d %d", codec.H64(p.X), codec.H64(p.Y), codec.H64(p.Z), col[0], col[1], col[2]))
			}
			tb.AddF32(float32(p.X))
			tb.AddF32(float32(p.Y))
			tb.AddF32(float32(p.Z))
		}
	}
	lawCheck(c, tb)
	fmt.Fprintf(&op, " %d", len(cols))
	for _, s := range cols {
		op.WriteString(" " + s)
	}
	fmt.Fprintf(&op, " %s", tb.String())
	out := guardT(func() string {
		data := model3d.EncodePLY(tris, colorOf)
		back, colors, err := model3d.ReadColorPLY(dl.reader(data))
		if err != nil {
			return codec.HexBytes(data) + " error"
		}
		var sb strings.Builder
		fmt.Fprintf(&sb, "ok %d", len(back))
		for _, t := range back {
			for _, p := range t {
				col := "-"
				if v, ok := colors.Load(p); ok {
					col = fmt.Sprintf("%d,%d,%d", v[0], v[1], v[2])
				}
				fmt.Fprintf(&sb, " %s %s %s %s", codec.H64(p.X), codec.H64(p.Y), codec.H64(p.Z), col)
			}
		}
		return codec.HexBytes(data) + " " + sb.String()
	})
	c.Stat("c15.plym.cases", 1)
	c.Emit(op.String(), out)
}

// ---------------------------------------------------------------------------
// segment CSV

func caseCSV(c *hlib.Ctx, i int) {
	r := c.Rng
	ns := r.Intn(6)
	if i == 0 {
		ns = 0
	}
	tb := codec.NewTables()
	var op strings.Builder
	fmt.Fprintf(&op, "c15 csv %d", ns)
	segs := make([][4]float64, ns)
	for j := range segs {
		for k := 0; k < 4; k++ {
			segs[j][k] = codec.Float64(r, false)
			tb.AddG(segs[j][k])
			fmt.Fprintf(&op, " %s", codec.H64(segs[j][k]))
		}
	}
	lawCheck(c, tb)
	fmt.Fprintf(&op, " %s", tb.String())
	out := guardT(func() string {
		var buf bytes.Buffer
		w := ff.NewSegmentCSVWriter(&buf)
		for _, s := range segs {
			if err := w.Write(s); err != nil {
				return "writeerr"
			}
		}
		data := buf.Bytes()
		back, err := model2d.DecodeCSV(data)
		if err != nil {
			return codec.HexBytes(data) + " error"
		}
		var sb strings.Builder
		fmt.Fprintf(&sb, "ok %d", len(back))
		for _, s := range back {
			fmt.Fprintf(&sb, " %s %s %s %s", codec.H64(s[0].X), codec.H64(s[0].Y), codec.H64(s[1].X), codec.H64(s[1].Y))
		}
		return codec.HexBytes(data) + " " + sb.String()
	})
	c.Stat("c15.csv.cases", 1)
	c.Emit(op.String(), out)

	// the mesh API: EncodeCSV iterates a Go map, so the row order is unspecified; compared as a multiset.
	if ns > 0 {
		m := model2d.NewMesh()
		var want []string
		for _, s := range segs {
			m.Add(&model2d.Segment{model2d.XY(s[0], s[1]), model2d.XY(s[2], s[3])})
			want = append(want, fmt.Sprintf("%s %s %s %s", codec.H64(s[0]), codec.H64(s[1]), codec.H64(s[2]), codec.H64(s[3])))
		}
		back, err := model2d.DecodeCSV(model2d.EncodeCSV(m))
		var got []string
		for _, s := range back {
			got = append(got, fmt.Sprintf("%s %s %s %s", codec.H64(s[0].X), codec.H64(s[0].Y), codec.H64(s[1].X), codec.H64(s[1].Y)))
		}
		sort.Strings(want)
		sort.Strings(got)
		if err != nil || strings.Join(want, ";") != strings.Join(got, ";") {
			c.PropFail("c15:EncodeCSV-DecodeCSV/multiset", fmt.Sprintf("want %v got %v err %v", want, got, err))
		}
	}
}

// ---------------------------------------------------------------------------
// OFF text written to the specification

func caseOFF(c *hlib.Ctx, i int) {
	r := c.Rng
	nv := 1 + r.Intn(6)
	nf := r.Intn(5)
	if i == 0 {
		nf = 0
	}
	tb := codec.NewTables()
	dl := pickDelivery(c, "off")
	var op strings.Builder
	var text strings.Builder
	fmt.Fprintf(&op, "c15 off %s %d", dl.tag(), nv)
	var faces [][]int
	verts := make([][3]float64, nv)
	for j := range verts {
		for k := 0; k < 3; k++ {
			verts[j][k] = codec.Float64(r, false)
			tb.AddF64(verts[j][k])
			fmt.Fprintf(&op, " %s", codec.H64(verts[j][k]))
		}
	}
	fmt.Fprintf(&op, " %d", nf)
	for j := 0; j < nf; j++ {
		k := 3 + r.Intn(3)
		f := make([]int, k)
		fmt.Fprintf(&op, " %d", k)
		for l := range f {
			f[l] = r.Intn(nv)
			fmt.Fprintf(&op, " %d", f[l])
		}
		faces = append(faces, f)
	}
	fmt.Fprintf(&text, "OFF\n%d %d 0\n", nv, nf)
	for _, v := range verts {
		fmt.Fprintf(&text, "%s %s %s\n", strconv.FormatFloat(v[0], 'f', -1, 64), strconv.FormatFloat(v[1], 'f', -1, 64), strconv.FormatFloat(v[2], 'f', -1, 64))
	}
	for _, f := range faces {
		fmt.Fprintf(&text, "%d", len(f))
		for _, x := range f {
			fmt.Fprintf(&text, " %d", x)
		}
		text.WriteString("\n")
	}
	lawCheck(c, tb)
	fmt.Fprintf(&op, " %s", tb.String())
	data := []byte(text.String())
	out := guardT(func() string {
		rd, err := ff.NewOFFReader(dl.reader(data))
		if err != nil {
			return codec.HexBytes(data) + " error"
		}
		var sb strings.Builder
		fmt.Fprintf(&sb, "ok %d", rd.NumFaces())
		for j := 0; j < rd.NumFaces(); j++ {
			poly, err := rd.ReadFace()
			if err != nil {
				return codec.HexBytes(data) + " error"
			}
			fmt.Fprintf(&sb, " %d", len(poly))
			for _, p := range poly {
				fmt.Fprintf(&sb, " %s %s %s", codec.H64(p[0]), codec.H64(p[1]), codec.H64(p[2]))
			}
		}
		return codec.HexBytes(data) + " " + sb.String()
	})
	c.Stat("c15.off.cases", 1)
	c.Emit(op.String(), out)

	// model3d.ReadOFF on triangle-only files returns exactly the faces, in order.
	allTri := true
	for _, f := range faces {
		if len(f) != 3 {
			allTri = false
		}
	}
	if allTri {
		tris, err := model3d.ReadOFF(dl.reader(data))
		ok := err == nil && len(tris) == len(faces)
		if ok {
			for j, f := range faces {
				for k := 0; k < 3; k++ {
					if tris[j][k] != model3d.NewCoord3DArray(verts[f[k]]) {
						ok = false
					}
				}
			}
		}
		if !ok {
			c.PropFail("c15:ReadOFF/triangle-file", "delivery "+dl.tag()+" file "+codec.HexBytes(data))
		}
		c.Stat("c15.off.triangle_only_files", 1)
	}
}

// ---------------------------------------------------------------------------
// OBJ / MTL / 3MF index construction

func caseOBJ(c *hlib.Ctx, i int) {
	r := c.Rng
	tris := randMesh(c, i, false)
	mats := make([]int, len(tris))
	palette := [][3]float64{{1, 0, 0}, {0, 1, 0}, {0.5, 0.25, 0}, {0, 0, math.Copysign(0, -1)}, {0, 0, 0}}
	// palette[3] and palette[4] are == as float32 arrays: one material
	matID := []int{0, 1, 2, 3, 3}
	byTri := map[*model3d.Triangle]int{}
	for j, t := range tris {
		k := r.Intn(len(palette))
		mats[j] = matID[k]
		byTri[t] = k
	}
	var op strings.Builder
	fmt.Fprintf(&op, "c15 obj %d", len(tris))
	for _, t := range tris {
		for _, p := range t {
			fmt.Fprintf(&op, " %s %s %s", codec.H64(p.X), codec.H64(p.Y), codec.H64(p.Z))
		}
	}
	for _, m := range mats {
		fmt.Fprintf(&op, " %d", m)
	}
	out := guardT(func() string {
		o1 := model3d.BuildVertexColorOBJ(tris, func(model3d.Coord3D) [3]float64 { return [3]float64{} })
		o2, mtl := model3d.BuildMaterialOBJ(tris, func(t *model3d.Triangle) [3]float64 { return palette[byTri[t]] })
		var sb strings.Builder
		fmt.Fprintf(&sb, "V %d", len(o2.Vertices))
		if len(o1.Vertices) != len(o2.Vertices) {
			return "vertex-tables-differ"
		}
		for k, v := range o2.Vertices {
			if o1.Vertices[k] != v {
				return "vertex-tables-differ"
			}
			fmt.Fprintf(&sb, " %s %s %s", codec.H64(v[0]), codec.H64(v[1]), codec.H64(v[2]))
		}
		sb.WriteString(" F")
		if len(o1.FaceGroups) != 1 {
			return "vertex-color-obj-groups"
		}
		for _, f := range o1.FaceGroups[0].Faces {
			fmt.Fprintf(&sb, " %d,%d,%d", f[0][0], f[1][0], f[2][0])
		}
		fmt.Fprintf(&sb, " G %d", len(o2.FaceGroups))
		if len(mtl.Materials) != len(o2.FaceGroups) {
			return "mtl-groups-differ"
		}
		for k, g := range o2.FaceGroups {
			if g.Material != "mat"+strconv.Itoa(k) || mtl.Materials[k].Name != g.Material {
				return "material-names"
			}
			// material id = palette id of the group's colour
			id := -1
			for q, pc := range palette {
				if [3]float32{float32(pc[0]), float32(pc[1]), float32(pc[2])} == mtl.Materials[k].Diffuse {
					id = matID[q]
					break
				}
			}
			fmt.Fprintf(&sb, " m%d %d", id, len(g.Faces))
			for _, f := range g.Faces {
				fmt.Fprintf(&sb, " %d,%d,%d", f[0][0], f[1][0], f[2][0])
			}
		}
		return sb.String()
	})
	c.Stat("c15.obj.cases", 1)
	c.Emit(op.String(), out)
}
