package main

// Kind `objx`: the OBJ exports at FILE level.  The real writers (WriteVertexColorOBJ,
// EncodeMaterialOBJ, BuildUVMapMaterialOBJ + OBJFile.Write, WriteQuantizedMaterialOBJ) produce the
// bytes; the harness unzips them where they are a zip archive, reads the Wavefront text (`v`, `vt`,
// `usemtl`, `f a[/b[/c]]` lines; `newmtl` / `Kd` lines of the material library) and resolves every
// face through the vertex table FOUND IN THE FILE.  Compared with the index-mesh model
// (M3d.C15.mesh_index_resolves, obj_each_face_once, obj_indices_in_range, obj_group_in_range): one
// `f` line per triangle, every vertex (and texture) index in range, each face resolving to the
// triangle it stands for, faces grouped by material in order of first appearance.
//
// Coordinates are multiples of 2^-8 below 2^15 (exact in float32, the precision the OBJ writer
// prints at), so the comparison does not depend on the number of digits printed.

import (
	"archive/zip"
	"bytes"
	"fmt"
	"io"
	"math"
	"strconv"
	"strings"

	"verif/harness/codec"
	"verif/harness/hlib"

	"github.com/unixpickle/model3d/model2d"
	"github.com/unixpickle/model3d/model3d"
)

type objGroup struct {
	material string
	faces    []string
}

// parseOBJ reads Wavefront text; returns an error string or "".
func parseOBJ(text string) (verts [][3]float64, nvt int, groups []objGroup, mtllibs []string, fail string) {
	type corner struct{ v, vt int }
	var pending [][3]corner
	var pendingGroup []int
	groups = append(groups, objGroup{})
	for _, line := range strings.Split(text, "\n") {
		fs := strings.Fields(line)
		if len(fs) == 0 {
			continue
		}
		switch fs[0] {
		case "v":
			if len(fs) != 4 && len(fs) != 7 {
				return nil, 0, nil, nil, "v-line-fields"
			}
			var p [3]float64
			for a := 0; a < 3; a++ {
				// the OBJ writer prints float32 precision (shortest digits that identify the float32)
				x, err := strconv.ParseFloat(fs[1+a], 32)
				if err != nil {
					return nil, 0, nil, nil, "v-line-number"
				}
				p[a] = normZero(float64(float32(x)))
			}
			verts = append(verts, p)
		case "vt":
			nvt++
		case "mtllib":
			if len(fs) != 2 {
				return nil, 0, nil, nil, "mtllib-line"
			}
			mtllibs = append(mtllibs, fs[1])
		case "usemtl":
			if len(fs) != 2 {
				return nil, 0, nil, nil, "usemtl-line"
			}
			groups = append(groups, objGroup{material: fs[1]})
		case "f":
			if len(fs) != 4 {
				return nil, 0, nil, nil, "f-line-not-a-triangle"
			}
			var f [3]corner
			for a := 0; a < 3; a++ {
				parts := strings.Split(fs[1+a], "/")
				v, err := strconv.Atoi(parts[0])
				if err != nil {
					return nil, 0, nil, nil, "f-line-index"
				}
				f[a].v = v
				if len(parts) > 1 && parts[1] != "" {
					vt, err := strconv.Atoi(parts[1])
					if err != nil {
						return nil, 0, nil, nil, "f-line-index"
					}
					f[a].vt = vt
				}
			}
			pending = append(pending, f)
			pendingGroup = append(pendingGroup, len(groups)-1)
		}
	}
	// indices may refer to vertices declared anywhere in the file: resolve at the end
	for k, f := range pending {
		var sb strings.Builder
		for _, cn := range f {
			if cn.v < 1 || cn.v > len(verts) {
				return nil, 0, nil, nil, "vertex-index-out-of-range"
			}
			if cn.vt != 0 && (cn.vt < 1 || cn.vt > nvt) {
				return nil, 0, nil, nil, "texture-index-out-of-range"
			}
			p := verts[cn.v-1]
			fmt.Fprintf(&sb, " %s %s %s", codec.H64(p[0]), codec.H64(p[1]), codec.H64(p[2]))
		}
		g := &groups[pendingGroup[k]]
		g.faces = append(g.faces, sb.String())
	}
	return verts, nvt, groups, mtllibs, ""
}

// parseMTL: material name -> diffuse colour
func parseMTL(text string) (map[string][3]float32, []string, []string, string) {
	res := map[string][3]float32{}
	var order, textures []string
	cur := ""
	for _, line := range strings.Split(text, "\n") {
		fs := strings.Fields(line)
		if len(fs) == 0 {
			continue
		}
		switch fs[0] {
		case "newmtl":
			if len(fs) != 2 {
				return nil, nil, nil, "newmtl-line"
			}
			cur = fs[1]
			if _, dup := res[cur]; dup {
				return nil, nil, nil, "material-defined-twice"
			}
			res[cur] = [3]float32{}
			order = append(order, cur)
		case "Kd":
			if len(fs) != 4 || cur == "" {
				return nil, nil, nil, "Kd-line"
			}
			var col [3]float32
			for a := 0; a < 3; a++ {
				x, err := strconv.ParseFloat(fs[1+a], 32)
				if err != nil {
					return nil, nil, nil, "Kd-line"
				}
				col[a] = float32(x)
			}
			res[cur] = col
		case "map_Ka", "map_Kd", "map_Ks", "map_Ns":
			textures = append(textures, fs[len(fs)-1])
		}
	}
	return res, order, textures, ""
}

func unzipAll(data []byte) (map[string]string, string) {
	zr, err := zip.NewReader(bytes.NewReader(data), int64(len(data)))
	if err != nil {
		return nil, "not-a-zip"
	}
	out := map[string]string{}
	for _, f := range zr.File {
		rc, err := f.Open()
		if err != nil {
			return nil, "zip-part-unreadable"
		}
		b, err := io.ReadAll(rc)
		rc.Close()
		if err != nil {
			return nil, "zip-part-unreadable"
		}
		out[f.Name] = string(b)
	}
	return out, ""
}

// theOBJPart: the one entry of the archive with the extension .obj
func theOBJPart(parts map[string]string) (string, string) {
	found, text := 0, ""
	for name, t := range parts {
		if strings.HasSuffix(name, ".obj") {
			found++
			text = t
		}
	}
	if found != 1 {
		return "", "no-single-obj-part"
	}
	return text, ""
}

func caseOBJFile(c *hlib.Ctx, i int) {
	r := c.Rng
	variant := []string{"vc", "mat", "uv", "quant"}[i%4]
	var nt int
	switch {
	case i < 4:
		nt = 0
	case i < 8:
		nt = 1
	case i%11 == 0:
		nt = 25 + r.Intn(30)
	default:
		nt = r.Intn(8)
	}
	coord := func() float64 {
		switch r.Intn(12) {
		case 0:
			return 0
		case 1:
			return math.Copysign(0, -1)
		}
		return float64(r.Int63n(1<<23)-(1<<22)) / 256
	}
	pool := make([]model3d.Coord3D, 3+r.Intn(6))
	for j := range pool {
		pool[j] = model3d.XYZ(coord(), coord(), coord())
	}
	if r.Intn(2) == 0 {
		pool[0] = model3d.XYZ(0, 1, math.Copysign(0, -1))
		pool[1] = model3d.XYZ(math.Copysign(0, -1), 1, 0)
	}
	var tris []*model3d.Triangle
	for j := 0; j < nt; j++ {
		if j > 0 && r.Intn(6) == 0 {
			d := *tris[r.Intn(len(tris))]
			tris = append(tris, &d)
			continue
		}
		t := &model3d.Triangle{}
		for k := 0; k < 3; k++ {
			if r.Intn(4) == 0 {
				t[k] = model3d.XYZ(coord(), coord(), coord())
			} else {
				t[k] = pool[r.Intn(len(pool))]
			}
		}
		tris = append(tris, t)
	}
	palette := [][3]float64{{1, 0, 0}, {0, 1, 0}, {0.5, 0.25, 0}, {0, 0, math.Copysign(0, -1)}, {0, 0, 0}}
	matID := []int{0, 1, 2, 3, 3}
	byTri := map[*model3d.Triangle]int{}
	mats := make([]int, len(tris))
	for j, t := range tris {
		k := r.Intn(len(palette))
		byTri[t] = k
		if variant == "mat" {
			mats[j] = matID[k]
		}
	}
	colorFn := func(t *model3d.Triangle) [3]float64 { return palette[byTri[t]] }
	var op strings.Builder
	fmt.Fprintf(&op, "c15 objx %s %d", variant, len(tris))
	for _, t := range tris {
		for _, p := range t {
			fmt.Fprintf(&op, " %s %s %s", codec.H64(p.X), codec.H64(p.Y), codec.H64(p.Z))
		}
	}
	for _, m := range mats {
		fmt.Fprintf(&op, " %d", m)
	}
	out := guardT(func() string {
		var objText, mtlText string
		var parts map[string]string
		switch variant {
		case "vc":
			var buf bytes.Buffer
			if err := model3d.WriteVertexColorOBJ(&buf, tris, func(p model3d.Coord3D) [3]float64 { return [3]float64{0.5, 0.25, 1} }); err != nil {
				return "writeerr"
			}
			objText = buf.String()
		case "mat":
			var fail string
			parts, fail = unzipAll(model3d.EncodeMaterialOBJ(tris, colorFn))
			if fail != "" {
				return fail
			}
			if objText, fail = theOBJPart(parts); fail != "" {
				return fail
			}
		case "uv":
			uvPool := []model2d.Coord{model2d.XY(0, 0), model2d.XY(1, 0), model2d.XY(0.5, 0.25), model2d.XY(0.125, 1), model2d.XY(0.75, 0.75)}
			uvMap := model3d.MeshUVMap{}
			for _, t := range tris {
				uvMap[t] = [3]model2d.Coord{uvPool[r.Intn(len(uvPool))], uvPool[r.Intn(len(uvPool))], uvPool[r.Intn(len(uvPool))]}
			}
			obj, mtl := model3d.BuildUVMapMaterialOBJ(tris, uvMap)
			var b1, b2 bytes.Buffer
			if err := obj.Write(&b1); err != nil {
				return "writeerr"
			}
			if err := mtl.Write(&b2); err != nil {
				return "writeerr"
			}
			objText, mtlText = b1.String(), b2.String()
		case "quant":
			var buf bytes.Buffer
			if err := model3d.WriteQuantizedMaterialOBJ(&buf, tris, 2+r.Intn(3), colorFn); err != nil {
				return "writeerr"
			}
			var fail string
			parts, fail = unzipAll(buf.Bytes())
			if fail != "" {
				return fail
			}
			if objText, fail = theOBJPart(parts); fail != "" {
				return fail
			}
		}
		verts, _, groups, mtllibs, fail := parseOBJ(objText)
		if fail != "" {
			return fail
		}
		if parts != nil {
			// the material library the OBJ text names must be in the archive
			if len(mtllibs) != 1 {
				return "mtllib-lines"
			}
			var ok bool
			if mtlText, ok = parts[mtllibs[0]]; !ok {
				return "mtllib-not-in-archive"
			}
		}
		for a := range verts {
			for b := a + 1; b < len(verts); b++ {
				if verts[a] == verts[b] {
					return "vertex-table-has-duplicates"
				}
			}
		}
		var mtlCols map[string][3]float32
		if variant != "vc" {
			var order, textures []string
			mtlCols, order, textures, fail = parseMTL(mtlText)
			if fail != "" {
				return fail
			}
			if parts != nil {
				for _, tx := range textures {
					if _, ok := parts[tx]; !ok {
						return "texture-not-in-archive"
					}
				}
			}
			if variant == "quant" && len(textures) == 0 {
				return "no-texture-map"
			}
			_ = order
		}
		var sb strings.Builder
		ng := 0
		for _, g := range groups {
			if len(g.faces) == 0 {
				continue
			}
			ng++
			id := "-"
			if variant == "mat" {
				col, ok := mtlCols[g.material]
				if !ok {
					return "usemtl-without-material"
				}
				id = "?"
				for q, pc := range palette {
					if [3]float32{float32(pc[0]), float32(pc[1]), float32(pc[2])} == col {
						id = strconv.Itoa(matID[q])
						break
					}
				}
			} else if variant != "vc" {
				if _, ok := mtlCols[g.material]; !ok {
					return "usemtl-without-material"
				}
			}
			fmt.Fprintf(&sb, " m%s %d%s", id, len(g.faces), strings.Join(g.faces, ""))
		}
		return fmt.Sprintf("V %d G %d%s", len(verts), ng, sb.String())
	})
	c.Stat("c15.objx.cases", 1)
	c.Stat("c15.objx."+variant, 1)
	c.Stat("c15.objx.triangles", len(tris))
	c.Emit(op.String(), out)
}
