package main

// Kind `3mf`: the REAL model3d.Write3MF output is unzipped (archive/zip) and its model part parsed
// (encoding/xml); the vertex table and the index triples found IN THE FILE are resolved and
// compared with the index-mesh model (M3d.C15.mesh_index_resolves / mesh_index_table_size): one
// triple per triangle, indices in range, each triple resolving to the triangle it stands for
// (corners in order), the table holding every distinct coordinate once.  Write3MF visits the mesh
// in Go map order, so both sides sort the resolved triangles.
//
// Coordinates are multiples of 2^-8 below 2^16 (plus signed zeros): any decimal rendering with at
// least eight fractional digits is exact for them, so the comparison does not depend on how many
// digits the writer chooses to print (it prints 32).

import (
	"archive/zip"
	"bytes"
	"encoding/xml"
	"fmt"
	"io"
	"math"
	"sort"
	"strconv"
	"strings"

	"verif/harness/codec"
	"verif/harness/hlib"

	ff "github.com/unixpickle/model3d/fileformats"
	"github.com/unixpickle/model3d/model3d"
)

type x3mfModel struct {
	XMLName   xml.Name `xml:"model"`
	Unit      string   `xml:"unit,attr"`
	Resources struct {
		Objects []struct {
			ID   string `xml:"id,attr"`
			Mesh struct {
				Vertices struct {
					V []struct {
						X string `xml:"x,attr"`
						Y string `xml:"y,attr"`
						Z string `xml:"z,attr"`
					} `xml:"vertex"`
				} `xml:"vertices"`
				Triangles struct {
					T []struct {
						V1 string `xml:"v1,attr"`
						V2 string `xml:"v2,attr"`
						V3 string `xml:"v3,attr"`
					} `xml:"triangle"`
				} `xml:"triangles"`
			} `xml:"mesh"`
		} `xml:"object"`
	} `xml:"resources"`
	Build struct {
		Items []struct {
			ObjectID string `xml:"objectid,attr"`
		} `xml:"item"`
	} `xml:"build"`
}

func normZero(x float64) float64 {
	if x == 0 {
		return 0
	}
	return x
}

func caseThreeMF(c *hlib.Ctx, i int) {
	r := c.Rng
	var nt int
	switch {
	case i == 0:
		nt = 0
	case i == 1:
		nt = 1
	case i%9 == 0:
		nt = 30 + r.Intn(40)
	default:
		nt = r.Intn(8)
	}
	coord := func() float64 {
		switch r.Intn(12) {
		case 0:
			return 0
		case 1:
			return math.Copysign(0, -1)
		}
		return float64(r.Int63n(1<<24)-(1<<23)) / 256
	}
	pool := make([]model3d.Coord3D, 3+r.Intn(6))
	for j := range pool {
		pool[j] = model3d.XYZ(coord(), coord(), coord())
	}
	if r.Intn(2) == 0 {
		pool[0] = model3d.XYZ(0, 1, math.Copysign(0, -1))
		pool[1] = model3d.XYZ(math.Copysign(0, -1), 1, 0)
	}
	var tris []*model3d.Triangle
	for j := 0; j < nt; j++ {
		if j > 0 && r.Intn(6) == 0 {
			d := *tris[r.Intn(len(tris))]
			tris = append(tris, &d)
			c.Stat("c15.3mf.duplicate_triangle", 1)
			continue
		}
		t := &model3d.Triangle{}
		for k := 0; k < 3; k++ {
			if r.Intn(4) == 0 {
				t[k] = model3d.XYZ(coord(), coord(), coord())
			} else {
				t[k] = pool[r.Intn(len(pool))]
			}
		}
		tris = append(tris, t)
	}
	var op strings.Builder
	fmt.Fprintf(&op, "c15 3mf %d", len(tris))
	for _, t := range tris {
		for _, p := range t {
			fmt.Fprintf(&op, " %s %s %s", codec.H64(p.X), codec.H64(p.Y), codec.H64(p.Z))
		}
	}
	unit := []ff.ThreeMFUnit{ff.ThreeMFUnitMillimeter, ff.ThreeMFUnitInch, ff.ThreeMFUnitMicron}[r.Intn(3)]
	out := guardT(func() string {
		var buf bytes.Buffer
		if err := model3d.Write3MF(&buf, unit, tris); err != nil {
			return "writeerr"
		}
		zr, err := zip.NewReader(bytes.NewReader(buf.Bytes()), int64(buf.Len()))
		if err != nil {
			return "not-a-zip"
		}
		var modelData []byte
		names := map[string]bool{}
		for _, f := range zr.File {
			names[f.Name] = true
			if f.Name == "3D/3dmodel.model" {
				rc, err := f.Open()
				if err != nil {
					return "model-part-unreadable"
				}
				modelData, err = io.ReadAll(rc)
				rc.Close()
				if err != nil {
					return "model-part-unreadable"
				}
			}
		}
		if !names["3D/3dmodel.model"] || !names["_rels/.rels"] || !names["[Content_Types].xml"] {
			return "package-parts-missing"
		}
		var m x3mfModel
		if err := xml.Unmarshal(modelData, &m); err != nil {
			return "model-part-not-xml"
		}
		if m.Unit != string(unit) {
			return "unit-differs"
		}
		if len(m.Resources.Objects) != 1 || len(m.Build.Items) != 1 || m.Build.Items[0].ObjectID != m.Resources.Objects[0].ID {
			return "object-or-build-item"
		}
		mesh := m.Resources.Objects[0].Mesh
		verts := make([][3]float64, len(mesh.Vertices.V))
		for k, v := range mesh.Vertices.V {
			for a, s := range []string{v.X, v.Y, v.Z} {
				x, err := strconv.ParseFloat(s, 64)
				if err != nil {
					return "vertex-not-a-number"
				}
				verts[k][a] = normZero(x)
			}
		}
		for a := range verts {
			for b := a + 1; b < len(verts); b++ {
				if verts[a] == verts[b] {
					return "vertex-table-has-duplicates"
				}
			}
		}
		var rows []string
		for _, t := range mesh.Triangles.T {
			var sb strings.Builder
			for _, s := range []string{t.V1, t.V2, t.V3} {
				idx, err := strconv.Atoi(s)
				if err != nil {
					return "index-not-a-number"
				}
				if idx < 0 || idx >= len(verts) {
					return "index-out-of-range"
				}
				fmt.Fprintf(&sb, " %s %s %s", codec.H64(verts[idx][0]), codec.H64(verts[idx][1]), codec.H64(verts[idx][2]))
			}
			rows = append(rows, sb.String())
		}
		sort.Strings(rows)
		return fmt.Sprintf("V %d T %d%s", len(verts), len(rows), strings.Join(rows, ""))
	})
	c.Stat("c15.3mf.cases", 1)
	c.Stat("c15.3mf.triangles", len(tris))
	c.Emit(op.String(), out)
}
