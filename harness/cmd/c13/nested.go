package main

// Schedule-controlled scenarios for the mechanism "immutable query structures
// after construction" (theorems owned_state_noninterference,
// query_local_scratch_eq_sequential, query_field_scratch_racy).
//
// The library's query structures (JoinedCollider, ProfileCollider,
// TransformCollider, ColliderSolid, ColliderToSDF, Objectify, JoinedObject,
// FilteredObject, Translate/Rotate/Scale …) are built over USER-SUPPLIED leaves
// (colliders, 2-D colliders, objects, color functions).  The leaves of these
// scenarios answer exactly like the wrapped primitive, but report every entry
// and exit to a gate.  The gate parks the goroutine that produces the k-th
// event, which pins down one legal interleaving of two concurrent readers:
//
//	goroutine A runs its query up to its k-th callback into user code and is
//	held there; goroutine B runs complete queries on the same structure;
//	A continues.
//
// ("interrupted k" of Model/ConcQuery.lean.)  For a structure that stages a
// query's intermediate results in state of the call this cannot be observed;
// a structure that stages them in one of its own fields hands A the results
// of B.  Every park position of A's query is tried (all of them when there are
// at most maxParks, a PRNG sample otherwise).  Nothing sleeps: the schedule is
// enforced with channels, timeouts only bound a hang.
//
// rendersched does the same with the library's own worker pool: a real
// RecursiveRayTracer.Render in which the worker shading pixel P is held at its
// shadow-ray cast until another worker has cast the primary ray of pixel Q.

import (
	"fmt"
	"math"
	"math/rand"
	"runtime"
	"sort"
	"strings"
	"sync"
	"time"

	"github.com/unixpickle/model3d/model2d"
	"github.com/unixpickle/model3d/model3d"
	"github.com/unixpickle/model3d/numerical"
	"github.com/unixpickle/model3d/render3d"
	"verif/harness/hlib"
)

const (
	parkTimeout = 20 * time.Second
	maxParks    = 10
)

// ------------------------------------------------------------------ the gate

type gate struct {
	mu      sync.Mutex
	armed   bool
	target  int
	count   int
	entered chan struct{}
	resume  chan struct{}
}

// arm starts counting events; the goroutine producing event number target (1-based) is
// parked.  target <= 0 only counts.
func (g *gate) arm(target int) {
	g.mu.Lock()
	g.armed, g.target, g.count = true, target, 0
	g.entered, g.resume = make(chan struct{}), make(chan struct{})
	g.mu.Unlock()
}

func (g *gate) disarm() int {
	g.mu.Lock()
	defer g.mu.Unlock()
	g.armed = false
	return g.count
}

func (g *gate) event() {
	if g == nil {
		return
	}
	g.mu.Lock()
	if !g.armed {
		g.mu.Unlock()
		return
	}
	g.count++
	if g.count != g.target {
		g.mu.Unlock()
		return
	}
	g.armed = false
	entered, resume := g.entered, g.resume
	g.mu.Unlock()
	close(entered)
	select {
	case <-resume:
	case <-time.After(parkTimeout):
	}
}

// interrupt runs qa on its own goroutine, parks it at its k-th event, runs qbs to completion
// meanwhile, and lets qa finish.
func interrupt(g *gate, k int, qa func() string, qbs []func() string) (a string, bs []string, parked bool) {
	g.arm(k)
	g.mu.Lock()
	entered, resume := g.entered, g.resume
	g.mu.Unlock()
	doneA := make(chan string, 1)
	go func() { doneA <- hlib.Guard(qa) }()
	gotA := false
	select {
	case <-entered:
		parked = true
	case a = <-doneA:
		gotA = true
	case <-time.After(parkTimeout):
		a, gotA = "timeout-before-park", true
	}
	g.disarm()
	for _, qb := range qbs {
		bs = append(bs, hlib.Guard(qb))
	}
	close(resume)
	if !gotA {
		select {
		case a = <-doneA:
		case <-time.After(parkTimeout):
			a = "timeout"
		}
	}
	return
}

// ------------------------------------------------------------------ gated user-supplied leaves

type gColl3 struct {
	model3d.Collider
	g *gate
}

func (c *gColl3) RayCollisions(r *model3d.Ray, f func(model3d.RayCollision)) int {
	c.g.event()
	n := c.Collider.RayCollisions(r, f)
	c.g.event()
	return n
}

func (c *gColl3) FirstRayCollision(r *model3d.Ray) (model3d.RayCollision, bool) {
	c.g.event()
	rc, ok := c.Collider.FirstRayCollision(r)
	c.g.event()
	return rc, ok
}

func (c *gColl3) SphereCollision(p model3d.Coord3D, r float64) bool {
	c.g.event()
	res := c.Collider.SphereCollision(p, r)
	c.g.event()
	return res
}

type gColl2 struct {
	model2d.Collider
	g *gate
}

func (c *gColl2) RayCollisions(r *model2d.Ray, f func(model2d.RayCollision)) int {
	c.g.event()
	n := c.Collider.RayCollisions(r, f)
	c.g.event()
	return n
}

func (c *gColl2) FirstRayCollision(r *model2d.Ray) (model2d.RayCollision, bool) {
	c.g.event()
	rc, ok := c.Collider.FirstRayCollision(r)
	c.g.event()
	return rc, ok
}

func (c *gColl2) CircleCollision(p model2d.Coord, r float64) bool {
	c.g.event()
	res := c.Collider.CircleCollision(p, r)
	c.g.event()
	return res
}

type gObj struct {
	render3d.Object
	g *gate
}

func (o *gObj) Cast(r *model3d.Ray) (model3d.RayCollision, render3d.Material, bool) {
	o.g.event()
	rc, m, ok := o.Object.Cast(r)
	o.g.event()
	return rc, m, ok
}

// ------------------------------------------------------------------ structures over the leaves

type builder struct {
	rng *rand.Rand
	g   *gate // nil: plain leaves (no gating, no added synchronisation)
}

func (b *builder) f(lo, hi float64) float64 { return lo + (hi-lo)*b.rng.Float64() }

func (b *builder) pt(span float64) model3d.Coord3D {
	return model3d.XYZ(b.f(-span, span), b.f(-span, span), b.f(-span, span))
}

func (b *builder) wrap3(c model3d.Collider) model3d.Collider {
	if b.g == nil {
		return c
	}
	return &gColl3{Collider: c, g: b.g}
}

func (b *builder) wrap2(c model2d.Collider) model2d.Collider {
	if b.g == nil {
		return c
	}
	return &gColl2{Collider: c, g: b.g}
}

func (b *builder) leaf3() (model3d.Collider, string) {
	switch b.rng.Intn(4) {
	case 0:
		return b.wrap3(&model3d.Sphere{Center: b.pt(1.2), Radius: b.f(0.4, 1.1)}), "sphere"
	case 1:
		lo := b.pt(1)
		return b.wrap3(model3d.NewRect(lo, lo.Add(model3d.XYZ(b.f(0.3, 1.5), b.f(0.3, 1.5), b.f(0.3, 1.5))))), "rect"
	case 2:
		return b.wrap3(model3d.MeshToCollider(model3d.NewMeshIcosphere(b.pt(1), b.f(0.5, 1), 2))), "mesh"
	default:
		p := b.pt(0.8)
		return b.wrap3(&model3d.Cylinder{P1: p, P2: p.Add(model3d.XYZ(b.f(-1, 1), b.f(-1, 1), b.f(0.3, 1.2))), Radius: b.f(0.3, 0.8)}), "cylinder"
	}
}

func (b *builder) leaf2() (model2d.Collider, string) {
	switch b.rng.Intn(3) {
	case 0:
		return b.wrap2(&model2d.Circle{Center: model2d.XY(b.f(-0.5, 0.5), b.f(-0.5, 0.5)), Radius: b.f(0.5, 1.2)}), "circle"
	case 1:
		lo := model2d.XY(b.f(-1.2, 0), b.f(-1.2, 0))
		return b.wrap2(model2d.NewRect(lo, lo.Add(model2d.XY(b.f(0.5, 1.8), b.f(0.5, 1.8))))), "rect2"
	default:
		k, amp := float64(2+b.rng.Intn(4)), b.f(0.1, 0.4)
		m := model2d.NewMeshPolar(func(t float64) float64 { return 1 + amp*math.Sin(k*t) }, 24+b.rng.Intn(40))
		return b.wrap2(model2d.MeshToCollider(m)), "polar"
	}
}

var collFamilies = []string{"profile", "join", "xform", "nested"}

// coll builds a library query structure of the given family over fresh leaves.
func (b *builder) coll(family string, depth int) (model3d.Collider, string) {
	if depth <= 0 && family != "profile" {
		family = "leaf"
	}
	switch family {
	case "profile":
		l, d := b.leaf2()
		z := b.f(-1.2, 0)
		return model3d.ProfileCollider(l, z, z+b.f(0.5, 2)), "profile(" + d + ")"
	case "join":
		n := 3 + b.rng.Intn(4)
		cs := make([]model3d.Collider, n)
		ds := make([]string, n)
		for i := range cs {
			sub := "leaf"
			if b.rng.Intn(4) == 0 {
				sub = collFamilies[b.rng.Intn(len(collFamilies))]
			}
			cs[i], ds[i] = b.coll(sub, depth-1)
		}
		return model3d.NewJoinedCollider(cs), "join(" + strings.Join(ds, ",") + ")"
	case "xform":
		sub := []string{"profile", "join", "leaf"}[b.rng.Intn(3)]
		c, d := b.coll(sub, depth-1)
		switch b.rng.Intn(3) {
		case 0:
			return model3d.TransformCollider(&model3d.Translate{Offset: b.pt(0.5)}, c), "translate(" + d + ")"
		case 1:
			return model3d.TransformCollider(model3d.Rotation(b.pt(1).Normalize(), b.f(0, 3)), c), "rotate(" + d + ")"
		default:
			return model3d.TransformCollider(&model3d.Scale{Scale: b.f(0.6, 1.5)}, c), "scale(" + d + ")"
		}
	case "nested":
		sub := collFamilies[b.rng.Intn(3)]
		c1, d1 := b.coll(sub, depth-1)
		c2, d2 := b.coll("profile", depth-1)
		c3, d3 := b.leaf3()
		return model3d.NewJoinedCollider([]model3d.Collider{c3, c1, c2}), "join(" + d3 + "," + d1 + "," + d2 + ")"
	default:
		return b.leaf3()
	}
}

// target is one collider with the solids and the field the library derives from it; all of
// them are shared by the goroutines of a scenario.
type target struct {
	g      *gate
	coll   model3d.Collider
	solid  model3d.Solid
	inset  model3d.Solid
	hollow model3d.Solid
	sdf    model3d.SDF
}

func newTarget(c model3d.Collider, g *gate) *target {
	return &target{g: g, coll: c, solid: model3d.NewColliderSolid(c), inset: model3d.NewColliderSolidInset(c, 0.07),
		hollow: model3d.NewColliderSolidHollow(c, 0.15), sdf: model3d.ColliderToSDF(c, 6)}
}

var collQueryKinds = []string{"rays", "first", "sphere", "contains", "inset", "hollow", "sdf", "ccontains"}

type collQuery struct {
	kind string
	ray  model3d.Ray
	p    model3d.Coord3D
	r    float64
}

func (b *builder) collQuery(kind string) collQuery {
	if kind == "" {
		kind = collQueryKinds[b.rng.Intn(len(collQueryKinds))]
	}
	o := b.pt(3)
	dir := b.pt(0.8).Sub(o)
	if b.rng.Intn(8) == 0 {
		dir.Z = 0 // flat ray: one of the special cases of the profile collider
	}
	if b.rng.Intn(16) == 0 {
		dir.X, dir.Y = 0, 0 // vertical ray
		if dir.Z == 0 {
			dir.Z = 1
		}
	}
	return collQuery{kind: kind, ray: model3d.Ray{Origin: o, Direction: dir}, p: b.pt(1.6), r: b.f(0.05, 0.6)}
}

func (q collQuery) String() string {
	switch q.kind {
	case "rays", "first":
		return q.kind + "@" + c3(q.ray.Origin) + ">" + c3(q.ray.Direction)
	case "sphere":
		return q.kind + "@" + c3(q.p) + "r" + hx(q.r)
	default:
		return q.kind + "@" + c3(q.p)
	}
}

func (q collQuery) run(t *target) string {
	switch q.kind {
	case "rays":
		var hits []string
		r := q.ray
		n := t.coll.RayCollisions(&r, func(rc model3d.RayCollision) {
			hits = append(hits, hx(rc.Scale)+c3(rc.Normal))
			t.g.event() // the caller's callback is user code, too
		})
		sort.Strings(hits)
		return fmt.Sprintf("%d:%s", n, strings.Join(hits, ","))
	case "first":
		r := q.ray
		rc, ok := t.coll.FirstRayCollision(&r)
		return fmt.Sprintf("%v:%s%s", ok, hx(rc.Scale), c3(rc.Normal))
	case "sphere":
		return fmt.Sprint(t.coll.SphereCollision(q.p, q.r))
	case "contains":
		return fmt.Sprint(t.solid.Contains(q.p))
	case "inset":
		return fmt.Sprint(t.inset.Contains(q.p))
	case "hollow":
		return fmt.Sprint(t.hollow.Contains(q.p))
	case "sdf":
		return hx(t.sdf.SDF(q.p))
	default:
		return fmt.Sprint(model3d.ColliderContains(t.coll, q.p, q.r/4))
	}
}

// parkPositions: all of 1..n when n <= maxParks, otherwise maxParks distinct positions.
func parkPositions(rng *rand.Rand, n int) []int {
	if n <= 0 {
		return []int{0}
	}
	if n <= maxParks {
		ks := make([]int, n)
		for i := range ks {
			ks[i] = i + 1
		}
		return ks
	}
	ks := rng.Perm(n)[:maxParks]
	for i := range ks {
		ks[i]++
	}
	sort.Ints(ks)
	return ks
}

func short(s string) string {
	if len(s) > 120 {
		return s[:120] + "…"
	}
	return s
}

// compareRuns renders the outcome of one interrupted run against sequential use.
func compareRuns(seqA string, seqB []string, a string, bs []string, after string) (seq, conc string) {
	seq = digest(append(append([]string{seqA}, seqB...), seqA)...)
	conc = digest(append(append([]string{a}, bs...), after)...)
	if seq == conc {
		return
	}
	var d []string
	if a != seqA {
		d = append(d, "A(interrupted)=got:"+short(a)+"/want:"+short(seqA))
	}
	for i := range bs {
		if bs[i] != seqB[i] {
			d = append(d, fmt.Sprintf("B%d=got:%s/want:%s", i, short(bs[i]), short(seqB[i])))
		}
	}
	if after != seqA {
		d = append(d, "A(afterwards)=got:"+short(after)+"/want:"+short(seqA))
	}
	conc = "DIFFERS " + strings.ReplaceAll(strings.Join(d, " "), "\n", " ")
	return
}

// nestq: interrupted queries on a collider structure (and the solids / field derived from it).
func (s *scenario) nestq(family string) {
	rng := s.c.Rng
	g := &gate{}
	b := &builder{rng: rng, g: g}
	c, desc := b.coll(family, 2)
	t := newTarget(c, g)
	akind := ""
	if family == "profile" && rng.Intn(2) == 0 {
		akind = []string{"rays", "first", "contains"}[rng.Intn(3)]
	}
	bkind := ""
	if family == "join" && rng.Intn(2) == 0 {
		// queries that walk the child list with sphere tests
		akind = []string{"sphere", "sdf", "inset", "hollow"}[rng.Intn(4)]
		bkind = "sphere"
	}
	qa := b.collQuery(akind)
	qbs := make([]collQuery, 1+rng.Intn(3))
	for i := range qbs {
		qbs[i] = b.collQuery(bkind)
	}
	g.arm(0)
	seqA := hlib.Guard(func() string { return qa.run(t) })
	events := g.disarm()
	seqB := make([]string, len(qbs))
	fb := make([]func() string, len(qbs))
	qbDesc := make([]string, len(qbs))
	for i, q := range qbs {
		q := q
		fb[i] = func() string { return q.run(t) }
		seqB[i] = hlib.Guard(fb[i])
		qbDesc[i] = q.String()
	}
	s.c.Stat("nestq-events", events)
	for _, k := range parkPositions(rng, events) {
		a, bs, parked := interrupt(g, k, func() string { return qa.run(t) }, fb)
		after := hlib.Guard(func() string { return qa.run(t) })
		if parked {
			s.c.Stat("nestq-parked", 1)
		}
		seq, conc := compareRuns(seqA, seqB, a, bs, after)
		s.emit("nestq", fmt.Sprintf("fam=%s s=%s qa=%s qb=%s park=%d/%d", family, desc, qa, strings.Join(qbDesc, ";"), k, events), seq, conc)
	}
}

// ------------------------------------------------------------------ render3d objects

// colorFunc is a user color function that is nowhere constant.
func (b *builder) colorFunc() render3d.ColorFunc {
	a, c, d := b.f(0.3, 1.7), b.f(0.3, 1.7), b.f(0.3, 1.7)
	g := b.g
	frac := func(x float64) float64 { return x - math.Floor(x) }
	return func(p model3d.Coord3D, rc model3d.RayCollision) render3d.Color {
		g.event()
		col := render3d.NewColorRGB(0.1+0.9*frac(a*p.X), 0.1+0.9*frac(c*p.Y+0.3), 0.1+0.9*frac(d*p.Z+0.6))
		g.event()
		return col
	}
}

func (b *builder) material() render3d.Material {
	if b.rng.Intn(2) == 0 {
		return &render3d.LambertMaterial{DiffuseColor: render3d.NewColor(b.f(0.2, 0.8)), AmbientColor: render3d.NewColor(b.f(0, 0.2))}
	}
	return &render3d.PhongMaterial{Alpha: b.f(2, 20), SpecularColor: render3d.NewColor(b.f(0.1, 0.4)),
		DiffuseColor: render3d.NewColorRGB(b.f(0, 1), b.f(0, 1), b.f(0, 1)), AmbientColor: render3d.NewColor(b.f(0, 0.2))}
}

var objFamilies = []string{"objectify-collider", "objectify-object", "joined", "xform", "filtered"}

func (b *builder) obj(family string, depth int) (render3d.Object, string) {
	switch family {
	case "objectify-collider":
		c, d := b.coll([]string{"leaf", "join", "profile"}[b.rng.Intn(3)], 1)
		return render3d.Objectify(c, b.colorFunc()), "objectify(" + d + ")"
	case "objectify-object":
		c, d := b.leaf3()
		var inner render3d.Object = &render3d.ColliderObject{Collider: c, Material: b.material()}
		if b.g != nil {
			inner = &gObj{Object: inner, g: b.g}
		}
		return render3d.Objectify(inner, b.colorFunc()), "objectify(object(" + d + "))"
	case "joined":
		o1, d1 := b.obj("objectify-collider", depth-1)
		o2, d2 := b.obj("objectify-object", depth-1)
		c, d3 := b.leaf3()
		return render3d.JoinedObject{o1, &render3d.ColliderObject{Collider: c, Material: b.material()}, o2}, "joined(" + d1 + "," + d3 + "," + d2 + ")"
	case "xform":
		o, d := b.obj(objFamilies[b.rng.Intn(3)], depth-1)
		switch b.rng.Intn(3) {
		case 0:
			return render3d.Translate(o, b.pt(0.5)), "translate(" + d + ")"
		case 1:
			return render3d.Rotate(o, b.pt(1).Normalize(), b.f(0, 3)), "rotate(" + d + ")"
		default:
			return render3d.Scale(o, b.f(0.6, 1.5)), "scale(" + d + ")"
		}
	default:
		o, d := b.obj(objFamilies[b.rng.Intn(3)], depth-1)
		return &render3d.FilteredObject{Object: o, Bounds: model3d.BoundsRect(o)}, "filtered(" + d + ")"
	}
}

type objQuery struct{ ray model3d.Ray }

func (b *builder) objQuery() objQuery {
	o := b.pt(3.5)
	return objQuery{ray: model3d.Ray{Origin: o, Direction: b.pt(0.7).Sub(o)}}
}

func (q objQuery) String() string { return "cast@" + c3(q.ray.Origin) + ">" + c3(q.ray.Direction) }

// run is what every renderer's worker does with an object: cast, then use the material that
// came back (the gate event between the two is the worker being descheduled, or casting its
// shadow rays, before it shades the point).
func (q objQuery) run(o render3d.Object, g *gate) string {
	r := q.ray
	rc, mat, ok := o.Cast(&r)
	g.event()
	if !ok {
		return "miss"
	}
	dest := r.Direction.Normalize().Scale(-1)
	src := rc.Normal.Scale(-1)
	return fmt.Sprintf("%s%s|%s|%s|%s|%s", hx(rc.Scale), c3(rc.Normal), c3(mat.Ambient()), c3(mat.Emission()),
		c3(mat.BSDF(rc.Normal, src, dest)), hx(mat.SourceDensity(rc.Normal, src, dest)))
}

// nestobj: interrupted Cast-then-shade on a render3d object structure.
func (s *scenario) nestobj(family string) {
	rng := s.c.Rng
	g := &gate{}
	b := &builder{rng: rng, g: g}
	o, desc := b.obj(family, 2)
	// rays that hit (so that a material comes back); a few tries each
	pick := func() (objQuery, string) {
		var q objQuery
		var ans string
		for try := 0; try < 12; try++ {
			q = b.objQuery()
			ans = hlib.Guard(func() string { return q.run(o, g) })
			if ans != "miss" {
				break
			}
		}
		return q, ans
	}
	qa, _ := pick()
	g.arm(0)
	seqA := hlib.Guard(func() string { return qa.run(o, g) })
	events := g.disarm()
	qbs := make([]objQuery, 1+rng.Intn(3))
	seqB := make([]string, len(qbs))
	fb := make([]func() string, len(qbs))
	qbDesc := make([]string, len(qbs))
	for i := range qbs {
		q, ans := pick()
		qbs[i], seqB[i], qbDesc[i] = q, ans, q.String()
		fb[i] = func() string { return q.run(o, g) }
	}
	if seqA != "miss" {
		s.c.Stat("nestobj-A-hits", 1)
	}
	for _, k := range parkPositions(rng, events) {
		a, bs, parked := interrupt(g, k, func() string { return qa.run(o, g) }, fb)
		after := hlib.Guard(func() string { return qa.run(o, g) })
		if parked {
			s.c.Stat("nestobj-parked", 1)
		}
		seq, conc := compareRuns(seqA, seqB, a, bs, after)
		s.emit("nestobj", fmt.Sprintf("fam=%s s=%s qa=%s qb=%s park=%d/%d", family, desc, qa, strings.Join(qbDesc, ";"), k, events), seq, conc)
	}
}

// ------------------------------------------------------------------ a real rendering under a forced schedule

// schedObject is the user's innermost object of a scene.  While armed it enforces:
// the primary ray of pixel Q is not cast before the worker of pixel P has reached its first
// shadow-ray cast, and that worker does not continue before the worker of Q has finished its
// primary cast (it is then at its own shadow-ray cast).
type schedObject struct {
	render3d.Object
	mu         sync.Mutex
	armed      bool
	cam        model3d.Coord3D
	dirQ       model3d.Coord3D
	hitP, hitQ model3d.Coord3D
	pAtShadow  chan struct{}
	qCastDone  chan struct{}
	pOnce      sync.Once
	qOnce      sync.Once
	pParked    bool
}

func waitCh(ch chan struct{}) bool {
	select {
	case <-ch:
		return true
	case <-time.After(parkTimeout):
		return false
	}
}

func (o *schedObject) Cast(r *model3d.Ray) (model3d.RayCollision, render3d.Material, bool) {
	o.mu.Lock()
	armed := o.armed
	o.mu.Unlock()
	if armed {
		if r.Origin == o.cam {
			if r.Direction == o.dirQ {
				waitCh(o.pAtShadow)
			}
		} else if r.Origin.Dist(o.hitP) < 1e-6 {
			first := false
			o.pOnce.Do(func() { first = true; close(o.pAtShadow) })
			if first {
				ok := waitCh(o.qCastDone)
				o.mu.Lock()
				o.pParked = ok
				o.mu.Unlock()
			}
		} else if r.Origin.Dist(o.hitQ) < 1e-6 {
			o.qOnce.Do(func() { close(o.qCastDone) })
		}
	}
	return o.Object.Cast(r)
}

func imageDigest(img *render3d.Image) string {
	var b strings.Builder
	for _, c := range img.Data {
		b.WriteString(c3(c))
	}
	return digest(b.String())
}

func (s *scenario) renderSched() {
	if runtime.NumCPU() < 2 {
		s.c.Stat("rendersched-skipped-one-cpu", 1)
		return
	}
	rng := s.c.Rng
	b := &builder{rng: rng}
	// the user's object: two or three primitives with a constant material …
	var parts render3d.JoinedObject
	n := 2 + rng.Intn(2)
	for i := 0; i < n; i++ {
		x := -1.6 + 3.2*float64(i)/float64(n-1)
		var c model3d.Collider
		if rng.Intn(2) == 0 {
			c = &model3d.Sphere{Center: model3d.XYZ(x, b.f(-0.3, 0.3), b.f(-0.3, 0.3)), Radius: b.f(0.8, 1)}
		} else {
			c = model3d.NewRect(model3d.XYZ(x-0.7, -0.5, -0.8), model3d.XYZ(x+0.7, 0.5, 0.8))
		}
		parts = append(parts, &render3d.ColliderObject{Collider: c, Material: b.material()})
	}
	inner := &schedObject{Object: parts}
	// … colored through the library's helper
	var scene render3d.Object = render3d.Objectify(inner, b.colorFunc())
	sceneDesc := fmt.Sprintf("objectify(joined%d)", n)
	var off model3d.Coord3D
	switch rng.Intn(3) {
	case 0:
		scene = render3d.JoinedObject{scene, &render3d.ColliderObject{
			Collider: model3d.NewRect(model3d.XYZ(-4, -1, -2.5), model3d.XYZ(4, 3, -2)), Material: b.material()}}
		sceneDesc = "joined(" + sceneDesc + ",floor)"
	case 1:
		off = model3d.XYZ(b.f(-0.2, 0.2), 0, b.f(-0.2, 0.2))
		scene = render3d.Translate(scene, off)
		sceneDesc = "translate(" + sceneDesc + ")"
	}
	// the ray the innermost object sees for a ray given to the scene
	innerRay := func(r *model3d.Ray) *model3d.Ray {
		return &model3d.Ray{Origin: r.Origin.Sub(off), Direction: r.Direction}
	}
	camOrigin := model3d.XYZ(b.f(-0.5, 0.5), -9, b.f(0, 1))
	cam := render3d.NewCameraAt(camOrigin, model3d.Coord3D{}, 0.4)
	lights := []*render3d.PointLight{{Origin: model3d.XYZ(b.f(-3, 3), -8, b.f(2, 5)), Color: render3d.NewColor(1)}}
	if rng.Intn(3) == 0 {
		lights = append(lights, &render3d.PointLight{Origin: model3d.XYZ(b.f(-3, 3), -7, b.f(-1, 1)), Color: render3d.NewColor(0.5)})
	}
	w, h := 3+rng.Intn(4), 2+rng.Intn(3)
	tracer := &render3d.RecursiveRayTracer{Camera: cam, Lights: lights, MaxDepth: 0, NumSamples: 1}
	// sequential use of the renderer: one goroutine, pixel after pixel
	ref := render3d.NewImage(w, h)
	render3d.VerifRenderSequential(tracer, ref, scene, 1)
	unlit := render3d.NewImage(w, h)
	render3d.VerifRenderSequential(&render3d.RecursiveRayTracer{Camera: cam, MaxDepth: 0, NumSamples: 1}, unlit, scene, 1)
	caster := cam.Caster(float64(w)-1, float64(h)-1)
	type px struct {
		idx int
		dir model3d.Coord3D
		hit model3d.Coord3D
	}
	var cand []px // pixels that see the colored object and receive light
	for y := 0; y < h; y++ {
		for x := 0; x < w; x++ {
			idx := y*w + x
			r := &model3d.Ray{Origin: camOrigin, Direction: caster(float64(x), float64(y))}
			rc, _, ok := scene.Cast(r)
			if !ok {
				continue
			}
			// does the ray end on the inner (colored) object?
			if rc2, _, ok2 := inner.Object.Cast(innerRay(r)); !ok2 || math.Abs(rc2.Scale-rc.Scale) > 1e-9 {
				continue
			}
			if ref.Data[idx].Dist(unlit.Data[idx]) < 1e-6 {
				continue
			}
			cand = append(cand, px{idx: idx, dir: r.Direction, hit: innerRay(r).Origin.Add(r.Direction.Scale(rc.Scale))})
		}
	}
	if len(cand) < 2 {
		s.c.Stat("rendersched-no-pair", 1)
		return
	}
	p := cand[rng.Intn(len(cand))]
	q := p
	for q.idx == p.idx {
		q = cand[rng.Intn(len(cand))]
	}
	inner.cam, inner.dirQ, inner.hitP, inner.hitQ = innerRay(&model3d.Ray{Origin: camOrigin}).Origin, q.dir, p.hit, q.hit
	inner.pAtShadow, inner.qCastDone = make(chan struct{}), make(chan struct{})
	inner.mu.Lock()
	inner.armed = true
	inner.mu.Unlock()
	got := render3d.NewImage(w, h)
	res := withTimeout(90*time.Second, func() string {
		tracer.Render(got, scene)
		return "ok"
	})
	inner.mu.Lock()
	inner.armed = false
	parked := inner.pParked
	inner.mu.Unlock()
	if parked {
		s.c.Stat("rendersched-forced", 1)
	} else {
		s.c.Stat("rendersched-not-forced", 1)
	}
	seq, conc := imageDigest(ref), imageDigest(got)
	if res != "ok" {
		conc = res
	} else if seq != conc {
		var d []string
		for i := range ref.Data {
			if ref.Data[i] != got.Data[i] {
				d = append(d, fmt.Sprintf("pixel(%d,%d)=got:%v/want:%v", i%w, i/w, got.Data[i], ref.Data[i]))
			}
		}
		conc = "DIFFERS " + short(strings.Join(d, " "))
	}
	s.emit("rendersched", fmt.Sprintf("scene=%s w=%d h=%d lights=%d P=%d Q=%d", sceneDesc, w, h, len(lights), p.idx, q.idx), seq, conc)
}

// ------------------------------------------------------------------ the same structures, free-running

// sharedq: n goroutines released together, each with its own list of queries, on one collider
// structure over plain leaves (no gate, nothing that synchronises): answers vs sequential use.
// This is what the race-detector leg sees of these structures.
func (s *scenario) sharedq(n int, family string) {
	rng := s.c.Rng
	b := &builder{rng: rng}
	c, desc := b.coll(family, 2)
	t := newTarget(c, nil)
	const per = 24
	qs := make([][]collQuery, n)
	seq := make([]string, n)
	for i := range qs {
		var sb strings.Builder
		for j := 0; j < per; j++ {
			q := b.collQuery("")
			qs[i] = append(qs[i], q)
			sb.WriteString(q.run(t) + ";")
		}
		seq[i] = sb.String()
	}
	conc := make([]string, n)
	res := withTimeout(120*time.Second, func() string {
		par(n, func(i int) {
			var sb strings.Builder
			for _, q := range qs[i] {
				sb.WriteString(q.run(t) + ";")
			}
			conc[i] = sb.String()
		})
		return "ok"
	})
	out := digest(conc...)
	if res != "ok" {
		out = res
	}
	s.emit("sharedq", fmt.Sprintf("n=%d fam=%s s=%s", n, family, desc), digest(seq...), out)
}

// sharedobj: the same for render3d objects: every goroutine casts its rays and shades with the
// material it was given.
func (s *scenario) sharedobj(n int, family string) {
	rng := s.c.Rng
	b := &builder{rng: rng}
	o, desc := b.obj(family, 2)
	const per = 24
	qs := make([][]objQuery, n)
	seq := make([]string, n)
	hits := 0
	for i := range qs {
		var sb strings.Builder
		for j := 0; j < per; j++ {
			q := b.objQuery()
			qs[i] = append(qs[i], q)
			a := q.run(o, nil)
			if a != "miss" {
				hits++
			}
			sb.WriteString(a + ";")
		}
		seq[i] = sb.String()
	}
	s.c.Stat("sharedobj-hits", hits)
	conc := make([]string, n)
	res := withTimeout(120*time.Second, func() string {
		par(n, func(i int) {
			var sb strings.Builder
			for _, q := range qs[i] {
				sb.WriteString(q.run(o, nil) + ";")
			}
			conc[i] = sb.String()
		})
		return "ok"
	})
	out := digest(conc...)
	if res != "ok" {
		out = res
	}
	s.emit("sharedobj", fmt.Sprintf("n=%d fam=%s s=%s", n, family, desc), digest(seq...), out)
}

// ------------------------------------------------------------------ CacheScalarFunc under a forced schedule

// nestcache: goroutine A's call cached(x) is parked inside the user's f (at entry or at exit of
// the first evaluation), goroutine B asks for the same x and for others, A continues.  Every
// caller must get f(x) ("equivalent to a deterministic function f").
func (s *scenario) nestcache() {
	rng := s.c.Rng
	g := &gate{}
	a, c := float64(1+rng.Intn(5)), float64(1+rng.Intn(7))
	f := func(x float64) float64 { return a*x*x + c }
	gf := func(x float64) float64 {
		g.event()
		y := f(x)
		g.event()
		return y
	}
	xa := float64(rng.Intn(64)) / 4
	xs := []float64{xa, float64(rng.Intn(64)) / 4, xa}
	for k := 1; k <= 2; k++ {
		cached := model2d.CacheScalarFunc(gf) // fresh cache: A's is the first evaluation of xa
		qb := make([]func() string, len(xs))
		seqB := make([]string, len(xs))
		for i, x := range xs {
			x := x
			qb[i] = func() string { return hx(cached(x)) }
			seqB[i] = hx(f(x))
		}
		got, bs, parked := interrupt(g, k, func() string { return hx(cached(xa)) }, qb)
		after := hx(cached(xa))
		if parked {
			s.c.Stat("nestcache-parked", 1)
		}
		seq, conc := compareRuns(hx(f(xa)), seqB, got, bs, after)
		s.emit("nestcache", fmt.Sprintf("f=%gx^2+%g xa=%s xs=%s,%s,%s park=%d/2", a, c, hx(xa), hx(xs[0]), hx(xs[1]), hx(xs[2]), k), seq, conc)
	}
}

// ------------------------------------------------------------------ KMeans.Iterate under a forced schedule

// kmCtl makes the first merge of a worker's partial sum into the shared accumulator wait until a
// second merge is in flight (bounded: under the reduction lock no second merge can start, and
// the wait runs out; that costs time, never correctness).
type kmCtl struct {
	mu       sync.Mutex
	inside   bool
	done     bool
	second   chan struct{}
	overlaps int
}

const (
	kmData = iota
	kmZero
	kmSum
)

// kmVec is a user vector type for numerical.KMeans (integer coordinates, so every sum is exact
// and the merge order cannot show).
type kmVec struct {
	x, y float64
	tag  uint8
	ctl  *kmCtl
}

func (v kmVec) Zeros() kmVec { return kmVec{tag: kmZero, ctl: v.ctl} }

func (v kmVec) Add(o kmVec) kmVec {
	if o.tag != kmData && v.ctl != nil {
		// the receiver is the shared accumulator (already read), o a worker's partial sum
		c := v.ctl
		c.mu.Lock()
		switch {
		case !c.done && !c.inside:
			c.inside = true
			c.mu.Unlock()
			select {
			case <-c.second:
			case <-time.After(kmWait):
			}
			c.mu.Lock()
			c.inside, c.done = false, true
			c.mu.Unlock()
		case c.inside:
			c.overlaps++
			if c.overlaps == 1 {
				close(c.second)
			}
			c.mu.Unlock()
		default:
			c.mu.Unlock()
		}
	}
	return kmVec{x: v.x + o.x, y: v.y + o.y, tag: kmSum, ctl: v.ctl}
}

func (v kmVec) Sub(o kmVec) kmVec     { return kmVec{x: v.x - o.x, y: v.y - o.y, tag: kmSum, ctl: v.ctl} }
func (v kmVec) Scale(s float64) kmVec { return kmVec{x: v.x * s, y: v.y * s, tag: v.tag, ctl: v.ctl} }
func (v kmVec) DistSquared(o kmVec) float64 {
	return (v.x-o.x)*(v.x-o.x) + (v.y-o.y)*(v.y-o.y)
}
func (v kmVec) Dist(o kmVec) float64 { return math.Sqrt(v.DistSquared(o)) }
func (v kmVec) Norm() float64        { return math.Sqrt(v.x*v.x + v.y*v.y) }
func (v kmVec) Min(o kmVec) kmVec {
	return kmVec{x: math.Min(v.x, o.x), y: math.Min(v.y, o.y), tag: kmSum, ctl: v.ctl}
}
func (v kmVec) Max(o kmVec) kmVec {
	return kmVec{x: math.Max(v.x, o.x), y: math.Max(v.y, o.y), tag: kmSum, ctl: v.ctl}
}

const kmWait = 400 * time.Millisecond

func (s *scenario) kmeansSched() {
	rng := s.c.Rng
	n := 8 + rng.Intn(40)
	k := 1 + rng.Intn(3)
	mk := func(ctl *kmCtl) ([]kmVec, []kmVec) {
		r := rand.New(rand.NewSource(int64(n*131 + k)))
		data := make([]kmVec, n)
		for i := range data {
			data[i] = kmVec{x: float64(r.Intn(33) - 16), y: float64(r.Intn(33) - 16), tag: kmData, ctl: ctl}
		}
		centers := make([]kmVec, k)
		for i := range centers {
			centers[i] = data[(i*7)%n]
		}
		return data, centers
	}
	iterate := func(procs int, ctl *kmCtl) string {
		old := runtime.GOMAXPROCS(procs)
		defer runtime.GOMAXPROCS(old)
		data, centers := mk(ctl)
		km := &numerical.KMeans[kmVec]{Centers: centers, Data: data}
		loss := km.Iterate()
		var b strings.Builder
		b.WriteString(hx(loss))
		for _, c := range km.Centers {
			b.WriteString(hx(c.x) + hx(c.y))
		}
		return b.String()
	}
	seq := withTimeout(60*time.Second, func() string { return iterate(1, nil) })
	procs := 2 + rng.Intn(3)
	ctl := &kmCtl{second: make(chan struct{})}
	conc := withTimeout(60*time.Second, func() string { return iterate(procs, ctl) })
	ctl.mu.Lock()
	if ctl.overlaps > 0 {
		s.c.Stat("kmeanssched-overlapping-merges", 1)
	}
	ctl.mu.Unlock()
	if conc != seq {
		conc = "DIFFERS got:" + short(conc) + "/want:" + short(seq)
	}
	s.emit("kmeanssched", fmt.Sprintf("n=%d k=%d procs=%d", n, k, procs), seq, conc)
}
