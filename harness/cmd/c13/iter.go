package main

// Schedule-controlled and free-running scenarios for two more read-only uses:
//
//   - enumerating one mesh from several goroutines (Iterate, IterateSorted with
//     the caller's comparison function, and what is built on them: Copy,
//     DeepCopy, MapCoords, IterateVertices), theorem
//     iterate_private_list_eq_sequential (witness iterate_shared_list_racy):
//     meshiter3 / meshiter2 park reader A inside its k-th callback into user
//     code -- the visiting callback or the comparison function -- while reader
//     B runs 1-3 complete enumerations with other comparison functions on the
//     same mesh; sharediter is the free-running twin;
//
//   - several calls on one renderer (Render, RenderVariance, RayVariance of a
//     RecursiveRayTracer / BidirPathTracer), theorem
//     renderer_calls_private_config_eq_sequential (witness
//     renderer_config_field_racy): rendercfg parks call A inside the Cast of
//     its (user-supplied) scene while 1-3 complete calls B run on the same
//     renderer; sharedrender is the free-running twin.
//
// The sampling renderers are randomised, so a call is compared through what is a
// function of the renderer's configuration alone: the scene is empty and records
// the camera rays it is asked about -- how many, how many distinct directions,
// how many of them go exactly through a pixel centre (all of them without
// antialiasing, none with it) -- plus the (all-black) image / the returned variance.

import (
	"fmt"
	"math"
	"math/rand"
	"runtime"
	"sort"
	"strings"
	"sync"
	"time"

	"github.com/unixpickle/model3d/model2d"
	"github.com/unixpickle/model3d/model3d"
	"github.com/unixpickle/model3d/render3d"
	"verif/harness/hlib"
)

// ------------------------------------------------------------------ enumerations of one mesh

// enumMesh is one shared mesh seen through face ids (2-D and 3-D alike).
type enumMesh struct {
	n       int
	desc    string
	iterate func(f func(id int))
	sorted  func(f func(id int), less func(a, b int) bool)
	copyIDs func(deep bool) []int
	derive  func() string // MeshToCollider / MeshToSDF of the shared mesh (they group a face list)
	mapc    func(f func()) string
	verts   func(f func(v string))
}

func enumMesh3(ts []*model3d.Triangle, desc string) *enumMesh {
	m := model3d.NewMeshTriangles(ts)
	idOf := map[*model3d.Triangle]int{}
	byVal := map[model3d.Triangle]int{}
	for i, t := range ts {
		idOf[t] = i
		byVal[*t] = i
	}
	return &enumMesh{
		n: len(ts), desc: desc,
		iterate: func(f func(int)) { m.Iterate(func(t *model3d.Triangle) { f(idOf[t]) }) },
		sorted: func(f func(int), less func(a, b int) bool) {
			m.IterateSorted(func(t *model3d.Triangle) { f(idOf[t]) },
				func(a, b *model3d.Triangle) bool { return less(idOf[a], idOf[b]) })
		},
		copyIDs: func(deep bool) []int {
			var out []int
			if deep {
				for _, t := range m.DeepCopy().TriangleSlice() {
					out = append(out, byVal[*t])
				}
			} else {
				for _, t := range m.Copy().TriangleSlice() {
					out = append(out, idOf[t])
				}
			}
			sort.Ints(out)
			return out
		},
		derive: func() string {
			lo, hi := m.Min(), m.Max()
			ray := &model3d.Ray{Origin: lo.Sub(model3d.XYZ(1, 0.5, 0.25)), Direction: hi.Mid(lo).Add(model3d.XYZ(0.013, 0.007, 0.003)).Sub(lo.Sub(model3d.XYZ(1, 0.5, 0.25)))}
			n := model3d.MeshToCollider(m).RayCollisions(ray, nil)
			sdf := model3d.MeshToSDF(m)
			return fmt.Sprintf("%d/%s%s", n, hx(sdf.SDF(lo.Mid(hi))), hx(sdf.SDF(hi.Add(model3d.XYZ(0.5, 0.25, 0.125)))))
		},
		mapc: func(f func()) string {
			return meshDigest(m.MapCoords(func(c model3d.Coord3D) model3d.Coord3D {
				f()
				return c.Scale(2).Add(model3d.XYZ(1, 0, -1))
			}))
		},
		verts: func(f func(string)) { m.IterateVertices(func(c model3d.Coord3D) { f(c3(c)) }) },
	}
}

func mesh2Digest(m *model2d.Mesh) string {
	ss := m.SegmentSlice()
	out := make([]string, len(ss))
	for i, s := range ss {
		out[i] = c2(s[0]) + c2(s[1])
	}
	sort.Strings(out)
	return fmt.Sprintf("%d:", len(ss)) + digest(out...)
}

func enumMesh2(ss []*model2d.Segment, desc string) *enumMesh {
	m := model2d.NewMeshSegments(ss)
	idOf := map[*model2d.Segment]int{}
	byVal := map[model2d.Segment]int{}
	for i, s := range ss {
		idOf[s] = i
		byVal[*s] = i
	}
	return &enumMesh{
		n: len(ss), desc: desc,
		iterate: func(f func(int)) { m.Iterate(func(s *model2d.Segment) { f(idOf[s]) }) },
		sorted: func(f func(int), less func(a, b int) bool) {
			m.IterateSorted(func(s *model2d.Segment) { f(idOf[s]) },
				func(a, b *model2d.Segment) bool { return less(idOf[a], idOf[b]) })
		},
		copyIDs: func(deep bool) []int {
			var out []int
			if deep {
				for _, s := range m.DeepCopy().SegmentSlice() {
					out = append(out, byVal[*s])
				}
			} else {
				for _, s := range m.Copy().SegmentSlice() {
					out = append(out, idOf[s])
				}
			}
			sort.Ints(out)
			return out
		},
		derive: func() string {
			lo, hi := m.Min(), m.Max()
			ray := &model2d.Ray{Origin: lo.Sub(model2d.XY(1, 0.5)), Direction: hi.Mid(lo).Add(model2d.XY(0.013, 0.007)).Sub(lo.Sub(model2d.XY(1, 0.5)))}
			n := model2d.MeshToCollider(m).RayCollisions(ray, nil)
			sdf := model2d.MeshToSDF(m)
			return fmt.Sprintf("%d/%s%s", n, hx(sdf.SDF(lo.Mid(hi))), hx(sdf.SDF(hi.Add(model2d.XY(0.5, 0.25)))))
		},
		mapc: func(f func()) string {
			return mesh2Digest(m.MapCoords(func(c model2d.Coord) model2d.Coord {
				f()
				return c.Scale(2).Add(model2d.XY(1, -1))
			}))
		},
		verts: func(f func(string)) { m.IterateVertices(func(c model2d.Coord) { f(c2(c)) }) },
	}
}

// small meshes with pairwise different faces (ids are recovered by value after DeepCopy)
func enumFaces3(rng *rand.Rand) ([]*model3d.Triangle, string) {
	var m *model3d.Mesh
	var d string
	switch rng.Intn(4) {
	case 0:
		m, d = model3d.NewMeshRect(model3d.XYZ(-1, -1, -1), model3d.XYZ(1, 2, 3)), "rect"
	case 1:
		n := 1 + rng.Intn(2)
		m, d = model3d.NewMeshIcosphere(model3d.Coord3D{}, 1, n), fmt.Sprintf("icosphere%d", n)
	case 2:
		a, b := 3+rng.Intn(3), 3+rng.Intn(4)
		m, d = model3d.NewMeshTorus(model3d.Coord3D{}, model3d.Z(1), 0.3, 1, a, b), fmt.Sprintf("torus%dx%d", a, b)
	default:
		m, d = model3d.NewMeshCylinder(model3d.XYZ(0, 0, -1), model3d.XYZ(0.5, 0, 1), 0.5, 4+rng.Intn(6)), "cylinder"
	}
	ts := m.TriangleSlice()
	sort.Slice(ts, func(i, j int) bool {
		return c3(ts[i][0])+c3(ts[i][1])+c3(ts[i][2]) < c3(ts[j][0])+c3(ts[j][1])+c3(ts[j][2])
	})
	return ts, fmt.Sprintf("%s/%d", d, len(ts))
}

func enumFaces2(rng *rand.Rand) ([]*model2d.Segment, string) {
	var m *model2d.Mesh
	var d string
	switch rng.Intn(3) {
	case 0:
		m, d = model2d.NewMeshRect(model2d.XY(-1, -2), model2d.XY(3, 1)), "rect"
	case 1:
		k := 6 + rng.Intn(30)
		m, d = model2d.NewMeshPolar(func(t float64) float64 { return 1 + 0.3*math.Sin(3*t) }, k), "polar"
	default:
		m, d = model2d.MarchingSquaresSearch(&model2d.Circle{Radius: 1}, 0.2+0.2*rng.Float64(), 2), "circle"
	}
	ss := m.SegmentSlice()
	sort.Slice(ss, func(i, j int) bool { return c2(ss[i][0])+c2(ss[i][1]) < c2(ss[j][0])+c2(ss[j][1]) })
	return ss, fmt.Sprintf("%s/%d", d, len(ss))
}

// enumOp is one read-only enumeration.  Gate events: every call of the visiting callback, and
// (gateCmp) every call of the comparison function -- both are the caller's code.
type enumOp struct {
	kind    string // iter sorted copy deepcopy mapcoords verts derive
	key     []int  // sorted: a total order on the face ids (a permutation)
	keyDesc string
	gateCmp bool
}

func (o enumOp) String() string {
	if o.kind == "sorted" {
		s := "sorted[" + o.keyDesc + "]"
		if o.gateCmp {
			s += "+cmp"
		}
		return s
	}
	return o.kind
}

func newEnumOp(rng *rand.Rand, n int, kind string) enumOp {
	if kind == "" {
		kind = []string{"iter", "sorted", "sorted", "sorted", "copy", "deepcopy", "mapcoords", "verts", "derive"}[rng.Intn(9)]
	}
	o := enumOp{kind: kind}
	if kind == "sorted" {
		o.key = make([]int, n)
		switch rng.Intn(4) {
		case 0:
			for i := range o.key {
				o.key[i] = i
			}
			o.keyDesc = "asc"
		case 1:
			for i := range o.key {
				o.key[i] = n - i
			}
			o.keyDesc = "desc"
		case 2:
			// rotate: the first r ids last
			r := 1 + rng.Intn(n)
			for i := range o.key {
				o.key[i] = (i + n - r%n) % n
			}
			o.keyDesc = fmt.Sprintf("rot%d", r)
		default:
			seed := rng.Int63()
			o.key = rand.New(rand.NewSource(seed)).Perm(n)
			o.keyDesc = fmt.Sprintf("perm%x", seed&0xffff)
		}
		o.gateCmp = rng.Intn(3) == 0
	}
	return o
}

func (o enumOp) run(m *enumMesh, g *gate) string {
	switch o.kind {
	case "iter":
		var ids []int
		m.iterate(func(id int) { ids = append(ids, id); g.event() })
		sort.Ints(ids) // the order of Iterate is arbitrary; every face exactly once is not
		return "iter" + fmt.Sprint(ids)
	case "sorted":
		var ids []int
		m.sorted(func(id int) { ids = append(ids, id); g.event() }, func(a, b int) bool {
			if o.gateCmp {
				g.event()
			}
			return o.key[a] < o.key[b]
		})
		return "sorted" + fmt.Sprint(ids)
	case "copy":
		return "copy" + fmt.Sprint(m.copyIDs(false))
	case "deepcopy":
		return "deepcopy" + fmt.Sprint(m.copyIDs(true))
	case "derive":
		return "derive" + m.derive()
	case "mapcoords":
		return "mapcoords" + m.mapc(g.event)
	default:
		var vs []string
		m.verts(func(v string) { vs = append(vs, v); g.event() })
		sort.Strings(vs)
		return fmt.Sprintf("verts%d:%s", len(vs), digest(vs...))
	}
}

// meshIter: reader A is parked at its k-th callback, reader B runs complete enumerations of
// the same mesh, A continues; then A once more.  All against sequential use of a twin mesh
// (same face pointers).
func (s *scenario) meshIter(dim int) {
	rng := s.c.Rng
	var mk func() *enumMesh
	if dim == 3 {
		ts, d := enumFaces3(rng)
		mk = func() *enumMesh { return enumMesh3(ts, d) }
	} else {
		ss, d := enumFaces2(rng)
		mk = func() *enumMesh { return enumMesh2(ss, d) }
	}
	ref := mk()
	g := &gate{}
	akind := ""
	if rng.Intn(2) == 0 {
		akind = []string{"iter", "sorted"}[rng.Intn(2)]
	}
	qa := newEnumOp(rng, ref.n, akind)
	qbs := make([]enumOp, 1+rng.Intn(3))
	qbDesc := make([]string, len(qbs))
	for i := range qbs {
		bkind := ""
		if i == 0 && rng.Intn(2) == 0 {
			bkind = "sorted"
		}
		qbs[i] = newEnumOp(rng, ref.n, bkind)
		qbDesc[i] = qbs[i].String()
	}
	g.arm(0)
	seqA := hlib.Guard(func() string { return qa.run(ref, g) })
	events := g.disarm()
	seqB := make([]string, len(qbs))
	for i, q := range qbs {
		q := q
		seqB[i] = hlib.Guard(func() string { return q.run(ref, g) })
	}
	kind := fmt.Sprintf("meshiter%d", dim)
	s.c.Stat(kind+"-events", events)
	ks := parkPositions(rng, events)
	if len(ks) > 6 {
		rng.Shuffle(len(ks), func(i, j int) { ks[i], ks[j] = ks[j], ks[i] })
		ks = ks[:6]
		sort.Ints(ks)
	}
	for _, k := range ks {
		m := mk() // fresh: neither the vertex index nor anything else has been built lazily yet
		fb := make([]func() string, len(qbs))
		for i, q := range qbs {
			q := q
			fb[i] = func() string { return q.run(m, g) }
		}
		a, bs, parked := interrupt(g, k, func() string { return qa.run(m, g) }, fb)
		after := hlib.Guard(func() string { return qa.run(m, g) })
		if parked {
			s.c.Stat(kind+"-parked", 1)
		}
		seq, conc := compareRuns(seqA, seqB, a, bs, after)
		s.emit(kind, fmt.Sprintf("mesh=%s qa=%s qb=%s park=%d/%d", ref.desc, qa, strings.Join(qbDesc, ";"), k, events), seq, conc)
	}
}

// sharedIter: n goroutines released together, each with its own enumerations of one mesh
// (3-D and 2-D); what the race detector sees of these readers.
func (s *scenario) sharedIter(n int) {
	rng := s.c.Rng
	for _, dim := range []int{3, 2} {
		var m, ref *enumMesh
		if dim == 3 {
			ts, d := enumFaces3(rng)
			m, ref = enumMesh3(ts, d), enumMesh3(ts, d)
		} else {
			ss, d := enumFaces2(rng)
			m, ref = enumMesh2(ss, d), enumMesh2(ss, d)
		}
		const per = 6
		ops := make([][]enumOp, n)
		seq := make([]string, n)
		for i := range ops {
			var sb strings.Builder
			for j := 0; j < per; j++ {
				kind := ""
				if j == 0 && i%2 == 1 {
					kind = "sorted"
				}
				o := newEnumOp(rng, m.n, kind)
				o.gateCmp = false
				ops[i] = append(ops[i], o)
				sb.WriteString(o.run(ref, nil) + ";")
			}
			seq[i] = sb.String()
		}
		conc := make([]string, n)
		res := withTimeout(120*time.Second, func() string {
			par(n, func(i int) {
				var sb strings.Builder
				for _, o := range ops[i] {
					sb.WriteString(o.run(m, nil) + ";")
				}
				conc[i] = sb.String()
			})
			return "ok"
		})
		out := digest(conc...)
		if res != "ok" {
			out = res
		}
		s.emit("sharediter", fmt.Sprintf("n=%d dim=%d mesh=%s", n, dim, m.desc), digest(seq...), out)
	}
}

// ------------------------------------------------------------------ calls on one renderer

// recScene is an empty user scene that records the camera rays it is asked about.
type recScene struct {
	g       *gate
	origin  model3d.Coord3D
	centres map[model3d.Coord3D]bool
	mu      sync.Mutex
	dirs    map[model3d.Coord3D]int
	rays    int
	centred int
}

func (r *recScene) Min() model3d.Coord3D { return model3d.XYZ(-1, -1, -1) }
func (r *recScene) Max() model3d.Coord3D { return model3d.XYZ(1, 1, 1) }
func (r *recScene) Cast(ray *model3d.Ray) (model3d.RayCollision, render3d.Material, bool) {
	r.g.event()
	if ray.Origin == r.origin {
		r.mu.Lock()
		if r.dirs == nil {
			r.dirs = map[model3d.Coord3D]int{}
		}
		r.dirs[ray.Direction]++
		r.rays++
		if r.centres[ray.Direction] {
			r.centred++
		}
		r.mu.Unlock()
	}
	return model3d.RayCollision{}, nil, false
}

type sharedRenderer interface {
	Render(img *render3d.Image, obj render3d.Object)
	RenderVariance(img *render3d.Image, obj render3d.Object, numSamples int)
	RayVariance(obj render3d.Object, width, height, samples int) float64
}

type renderCall struct {
	kind    string // render rendervar rayvar
	w, h, n int
}

func (c renderCall) String() string {
	if c.kind == "render" {
		return fmt.Sprintf("render(%dx%d)", c.w, c.h)
	}
	return fmt.Sprintf("%s(%dx%d,%d)", c.kind, c.w, c.h, c.n)
}

func newRenderCall(rng *rand.Rand, kind string) renderCall {
	if kind == "" {
		kind = []string{"render", "render", "rendervar", "rayvar"}[rng.Intn(4)]
	}
	return renderCall{kind: kind, w: 2 + rng.Intn(4), h: 2 + rng.Intn(3), n: 2 + rng.Intn(3)}
}

// run performs the call on the shared renderer with a scene of its own and returns what of it
// is a function of the renderer's configuration alone.
func (c renderCall) run(r sharedRenderer, cam *render3d.Camera, g *gate) string {
	caster := cam.Caster(float64(c.w)-1, float64(c.h)-1)
	centres := map[model3d.Coord3D]bool{}
	for y := 0; y < c.h; y++ {
		for x := 0; x < c.w; x++ {
			centres[caster(float64(x), float64(y))] = true
		}
	}
	scene := &recScene{g: g, origin: cam.Origin, centres: centres}
	var ret string
	switch c.kind {
	case "render":
		img := render3d.NewImage(c.w, c.h)
		r.Render(img, scene)
		ret = imageDigest(img)
	case "rendervar":
		img := render3d.NewImage(c.w, c.h)
		r.RenderVariance(img, scene, c.n)
		ret = imageDigest(img)
	default:
		ret = hx(r.RayVariance(scene, c.w, c.h, c.n))
	}
	scene.mu.Lock()
	defer scene.mu.Unlock()
	return fmt.Sprintf("%s:rays=%d,distinct=%d,through-pixel-centres=%d,ret=%s", c.kind, scene.rays, len(scene.dirs), scene.centred, ret)
}

func newSharedRenderer(rng *rand.Rand) (sharedRenderer, *render3d.Camera, string) {
	cam := render3d.NewCameraAt(model3d.XYZ(rng.Float64()-0.5, -4, rng.Float64()-0.5), model3d.Coord3D{}, math.Pi/3)
	aa := []float64{0, 0.25, 0.5, 1, 1, 1.5}[rng.Intn(6)]
	ns := 1 + rng.Intn(5)
	minS, maxStd := 0, 0.0
	if rng.Intn(3) == 0 {
		minS, maxStd = 2+rng.Intn(3), 0.01
	}
	depth := 1 + rng.Intn(3)
	desc := fmt.Sprintf("antialias=%g,samples=%d,min=%d,depth=%d", aa, ns, minS, depth)
	if rng.Intn(2) == 0 {
		return &render3d.RecursiveRayTracer{Camera: cam, NumSamples: ns, MinSamples: minS, MaxStddev: maxStd,
			MaxDepth: depth, Antialias: aa,
			Lights: []*render3d.PointLight{{Origin: model3d.XYZ(3, -3, 3), Color: render3d.NewColor(1)}}}, cam, "rrt{" + desc + "}"
	}
	light := render3d.NewSphereAreaLight(&model3d.Sphere{Center: model3d.XYZ(3, 5, 4), Radius: 0.5}, render3d.NewColor(20))
	return &render3d.BidirPathTracer{Camera: cam, Light: light, NumSamples: ns, MinSamples: minS, MaxStddev: maxStd,
		MaxDepth: depth, Antialias: aa}, cam, "bidir{" + desc + "}"
}

// renderCfg: call A on a renderer is parked inside the Cast of its scene (user code) at its
// k-th cast, 1-3 complete calls B run on the same renderer, A continues; then A's call and a
// plain Render once more.  All against the same calls made one after the other.
func (s *scenario) renderCfg() {
	rng := s.c.Rng
	r, cam, desc := newSharedRenderer(rng)
	g := &gate{}
	// the parked call is one of the variance entry points in 7 of 10 cases (they run with a
	// configuration that differs from the renderer's), and the first overlapping call is a plain
	// Render in half of the cases
	akind := []string{"rayvar", "rayvar", "rayvar", "rayvar", "rendervar", "rendervar", "rendervar", "render", "render", "render"}[rng.Intn(10)]
	qa := newRenderCall(rng, akind)
	qbs := make([]renderCall, 1+rng.Intn(3))
	qbDesc := make([]string, len(qbs))
	for i := range qbs {
		bkind := ""
		if i == 0 && rng.Intn(2) == 0 {
			bkind = "render"
		}
		qbs[i] = newRenderCall(rng, bkind)
		qbDesc[i] = qbs[i].String()
	}
	last := newRenderCall(rng, "render")
	g.arm(0)
	seqA := withTimeout(60*time.Second, func() string { return qa.run(r, cam, g) })
	events := g.disarm()
	seqB := make([]string, len(qbs))
	fb := make([]func() string, len(qbs))
	for i, q := range qbs {
		q := q
		fb[i] = func() string { return q.run(r, cam, nil) }
		seqB[i] = withTimeout(60*time.Second, fb[i])
	}
	seqLast := withTimeout(60*time.Second, func() string { return last.run(r, cam, nil) })
	s.c.Stat("rendercfg-events", events)
	ks := parkPositions(rng, events)
	if len(ks) > 3 {
		ks = []int{ks[0], ks[len(ks)/2], ks[len(ks)-1]}
	}
	for _, k := range ks {
		a, bs, parked := interrupt(g, k, func() string { return qa.run(r, cam, g) }, fb)
		after := withTimeout(60*time.Second, func() string { return qa.run(r, cam, nil) })
		lastGot := withTimeout(60*time.Second, func() string { return last.run(r, cam, nil) })
		if parked {
			s.c.Stat("rendercfg-parked", 1)
		}
		seq, conc := compareRuns(seqA, append(append([]string{}, seqB...), seqLast), a, append(bs, lastGot), after)
		s.emit("rendercfg", fmt.Sprintf("r=%s qa=%s qb=%s then=%s park=%d/%d", desc, qa, strings.Join(qbDesc, ";"), last, k, events), seq, conc)
	}
}

// sharedRender: n goroutines released together, each with its own calls on one renderer.
func (s *scenario) sharedRender(n int) {
	rng := s.c.Rng
	if n > 6 {
		n = 6
	}
	r, cam, desc := newSharedRenderer(rng)
	const per = 3
	calls := make([][]renderCall, n)
	seq := make([]string, n)
	for i := range calls {
		var sb strings.Builder
		for j := 0; j < per; j++ {
			kind := ""
			if j == 0 && i == 0 {
				kind = "rayvar"
			}
			c := newRenderCall(rng, kind)
			calls[i] = append(calls[i], c)
			sb.WriteString(c.run(r, cam, nil) + ";")
		}
		seq[i] = sb.String()
	}
	conc := make([]string, n)
	res := withTimeout(120*time.Second, func() string {
		par(n, func(i int) {
			var sb strings.Builder
			for _, c := range calls[i] {
				sb.WriteString(c.run(r, cam, nil) + ";")
			}
			conc[i] = sb.String()
		})
		return "ok"
	})
	out := digest(conc...)
	if res != "ok" {
		out = res
	}
	s.emit("sharedrender", fmt.Sprintf("n=%d r=%s", n, desc), digest(seq...), out)
}

// ------------------------------------------------------------------ progress reports of a rendering

// emptyScene is a user scene with nothing in it.
type emptyScene struct{}

func (emptyScene) Min() model3d.Coord3D { return model3d.XYZ(-1, -1, -1) }
func (emptyScene) Max() model3d.Coord3D { return model3d.XYZ(1, 1, 1) }
func (emptyScene) Cast(*model3d.Ray) (model3d.RayCollision, render3d.Material, bool) {
	return model3d.RayCollision{}, nil, false
}

const logHold = 150 * time.Millisecond

// renderLog: the progress reports (LogFunc) of a real Render.  The pixel workers hand their
// sample counts to the goroutine that called Render, which alone counts and reports: the reports
// are 1/n, 2/n, ..., 1 with the sample rate NumSamples, one after the other.  The user's LogFunc
// holds its first call open for a moment (bounded: nothing can overlap it on the unchanged
// tree) and notes whether another call arrives meanwhile.  Sequential answer: the same Render at
// GOMAXPROCS 1 with a LogFunc that returns at once.
func (s *scenario) renderLog() {
	rng := s.c.Rng
	w, h := 3+rng.Intn(6), 3+rng.Intn(6)
	ns := 1 + rng.Intn(4)
	aa := []float64{0, 0.5, 1}[rng.Intn(3)]
	bidir := rng.Intn(2) == 0
	cam := render3d.NewCameraAt(model3d.XYZ(0, -4, 0), model3d.Coord3D{}, math.Pi/3)
	render := func(hold bool) string {
		var mu sync.Mutex
		var reps []string
		inside, overlaps, first := 0, 0, true
		second := make(chan struct{})
		logf := func(frac, rate float64) {
			mu.Lock()
			if inside > 0 {
				overlaps++
				if overlaps == 1 {
					close(second)
				}
			}
			inside++
			isFirst := first
			first = false
			reps = append(reps, hx(frac)+hx(rate))
			mu.Unlock()
			if isFirst && hold {
				select {
				case <-second:
				case <-time.After(logHold):
				}
			}
			mu.Lock()
			inside--
			mu.Unlock()
		}
		img := render3d.NewImage(w, h)
		if bidir {
			light := render3d.NewSphereAreaLight(&model3d.Sphere{Center: model3d.XYZ(3, 5, 4), Radius: 0.5}, render3d.NewColor(20))
			(&render3d.BidirPathTracer{Camera: cam, Light: light, NumSamples: ns, MaxDepth: 2, Antialias: aa, LogFunc: logf}).Render(img, emptyScene{})
		} else {
			(&render3d.RecursiveRayTracer{Camera: cam, NumSamples: ns, MaxDepth: 2, Antialias: aa, LogFunc: logf}).Render(img, emptyScene{})
		}
		mu.Lock()
		defer mu.Unlock()
		return fmt.Sprintf("reports=%d,overlapping=%d,%s", len(reps), overlaps, digest(reps...))
	}
	old := runtime.GOMAXPROCS(1)
	seq := withTimeout(60*time.Second, func() string { return render(false) })
	runtime.GOMAXPROCS(2 + rng.Intn(3))
	conc := withTimeout(60*time.Second, func() string { return render(true) })
	runtime.GOMAXPROCS(old)
	s.emit("renderlog", fmt.Sprintf("bidir=%v w=%d h=%d samples=%d antialias=%g", bidir, w, h, ns, aa), seq, conc)
}
