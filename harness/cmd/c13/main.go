package main

// Correspondence harness for C13: every scenario runs REAL model3d code from
// several goroutines (or a library routine that parallelises internally at
// several GOMAXPROCS values) and compares with the answer of sequential use.
//
//	c13 <kind> <params…> seq=<digest of the sequential answer>   ->   digest of the concurrent answer
//
// The Lean driver answers with the sequential digest (what the property
// requires: "the same answers as sequential use"), so a difference is a
// violation.  `c13 mapc w h` is answered by the model itself (every index once).
//
// The same binary built with `-race` and run with `-prop C13RACE` is the
// race-detector leg (see lib/props_c13.py): same scenarios, no recording
// wrappers that would add synchronisation, more repetitions.

import (
	"crypto/sha1"
	"fmt"
	"image"
	"math"
	"math/rand"
	"runtime"
	"sort"
	"strings"
	"sync"
	"time"

	"github.com/unixpickle/model3d/model2d"
	"github.com/unixpickle/model3d/model3d"
	"github.com/unixpickle/model3d/numerical"
	"github.com/unixpickle/model3d/render3d"
	"github.com/unixpickle/model3d/toolbox3d"
	"verif/harness/hlib"
)

func main() { hlib.Main("C13", run) }

func digest(parts ...string) string {
	h := sha1.Sum([]byte(strings.Join(parts, "|")))
	return fmt.Sprintf("%x", h[:8])
}

// par runs f(0..n-1) on n goroutines released together.
func par(n int, f func(i int)) {
	var wg sync.WaitGroup
	start := make(chan struct{})
	for i := 0; i < n; i++ {
		wg.Add(1)
		go func(i int) {
			defer wg.Done()
			<-start
			f(i)
		}(i)
	}
	close(start)
	wg.Wait()
}

// withTimeout guards against a hang inside library code.
func withTimeout(d time.Duration, f func() string) string {
	ch := make(chan string, 1)
	go func() { ch <- hlib.Guard(f) }()
	select {
	case s := <-ch:
		return s
	case <-time.After(d):
		return "timeout"
	}
}

func hx(x float64) string { return hlib.Hex(x) }

func c3(c model3d.Coord3D) string { return hx(c.X) + hx(c.Y) + hx(c.Z) }
func c2(c model2d.Coord) string   { return hx(c.X) + hx(c.Y) }

type scenario struct {
	race bool
	c    *hlib.Ctx
}

func (s *scenario) emit(kind string, params string, seq, conc string) {
	s.c.Stat("kind:"+kind, 1)
	if seq != conc {
		s.c.Stat("differs:"+kind, 1)
	}
	s.c.Emit(fmt.Sprintf("c13 %s %s seq=%s", kind, params, seq), conc)
}

// ------------------------------------------------------------------ meshes

func mesh3(rng *rand.Rand) []*model3d.Triangle {
	var m *model3d.Mesh
	switch rng.Intn(4) {
	case 0:
		m = model3d.NewMeshIcosphere(model3d.Coord3D{}, 1, 2+rng.Intn(7))
	case 1:
		m = model3d.NewMeshRect(model3d.XYZ(-1, -1, -1), model3d.XYZ(1, 2, 3))
	case 2:
		m = model3d.NewMeshTorus(model3d.Coord3D{}, model3d.Z(1), 0.3, 1, 4+rng.Intn(8), 5+rng.Intn(10))
	default:
		m = model3d.NewMeshIcosphere(model3d.XYZ(1, 2, 3), 2, 12+rng.Intn(8))
	}
	ts := m.TriangleSlice()
	sort.Slice(ts, func(i, j int) bool {
		for k := 0; k < 3; k++ {
			a, b := ts[i][k], ts[j][k]
			if a != b {
				if a.X != b.X {
					return a.X < b.X
				}
				if a.Y != b.Y {
					return a.Y < b.Y
				}
				return a.Z < b.Z
			}
		}
		return false
	})
	return ts
}

func ids3(idOf map[*model3d.Triangle]int, ts []*model3d.Triangle) string {
	out := make([]int, len(ts))
	for i, t := range ts {
		out[i] = idOf[t]
	}
	sort.Ints(out)
	return fmt.Sprint(out)
}

func sortedCoords3(cs []model3d.Coord3D) string {
	ss := make([]string, len(cs))
	for i, c := range cs {
		ss[i] = c3(c)
	}
	sort.Strings(ss)
	return digest(ss...)
}

// query3 is one read-only "first query" on a mesh (they all go through getVertexToFace).
func query3(m *model3d.Mesh, ts []*model3d.Triangle, idOf map[*model3d.Triangle]int, kind, pick int) string {
	t := ts[pick%len(ts)]
	switch kind % 5 {
	case 0:
		return "F" + ids3(idOf, m.Find(t[pick%3]))
	case 1:
		return "N" + ids3(idOf, m.Neighbors(t))
	case 2:
		return "V" + sortedCoords3(m.VertexSlice())
	case 3:
		var cs []model3d.Coord3D
		m.IterateVertices(func(c model3d.Coord3D) { cs = append(cs, c) })
		return "I" + sortedCoords3(cs)
	default:
		return "F2" + ids3(idOf, m.Find(t[0], t[1]))
	}
}

func (s *scenario) meshq3(n int) {
	rng := s.c.Rng
	ts := mesh3(rng)
	idOf := map[*model3d.Triangle]int{}
	for i, t := range ts {
		idOf[t] = i
	}
	kinds := make([]int, n)
	picks := make([]int, n)
	for i := range kinds {
		kinds[i] = rng.Intn(5)
		picks[i] = rng.Intn(1 << 20)
	}
	ref := model3d.NewMeshTriangles(ts)
	seq := make([]string, n)
	for i := range seq {
		seq[i] = query3(ref, ts, idOf, kinds[i], picks[i])
	}
	fresh := model3d.NewMeshTriangles(ts) // index not built yet: the queries race the lazy build
	conc := make([]string, n)
	idx := make([]uintptr, n)
	res := withTimeout(60*time.Second, func() string {
		par(n, func(i int) {
			conc[i] = query3(fresh, ts, idOf, kinds[i], picks[i])
			idx[i] = model3d.VerifVertexIndexID(fresh)
		})
		return "ok"
	})
	same := "same-index"
	for _, p := range idx {
		if p != idx[0] {
			same = "DIFFERENT-index-objects"
		}
	}
	if res != "ok" {
		same = res
	}
	s.emit("meshq3", fmt.Sprintf("n=%d faces=%d", n, len(ts)), digest(seq...)+":same-index", digest(conc...)+":"+same)
}

func mesh2(rng *rand.Rand) []*model2d.Segment {
	var m *model2d.Mesh
	switch rng.Intn(3) {
	case 0:
		m = model2d.MarchingSquaresSearch(&model2d.Circle{Radius: 1}, 0.02+0.1*rng.Float64(), 4)
	case 1:
		m = model2d.NewMeshRect(model2d.XY(-1, -2), model2d.XY(3, 1))
	default:
		m = model2d.NewMeshPolar(func(t float64) float64 { return 1 + 0.3*math.Sin(5*t) }, 50+rng.Intn(500))
	}
	ss := m.SegmentSlice()
	sort.Slice(ss, func(i, j int) bool {
		for k := 0; k < 2; k++ {
			a, b := ss[i][k], ss[j][k]
			if a != b {
				if a.X != b.X {
					return a.X < b.X
				}
				return a.Y < b.Y
			}
		}
		return false
	})
	return ss
}

func query2(m *model2d.Mesh, ss []*model2d.Segment, idOf map[*model2d.Segment]int, kind, pick int) string {
	sg := ss[pick%len(ss)]
	ids := func(xs []*model2d.Segment) string {
		out := make([]int, len(xs))
		for i, x := range xs {
			out[i] = idOf[x]
		}
		sort.Ints(out)
		return fmt.Sprint(out)
	}
	coords := func(cs []model2d.Coord) string {
		o := make([]string, len(cs))
		for i, c := range cs {
			o[i] = c2(c)
		}
		sort.Strings(o)
		return digest(o...)
	}
	switch kind % 3 {
	case 0:
		return "F" + ids(m.Find(sg[pick%2]))
	case 1:
		return "V" + coords(m.VertexSlice())
	default:
		var cs []model2d.Coord
		m.IterateVertices(func(c model2d.Coord) { cs = append(cs, c) })
		return "I" + coords(cs)
	}
}

func (s *scenario) meshq2(n int) {
	rng := s.c.Rng
	ss := mesh2(rng)
	idOf := map[*model2d.Segment]int{}
	for i, t := range ss {
		idOf[t] = i
	}
	kinds := make([]int, n)
	picks := make([]int, n)
	for i := range kinds {
		kinds[i] = rng.Intn(3)
		picks[i] = rng.Intn(1 << 20)
	}
	ref := model2d.NewMeshSegments(ss)
	seq := make([]string, n)
	for i := range seq {
		seq[i] = query2(ref, ss, idOf, kinds[i], picks[i])
	}
	fresh := model2d.NewMeshSegments(ss)
	conc := make([]string, n)
	idx := make([]uintptr, n)
	res := withTimeout(60*time.Second, func() string {
		par(n, func(i int) {
			conc[i] = query2(fresh, ss, idOf, kinds[i], picks[i])
			idx[i] = model2d.VerifVertexIndexID(fresh)
		})
		return "ok"
	})
	same := "same-index"
	for _, p := range idx {
		if p != idx[0] {
			same = "DIFFERENT-index-objects"
		}
	}
	if res != "ok" {
		same = res
	}
	s.emit("meshq2", fmt.Sprintf("n=%d segs=%d", n, len(ss)), digest(seq...)+":same-index", digest(conc...)+":"+same)
}

// ------------------------------------------------------------------ colliders, SDFs, solids

func (s *scenario) derived3(n int) {
	rng := s.c.Rng
	ts := mesh3(rng)
	m := model3d.NewMeshTriangles(ts)
	nq := 40
	pts := make([]model3d.Coord3D, nq)
	dirs := make([]model3d.Coord3D, nq)
	for i := range pts {
		pts[i] = model3d.XYZ(rng.Float64()*6-2, rng.Float64()*6-2, rng.Float64()*6-2)
		dirs[i] = model3d.XYZ(rng.NormFloat64(), rng.NormFloat64(), rng.NormFloat64())
	}
	// goroutine i derives its own structure from the shared mesh (or uses the shared one)
	// and answers all queries
	sharedColl := model3d.MeshToCollider(m)
	sharedSDF := model3d.MeshToSDF(m)
	sharedSolid := model3d.NewColliderSolid(sharedColl)
	// full=false leaves out the one answer that legitimately depends on the (map-iteration)
	// order in which a structure was built: the normal NormalSDF reports when the closest
	// point lies on an edge or vertex shared by several triangles.
	answer := func(coll model3d.Collider, sdf model3d.FaceSDF, solid model3d.Solid, full bool) string {
		var b strings.Builder
		for i := range pts {
			r := &model3d.Ray{Origin: pts[i], Direction: dirs[i]}
			rc, ok := coll.FirstRayCollision(r)
			fmt.Fprintf(&b, "%v%s%s;", ok, hx(rc.Scale), c3(rc.Normal))
			fmt.Fprintf(&b, "%d;", coll.RayCollisions(r, nil))
			fmt.Fprintf(&b, "%v;", coll.SphereCollision(pts[i], 0.3))
			fmt.Fprintf(&b, "%s;", hx(sdf.SDF(pts[i])))
			p, d := sdf.PointSDF(pts[i])
			fmt.Fprintf(&b, "%s%s;", c3(p), hx(d))
			nn, d2 := sdf.NormalSDF(pts[i])
			if full {
				fmt.Fprintf(&b, "%s", c3(nn))
			}
			fmt.Fprintf(&b, "%s;", hx(d2))
			fmt.Fprintf(&b, "%v;", solid.Contains(pts[i]))
		}
		return digest(b.String())
	}
	seq := answer(sharedColl, sharedSDF, sharedSolid, true)
	seqSet := answer(sharedColl, sharedSDF, sharedSolid, false)
	fresh := model3d.NewMeshTriangles(ts)
	conc := make([]string, n)
	res := withTimeout(120*time.Second, func() string {
		par(n, func(i int) {
			switch i % 3 {
			case 0: // shared immutable query structures
				conc[i] = answer(sharedColl, sharedSDF, sharedSolid, true)
			case 1: // derive from the shared, still index-less mesh while others query it
				coll := model3d.MeshToCollider(fresh)
				if answer(coll, model3d.MeshToSDF(fresh), model3d.NewColliderSolid(coll), false) == seqSet {
					conc[i] = seq
				} else {
					conc[i] = "own-structure-differs"
				}
			default:
				fresh.Find(ts[i%len(ts)][0])
				conc[i] = answer(sharedColl, sharedSDF, sharedSolid, true)
			}
		})
		return "ok"
	})
	out := seq
	for _, a := range conc {
		if a != seq {
			out = "differs:" + a
		}
	}
	if res != "ok" {
		out = res
	}
	s.emit("derived3", fmt.Sprintf("n=%d faces=%d", n, len(ts)), seq, out)
}

func (s *scenario) derived2(n int) {
	rng := s.c.Rng
	ss := mesh2(rng)
	m := model2d.NewMeshSegments(ss)
	nq := 40
	pts := make([]model2d.Coord, nq)
	dirs := make([]model2d.Coord, nq)
	for i := range pts {
		pts[i] = model2d.XY(rng.Float64()*5-2, rng.Float64()*5-2.5)
		dirs[i] = model2d.XY(rng.NormFloat64(), rng.NormFloat64())
	}
	coll := model2d.MeshToCollider(m)
	sdf := model2d.MeshToSDF(m)
	solid := model2d.NewColliderSolid(coll)
	answer := func(coll model2d.Collider, sdf model2d.FaceSDF, solid model2d.Solid) string {
		var b strings.Builder
		for i := range pts {
			r := &model2d.Ray{Origin: pts[i], Direction: dirs[i]}
			rc, ok := coll.FirstRayCollision(r)
			fmt.Fprintf(&b, "%v%s%s;", ok, hx(rc.Scale), c2(rc.Normal))
			fmt.Fprintf(&b, "%d;%v;", coll.RayCollisions(r, nil), coll.CircleCollision(pts[i], 0.3))
			p, d := sdf.PointSDF(pts[i])
			fmt.Fprintf(&b, "%s%s%s;%v;", hx(sdf.SDF(pts[i])), c2(p), hx(d), solid.Contains(pts[i]))
		}
		return digest(b.String())
	}
	seq := answer(coll, sdf, solid)
	fresh := model2d.NewMeshSegments(ss)
	conc := make([]string, n)
	res := withTimeout(120*time.Second, func() string {
		par(n, func(i int) {
			if i%2 == 0 {
				conc[i] = answer(coll, sdf, solid)
			} else {
				c1 := model2d.MeshToCollider(fresh)
				fresh.Find(ss[i%len(ss)][0])
				conc[i] = answer(c1, model2d.MeshToSDF(fresh), model2d.NewColliderSolid(c1))
			}
		})
		return "ok"
	})
	out := seq
	for _, a := range conc {
		if a != seq {
			out = "differs:" + a
		}
	}
	if res != "ok" {
		out = res
	}
	s.emit("derived2", fmt.Sprintf("n=%d segs=%d", n, len(ss)), seq, out)
}

// ------------------------------------------------------------------ internally parallel routines

var procCounts = []int{1, 2, 3, 4, 8, 16}

// atProcs evaluates f at GOMAXPROCS = 1 (the sequential answer) and at every other count.
func (s *scenario) atProcs(kind, params string, f func() string) {
	old := runtime.GOMAXPROCS(0)
	defer runtime.GOMAXPROCS(old)
	runtime.GOMAXPROCS(1)
	seq := withTimeout(120*time.Second, f)
	for _, p := range procCounts[1:] {
		runtime.GOMAXPROCS(p)
		s.emit(kind, fmt.Sprintf("%s procs=%d", params, p), seq, withTimeout(120*time.Second, f))
	}
}

func grayDigest(img *image.Gray) string {
	return fmt.Sprintf("%dx%d:", img.Rect.Dx(), img.Rect.Dy()) + digest(string(img.Pix))
}

func (s *scenario) rasterize() {
	rng := s.c.Rng
	var solid model2d.Solid = model2d.JoinedSolid{
		&model2d.Circle{Center: model2d.XY(rng.Float64(), rng.Float64()), Radius: 0.5 + rng.Float64()},
		model2d.NewRect(model2d.XY(-1, -0.25), model2d.XY(2*rng.Float64(), 0.5)),
	}
	r := &model2d.Rasterizer{Scale: 10 + 30*rng.Float64(), Subsamples: 1 + rng.Intn(3)}
	mesh := model2d.MarchingSquaresSearch(solid, 0.05, 4)
	which := rng.Intn(3)
	s.atProcs("rast", fmt.Sprintf("which=%d", which), func() string {
		switch which {
		case 0:
			return grayDigest(r.RasterizeSolid(solid))
		case 1:
			return grayDigest(r.Rasterize(mesh))
		default:
			return grayDigest(r.RasterizeColliderSolid(model2d.MeshToCollider(mesh)))
		}
	})
}

func (s *scenario) kmeans() {
	rng := s.c.Rng
	n := 50 + rng.Intn(400)
	data := make([]numerical.Vec3, n)
	for i := range data {
		// small integers: every sum and squared distance is exact, so the merge order cannot
		// show up in the result (the model's merge is commutative and associative)
		data[i] = numerical.Vec3{float64(rng.Intn(33) - 16), float64(rng.Intn(33) - 16), float64(rng.Intn(9))}
	}
	k := 2 + rng.Intn(6)
	centers := make([]numerical.Vec3, k)
	for i := range centers {
		centers[i] = data[rng.Intn(n)]
	}
	s.atProcs("kmeans", fmt.Sprintf("n=%d k=%d", n, k), func() string {
		km := &numerical.KMeans[numerical.Vec3]{Centers: append([]numerical.Vec3{}, centers...), Data: data}
		loss := km.Iterate()
		var b strings.Builder
		b.WriteString(hx(loss))
		for _, c := range km.Centers {
			b.WriteString(hx(c[0]) + hx(c[1]) + hx(c[2]))
		}
		fmt.Fprint(&b, km.Assign(data))
		return digest(b.String())
	})
}

func meshDigest(m *model3d.Mesh) string {
	ts := m.TriangleSlice()
	ss := make([]string, len(ts))
	for i, t := range ts {
		ss[i] = c3(t[0]) + c3(t[1]) + c3(t[2])
	}
	sort.Strings(ss)
	return fmt.Sprintf("%d:", len(ts)) + digest(ss...)
}

func (s *scenario) meshing() {
	rng := s.c.Rng
	var solid model3d.Solid = model3d.JoinedSolid{
		&model3d.Sphere{Center: model3d.XYZ(rng.Float64(), 0, 0), Radius: 0.6 + 0.5*rng.Float64()},
		model3d.NewRect(model3d.XYZ(-0.5, -0.25, -0.3), model3d.XYZ(1.5, 0.5, 0.3+rng.Float64())),
	}
	delta := 0.08 + 0.1*rng.Float64()
	which := rng.Intn(7)
	// a solid whose Contains keeps working state between the evaluations of its fields
	smooth := model3d.SmoothJoinV2(0.2+0.3*rng.Float64(),
		&model3d.Sphere{Center: model3d.XYZ(-0.4, 0, 0), Radius: 0.6 + 0.3*rng.Float64()},
		&model3d.Capsule{P1: model3d.XYZ(0.2, -0.1, 0), P2: model3d.XYZ(1, 0.3, 0.4), Radius: 0.3 + 0.3*rng.Float64()},
		model3d.NewRect(model3d.XYZ(-0.3, -0.9, -0.3), model3d.XYZ(0.5, 0.2, 0.3)))
	// a solid whose Contains goes through ray queries of one shared ProfileCollider
	prof := model3d.NewColliderSolid(model3d.ProfileCollider(model2d.MeshToCollider(
		model2d.NewMeshPolar(func(t float64) float64 { return 1 + 0.3*math.Sin(3*t) }, 40)), -0.4, 0.3+rng.Float64()))
	s.atProcs("meshing", fmt.Sprintf("which=%d", which), func() string {
		switch which {
		case 6:
			return meshDigest(model3d.MarchingCubes(smooth, delta))
		case 5:
			return meshDigest(model3d.MarchingCubes(prof, delta))
		case 0:
			return meshDigest(model3d.MarchingCubes(solid, delta))
		case 1:
			return meshDigest(model3d.MarchingCubesSearch(solid, delta, 5))
		case 2:
			return meshDigest(model3d.MarchingCubesFilter(solid, func(r *model3d.Rect) bool { return true }, delta))
		case 3:
			return meshDigest(model3d.MarchingCubesC2F(solid, 2*delta, delta, 0, 4))
		default:
			dc := &model3d.DualContouring{S: model3d.SolidSurfaceEstimator{Solid: solid}, Delta: delta,
				Repair: true, Clip: true, MaxGos: runtime.GOMAXPROCS(0)}
			return meshDigest(dc.Mesh())
		}
	})
}

func (s *scenario) render() {
	rng := s.c.Rng
	mesh := model3d.NewMeshIcosphere(model3d.XYZ(0.5, 0, 0), 0.7, 3)
	obj := render3d.JoinedObject{
		&render3d.ColliderObject{Collider: &model3d.Sphere{Center: model3d.XYZ(-0.6, 0, 0), Radius: 0.5},
			Material: &render3d.LambertMaterial{DiffuseColor: render3d.NewColor(0.5), AmbientColor: render3d.NewColor(0.1)}},
		&render3d.ColliderObject{Collider: model3d.MeshToCollider(mesh),
			Material: &render3d.PhongMaterial{Alpha: 5, SpecularColor: render3d.NewColor(0.3), DiffuseColor: render3d.NewColorRGB(0.2, 0.5, 0.7)}},
	}
	// … and one colored through the library's helper (SaveRendering's path) with a color
	// function that is nowhere constant
	obj = append(obj, render3d.Objectify(model3d.NewRect(model3d.XYZ(-1.2, -0.2, -1.3), model3d.XYZ(1.4, 0.6, -0.6)),
		func(p model3d.Coord3D, rc model3d.RayCollision) render3d.Color {
			return render3d.NewColorRGB(0.1+0.9*(p.X-math.Floor(p.X)), 0.1+0.9*(p.Z-math.Floor(p.Z)), 0.5)
		}))
	cam := render3d.NewCameraAt(model3d.XYZ(rng.Float64(), -4, 1), model3d.Coord3D{}, 0.8)
	w, h := 8+rng.Intn(24), 8+rng.Intn(24)
	s.atProcs("render", fmt.Sprintf("w=%d h=%d", w, h), func() string {
		img := render3d.NewImage(w, h)
		rc := &render3d.RayCaster{Camera: cam, Lights: []*render3d.PointLight{{Origin: model3d.XYZ(3, -3, 3), Color: render3d.NewColor(1)}}}
		rc.Render(img, obj)
		var b strings.Builder
		for _, c := range img.Data {
			b.WriteString(c3(c))
		}
		return digest(b.String())
	})
}

// renderRace exercises the sampling renderers (per-goroutine RNGs: results are not
// deterministic, so this is only used by the race-detector leg).
func (s *scenario) renderRace() {
	var obj render3d.Object = &render3d.ColliderObject{Collider: &model3d.Sphere{Radius: 1},
		Material: &render3d.LambertMaterial{DiffuseColor: render3d.NewColor(0.5), EmissionColor: render3d.NewColor(0.2)}}
	obj = render3d.JoinedObject{obj, render3d.Objectify(model3d.NewRect(model3d.XYZ(-2, -0.5, -2), model3d.XYZ(2, 2, -1.2)),
		func(p model3d.Coord3D, rc model3d.RayCollision) render3d.Color {
			return render3d.NewColorRGB(0.1+0.9*(p.X-math.Floor(p.X)), 0.1+0.9*(p.Y-math.Floor(p.Y)), 0.5)
		})}
	cam := render3d.NewCameraAt(model3d.XYZ(0, -4, 0), model3d.Coord3D{}, 0.8)
	img := render3d.NewImage(16, 16)
	logs := 0
	rt := &render3d.RecursiveRayTracer{Camera: cam, NumSamples: 4, MaxDepth: 2,
		LogFunc: func(p, s float64) { logs++ }}
	rt.Render(img, obj)
	rt.RayVariance(obj, 8, 8, 3)
	light := render3d.JoinAreaLights(render3d.NewSphereAreaLight(&model3d.Sphere{Center: model3d.XYZ(3, -3, 3), Radius: 0.5}, render3d.NewColor(5)))
	bp := &render3d.BidirPathTracer{Camera: cam, Light: light, MaxDepth: 3, MinDepth: 2, NumSamples: 2}
	bp.Render(img, obj)
	s.c.Stat("kind:renderRace", 1)
}

// recSDF records every (point, value) asked through SDF(): ProjectMedialAxis only uses
// PointSDF/Min/Max, so the SDF calls are exactly the `radius := p.SDF(proj)` of AddSpheresSDF.
type recSDF struct {
	inner model2d.PointSDF
	mu    sync.Mutex
	pts   []model2d.Coord
	vals  []float64
}

func (r *recSDF) Min() model2d.Coord { return r.inner.Min() }
func (r *recSDF) Max() model2d.Coord { return r.inner.Max() }
func (r *recSDF) PointSDF(c model2d.Coord) (model2d.Coord, float64) {
	return r.inner.PointSDF(c)
}

func (r *recSDF) SDF(c model2d.Coord) float64 {
	v := r.inner.SDF(c)
	r.mu.Lock()
	r.pts = append(r.pts, c)
	r.vals = append(r.vals, v)
	r.mu.Unlock()
	return v
}

func (s *scenario) heightMap() {
	rng := s.c.Rng
	var shape model2d.PointSDF = &model2d.Circle{Radius: 1}
	if rng.Intn(2) == 0 {
		shape = model2d.MeshToSDF(model2d.NewMeshPolar(func(t float64) float64 { return 1 + 0.4*math.Sin(3*t) }, 200))
	}
	maxRadius := 0.0
	if rng.Intn(2) == 0 {
		maxRadius = 0.1 + 0.3*rng.Float64()
	}
	size := 16 + rng.Intn(80)
	num := 200 + rng.Intn(800)
	old := runtime.GOMAXPROCS(0)
	defer runtime.GOMAXPROCS(old)
	for _, p := range []int{2, 8, 16} {
		runtime.GOMAXPROCS(p)
		var seq, conc string
		res := withTimeout(120*time.Second, func() string {
			if s.race {
				hm := toolbox3d.NewHeightMap(shape.Min(), shape.Max(), size)
				hm.AddSpheresSDF(shape, num, 0.02, maxRadius)
				return "ok"
			}
			rec := &recSDF{inner: shape}
			hm := toolbox3d.NewHeightMap(shape.Min(), shape.Max(), size)
			hm.AddSpheresSDF(rec, num, 0.02, maxRadius)
			ref := toolbox3d.NewHeightMap(shape.Min(), shape.Max(), size)
			for i, c := range rec.pts {
				if maxRadius != 0 {
					ref.AddSphereFill(c, rec.vals[i], maxRadius)
				} else {
					ref.AddSphere(c, rec.vals[i])
				}
			}
			var a, b strings.Builder
			for i := range hm.Data {
				a.WriteString(hx(ref.Data[i]))
				b.WriteString(hx(hm.Data[i]))
			}
			seq, conc = fmt.Sprintf("%d:", len(rec.pts))+digest(a.String()), fmt.Sprintf("%d:", len(rec.pts))+digest(b.String())
			return "ok"
		})
		if res != "ok" {
			conc = res
		}
		s.emit("heightmap", fmt.Sprintf("size=%d spheres=%d fill=%v procs=%d", size, num, maxRadius != 0, p), seq, conc)
	}
}

func (s *scenario) cacheFunc(n int) {
	rng := s.c.Rng
	f := func(x float64) float64 { return math.Sqrt(x*x+1) * 3 }
	cf := model2d.CacheScalarFunc(f)
	xs := make([]float64, 64)
	for i := range xs {
		xs[i] = float64(rng.Intn(16)) / 4
	}
	var sb strings.Builder
	for _, x := range xs {
		sb.WriteString(hx(f(x)))
	}
	seq := digest(sb.String())
	conc := make([]string, n)
	par(n, func(i int) {
		var b strings.Builder
		for _, x := range xs {
			b.WriteString(hx(cf(x)))
		}
		conc[i] = digest(b.String())
	})
	out := seq
	for _, a := range conc {
		if a != seq {
			out = "differs:" + a
		}
	}
	s.emit("cachefunc", fmt.Sprintf("n=%d", n), seq, out)
}

// mapCoords: every pixel index is handed to exactly one worker call (model-computed answer).
func (s *scenario) mapCoords() {
	rng := s.c.Rng
	w, h := 1+rng.Intn(40), 1+rng.Intn(40)
	counts := make([]int32, w*h)
	var mu sync.Mutex
	bad := 0
	render3d.VerifMapCoordinates(w, h, func(worker *int, x, y, idx int) {
		mu.Lock()
		defer mu.Unlock()
		if idx < 0 || idx >= w*h || idx != y*w+x {
			bad++
			return
		}
		counts[idx]++
	})
	once := 0
	for _, c := range counts {
		if c == 1 {
			once++
		}
	}
	s.c.Stat("kind:mapc", 1)
	s.c.Emit(fmt.Sprintf("c13 mapc %d %d", w, h), fmt.Sprintf("n=%d once=%d bad=%d", w*h, once, bad))
}

// try runs one scenario; a panic while it builds its structures or computes the sequential
// answers (library code running on ONE goroutine -- only a broken tree does that) becomes a case
// of its own instead of ending the whole run.
func (s *scenario) try(kind string, f func()) {
	defer func() {
		if r := recover(); r != nil {
			msg := strings.SplitN(fmt.Sprint(r), "\n", 2)[0]
			s.c.Stat("scenario-panicked:"+kind, 1)
			s.c.Emit(fmt.Sprintf("c13 %s scenario-setup seq=ok", kind), "panic:"+strings.ReplaceAll(msg, " ", "_"))
		}
	}()
	f()
}

func run(c *hlib.Ctx) {
	s := &scenario{race: c.Prop == "C13RACE", c: c}
	if s.race && runtime.GOMAXPROCS(0) < 4 {
		runtime.GOMAXPROCS(4)
	}
	threadCounts := []int{2, 3, 4, 8, 16, 32}
	rounds := c.N / 10
	if rounds < 1 {
		rounds = 1
	}
	for r := 0; r < rounds; r++ {
		for _, n := range threadCounts {
			n := n
			s.try("meshq3", func() { s.meshq3(n) })
			s.try("meshq2", func() { s.meshq2(n) })
		}
		n := threadCounts[r%len(threadCounts)]
		s.try("derived3", func() { s.derived3(n) })
		s.try("derived2", func() { s.derived2(n) })
		s.try("cachefunc", func() { s.cacheFunc(n) })
		s.try("sharedq", func() { s.sharedq(n, collFamilies[r%len(collFamilies)]) })
		s.try("sharedobj", func() { s.sharedobj(n, objFamilies[r%len(objFamilies)]) })
		s.try("sharedsolid", func() { s.sharedsolid(n, solidFamilies[r%len(solidFamilies)]) })
		s.try("sdfhist", s.sdfhist)
		s.try("sharediter", func() { s.sharedIter(n) })
		s.try("sharedrender", func() { s.sharedRender(n) })
		s.try("sharedderive", func() { s.sharedDerive(n) })
		if !s.race {
			s.try("meshiter3", func() { s.meshIter(3) })
			s.try("meshiter2", func() { s.meshIter(2) })
			s.try("rendercfg", s.renderCfg)
			s.try("mapc", s.mapCoords)
			// schedule-controlled scenarios: fully synchronised by construction, so they are of
			// no use to the race detector
			for _, fam := range collFamilies {
				fam := fam
				s.try("nestq", func() { s.nestq(fam) })
			}
			s.try("nestobj", func() { s.nestobj(objFamilies[r%len(objFamilies)]) })
			s.try("nestobj", func() { s.nestobj(objFamilies[(r+2)%len(objFamilies)]) })
			for _, fam := range solidFamilies {
				fam := fam
				s.try("nestsolid", func() { s.nestsolid(fam) })
			}
			for _, fam := range solidFamilies2 {
				fam := fam
				s.try("nestsolid2", func() { s.nestsolid2(fam) })
			}
			s.try("nestderive3", s.nestDerive3)
			s.try("nestderive2", s.nestDerive2)
			s.try("rendersched", s.renderSched)
			s.try("nestcache", s.nestcache)
			if r%10 == 0 {
				s.try("kmeanssched", s.kmeansSched)
				s.try("renderlog", s.renderLog)
			}
		}
		if r%2 == 0 || s.race {
			s.try("rast", s.rasterize)
			s.try("kmeans", s.kmeans)
			s.try("meshing", s.meshing)
			s.try("meshing2", s.meshing2)
			s.try("render", s.render)
			s.try("heightmap", s.heightMap)
		}
		if r%3 == 0 || s.race {
			s.try("dcinterior", s.dcInterior)
		}
		if s.race {
			s.try("renderRace", s.renderRace)
		}
	}
}
