package main

import "verif/harness/hlib"

func main() { hlib.Main("C13", run) }

func run(c *hlib.Ctx) {}
