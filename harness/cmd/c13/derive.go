package main

// Scenarios for deriving a structure from a shared one WHILE the shared one is queried:
// JoinedSolid.Optimize() (3-D and 2-D; "creates a version of the solid"), NewSolidMux,
// CacheSolidBounds, Min / Max are read-only uses of the union, like Contains.  A JoinedSolid is
// a slice, so a method with a value receiver shares the backing array with the caller's solid;
// Contains loads the parts from that array one by one and is inside a part's Contains (user
// code) between two loads.
//
//   - nestderive3 / nestderive2: a union of 3-9 user-supplied gated parts, listed in an order
//     that is (mostly) not the grouped one.  Goroutine A's Contains is parked at its k-th callback
//     into a part (every k), goroutine B runs 1-3 complete derivations / queries of the same
//     union (the first one an Optimize() in most cases), A continues, A once more.  Every run uses
//     a FRESH slice with the same parts in the same order, so that whatever a derivation does to
//     the slice it is given happens during the interrupted run.  Expected answers: sequential use
//     (theorem optimize_private_copy_eq_sequential; witness optimize_in_place_racy).
//   - sharedderive: the free-running twin (n goroutines; even ones query the union, odd ones
//     derive an optimized solid / a SolidMux from it and query that): what the race detector sees.

import (
	"fmt"
	"math/rand"
	"strings"
	"time"

	"github.com/unixpickle/model3d/model2d"
	"github.com/unixpickle/model3d/model3d"
	"verif/harness/hlib"
)

func bits(bs ...bool) string {
	var sb strings.Builder
	for _, b := range bs {
		if b {
			sb.WriteByte('1')
		} else {
			sb.WriteByte('0')
		}
	}
	return sb.String()
}

// partCentres: where the parts of a union go.  layout 0: along one axis, listed from high to low
// or shuffled (the grouped order is low to high); layout 1: anywhere in a cube.
func partCentres(rng *rand.Rand, m, dims int) ([][3]float64, string) {
	cs := make([][3]float64, m)
	layout := rng.Intn(3)
	name := []string{"line-desc", "line-shuffled", "cube"}[layout]
	switch layout {
	case 0, 1:
		axis := rng.Intn(dims)
		step := 0.9 + rng.Float64()*1.6
		for i := range cs {
			for d := 0; d < dims; d++ {
				cs[i][d] = 0.3 * (rng.Float64() - 0.5)
			}
			cs[i][axis] = float64(m-1-i) * step
		}
		if layout == 1 {
			rng.Shuffle(m, func(i, j int) { cs[i], cs[j] = cs[j], cs[i] })
		}
	default:
		for i := range cs {
			for d := 0; d < dims; d++ {
				cs[i][d] = 5 * (rng.Float64() - 0.5)
			}
		}
	}
	return cs, name
}

// how many nestderive scenarios have been built (selects the first derivation in turn)
var deriveRound3, deriveRound2 int

// ------------------------------------------------------------------ 3-D

type union3 struct {
	parts []model3d.Solid // the parts in their listed order (never handed to the library)
	in    []model3d.Coord3D
	desc  string
	moved bool
}

func (u *union3) fresh() model3d.JoinedSolid { return append(model3d.JoinedSolid{}, u.parts...) }

func newUnion3(rng *rand.Rand, g *gate) *union3 {
	m := 3 + rng.Intn(7)
	cs, layout := partCentres(rng, m, 3)
	u := &union3{}
	kinds := make([]string, m)
	for i, c := range cs {
		ctr := model3d.XYZ(c[0], c[1], c[2])
		var s model3d.Solid
		switch rng.Intn(3) {
		case 0:
			s, kinds[i] = &model3d.Sphere{Center: ctr, Radius: 0.3 + 0.4*rng.Float64()}, "sphere"
		case 1:
			h := model3d.XYZ(0.2+0.4*rng.Float64(), 0.2+0.4*rng.Float64(), 0.2+0.4*rng.Float64())
			s, kinds[i] = model3d.NewRect(ctr.Sub(h), ctr.Add(h)), "rect"
		default:
			// a solid made from a function literal, as user code writes it
			h := model3d.XYZ(0.2+0.4*rng.Float64(), 0.2+0.4*rng.Float64(), 0.2+0.4*rng.Float64())
			r := model3d.NewRect(ctr.Sub(h), ctr.Add(h))
			s, kinds[i] = model3d.FuncSolid(r.Min(), r.Max(), func(c model3d.Coord3D) bool { return r.Contains(c) }), "func"
		}
		if g != nil {
			s = &gSolid3{Solid: s, g: g}
		}
		u.parts = append(u.parts, s)
		u.in = append(u.in, ctr)
	}
	grouped := append([]model3d.Solid{}, u.parts...)
	model3d.GroupBounders(grouped)
	for i := range grouped {
		if grouped[i] != u.parts[i] {
			u.moved = true
		}
	}
	u.desc = fmt.Sprintf("joined[%s](%s)", layout, strings.Join(kinds, ","))
	return u
}

// point3: inside part i (near its centre) for most draws, anywhere around the union otherwise.
func (u *union3) point(rng *rand.Rand) model3d.Coord3D {
	if rng.Intn(5) == 0 {
		return inBox3(rng, model3d.JoinedSolid(u.parts))
	}
	i := rng.Intn(len(u.parts))
	if rng.Intn(2) == 0 {
		i = len(u.parts) - 1 - rng.Intn((len(u.parts)+1)/2) // the later parts: the reader gets there last
	}
	return u.in[i].Add(model3d.XYZ(0.1*(rng.Float64()-0.5), 0.1*(rng.Float64()-0.5), 0.1*(rng.Float64()-0.5)))
}

type deriveOp3 struct {
	desc string
	run  func(j model3d.JoinedSolid) string
}

func deriveOps3(rng *rand.Rand, u *union3, pa model3d.Coord3D, n, first int) []deriveOp3 {
	ops := make([]deriveOp3, n)
	for i := range ops {
		ps := make([]model3d.Coord3D, 4)
		for k := range ps {
			ps[k] = u.point(rng)
		}
		if rng.Intn(2) == 0 {
			// a neighbour of A's point (what the workers of a mesher ask at the same time)
			ps[0] = pa.Add(model3d.XYZ(0.04*(rng.Float64()-0.5), 0.04*(rng.Float64()-0.5), 0.04*(rng.Float64()-0.5)))
		}
		ask := func(s model3d.Solid) string {
			bs := make([]bool, len(ps))
			for k, p := range ps {
				bs[k] = s.Contains(p)
			}
			return bits(bs...) + "/" + c3(s.Min()) + c3(s.Max())
		}
		which := rng.Intn(6)
		if i == 0 {
			// the first derivation after A is parked: Optimize in half of the scenarios, the
			// other derivations in turn
			which = []int{0, 2, 0, 5, 0, 4, 0, 1, 0, 3}[first%10]
		}
		switch which {
		case 0:
			ops[i] = deriveOp3{"optimize", func(j model3d.JoinedSolid) string { return ask(j.Optimize()) }}
		case 1:
			ops[i] = deriveOp3{"optimize-twice", func(j model3d.JoinedSolid) string { return ask(j.Optimize()) + ask(j.Optimize()) }}
		case 2:
			ops[i] = deriveOp3{"solidmux", func(j model3d.JoinedSolid) string {
				mux := model3d.NewSolidMux(j)
				return ask(mux) + bits(mux.AllContains(ps[0])...)
			}}
		case 3:
			ops[i] = deriveOp3{"cachebounds", func(j model3d.JoinedSolid) string { return ask(model3d.CacheSolidBounds(j)) }}
		case 4:
			ops[i] = deriveOp3{"contains", func(j model3d.JoinedSolid) string { return ask(j) }}
		default:
			ops[i] = deriveOp3{"intersected-optimize", func(j model3d.JoinedSolid) string {
				return ask(model3d.IntersectedSolid{j, j.Optimize()})
			}}
		}
	}
	return ops
}

func (s *scenario) nestDerive3() {
	rng := s.c.Rng
	g := &gate{}
	u := newUnion3(rng, g)
	pa := u.point(rng)
	ops := deriveOps3(rng, u, pa, 1+rng.Intn(3), deriveRound3)
	deriveRound3++
	descs := make([]string, len(ops))
	for i, o := range ops {
		descs[i] = o.desc
	}
	bind := func(j model3d.JoinedSolid) (func() string, []func() string) {
		fb := make([]func() string, len(ops))
		for i, o := range ops {
			o := o
			fb[i] = func() string { return o.run(j) }
		}
		return func() string { return fmt.Sprint(j.Contains(pa)) }, fb
	}
	// sequential use of a twin
	qa, fb := bind(u.fresh())
	g.arm(0)
	seqA := hlib.Guard(qa)
	events := g.disarm()
	seqB := make([]string, len(fb))
	for i := range fb {
		seqB[i] = hlib.Guard(fb[i])
	}
	if u.moved {
		s.c.Stat("nestderive3-union-not-in-grouped-order", 1)
	}
	if seqA == "true" {
		s.c.Stat("nestderive3-point-inside", 1)
	}
	for _, k := range parkPositions(rng, events) {
		qa, fb := bind(u.fresh())
		a, bs, parked := interrupt(g, k, qa, fb)
		after := hlib.Guard(qa)
		if parked {
			s.c.Stat("nestderive3-parked", 1)
		}
		seq, conc := compareRuns(seqA, seqB, a, bs, after)
		s.emit("nestderive3", fmt.Sprintf("s=%s moved=%v pa=%s qb=%s park=%d/%d", u.desc, u.moved, c3(pa), strings.Join(descs, ";"), k, events), seq, conc)
	}
}

// ------------------------------------------------------------------ 2-D

type union2 struct {
	parts []model2d.Solid
	in    []model2d.Coord
	desc  string
	moved bool
}

func (u *union2) fresh() model2d.JoinedSolid { return append(model2d.JoinedSolid{}, u.parts...) }

func newUnion2(rng *rand.Rand, g *gate) *union2 {
	m := 3 + rng.Intn(7)
	cs, layout := partCentres(rng, m, 2)
	u := &union2{}
	kinds := make([]string, m)
	for i, c := range cs {
		ctr := model2d.XY(c[0], c[1])
		var s model2d.Solid
		switch rng.Intn(3) {
		case 0:
			s, kinds[i] = &model2d.Circle{Center: ctr, Radius: 0.3 + 0.4*rng.Float64()}, "circle"
		case 1:
			h := model2d.XY(0.2+0.4*rng.Float64(), 0.2+0.4*rng.Float64())
			s, kinds[i] = model2d.NewRect(ctr.Sub(h), ctr.Add(h)), "rect2"
		default:
			h := model2d.XY(0.2+0.4*rng.Float64(), 0.2+0.4*rng.Float64())
			r := model2d.NewRect(ctr.Sub(h), ctr.Add(h))
			s, kinds[i] = model2d.FuncSolid(r.Min(), r.Max(), func(c model2d.Coord) bool { return r.Contains(c) }), "func2"
		}
		if g != nil {
			s = &gSolid2{Solid: s, g: g}
		}
		u.parts = append(u.parts, s)
		u.in = append(u.in, ctr)
	}
	grouped := append([]model2d.Solid{}, u.parts...)
	model2d.GroupBounders(grouped)
	for i := range grouped {
		if grouped[i] != u.parts[i] {
			u.moved = true
		}
	}
	u.desc = fmt.Sprintf("joined2[%s](%s)", layout, strings.Join(kinds, ","))
	return u
}

func (u *union2) point(rng *rand.Rand) model2d.Coord {
	if rng.Intn(5) == 0 {
		return inBox2(rng, model2d.JoinedSolid(u.parts))
	}
	i := rng.Intn(len(u.parts))
	if rng.Intn(2) == 0 {
		i = len(u.parts) - 1 - rng.Intn((len(u.parts)+1)/2)
	}
	return u.in[i].Add(model2d.XY(0.1*(rng.Float64()-0.5), 0.1*(rng.Float64()-0.5)))
}

type deriveOp2 struct {
	desc string
	run  func(j model2d.JoinedSolid) string
}

func deriveOps2(rng *rand.Rand, u *union2, pa model2d.Coord, n, first int) []deriveOp2 {
	ops := make([]deriveOp2, n)
	for i := range ops {
		ps := make([]model2d.Coord, 4)
		for k := range ps {
			ps[k] = u.point(rng)
		}
		if rng.Intn(2) == 0 {
			ps[0] = pa.Add(model2d.XY(0.04*(rng.Float64()-0.5), 0.04*(rng.Float64()-0.5)))
		}
		ask := func(s model2d.Solid) string {
			bs := make([]bool, len(ps))
			for k, p := range ps {
				bs[k] = s.Contains(p)
			}
			return bits(bs...) + "/" + c2(s.Min()) + c2(s.Max())
		}
		which := rng.Intn(6)
		if i == 0 {
			// the first derivation after A is parked: Optimize in half of the scenarios, the
			// other derivations in turn
			which = []int{0, 2, 0, 5, 0, 4, 0, 1, 0, 3}[first%10]
		}
		switch which {
		case 0:
			ops[i] = deriveOp2{"optimize", func(j model2d.JoinedSolid) string { return ask(j.Optimize()) }}
		case 1:
			ops[i] = deriveOp2{"optimize-twice", func(j model2d.JoinedSolid) string { return ask(j.Optimize()) + ask(j.Optimize()) }}
		case 2:
			ops[i] = deriveOp2{"solidmux", func(j model2d.JoinedSolid) string {
				mux := model2d.NewSolidMux(j)
				return ask(mux) + bits(mux.AllContains(ps[0])...)
			}}
		case 3:
			ops[i] = deriveOp2{"cachebounds", func(j model2d.JoinedSolid) string { return ask(model2d.CacheSolidBounds(j)) }}
		case 4:
			ops[i] = deriveOp2{"contains", func(j model2d.JoinedSolid) string { return ask(j) }}
		default:
			ops[i] = deriveOp2{"intersected-optimize", func(j model2d.JoinedSolid) string {
				return ask(model2d.IntersectedSolid{j, j.Optimize()})
			}}
		}
	}
	return ops
}

func (s *scenario) nestDerive2() {
	rng := s.c.Rng
	g := &gate{}
	u := newUnion2(rng, g)
	pa := u.point(rng)
	ops := deriveOps2(rng, u, pa, 1+rng.Intn(3), deriveRound2+1)
	deriveRound2++
	descs := make([]string, len(ops))
	for i, o := range ops {
		descs[i] = o.desc
	}
	bind := func(j model2d.JoinedSolid) (func() string, []func() string) {
		fb := make([]func() string, len(ops))
		for i, o := range ops {
			o := o
			fb[i] = func() string { return o.run(j) }
		}
		return func() string { return fmt.Sprint(j.Contains(pa)) }, fb
	}
	qa, fb := bind(u.fresh())
	g.arm(0)
	seqA := hlib.Guard(qa)
	events := g.disarm()
	seqB := make([]string, len(fb))
	for i := range fb {
		seqB[i] = hlib.Guard(fb[i])
	}
	if u.moved {
		s.c.Stat("nestderive2-union-not-in-grouped-order", 1)
	}
	if seqA == "true" {
		s.c.Stat("nestderive2-point-inside", 1)
	}
	for _, k := range parkPositions(rng, events) {
		qa, fb := bind(u.fresh())
		a, bs, parked := interrupt(g, k, qa, fb)
		after := hlib.Guard(qa)
		if parked {
			s.c.Stat("nestderive2-parked", 1)
		}
		seq, conc := compareRuns(seqA, seqB, a, bs, after)
		s.emit("nestderive2", fmt.Sprintf("s=%s moved=%v pa=%s qb=%s park=%d/%d", u.desc, u.moved, c2(pa), strings.Join(descs, ";"), k, events), seq, conc)
	}
}

// ------------------------------------------------------------------ free-running twin

// sharedDerive: n goroutines released together on ONE 3-D and ONE 2-D union over plain parts;
// goroutine i queries the unions at its own points (i even) or derives an optimized solid / a
// SolidMux from them and queries that (i odd).  Answers vs the same calls made one after the
// other on twin slices.  Nothing synchronises: this is what the race-detector leg sees.
func (s *scenario) sharedDerive(n int) {
	rng := s.c.Rng
	u3 := newUnion3(rng, nil)
	u2 := newUnion2(rng, nil)
	const per = 24
	p3 := make([][]model3d.Coord3D, n)
	p2 := make([][]model2d.Coord, n)
	for i := 0; i < n; i++ {
		for k := 0; k < per; k++ {
			p3[i] = append(p3[i], u3.point(rng))
			p2[i] = append(p2[i], u2.point(rng))
		}
	}
	answer := func(j3 model3d.JoinedSolid, j2 model2d.JoinedSolid, i int) string {
		var s3 model3d.Solid = j3
		var s2 model2d.Solid = j2
		switch i % 4 {
		case 1:
			s3, s2 = j3.Optimize(), j2.Optimize()
		case 3:
			s3, s2 = model3d.NewSolidMux(j3), model2d.NewSolidMux(j2)
		}
		bs := make([]bool, 0, 2*per)
		for k := 0; k < per; k++ {
			bs = append(bs, s3.Contains(p3[i][k]), s2.Contains(p2[i][k]))
		}
		return bits(bs...) + c3(s3.Min()) + c2(s2.Max())
	}
	seq := make([]string, n)
	t3, t2 := u3.fresh(), u2.fresh()
	for i := range seq {
		seq[i] = answer(t3, t2, i)
	}
	conc := make([]string, n)
	j3, j2 := u3.fresh(), u2.fresh()
	res := withTimeout(120*time.Second, func() string {
		par(n, func(i int) { conc[i] = answer(j3, j2, i) })
		return "ok"
	})
	out := digest(conc...)
	if res != "ok" {
		out = res
	}
	s.emit("sharedderive", fmt.Sprintf("n=%d s=%s s2=%s", n, u3.desc, u2.desc), digest(seq...), out)
}
