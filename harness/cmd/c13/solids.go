package main

// Scenarios for
//
//   - solids and fields built from function literals (SmoothJoin, SmoothJoinV2, SDFToSolid,
//     TransformSDF, ProfileSDF, TransformSolid / ScaleSolid / RotateSolid, ProfileSolid,
//     RevolveSolid, CrossSectionSolid, the boolean combinators; 3-D and 2-D) over USER-SUPPLIED
//     leaves: the working state of one Contains call (closest distances / normals so far …)
//     must be state of that call.  nestsolid / nestsolid2 park goroutine A's Contains at its
//     k-th callback into a leaf, run complete queries of goroutine B on the same solid, resume A
//     (theorems owned_state_noninterference, query_local_scratch_eq_sequential; witness
//     query_field_scratch_racy); sharedsolid is the free-running version the race detector sees.
//
//   - DualContouring.MeshInterior at every worker count with a buffer that needs several
//     passes: the interior points every worker collected in its own buffer must reach the result
//     exactly once (theorems collect_reduce_correct; witness collect_aliased_buffers_racy).

import (
	"fmt"
	"math"
	"math/rand"
	"runtime"
	"sort"
	"strings"
	"time"

	"github.com/unixpickle/model3d/model2d"
	"github.com/unixpickle/model3d/model3d"
	"verif/harness/hlib"
)

// ------------------------------------------------------------------ gated user-supplied fields and solids

type field3 interface {
	model3d.PointSDF
	model3d.NormalSDF
}

type gField3 struct {
	field3
	g *gate
}

func (f *gField3) SDF(c model3d.Coord3D) float64 {
	f.g.event()
	d := f.field3.SDF(c)
	f.g.event()
	return d
}

func (f *gField3) PointSDF(c model3d.Coord3D) (model3d.Coord3D, float64) {
	f.g.event()
	p, d := f.field3.PointSDF(c)
	f.g.event()
	return p, d
}

func (f *gField3) NormalSDF(c model3d.Coord3D) (model3d.Coord3D, float64) {
	f.g.event()
	n, d := f.field3.NormalSDF(c)
	f.g.event()
	return n, d
}

type gSolid3 struct {
	model3d.Solid
	g *gate
}

func (s *gSolid3) Contains(c model3d.Coord3D) bool {
	s.g.event()
	r := s.Solid.Contains(c)
	s.g.event()
	return r
}

type field2 interface {
	model2d.PointSDF
	model2d.NormalSDF
}

type gField2 struct {
	field2
	g *gate
}

func (f *gField2) SDF(c model2d.Coord) float64 {
	f.g.event()
	d := f.field2.SDF(c)
	f.g.event()
	return d
}

func (f *gField2) PointSDF(c model2d.Coord) (model2d.Coord, float64) {
	f.g.event()
	p, d := f.field2.PointSDF(c)
	f.g.event()
	return p, d
}

func (f *gField2) NormalSDF(c model2d.Coord) (model2d.Coord, float64) {
	f.g.event()
	n, d := f.field2.NormalSDF(c)
	f.g.event()
	return n, d
}

type gSolid2 struct {
	model2d.Solid
	g *gate
}

func (s *gSolid2) Contains(c model2d.Coord) bool {
	s.g.event()
	r := s.Solid.Contains(c)
	s.g.event()
	return r
}

// ------------------------------------------------------------------ leaves

// fieldLeaf3 is a primitive with an exact signed distance, near the origin so that leaves overlap.
func (b *builder) fieldLeaf3() (field3, string) {
	var f field3
	var d string
	switch b.rng.Intn(6) {
	case 0:
		f, d = &model3d.Sphere{Center: b.pt(0.7), Radius: b.f(0.6, 1.1)}, "sphere"
	case 1:
		lo := b.pt(0.6).Sub(model3d.XYZ(0.6, 0.6, 0.6))
		f, d = model3d.NewRect(lo, lo.Add(model3d.XYZ(b.f(0.6, 1.6), b.f(0.6, 1.6), b.f(0.6, 1.6)))), "rect"
	case 2:
		p := b.pt(0.5)
		f, d = &model3d.Capsule{P1: p, P2: p.Add(b.pt(0.9)), Radius: b.f(0.3, 0.7)}, "capsule"
	case 3:
		p := b.pt(0.5)
		f, d = &model3d.Cylinder{P1: p, P2: p.Add(model3d.XYZ(b.f(-0.6, 0.6), b.f(-0.6, 0.6), b.f(0.5, 1.2))), Radius: b.f(0.4, 0.8)}, "cylinder"
	case 4:
		f, d = &model3d.Torus{Center: b.pt(0.4), Axis: b.pt(1).Normalize(), InnerRadius: b.f(0.2, 0.35), OuterRadius: b.f(0.7, 1)}, "torus"
	default:
		f, d = model3d.MeshToSDF(model3d.NewMeshIcosphere(b.pt(0.6), b.f(0.6, 1), 2)), "mesh"
	}
	if b.g != nil {
		f = &gField3{field3: f, g: b.g}
	}
	return f, d
}

func (b *builder) solidLeaf3() (model3d.Solid, string) {
	var s model3d.Solid
	var d string
	switch b.rng.Intn(3) {
	case 0:
		s, d = &model3d.Sphere{Center: b.pt(0.7), Radius: b.f(0.6, 1.1)}, "sphere"
	case 1:
		lo := b.pt(0.6).Sub(model3d.XYZ(0.6, 0.6, 0.6))
		s, d = model3d.NewRect(lo, lo.Add(model3d.XYZ(b.f(0.6, 1.6), b.f(0.6, 1.6), b.f(0.6, 1.6)))), "rect"
	default:
		s, d = model3d.NewColliderSolid(model3d.MeshToCollider(model3d.NewMeshIcosphere(b.pt(0.6), b.f(0.6, 1), 2))), "meshsolid"
	}
	if b.g != nil {
		s = &gSolid3{Solid: s, g: b.g}
	}
	return s, d
}

func (b *builder) pt2(span float64) model2d.Coord {
	return model2d.XY(b.f(-span, span), b.f(-span, span))
}

func (b *builder) fieldLeaf2() (field2, string) {
	var f field2
	var d string
	switch b.rng.Intn(5) {
	case 0:
		f, d = &model2d.Circle{Center: b.pt2(0.7), Radius: b.f(0.6, 1.1)}, "circle"
	case 1:
		lo := b.pt2(0.6).Sub(model2d.XY(0.6, 0.6))
		f, d = model2d.NewRect(lo, lo.Add(model2d.XY(b.f(0.6, 1.6), b.f(0.6, 1.6)))), "rect2"
	case 2:
		p := b.pt2(0.5)
		f, d = &model2d.Capsule{P1: p, P2: p.Add(b.pt2(0.9)), Radius: b.f(0.3, 0.7)}, "capsule2"
	case 3:
		p := b.pt2(0.4)
		f, d = model2d.NewTriangle(p.Add(model2d.XY(-b.f(0.5, 1), -b.f(0.3, 0.8))), p.Add(model2d.XY(b.f(0.5, 1), -b.f(0.3, 0.8))), p.Add(model2d.XY(b.f(-0.3, 0.3), b.f(0.5, 1)))), "triangle2"
	default:
		k, amp := float64(2+b.rng.Intn(4)), b.f(0.1, 0.3)
		f, d = model2d.MeshToSDF(model2d.NewMeshPolar(func(t float64) float64 { return 0.9 + amp*math.Sin(k*t) }, 30+b.rng.Intn(30))), "polar"
	}
	if b.g != nil {
		f = &gField2{field2: f, g: b.g}
	}
	return f, d
}

func (b *builder) solidLeaf2() (model2d.Solid, string) {
	var s model2d.Solid
	var d string
	if b.rng.Intn(2) == 0 {
		s, d = &model2d.Circle{Center: b.pt2(0.7), Radius: b.f(0.6, 1.1)}, "circle"
	} else {
		lo := b.pt2(0.6).Sub(model2d.XY(0.6, 0.6))
		s, d = model2d.NewRect(lo, lo.Add(model2d.XY(b.f(0.6, 1.6), b.f(0.6, 1.6)))), "rect2"
	}
	if b.g != nil {
		s = &gSolid2{Solid: s, g: b.g}
	}
	return s, d
}

// ------------------------------------------------------------------ structures

var solidFamilies = []string{"smoothv2", "smooth", "sdfsolid", "bool", "xform", "profile"}

type sinfo struct{ desc string }

func (b *builder) distTransform() (model3d.DistTransform, string) {
	switch b.rng.Intn(3) {
	case 0:
		return &model3d.Translate{Offset: b.pt(0.4)}, "translate"
	case 1:
		return model3d.Rotation(b.pt(1).Normalize(), b.f(0, 3)), "rotate"
	default:
		return &model3d.Scale{Scale: b.f(0.7, 1.4)}, "scale"
	}
}

func (b *builder) solid3(family string, depth int) (model3d.Solid, sinfo) {
	if depth <= 0 && family != "smoothv2" && family != "smooth" {
		family = "leaf"
	}
	switch family {
	case "smoothv2":
		n := 2 + b.rng.Intn(2)
		fs := make([]model3d.NormalSDF, n)
		ds := make([]string, n)
		for i := range fs {
			fs[i], ds[i] = b.fieldLeaf3()
		}
		r := b.f(0.15, 0.6)
		return model3d.SmoothJoinV2(r, fs...), sinfo{desc: fmt.Sprintf("smoothv2[%.2f](%s)", r, strings.Join(ds, ","))}
	case "smooth":
		n := 2 + b.rng.Intn(2)
		fs := make([]model3d.SDF, n)
		ds := make([]string, n)
		for i := range fs {
			fs[i], ds[i] = b.fieldLeaf3()
		}
		r := b.f(0.15, 0.6)
		return model3d.SmoothJoin(r, fs...), sinfo{desc: fmt.Sprintf("smooth[%.2f](%s)", r, strings.Join(ds, ","))}
	case "sdfsolid":
		f, d := b.fieldLeaf3()
		var sdf model3d.SDF = f
		switch b.rng.Intn(3) {
		case 0:
			t, td := b.distTransform()
			sdf, d = model3d.TransformSDF(t, f), td+"sdf("+d+")"
		case 1:
			f2, d2 := b.fieldLeaf2()
			z := b.f(-1, 0)
			sdf, d = model3d.ProfileSDF(f2, z, z+b.f(0.5, 1.5)), "profilesdf("+d2+")"
		}
		return model3d.SDFToSolid(sdf, b.f(-0.1, 0.2)), sinfo{desc: "sdftosolid(" + d + ")"}
	case "bool":
		s1, i1 := b.solid3(solidFamilies[b.rng.Intn(3)], depth-1)
		s2, d2 := b.solidLeaf3()
		s3, i3 := b.solid3(solidFamilies[b.rng.Intn(len(solidFamilies))], depth-1)
		switch b.rng.Intn(6) {
		case 3:
			return model3d.StackSolids(s2, s1, s3), sinfo{desc: "stacksolids(" + d2 + "," + i1.desc + "," + i3.desc + ")"}
		case 4:
			return model3d.StackedSolid{s1, s2, s3}, sinfo{desc: "stacked(" + i1.desc + "," + d2 + "," + i3.desc + ")"}
		case 5:
			return model3d.NewSolidMux([]model3d.Solid{s2, s1, s3}), sinfo{desc: "solidmux(" + d2 + "," + i1.desc + "," + i3.desc + ")"}
		case 0:
			return model3d.JoinedSolid{s2, s1, s3}, sinfo{desc: "joined(" + d2 + "," + i1.desc + "," + i3.desc + ")"}
		case 1:
			return model3d.IntersectedSolid{s1, model3d.JoinedSolid{s2, s3}}, sinfo{desc: "intersected(" + i1.desc + ",joined(" + d2 + "," + i3.desc + "))"}
		default:
			return &model3d.SubtractedSolid{Positive: s1, Negative: s2}, sinfo{desc: "subtracted(" + i1.desc + "," + d2 + ")"}
		}
	case "xform":
		s, i := b.solid3(solidFamilies[b.rng.Intn(3)], depth-1)
		switch b.rng.Intn(4) {
		case 0:
			return model3d.TranslateSolid(s, b.pt(0.4)), sinfo{desc: "translate(" + i.desc + ")"}
		case 1:
			return model3d.RotateSolid(s, b.pt(1).Normalize(), b.f(0, 3)), sinfo{desc: "rotate(" + i.desc + ")"}
		case 2:
			return model3d.ScaleSolid(s, b.f(0.7, 1.4)), sinfo{desc: "scale(" + i.desc + ")"}
		default:
			return model3d.CacheSolidBounds(model3d.VecScaleSolid(s, model3d.XYZ(b.f(0.7, 1.3), b.f(0.7, 1.3), b.f(0.7, 1.3)))), sinfo{desc: "cachebounds(vecscale(" + i.desc + "))"}
		}
	case "profile":
		s2, d2 := b.solid2(solidFamilies2[b.rng.Intn(len(solidFamilies2))], depth-1)
		if b.rng.Intn(3) == 0 {
			return model3d.RevolveSolid(s2, model3d.Z(1)), sinfo{desc: "revolve(" + d2 + ")"}
		}
		z := b.f(-1, 0)
		return model3d.ProfileSolid(s2, z, z+b.f(0.5, 1.5)), sinfo{desc: "profile(" + d2 + ")"}
	default:
		s, d := b.solidLeaf3()
		return s, sinfo{desc: d}
	}
}

var solidFamilies2 = []string{"smoothv2", "smooth", "sdfsolid", "bool", "xform"}

func (b *builder) solid2(family string, depth int) (model2d.Solid, string) {
	if depth <= 0 && family != "smoothv2" && family != "smooth" {
		family = "leaf"
	}
	switch family {
	case "smoothv2":
		n := 2 + b.rng.Intn(2)
		fs := make([]model2d.NormalSDF, n)
		ds := make([]string, n)
		for i := range fs {
			fs[i], ds[i] = b.fieldLeaf2()
		}
		r := b.f(0.15, 0.6)
		return model2d.SmoothJoinV2(r, fs...), fmt.Sprintf("smoothv2[%.2f](%s)", r, strings.Join(ds, ","))
	case "smooth":
		n := 2 + b.rng.Intn(2)
		fs := make([]model2d.SDF, n)
		ds := make([]string, n)
		for i := range fs {
			fs[i], ds[i] = b.fieldLeaf2()
		}
		r := b.f(0.15, 0.6)
		return model2d.SmoothJoin(r, fs...), fmt.Sprintf("smooth[%.2f](%s)", r, strings.Join(ds, ","))
	case "sdfsolid":
		f, d := b.fieldLeaf2()
		return model2d.SDFToSolid(f, b.f(-0.1, 0.2)), "sdftosolid(" + d + ")"
	case "bool":
		s1, d1 := b.solid2(solidFamilies2[b.rng.Intn(3)], depth-1)
		s2, d2 := b.solidLeaf2()
		switch b.rng.Intn(3) {
		case 0:
			return model2d.JoinedSolid{s2, s1}, "joined(" + d2 + "," + d1 + ")"
		case 1:
			return model2d.IntersectedSolid{s1, s2}, "intersected(" + d1 + "," + d2 + ")"
		default:
			return &model2d.SubtractedSolid{Positive: s1, Negative: s2}, "subtracted(" + d1 + "," + d2 + ")"
		}
	case "xform":
		s, d := b.solid2(solidFamilies2[b.rng.Intn(3)], depth-1)
		switch b.rng.Intn(3) {
		case 0:
			return model2d.TranslateSolid(s, b.pt2(0.4)), "translate(" + d + ")"
		case 1:
			return model2d.RotateSolid(s, b.f(0, 3)), "rotate(" + d + ")"
		default:
			return model2d.ScaleSolid(s, b.f(0.7, 1.4)), "scale(" + d + ")"
		}
	default:
		return b.solidLeaf2()
	}
}

// ------------------------------------------------------------------ queries

func inBox3(rng *rand.Rand, s model3d.Solid) model3d.Coord3D {
	lo, hi := s.Min(), s.Max()
	f := func(a, b float64) float64 { return a + (b-a)*(rng.Float64()*1.1-0.05) }
	return model3d.XYZ(f(lo.X, hi.X), f(lo.Y, hi.Y), f(lo.Z, hi.Z))
}

func inBox2(rng *rand.Rand, s model2d.Solid) model2d.Coord {
	lo, hi := s.Min(), s.Max()
	f := func(a, b float64) float64 { return a + (b-a)*(rng.Float64()*1.1-0.05) }
	return model2d.XY(f(lo.X, hi.X), f(lo.Y, hi.Y))
}

// nearSurface3 returns a point close to the surface of s (a few bisection steps between a point
// inside and a point outside), where the answer is most sensitive to the query's working state.
func nearSurface3(rng *rand.Rand, s model3d.Solid) (model3d.Coord3D, bool) {
	var in, out model3d.Coord3D
	haveIn, haveOut := false, false
	for try := 0; try < 200 && !(haveIn && haveOut); try++ {
		p := inBox3(rng, s)
		if s.Contains(p) {
			in, haveIn = p, true
		} else {
			out, haveOut = p, true
		}
	}
	if !(haveIn && haveOut) {
		return inBox3(rng, s), false
	}
	for i, n := 0, 2+rng.Intn(9); i < n; i++ {
		m := in.Mid(out)
		if s.Contains(m) {
			in = m
		} else {
			out = m
		}
	}
	if rng.Intn(2) == 0 {
		return in, true
	}
	return out, true
}

func nearSurface2(rng *rand.Rand, s model2d.Solid) (model2d.Coord, bool) {
	var in, out model2d.Coord
	haveIn, haveOut := false, false
	for try := 0; try < 200 && !(haveIn && haveOut); try++ {
		p := inBox2(rng, s)
		if s.Contains(p) {
			in, haveIn = p, true
		} else {
			out, haveOut = p, true
		}
	}
	if !(haveIn && haveOut) {
		return inBox2(rng, s), false
	}
	for i, n := 0, 2+rng.Intn(9); i < n; i++ {
		m := in.Mid(out)
		if s.Contains(m) {
			in = m
		} else {
			out = m
		}
	}
	if rng.Intn(2) == 0 {
		return in, true
	}
	return out, true
}

func pickPoint3(rng *rand.Rand, s model3d.Solid) model3d.Coord3D {
	if rng.Intn(3) == 0 {
		return inBox3(rng, s)
	}
	p, _ := nearSurface3(rng, s)
	return p
}

func pickPoint2(rng *rand.Rand, s model2d.Solid) model2d.Coord {
	if rng.Intn(3) == 0 {
		return inBox2(rng, s)
	}
	p, _ := nearSurface2(rng, s)
	return p
}

// nestsolid: interrupted Contains on a 3-D solid built from function literals over gated leaves.
func (s *scenario) nestsolid(family string) {
	rng := s.c.Rng
	g := &gate{}
	b := &builder{rng: rng, g: g}
	solid, info := b.solid3(family, 2)
	pa := pickPoint3(rng, solid)
	pbs := make([]model3d.Coord3D, 1+rng.Intn(3))
	for i := range pbs {
		pbs[i] = pickPoint3(rng, solid)
	}
	qa := func() string { return fmt.Sprint(solid.Contains(pa)) }
	g.arm(0)
	seqA := hlib.Guard(qa)
	events := g.disarm()
	seqB := make([]string, len(pbs))
	fb := make([]func() string, len(pbs))
	qbDesc := make([]string, len(pbs))
	for i, p := range pbs {
		p := p
		fb[i] = func() string { return fmt.Sprint(solid.Contains(p)) }
		seqB[i] = hlib.Guard(fb[i])
		qbDesc[i] = c3(p)
	}
	s.c.Stat("nestsolid-events", events)
	for _, k := range parkPositions(rng, events) {
		a, bs, parked := interrupt(g, k, qa, fb)
		after := hlib.Guard(qa)
		if parked {
			s.c.Stat("nestsolid-parked", 1)
		}
		seq, conc := compareRuns(seqA, seqB, a, bs, after)
		s.emit("nestsolid", fmt.Sprintf("fam=%s s=%s pa=%s pb=%s park=%d/%d", family, info.desc, c3(pa), strings.Join(qbDesc, ";"), k, events), seq, conc)
	}
}

// nestsolid2: the same for 2-D solids.
func (s *scenario) nestsolid2(family string) {
	rng := s.c.Rng
	g := &gate{}
	b := &builder{rng: rng, g: g}
	solid, desc := b.solid2(family, 2)
	pa := pickPoint2(rng, solid)
	pbs := make([]model2d.Coord, 1+rng.Intn(3))
	for i := range pbs {
		pbs[i] = pickPoint2(rng, solid)
	}
	qa := func() string { return fmt.Sprint(solid.Contains(pa)) }
	g.arm(0)
	seqA := hlib.Guard(qa)
	events := g.disarm()
	seqB := make([]string, len(pbs))
	fb := make([]func() string, len(pbs))
	qbDesc := make([]string, len(pbs))
	for i, p := range pbs {
		p := p
		fb[i] = func() string { return fmt.Sprint(solid.Contains(p)) }
		seqB[i] = hlib.Guard(fb[i])
		qbDesc[i] = c2(p)
	}
	s.c.Stat("nestsolid2-events", events)
	for _, k := range parkPositions(rng, events) {
		a, bs, parked := interrupt(g, k, qa, fb)
		after := hlib.Guard(qa)
		if parked {
			s.c.Stat("nestsolid2-parked", 1)
		}
		seq, conc := compareRuns(seqA, seqB, a, bs, after)
		s.emit("nestsolid2", fmt.Sprintf("fam=%s s=%s pa=%s pb=%s park=%d/%d", family, desc, c2(pa), strings.Join(qbDesc, ";"), k, events), seq, conc)
	}
}

// sharedsolid: n goroutines released together, each with its own list of points, on one solid
// over plain leaves (3-D and 2-D); answers vs sequential use.  No gate, nothing that
// synchronises: this is what the race-detector leg sees of these structures.
func (s *scenario) sharedsolid(n int, family string) {
	rng := s.c.Rng
	b := &builder{rng: rng}
	solid, info := b.solid3(family, 2)
	solid2, desc2 := b.solid2(solidFamilies2[rng.Intn(len(solidFamilies2))], 2)
	const per = 48
	p3 := make([][]model3d.Coord3D, n)
	p2 := make([][]model2d.Coord, n)
	answer := func(i int) string {
		var sb strings.Builder
		for j := range p3[i] {
			if solid.Contains(p3[i][j]) {
				sb.WriteByte('1')
			} else {
				sb.WriteByte('0')
			}
			if solid2.Contains(p2[i][j]) {
				sb.WriteByte('1')
			} else {
				sb.WriteByte('0')
			}
		}
		return sb.String()
	}
	seq := make([]string, n)
	for i := range p3 {
		for j := 0; j < per; j++ {
			p3[i] = append(p3[i], pickPoint3(rng, solid))
			p2[i] = append(p2[i], pickPoint2(rng, solid2))
		}
		seq[i] = answer(i)
	}
	conc := make([]string, n)
	res := withTimeout(120*time.Second, func() string {
		par(n, func(i int) { conc[i] = answer(i) })
		return "ok"
	})
	out := digest(conc...)
	if res != "ok" {
		out = res
	}
	s.emit("sharedsolid", fmt.Sprintf("n=%d fam=%s s=%s s2=%s", n, family, info.desc, desc2), digest(seq...), out)
}

// ------------------------------------------------------------------ DualContouring.MeshInterior at every worker count

// yieldSolid answers like the wrapped solid (a pure function) but lets other goroutines run in
// the middle of every call, so that the workers of one buffer pass overlap whatever the number
// of processors.
type yieldSolid struct{ model3d.Solid }

func (y yieldSolid) Contains(c model3d.Coord3D) bool {
	runtime.Gosched()
	return y.Solid.Contains(c)
}

func (s *scenario) dcInterior() {
	rng := s.c.Rng
	b := &builder{rng: rng}
	var solid model3d.Solid
	desc := ""
	switch rng.Intn(3) {
	case 0:
		solid, desc = &model3d.Sphere{Center: b.pt(0.3), Radius: b.f(0.7, 1.2)}, "sphere"
	case 1:
		solid, desc = model3d.JoinedSolid{
			&model3d.Sphere{Center: model3d.XYZ(b.f(0, 0.6), 0, 0), Radius: b.f(0.6, 1)},
			model3d.NewRect(model3d.XYZ(-0.5, -0.25, -0.9), model3d.XYZ(1.2, 0.5, 0.3+b.f(0, 0.8))),
		}, "joined(sphere,rect)"
	default:
		solid, desc = &model3d.Torus{Center: b.pt(0.2), Axis: model3d.XYZ(b.f(-0.3, 0.3), b.f(-0.3, 0.3), 1).Normalize(),
			InnerRadius: b.f(0.25, 0.4), OuterRadius: b.f(0.8, 1.1)}, "torus"
	}
	delta := b.f(0.06, 0.12)
	size := solid.Max().Sub(solid.Min())
	nx, ny, nz := int(size.X/delta)+3, int(size.Y/delta)+3, int(size.Z/delta)+3
	// a buffer of 4 … 9 grid layers: several passes over the volume
	rows := 4 + rng.Intn(6)
	bufSize := nx * ny * rows
	passes := 1
	if nz > rows {
		passes = 1 + (nz-rows+rows-3)/(rows-2)
	}
	s.c.Stat("dcinterior-passes", passes)
	runDC := func(maxGos int, sol model3d.Solid) string {
		dc := &model3d.DualContouring{S: model3d.SolidSurfaceEstimator{Solid: sol}, Delta: delta, MaxGos: maxGos, BufferSize: bufSize}
		mesh, interior := dc.MeshInterior()
		ss := make([]string, len(interior))
		for i, p := range interior {
			ss[i] = c3(p)
		}
		sort.Strings(ss)
		return fmt.Sprintf("interior=%d:%s/mesh=%s", len(interior), digest(ss...), meshDigest(mesh))
	}
	seq := withTimeout(120*time.Second, func() string { return runDC(1, solid) })
	for _, gos := range []int{2, 3, 5, 8} {
		conc := withTimeout(120*time.Second, func() string { return runDC(gos, yieldSolid{solid}) })
		s.emit("dcinterior", fmt.Sprintf("s=%s delta=%s bufrows=%d passes=%d maxgos=%d", desc, hx(delta), rows, passes, gos), seq, conc)
	}
}

// ------------------------------------------------------------------ mesh fields: an answer does not depend on earlier queries

// sdfhist: a mesh field (MeshToSDF, 3-D and 2-D) is asked a list of points -- among them points
// with several equally near faces (the centre of a symmetric mesh, points of its symmetry
// planes), where the reported face / point / normal is decided by the order in which the
// distance tree is searched --, then answers unrelated queries, then is asked the same points
// again.  An immutable query structure answers alike (owned_state_noninterference: the shared
// memory is unchanged); one that re-orders itself during a query does not.
func (s *scenario) sdfhist() {
	rng := s.c.Rng
	var m3 *model3d.Mesh
	d3 := ""
	switch rng.Intn(4) {
	case 0:
		m3, d3 = model3d.NewMeshRect(model3d.XYZ(-1, -1, -1), model3d.XYZ(1, 1, 1)), "cube"
	case 1:
		a, c := 0.5+rng.Float64(), 0.5+rng.Float64()
		m3, d3 = model3d.NewMeshRect(model3d.XYZ(-a, -a, -c), model3d.XYZ(a, a, c)), "box"
	case 2:
		m3, d3 = model3d.NewMeshIcosphere(model3d.Coord3D{}, 1, 1+rng.Intn(3)), "icosphere"
	default:
		m3, d3 = model3d.NewMeshTorus(model3d.Coord3D{}, model3d.Z(1), 0.3, 1, 4+rng.Intn(4), 6+rng.Intn(6)), "torus"
	}
	sdf3 := model3d.MeshToSDF(m3)
	lo, hi := m3.Min(), m3.Max()
	ctr := lo.Mid(hi)
	pts3 := []model3d.Coord3D{ctr, model3d.XYZ(ctr.X, ctr.Y, hi.Z*0.5), model3d.XYZ(hi.X*0.5, ctr.Y, ctr.Z),
		model3d.XYZ(ctr.X, hi.Y+1, ctr.Z), model3d.XYZ(hi.X+1, hi.Y+1, ctr.Z)}
	for i := 0; i < 6; i++ {
		pts3 = append(pts3, model3d.XYZ(lo.X+(hi.X-lo.X)*rng.Float64(), lo.Y+(hi.Y-lo.Y)*rng.Float64(), lo.Z+(hi.Z-lo.Z)*rng.Float64()))
	}
	ask3 := func() string {
		var sb strings.Builder
		for _, p := range pts3 {
			f, q, d := sdf3.FaceSDF(p)
			n, _ := sdf3.NormalSDF(p)
			q2, _ := sdf3.PointSDF(p)
			fmt.Fprintf(&sb, "%s%s%s|%s%s%s%s;", c3(f[0]), c3(f[1]), c3(f[2]), c3(q), hx(d), c3(n), c3(q2))
		}
		return digest(sb.String())
	}
	before3 := ask3()
	for i := 0; i < 40; i++ {
		p := model3d.XYZ(lo.X-1+(hi.X-lo.X+2)*rng.Float64(), lo.Y-1+(hi.Y-lo.Y+2)*rng.Float64(), lo.Z-1+(hi.Z-lo.Z+2)*rng.Float64())
		sdf3.SDF(p)
	}
	s.emit("sdfhist", fmt.Sprintf("dim=3 mesh=%s faces=%d points=%d", d3, len(m3.TriangleSlice()), len(pts3)), before3, ask3())

	var m2 *model2d.Mesh
	d2 := ""
	switch rng.Intn(3) {
	case 0:
		m2, d2 = model2d.NewMeshRect(model2d.XY(-1, -1), model2d.XY(1, 1)), "square"
	case 1:
		m2, d2 = model2d.NewMeshRect(model2d.XY(-1-rng.Float64(), -1), model2d.XY(1+rng.Float64(), 1)), "rect"
	default:
		m2, d2 = model2d.NewMeshPolar(func(t float64) float64 { return 1 }, 4*(2+rng.Intn(8))), "polygon"
	}
	sdf2 := model2d.MeshToSDF(m2)
	lo2, hi2 := m2.Min(), m2.Max()
	ctr2 := lo2.Mid(hi2)
	pts2 := []model2d.Coord{ctr2, model2d.XY(ctr2.X, hi2.Y*0.5), model2d.XY(hi2.X*0.5, ctr2.Y), model2d.XY(hi2.X+1, hi2.Y+1)}
	for i := 0; i < 6; i++ {
		pts2 = append(pts2, model2d.XY(lo2.X+(hi2.X-lo2.X)*rng.Float64(), lo2.Y+(hi2.Y-lo2.Y)*rng.Float64()))
	}
	ask2 := func() string {
		var sb strings.Builder
		for _, p := range pts2 {
			f, q, d := sdf2.FaceSDF(p)
			n, _ := sdf2.NormalSDF(p)
			fmt.Fprintf(&sb, "%s%s|%s%s%s;", c2(f[0]), c2(f[1]), c2(q), hx(d), c2(n))
		}
		return digest(sb.String())
	}
	before2 := ask2()
	for i := 0; i < 40; i++ {
		sdf2.SDF(model2d.XY(lo2.X-1+(hi2.X-lo2.X+2)*rng.Float64(), lo2.Y-1+(hi2.Y-lo2.Y+2)*rng.Float64()))
	}
	s.emit("sdfhist", fmt.Sprintf("dim=2 mesh=%s segs=%d points=%d", d2, len(m2.SegmentSlice()), len(pts2)), before2, ask2())
}

// meshing2: the 2-D marching routines (worker pool of MarchingSquaresFilter) at every GOMAXPROCS.
func (s *scenario) meshing2() {
	rng := s.c.Rng
	var solid model2d.Solid = model2d.JoinedSolid{
		&model2d.Circle{Center: model2d.XY(rng.Float64(), 0), Radius: 0.6 + 0.5*rng.Float64()},
		model2d.NewRect(model2d.XY(-0.5, -0.25), model2d.XY(1.5, 0.5+rng.Float64())),
	}
	if rng.Intn(2) == 0 {
		solid = model2d.SmoothJoinV2(0.2+0.3*rng.Float64(), &model2d.Circle{Center: model2d.XY(-0.4, 0), Radius: 0.7},
			&model2d.Capsule{P1: model2d.XY(0.2, -0.1), P2: model2d.XY(1, 0.4), Radius: 0.3 + 0.2*rng.Float64()},
			model2d.NewRect(model2d.XY(-0.3, -0.9), model2d.XY(0.5, 0.2)))
	}
	delta := 0.01 + 0.02*rng.Float64()
	which := rng.Intn(4)
	dig := func(m *model2d.Mesh) string {
		ss := m.SegmentSlice()
		o := make([]string, len(ss))
		for i, sg := range ss {
			o[i] = c2(sg[0]) + c2(sg[1])
		}
		sort.Strings(o)
		return fmt.Sprintf("%d:", len(ss)) + digest(o...)
	}
	s.atProcs("meshing2", fmt.Sprintf("which=%d", which), func() string {
		switch which {
		case 0:
			return dig(model2d.MarchingSquares(solid, delta))
		case 1:
			return dig(model2d.MarchingSquaresSearch(solid, delta, 5))
		case 2:
			return dig(model2d.MarchingSquaresFilter(solid, func(r *model2d.Rect) bool { return true }, delta))
		default:
			return dig(model2d.MarchingSquaresC2F(solid, 4*delta, delta, 0, 4))
		}
	})
}
