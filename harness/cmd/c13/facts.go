package main

// Fact extractor for C13: reads the CURRENT source of the anchored files with
// go/ast and emits lean/M3d/Gen/ConcFacts.lean — the *shape* of the code that
// the concurrency model (lean/M3d/Model/Conc.lean) assumes, as data:
//
//   * getVertexToFace (model3d, model2d): the statement sequence as DclTok
//     tokens (atomic load, return-if-set, lock, deferred unlock, re-check,
//     alloc, build, atomic store, return);
//   * every worker closure in the anchored files (go func literals, closures
//     passed to essentials.ConcurrentMap / StatefulConcurrentMap /
//     ReduceConcurrentMap, mapCoordinates callbacks): every effect on state
//     captured from outside the worker, classified as own-index write,
//     own-element write, locked, channel op, sync.Map/atomic call, or —
//     unsafe — plain write / unguarded mutating call;
//   * mapCoordinates' fill/close/spawn order, HeightMap.updateAt's
//     read-compare-write, CacheScalarFunc's use of sync.Map.
//
// The analysis is syntactic (no type information); what it cannot see is
// listed in notes/C13.md.

import (
	"bytes"
	"fmt"
	"go/ast"
	"go/parser"
	"go/printer"
	"go/token"
	"os"
	"path/filepath"
	"sort"
	"strings"

	"verif/harness/hlib"
)

func init() {
	hlib.Generators["ConcFacts"] = genConcFacts
}

var anchoredFiles = []string{
	"model3d/mesh.go", "model2d/mesh.go", "model3d/collisions.go", "model3d/sdf.go",
	"model3d/mc.go", "model3d/dc.go", "model2d/rasterize.go", "model2d/curves.go",
	"render3d/concurrency.go", "render3d/ray_renderer.go", "render3d/raycast.go",
	"numerical/k_means.go", "toolbox3d/height_map.go",
	// not anchors of the property, but the remaining worker pools of the same packages
	"model2d/marching.go", "model3d/export.go", "toolbox3d/color_func.go",
}

// Packages whose query methods are checked for receiver writes.
var queryPackages = []string{"model2d", "model3d", "render3d", "toolbox3d"}

// Query methods that must still be found (so that the emptiness of queryReceiverWrites is not
// vacuous after a refactor that hides them from the extractor).
var querySites = map[string]bool{
	"model3d.JoinedCollider.RayCollisions": true, "model3d.JoinedCollider.FirstRayCollision": true,
	"model3d.JoinedCollider.SphereCollision": true,
	"model3d.profileCollider.RayCollisions":  true, "model3d.profileCollider.FirstRayCollision": true,
	"model3d.profileCollider.SphereCollision": true,
	"model3d.SolidCollider.RayCollisions":     true, "model3d.colliderSDF.SDF": true, "model3d.meshSDF.SDF": true,
	"model3d.ColliderSolid.Contains": true, "model3d.transformedCollider.RayCollisions": true,
	"model2d.JoinedCollider.CircleCollision": true, "model2d.ColliderSolid.Contains": true,
	"render3d.colorFuncObject.Cast": true, "render3d.ColliderObject.Cast": true, "render3d.JoinedObject.Cast": true,
	"render3d.FilteredObject.Cast": true, "render3d.PhongMaterial.BSDF": true,
	// enumerations of a mesh and the entry points of a renderer (iterate_private_list_eq_sequential,
	// renderer_calls_private_config_eq_sequential)
	"model3d.Mesh.IterateSorted": true, "model2d.Mesh.IterateSorted": true,
	"render3d.RecursiveRayTracer.RayVariance": true, "render3d.BidirPathTracer.RayVariance": true,
	"render3d.RecursiveRayTracer.Render": true, "render3d.BidirPathTracer.Render": true,
	// derivations of a shared union (optimize_private_copy_eq_sequential)
	"model3d.JoinedSolid.Optimize": true, "model2d.JoinedSolid.Optimize": true,
	"model3d.JoinedSolid.Contains": true, "model2d.JoinedSolid.Contains": true,
}

// Query closures that must still be found.
var closureSites = map[string]bool{
	"model3d.SmoothJoin#CheckedFuncSolid1": true, "model3d.SmoothJoinV2#CheckedFuncSolid1": true,
	"model2d.SmoothJoin#CheckedFuncSolid1": true, "model2d.SmoothJoinV2#CheckedFuncSolid1": true,
	"model3d.SDFToSolid#CheckedFuncSolid1": true, "model3d.ProfileSolid#CheckedFuncSolid1": true,
	"model2d.CacheScalarFunc#return1": true,
}

type eff struct{ kind, target string }

type workerFact struct {
	file, fn, launcher string
	effects            []eff
}

func exprStr(fset *token.FileSet, n ast.Node) string {
	var b bytes.Buffer
	printer.Fprint(&b, fset, n)
	s := strings.Join(strings.Fields(b.String()), " ")
	if len(s) > 60 {
		s = s[:60] + "…"
	}
	return s
}

// rootIdent strips selectors, indices, stars, parens, calls' receivers.
func rootIdent(e ast.Expr) *ast.Ident {
	for {
		switch x := e.(type) {
		case *ast.Ident:
			return x
		case *ast.SelectorExpr:
			e = x.X
		case *ast.IndexExpr:
			e = x.X
		case *ast.StarExpr:
			e = x.X
		case *ast.ParenExpr:
			e = x.X
		case *ast.SliceExpr:
			e = x.X
		case *ast.UnaryExpr:
			e = x.X
		case *ast.TypeAssertExpr:
			e = x.X
		default:
			return nil
		}
	}
}

func mentions(e ast.Node, set map[string]bool) bool {
	found := false
	ast.Inspect(e, func(n ast.Node) bool {
		if id, ok := n.(*ast.Ident); ok && set[id.Name] {
			found = true
		}
		return !found
	})
	return found
}

// ---------------------------------------------------------------- package analysis

type pkgInfo struct {
	// method name -> some definition mutates its receiver with plain writes (transitively)
	mutating map[string]bool
	// method name -> some definition does NOT mutate its receiver
	pure map[string]bool
	// accessor methods of the form `return &recv.Field[int(param)]`
	accessor map[string]bool
	// query methods (queryMethodNames) with the receiver writes they perform: "Type.Method: lhs"
	// (direct writes) or "Type.Method: via Other" (through a mutating method of the same type)
	queryMut []string
	// every query method seen, "Type.Method"
	queryAll []string
	// function / method name -> package-level variables it writes with plain assignments,
	// directly or through functions it calls (calls resolved by name: an over-approximation)
	globalWriters map[string][]string
	// query closures (function literals that become the query method of a Solid / SDF / color
	// function: arguments of FuncSolid, CheckedFuncSolid, FuncSDF, FuncPointSDF, or returned by
	// the enclosing function): every site "Func#kind<k>", and the writes to variables captured
	// from the enclosing function (or package level) they perform, "Func#kind<k>: lhs"
	closureAll []string
	closureMut []string
}

// Names of the read-only query methods of the library's interfaces (Collider and its
// refinements, Solid, the SDF family, render3d.Object, Material, AreaLight, FocusPoint, and the
// read-only mesh queries): the methods that the documentation allows to be called from many
// goroutines at once on one value.
var queryMethodNames = map[string]bool{
	"Min": true, "Max": true, "Contains": true,
	"SDF": true, "PointSDF": true, "NormalSDF": true, "FaceSDF": true, "BarycentricSDF": true,
	"RayCollisions": true, "FirstRayCollision": true, "SphereCollision": true, "CircleCollision": true,
	"TriangleCollisions": true, "SegmentCollision": true, "RectCollision": true,
	"Cast": true, "BSDF": true, "SampleSource": true, "SourceDensity": true, "Emission": true, "Ambient": true,
	"SampleLight": true, "TotalEmission": true, "SampleFocus": true, "FocusDensity": true,
	"Find": true, "Neighbors": true, "VertexSlice": true, "IterateVertices": true, "Iterate": true,
	"IterateSorted": true, "TriangleSlice": true, "SegmentSlice": true, "Dist": true,
	// read-only use of one renderer: the entry points of RayCaster, RecursiveRayTracer,
	// BidirPathTracer (see rendererEntryNames)
	"Render": true, "RenderVariance": true, "RayVariance": true,
	// read-only derivations: "creates a version of the solid" / a copy of the mesh
	// (optimize_private_copy_eq_sequential)
	"Optimize": true, "Copy": true, "DeepCopy": true, "MapCoords": true,
}

// The renderers' entry points are query methods only on the exported renderer types: the
// unexported rayRenderer is a value every call creates for itself (r.rayRenderer()), so a write
// to it is a write to state of the call.
var rendererEntryNames = map[string]bool{"Render": true, "RenderVariance": true, "RayVariance": true}

var syncMethodNames = map[string]bool{"Lock": true, "Unlock": true, "RLock": true, "RUnlock": true,
	"Load": true, "Store": true, "Wait": true, "Done": true, "LoadOrStore": true, "CompareAndSwap": true}

func analysePackage(dir string) (*pkgInfo, error) {
	fset := token.NewFileSet()
	entries, err := os.ReadDir(dir)
	if err != nil {
		return nil, err
	}
	type meth struct {
		typ, name string
		direct    bool
		deps      []string // methods of the same receiver type
		writes    []string // receiver locations written directly
	}
	var meths []meth
	info := &pkgInfo{mutating: map[string]bool{}, pure: map[string]bool{}, accessor: map[string]bool{},
		globalWriters: map[string][]string{}}
	var parsed []*ast.File
	defer func() {
		info.globalWriters = globalWriters(parsed)
		info.closureAll, info.closureMut = queryClosures(fset, parsed)
	}()
	for _, e := range entries {
		n := e.Name()
		if !strings.HasSuffix(n, ".go") || strings.HasSuffix(n, "_test.go") || strings.HasPrefix(n, "verif_export") {
			continue
		}
		f, err := parser.ParseFile(fset, filepath.Join(dir, n), nil, 0)
		if err != nil {
			return nil, err
		}
		parsed = append(parsed, f)
	}
	// plain functions of the package that store into the elements of a slice argument
	// (GroupBounders, GroupTriangles, ...): handing them memory of the receiver writes it
	pw := paramWriters(parsed)
	for _, f := range parsed {
		for _, d := range f.Decls {
			fd, ok := d.(*ast.FuncDecl)
			if !ok || fd.Recv == nil || fd.Body == nil || len(fd.Recv.List) == 0 || len(fd.Recv.List[0].Names) == 0 {
				continue
			}
			recv := fd.Recv.List[0].Names[0].Name
			_, ptrRecv := fd.Recv.List[0].Type.(*ast.StarExpr)
			typ := strings.TrimPrefix(exprStr(fset, fd.Recv.List[0].Type), "*")
			if i := strings.Index(typ, "["); i >= 0 {
				typ = typ[:i]
			}
			m := meth{typ: typ, name: fd.Name.Name}
			// accessor?
			if len(fd.Body.List) == 1 {
				if rs, ok := fd.Body.List[0].(*ast.ReturnStmt); ok && len(rs.Results) == 1 {
					if u, ok := rs.Results[0].(*ast.UnaryExpr); ok && u.Op == token.AND {
						if ix, ok := u.X.(*ast.IndexExpr); ok {
							if r := rootIdent(ix.X); r != nil && r.Name == recv && fd.Type.Params != nil {
								params := map[string]bool{}
								for _, p := range fd.Type.Params.List {
									for _, nm := range p.Names {
										params[nm.Name] = true
									}
								}
								if mentions(ix.Index, params) {
									info.accessor[fd.Name.Name] = true
								}
							}
						}
					}
				}
			}
			// locals that certainly alias memory of the receiver: `x := recv.f[a:b]`
			// (a slice expression shares the backing array)
			alias := map[string]bool{}
			ast.Inspect(fd.Body, func(n ast.Node) bool {
				as, ok := n.(*ast.AssignStmt)
				if !ok || len(as.Lhs) != len(as.Rhs) {
					return true
				}
				for i, r := range as.Rhs {
					se, ok := r.(*ast.SliceExpr)
					if !ok {
						continue
					}
					if root := rootIdent(se.X); root != nil && (root.Name == recv || alias[root.Name]) {
						if id, ok := as.Lhs[i].(*ast.Ident); ok && id.Name != "_" && id.Name != recv {
							alias[id.Name] = true
						}
					}
				}
				return true
			})
			isRecvWrite := func(lhs ast.Expr) bool {
				if id, ok := lhs.(*ast.Ident); ok && id.Name == recv {
					return false // rebinding the receiver variable itself
				}
				r := rootIdent(lhs)
				if r != nil && alias[r.Name] {
					// element write through an alias of the receiver's backing array
					if _, ok := lhs.(*ast.IndexExpr); ok {
						return true
					}
					return false
				}
				if r == nil || r.Name != recv {
					return false
				}
				// a value receiver only mutates through slices/maps/pointers it holds: an index
				// expression somewhere in the chain
				if !ptrRecv {
					has := false
					ast.Inspect(lhs, func(n ast.Node) bool {
						if _, ok := n.(*ast.IndexExpr); ok {
							has = true
						}
						return true
					})
					return has
				}
				return true
			}
			ast.Inspect(fd.Body, func(n ast.Node) bool {
				switch x := n.(type) {
				case *ast.AssignStmt:
					if x.Tok != token.DEFINE {
						for _, l := range x.Lhs {
							if isRecvWrite(l) {
								m.direct = true
								m.writes = append(m.writes, exprStr(fset, l))
							}
						}
					}
				case *ast.IncDecStmt:
					if isRecvWrite(x.X) {
						m.direct = true
						m.writes = append(m.writes, exprStr(fset, x.X))
					}
				case *ast.CallExpr:
					if id, ok := x.Fun.(*ast.Ident); ok && (id.Name == "delete" || id.Name == "copy") && len(x.Args) > 0 {
						if r := rootIdent(x.Args[0]); r != nil && (r.Name == recv || alias[r.Name]) {
							m.direct = true
							m.writes = append(m.writes, exprStr(fset, x))
						}
					}
					// append into an alias of the receiver's backing array writes that array
					if id, ok := x.Fun.(*ast.Ident); ok && id.Name == "append" && len(x.Args) > 0 {
						if r, ok := x.Args[0].(*ast.Ident); ok && alias[r.Name] {
							m.direct = true
							m.writes = append(m.writes, exprStr(fset, x))
						}
					}
					// a function that stores into the elements of its k-th argument is handed
					// memory of the receiver: the receiver itself when it is a value of a slice
					// type (`GroupBounders(j)`), a slice expression of it, a field of it
					// (`GroupTriangles(m.cache)`), or a local alias of its backing array
					if name := calleeName(x.Fun); name != "" {
						for k := range pw[name] {
							if k < len(x.Args) && recvMemory(x.Args[k], recv, ptrRecv, alias) {
								m.direct = true
								m.writes = append(m.writes, exprStr(fset, x)+" ("+name+" stores into the elements of its argument "+fmt.Sprint(k)+")")
							}
						}
					}
				case *ast.SelectorExpr:
					// recv.M(...) or the method value recv.M: a method of the same type
					if id, ok := x.X.(*ast.Ident); ok && id.Name == recv {
						m.deps = append(m.deps, x.Sel.Name)
					}
				}
				return true
			})
			meths = append(meths, m)
		}
	}
	mut := map[int]bool{}
	for changed := true; changed; {
		changed = false
		for i, m := range meths {
			if mut[i] {
				continue
			}
			if m.direct {
				mut[i] = true
				changed = true
				continue
			}
			for _, d := range m.deps {
				for j, m2 := range meths {
					if m2.name == d && m2.typ == m.typ && mut[j] {
						mut[i] = true
						changed = true
					}
				}
			}
		}
	}
	for i, m := range meths {
		if mut[i] {
			info.mutating[m.name] = true
		} else {
			info.pure[m.name] = true
		}
		if !queryMethodNames[m.name] || (rendererEntryNames[m.name] && !ast.IsExported(m.typ)) {
			continue
		}
		info.queryAll = append(info.queryAll, m.typ+"."+m.name)
		if !mut[i] {
			continue
		}
		for _, w := range m.writes {
			info.queryMut = append(info.queryMut, m.typ+"."+m.name+": "+w)
		}
		if !m.direct {
			for _, d := range m.deps {
				for j, m2 := range meths {
					if m2.name == d && m2.typ == m.typ && mut[j] {
						info.queryMut = append(info.queryMut, m.typ+"."+m.name+": via "+d)
					}
				}
			}
		}
	}
	sort.Strings(info.queryAll)
	sort.Strings(info.queryMut)
	return info, nil
}

// calleeName: the bare name of a called plain function, `F(...)` or the generic instantiation
// `F[T](...)`; "" for everything else (methods, other packages, function values).
func calleeName(fun ast.Expr) string {
	switch f := fun.(type) {
	case *ast.Ident:
		return f.Name
	case *ast.IndexExpr:
		if id, ok := f.X.(*ast.Ident); ok {
			return id.Name
		}
	case *ast.IndexListExpr:
		if id, ok := f.X.(*ast.Ident); ok {
			return id.Name
		}
	case *ast.ParenExpr:
		return calleeName(f.X)
	}
	return ""
}

// fieldRoot: the root identifier of a chain of selectors / parens / stars without calls and
// without index expressions (`recv`, `recv.f`, `recv.a.b`).
func fieldRoot(e ast.Expr) *ast.Ident {
	switch x := e.(type) {
	case *ast.Ident:
		return x
	case *ast.SelectorExpr:
		return fieldRoot(x.X)
	case *ast.ParenExpr:
		return fieldRoot(x.X)
	case *ast.StarExpr:
		return fieldRoot(x.X)
	}
	return nil
}

// recvMemory: does the argument share a backing array with the receiver?  The receiver itself
// (value receiver: a named slice type; a struct would be a copy, but then the callee could not
// index it), a field of the receiver, a slice expression of either, or a local alias.
func recvMemory(arg ast.Expr, recv string, ptrRecv bool, alias map[string]bool) bool {
	if se, ok := arg.(*ast.SliceExpr); ok {
		arg = se.X
	}
	if id, ok := arg.(*ast.Ident); ok {
		return alias[id.Name] || (id.Name == recv && !ptrRecv)
	}
	if r := fieldRoot(arg); r != nil && r.Name == recv {
		return true
	}
	return false
}

// Functions from outside the repository that store into the elements of their first argument.
var externalSliceWriters = map[string]bool{"sort.Slice": true, "sort.SliceStable": true, "sort.Sort": true,
	"sort.Stable": true, "sort.Ints": true, "sort.Float64s": true, "sort.Strings": true, "rand.Shuffle": false}

// paramWriters computes, for every plain function (no receiver) of a package, the indices of
// the parameters whose ELEMENTS it stores into: `p[i] = v`, `p[i]++`, `copy(p, …)`,
// `sort.Slice(p, …)`, `append(p[:k], …)`, the same through a local `q := p[a:b]`, or by handing
// `p` / `p[a:b]` to a function of the package that does (fixed point; callees resolved by bare
// name).  A store through an element (`p[i].f = v`, p a slice of pointers) is not a store into
// the slice; a parameter that the body rebinds to another value is not followed.
func paramWriters(files []*ast.File) map[string]map[int]bool {
	type fn struct {
		name   string
		params []string
		body   *ast.BlockStmt
	}
	var fns []fn
	for _, f := range files {
		for _, d := range f.Decls {
			fd, ok := d.(*ast.FuncDecl)
			if !ok || fd.Recv != nil || fd.Body == nil || fd.Type.Params == nil {
				continue
			}
			var ps []string
			for _, fld := range fd.Type.Params.List {
				if len(fld.Names) == 0 {
					ps = append(ps, "_")
				}
				for _, nm := range fld.Names {
					ps = append(ps, nm.Name)
				}
			}
			fns = append(fns, fn{fd.Name.Name, ps, fd.Body})
		}
	}
	res := map[string]map[int]bool{}
	for changed := true; changed; {
		changed = false
		for _, f := range fns {
			for k, pname := range f.params {
				if pname == "_" || res[f.name][k] {
					continue
				}
				al := map[string]bool{pname: true}
				// a parameter that is rebound in the body (`p = removeColinearPoints(p)`: a working
				// copy) no longer names the caller's array: not followed (towards "no write")
				rebound := false
				ast.Inspect(f.body, func(n ast.Node) bool {
					as, ok := n.(*ast.AssignStmt)
					if !ok || as.Tok == token.DEFINE || len(as.Lhs) != len(as.Rhs) {
						return true
					}
					for i, l := range as.Lhs {
						if id, ok := l.(*ast.Ident); ok && id.Name == pname {
							if se, ok := as.Rhs[i].(*ast.SliceExpr); ok {
								if x, ok := se.X.(*ast.Ident); ok && x.Name == pname {
									continue
								}
							}
							rebound = true
						}
					}
					return true
				})
				if rebound {
					continue
				}
				// locals cut out of the parameter
				ast.Inspect(f.body, func(n ast.Node) bool {
					as, ok := n.(*ast.AssignStmt)
					if !ok || len(as.Lhs) != len(as.Rhs) {
						return true
					}
					for i, r := range as.Rhs {
						if se, ok := r.(*ast.SliceExpr); ok {
							if id, ok := se.X.(*ast.Ident); ok && al[id.Name] {
								if l, ok := as.Lhs[i].(*ast.Ident); ok && l.Name != "_" {
									al[l.Name] = true
								}
							}
						}
					}
					return true
				})
				isP := func(e ast.Expr) bool { // p or p[a:b]
					if se, ok := e.(*ast.SliceExpr); ok {
						e = se.X
					}
					id, ok := e.(*ast.Ident)
					return ok && al[id.Name]
				}
				elem := func(e ast.Expr) bool { // p[i]
					ix, ok := e.(*ast.IndexExpr)
					if !ok {
						return false
					}
					id, ok := ix.X.(*ast.Ident)
					return ok && al[id.Name]
				}
				writes := false
				ast.Inspect(f.body, func(n ast.Node) bool {
					switch x := n.(type) {
					case *ast.AssignStmt:
						if x.Tok != token.DEFINE {
							for _, l := range x.Lhs {
								if elem(l) {
									writes = true
								}
							}
						}
					case *ast.IncDecStmt:
						if elem(x.X) {
							writes = true
						}
					case *ast.CallExpr:
						if id, ok := x.Fun.(*ast.Ident); ok && len(x.Args) > 0 {
							if id.Name == "copy" && isP(x.Args[0]) {
								writes = true
							}
							if id.Name == "append" {
								if se, ok := x.Args[0].(*ast.SliceExpr); ok && isP(se) {
									writes = true
								}
							}
						}
						if sel, ok := x.Fun.(*ast.SelectorExpr); ok && len(x.Args) > 0 {
							if pk, ok := sel.X.(*ast.Ident); ok && externalSliceWriters[pk.Name+"."+sel.Sel.Name] && isP(x.Args[0]) {
								writes = true
							}
						}
						if name := calleeName(x.Fun); name != "" {
							for j := range res[name] {
								if j < len(x.Args) && isP(x.Args[j]) {
									writes = true
								}
							}
						}
					}
					return true
				})
				if writes {
					if res[f.name] == nil {
						res[f.name] = map[int]bool{}
					}
					res[f.name][k] = true
					changed = true
				}
			}
		}
	}
	return res
}

// Constructors that turn a function literal into a value of one of the query interfaces.
var closureCtors = map[string]bool{"FuncSolid": true, "CheckedFuncSolid": true, "FuncSDF": true, "FuncPointSDF": true}

// queryClosures finds the function literals of a package that become query methods -- the
// argument of FuncSolid / CheckedFuncSolid / FuncSDF / FuncPointSDF, or a literal returned by a
// function whose result is a ColorFunc / CoordColorFunc (or by CacheScalarFunc) -- and lists every write
// they perform on a variable that is not their own: an assignment / ++ / delete / copy whose
// root identifier is declared outside the literal (captured from the enclosing function, i.e.
// allocated once per structure and shared by all calls, or package level), and element writes /
// appends through a local slice alias of such a variable.  Synchronous callbacks nested in the
// literal may write the literal's own locals.
func queryClosures(fset *token.FileSet, files []*ast.File) (all, mut []string) {
	for _, f := range files {
		for _, d := range f.Decls {
			fd, ok := d.(*ast.FuncDecl)
			if !ok || fd.Body == nil {
				continue
			}
			fname := fd.Name.Name
			if fd.Recv != nil && len(fd.Recv.List) > 0 {
				t := strings.TrimPrefix(exprStr(fset, fd.Recv.List[0].Type), "*")
				if i := strings.Index(t, "["); i >= 0 {
					t = t[:i]
				}
				fname = t + "." + fname
			}
			bound := map[string]*ast.FuncLit{}
			type site struct {
				kind string
				lit  *ast.FuncLit
			}
			var sites []site
			seen := map[*ast.FuncLit]bool{}
			add := func(kind string, fl *ast.FuncLit) {
				if fl != nil && !seen[fl] {
					seen[fl] = true
					sites = append(sites, site{kind, fl})
				}
			}
			var walk func(n ast.Node, top bool)
			walk = func(n ast.Node, top bool) {
				ast.Inspect(n, func(n ast.Node) bool {
					switch x := n.(type) {
					case *ast.FuncLit:
						// statements of a nested literal: its returns are not the function's
						walk(x.Body, false)
						return false
					case *ast.AssignStmt:
						for i, l := range x.Lhs {
							if id, ok := l.(*ast.Ident); ok && i < len(x.Rhs) && len(x.Lhs) == len(x.Rhs) {
								if fl, ok := x.Rhs[i].(*ast.FuncLit); ok {
									bound[id.Name] = fl
								}
							}
						}
					case *ast.CallExpr:
						name := ""
						switch fn := x.Fun.(type) {
						case *ast.Ident:
							name = fn.Name
						case *ast.SelectorExpr:
							name = fn.Sel.Name
						}
						if closureCtors[name] {
							for _, a := range x.Args {
								switch y := a.(type) {
								case *ast.FuncLit:
									add(name, y)
								case *ast.Ident:
									add(name, bound[y.Name])
								}
							}
						}
					case *ast.ReturnStmt:
						if top {
							for _, r := range x.Results {
								switch y := r.(type) {
								case *ast.FuncLit:
									add("return", y)
								case *ast.Ident:
									add("return", bound[y.Name])
								}
							}
						}
					}
					return true
				})
			}
			// A returned literal is a query closure only where the documentation makes the result
			// a value used from many goroutines: the color functions (called from the renderers'
			// workers through Objectify / RenderColor) and CacheScalarFunc.  Other returned
			// closures may be stateful by contract (ARAP.SeqDeformer: "not safe to call from
			// multiple Goroutines").
			retQuery := fd.Name.Name == "CacheScalarFunc" && fd.Recv == nil
			if fd.Type.Results != nil && len(fd.Type.Results.List) == 1 {
				rt := exprStr(fset, fd.Type.Results.List[0].Type)
				if strings.HasSuffix(rt, "ColorFunc") {
					retQuery = true
				}
			}
			walk(fd.Body, retQuery)
			count := map[string]int{}
			for _, s := range sites {
				count[s.kind]++
				label := fmt.Sprintf("%s#%s%d", fname, s.kind, count[s.kind])
				all = append(all, label)
				for _, w := range capturedWrites(fset, s.lit) {
					mut = append(mut, label+": "+w)
				}
			}
		}
	}
	sort.Strings(all)
	sort.Strings(mut)
	return
}

// capturedWrites lists the plain writes of a function literal to variables it did not declare.
func capturedWrites(fset *token.FileSet, fl *ast.FuncLit) []string {
	locals := map[string]bool{}
	collectLocals(fl, locals)
	outer := func(id *ast.Ident) bool { return id != nil && id.Name != "_" && !locals[id.Name] }
	// local slices that share the backing array of a captured variable
	alias := map[string]bool{}
	ast.Inspect(fl.Body, func(n ast.Node) bool {
		as, ok := n.(*ast.AssignStmt)
		if !ok || len(as.Lhs) != len(as.Rhs) {
			return true
		}
		for i, r := range as.Rhs {
			if se, ok := r.(*ast.SliceExpr); ok {
				if root := rootIdent(se.X); root != nil && (outer(root) || alias[root.Name]) {
					if id, ok := as.Lhs[i].(*ast.Ident); ok && id.Name != "_" && locals[id.Name] {
						alias[id.Name] = true
					}
				}
			}
		}
		return true
	})
	var out []string
	seen := map[string]bool{}
	add := func(n ast.Node) {
		s := exprStr(fset, n)
		if !seen[s] {
			seen[s] = true
			out = append(out, s)
		}
	}
	lhs := func(e ast.Expr) {
		r := rootIdent(e)
		if r == nil {
			return
		}
		if outer(r) {
			add(e)
			return
		}
		if alias[r.Name] {
			if _, ok := e.(*ast.IndexExpr); ok {
				add(e)
			}
		}
	}
	ast.Inspect(fl.Body, func(n ast.Node) bool {
		switch x := n.(type) {
		case *ast.AssignStmt:
			if x.Tok != token.DEFINE {
				for _, l := range x.Lhs {
					lhs(l)
				}
			}
		case *ast.IncDecStmt:
			lhs(x.X)
		case *ast.RangeStmt:
			if x.Tok == token.ASSIGN {
				for _, l := range []ast.Expr{x.Key, x.Value} {
					if l != nil {
						lhs(l)
					}
				}
			}
		case *ast.CallExpr:
			if id, ok := x.Fun.(*ast.Ident); ok && len(x.Args) > 0 {
				r := rootIdent(x.Args[0])
				switch id.Name {
				case "delete", "copy":
					if r != nil && (outer(r) || alias[r.Name]) {
						add(x)
					}
				case "append":
					if a, ok := x.Args[0].(*ast.Ident); ok && alias[a.Name] {
						add(x)
					}
				}
			}
		}
		return true
	})
	return out
}

// globalWriters computes, for every function and method name of a package, the package-level
// variables written by plain assignment in its body or in the bodies of the functions it calls
// (callees are resolved by bare name, so the result over-approximates).
func globalWriters(files []*ast.File) map[string][]string {
	pkgVars := map[string]bool{}
	for _, f := range files {
		for _, d := range f.Decls {
			if gd, ok := d.(*ast.GenDecl); ok && gd.Tok == token.VAR {
				for _, sp := range gd.Specs {
					if vs, ok := sp.(*ast.ValueSpec); ok {
						for _, nm := range vs.Names {
							if nm.Name != "_" {
								pkgVars[nm.Name] = true
							}
						}
					}
				}
			}
		}
	}
	direct := map[string]map[string]bool{}
	calls := map[string]map[string]bool{}
	for _, f := range files {
		for _, d := range f.Decls {
			fd, ok := d.(*ast.FuncDecl)
			if !ok || fd.Body == nil {
				continue
			}
			name := fd.Name.Name
			locals := map[string]bool{}
			collectLocals(fd.Body, locals)
			for _, fl := range []*ast.FieldList{fd.Recv, fd.Type.Params, fd.Type.Results} {
				if fl != nil {
					for _, p := range fl.List {
						for _, nm := range p.Names {
							locals[nm.Name] = true
						}
					}
				}
			}
			if direct[name] == nil {
				direct[name], calls[name] = map[string]bool{}, map[string]bool{}
			}
			wr := func(e ast.Expr) {
				if r := rootIdent(e); r != nil && pkgVars[r.Name] && !locals[r.Name] {
					direct[name][r.Name] = true
				}
			}
			ast.Inspect(fd.Body, func(n ast.Node) bool {
				switch x := n.(type) {
				case *ast.AssignStmt:
					if x.Tok != token.DEFINE {
						for _, l := range x.Lhs {
							wr(l)
						}
					}
				case *ast.IncDecStmt:
					wr(x.X)
				case *ast.CallExpr:
					switch fn := x.Fun.(type) {
					case *ast.Ident:
						if (fn.Name == "delete" || fn.Name == "copy") && len(x.Args) > 0 {
							wr(x.Args[0])
						}
						calls[name][fn.Name] = true
					case *ast.SelectorExpr:
						calls[name][fn.Sel.Name] = true
					}
				}
				return true
			})
		}
	}
	for changed := true; changed; {
		changed = false
		for name, cs := range calls {
			for c := range cs {
				for v := range direct[c] {
					if !direct[name][v] {
						direct[name][v] = true
						changed = true
					}
				}
			}
		}
	}
	out := map[string][]string{}
	for name, vs := range direct {
		for v := range vs {
			out[name] = append(out[name], v)
		}
		sort.Strings(out[name])
	}
	return out
}

// Mutators of types from outside the repository that the anchored files call on captured state.
var externalIndexedSetters = map[string]bool{"Set": true, "SetGray": true}

// Methods of *math/rand.Rand that advance the generator's state.
var rngMethods = map[string]bool{"Int63": true, "Int31": true, "Int": true, "Intn": true, "Int63n": true, "Int31n": true,
	"Uint32": true, "Uint64": true, "Float64": true, "Float32": true, "NormFloat64": true, "ExpFloat64": true,
	"Perm": true, "Shuffle": true, "Seed": true}

// ---------------------------------------------------------------- worker analysis

type wctx struct {
	fset    *token.FileSet
	pkg     *pkgInfo
	locals  map[string]bool // declared inside the worker (or its per-goroutine factory)
	own     map[string]bool // own-index derived identifiers
	aliasOk map[string]bool // local pointer obtained from accessor(own index) or &shared[own]
	aliasSh map[string]bool // local pointer into captured state, not own-indexed
	aliasSl map[string]bool // local slice sharing the backing array of captured state (`x := shared.f[a:b]`)
	chans   map[string]bool // channel variable names of the enclosing function
	skip    map[*ast.FuncLit]bool
	effects []eff
	seen    map[eff]bool
}

func (w *wctx) add(kind string, n ast.Node) {
	e := eff{kind, exprStr(w.fset, n)}
	if !w.seen[e] {
		w.seen[e] = true
		w.effects = append(w.effects, e)
	}
}

func (w *wctx) shared(id *ast.Ident) bool {
	if id == nil || id.Name == "_" {
		return false
	}
	return !w.locals[id.Name]
}

func collectLocals(n ast.Node, into map[string]bool) {
	ast.Inspect(n, func(n ast.Node) bool {
		switch x := n.(type) {
		case *ast.FuncLit:
			for _, fl := range []*ast.FieldList{x.Type.Params, x.Type.Results} {
				if fl != nil {
					for _, p := range fl.List {
						for _, nm := range p.Names {
							into[nm.Name] = true
						}
					}
				}
			}
		case *ast.AssignStmt:
			if x.Tok == token.DEFINE {
				for _, l := range x.Lhs {
					if id, ok := l.(*ast.Ident); ok {
						into[id.Name] = true
					}
				}
			}
		case *ast.RangeStmt:
			if x.Tok == token.DEFINE {
				for _, l := range []ast.Expr{x.Key, x.Value} {
					if id, ok := l.(*ast.Ident); ok && id != nil {
						into[id.Name] = true
					}
				}
			}
		case *ast.ValueSpec:
			for _, nm := range x.Names {
				into[nm.Name] = true
			}
		case *ast.TypeSwitchStmt:
			if as, ok := x.Assign.(*ast.AssignStmt); ok {
				for _, l := range as.Lhs {
					if id, ok := l.(*ast.Ident); ok {
						into[id.Name] = true
					}
				}
			}
		}
		return true
	})
}

func (w *wctx) hasOwnIndex(e ast.Expr) bool {
	found := false
	ast.Inspect(e, func(n ast.Node) bool {
		if ix, ok := n.(*ast.IndexExpr); ok && mentions(ix.Index, w.own) {
			found = true
		}
		return !found
	})
	return found
}

// lhs classifies one written location.
func (w *wctx) lhs(e ast.Expr, locked bool) {
	if id, ok := e.(*ast.Ident); ok && (id.Name == "_" || w.locals[id.Name]) {
		return
	}
	r := rootIdent(e)
	if r == nil {
		return
	}
	switch {
	case w.locals[r.Name] && w.aliasOk[r.Name]:
		if _, plain := e.(*ast.Ident); !plain {
			w.add("ownElem", e)
		}
	case w.locals[r.Name] && w.aliasSh[r.Name]:
		if _, plain := e.(*ast.Ident); !plain {
			if locked {
				w.add("locked", e)
			} else {
				w.add("plainWrite", e)
			}
		}
	case w.locals[r.Name]:
		return
	case w.hasOwnIndex(e):
		w.add("ownIndex", e)
	case locked:
		w.add("locked", e)
	default:
		w.add("plainWrite", e)
	}
}

func isMutexCall(c *ast.CallExpr, name string) (ast.Expr, bool) {
	se, ok := c.Fun.(*ast.SelectorExpr)
	if !ok || se.Sel.Name != name || len(c.Args) != 0 {
		return nil, false
	}
	return se.X, true
}

func (w *wctx) expr(e ast.Node, locked bool, stmtCall *ast.CallExpr) {
	if e == nil {
		return
	}
	ast.Inspect(e, func(n ast.Node) bool {
		switch x := n.(type) {
		case *ast.FuncLit:
			if w.skip[x] {
				return false
			}
			w.block(x.Body, locked)
			return false
		case *ast.UnaryExpr:
			if x.Op == token.ARROW {
				if r := rootIdent(x.X); w.shared(r) {
					w.add("chanRecv", x.X)
				}
			}
			if x.Op == token.AND {
				if ix, ok := x.X.(*ast.IndexExpr); ok {
					if r := rootIdent(ix.X); w.shared(r) {
						if mentions(ix.Index, w.own) {
							w.add("ownIndex", x)
						} else if !locked {
							w.add("plainWrite", x)
						} else {
							w.add("locked", x)
						}
					}
				}
			}
		case *ast.CallExpr:
			// a callee (resolved by name, transitively) that assigns a package-level variable
			callee := ""
			switch fn := x.Fun.(type) {
			case *ast.Ident:
				if !w.locals[fn.Name] {
					callee = fn.Name
				}
			case *ast.SelectorExpr:
				callee = fn.Sel.Name
			}
			if vs := w.pkg.globalWriters[callee]; callee != "" && len(vs) > 0 {
				kind := "plainWrite"
				if locked {
					kind = "locked"
				}
				e := eff{kind, "package variable " + strings.Join(vs, ",") + " (written in " + callee + " or its callees)"}
				if !w.seen[e] {
					w.seen[e] = true
					w.effects = append(w.effects, e)
				}
			}
			if id, ok := x.Fun.(*ast.Ident); ok {
				switch id.Name {
				case "close":
					if len(x.Args) == 1 && w.shared(rootIdent(x.Args[0])) {
						w.add("chanClose", x.Args[0])
					}
				case "delete", "copy":
					if len(x.Args) == 0 {
						break
					}
					if r := rootIdent(x.Args[0]); w.shared(r) || (r != nil && w.aliasSl[r.Name]) {
						if locked {
							w.add("locked", x)
						} else {
							w.add("plainWrite", x)
						}
					}
				case "append":
					// appending to a slice that shares the backing array of captured state writes
					// that array (whenever the capacity suffices): `buf := shared.f[:0]; buf = append(buf, v)`
					if len(x.Args) > 0 {
						if r := rootIdent(x.Args[0]); r != nil && w.locals[r.Name] && w.aliasSl[r.Name] {
							if locked {
								w.add("locked", x)
							} else {
								w.add("plainWrite", x)
							}
						}
					}
				}
			}
			if se, ok := x.Fun.(*ast.SelectorExpr); ok {
				r := rootIdent(se.X)
				name := se.Sel.Name
				if r == nil || name == "Lock" || name == "Unlock" {
					break
				}
				isShared := w.shared(r) || w.aliasSh[r.Name]
				if !isShared {
					break
				}
				if name == "Load" || name == "Store" || name == "LoadOrStore" || name == "CompareAndSwap" {
					w.add("syncCall", x.Fun)
					break
				}
				ownArgs := false
				for _, a := range x.Args {
					if mentions(a, w.own) {
						ownArgs = true
					}
				}
				// a generator made by rand.New is not safe for concurrent use: drawing from one that
				// is captured from outside the worker (a variable, not the package rand, whose
				// top-level functions lock) is a read-modify-write of its state
				if id, ok := se.X.(*ast.Ident); ok && rngMethods[name] && id.Obj != nil && id.Obj.Kind == ast.Var && !w.pkg.mutating[name] && !w.pkg.pure[name] {
					if locked {
						w.add("locked", x.Fun)
					} else {
						w.add("sharedMutCall", x.Fun)
					}
					break
				}
				if externalIndexedSetters[name] && (ownArgs || !w.pkg.mutating[name]) {
					if ownArgs {
						w.add("ownCall", x.Fun)
					} else if locked {
						w.add("locked", x.Fun)
					} else {
						w.add("sharedMutCall", x.Fun)
					}
					break
				}
				if w.pkg.mutating[name] {
					// a name that also has a pure definition only counts when the result is discarded
					if w.pkg.pure[name] && x != stmtCall {
						break
					}
					if locked {
						w.add("locked", x.Fun)
					} else {
						w.add("sharedMutCall", x.Fun)
					}
				}
			}
		}
		return true
	})
}

func (w *wctx) define(lhs []ast.Expr, rhs []ast.Expr) {
	for i, l := range lhs {
		id, ok := l.(*ast.Ident)
		if !ok || !w.locals[id.Name] {
			continue
		}
		var r ast.Expr
		if len(rhs) == len(lhs) {
			r = rhs[i]
		} else if len(rhs) == 1 {
			r = rhs[0]
		} else {
			continue
		}
		if mentions(r, w.own) {
			w.own[id.Name] = true
		}
		// aliases into captured state
		switch x := r.(type) {
		case *ast.CallExpr:
			if se, ok := x.Fun.(*ast.SelectorExpr); ok {
				if rt := rootIdent(se.X); w.shared(rt) && w.pkg.accessor[se.Sel.Name] {
					own := false
					for _, a := range x.Args {
						if mentions(a, w.own) {
							own = true
						}
					}
					if own {
						w.aliasOk[id.Name] = true
					} else {
						w.aliasSh[id.Name] = true
					}
				}
			}
		case *ast.UnaryExpr:
			if x.Op == token.AND {
				if rt := rootIdent(x.X); w.shared(rt) {
					if w.hasOwnIndex(x.X) {
						w.aliasOk[id.Name] = true
					} else {
						w.aliasSh[id.Name] = true
					}
				}
			}
		case *ast.SliceExpr:
			// `buf := captured.f[a:b]` (also of another such alias): the local slice header is the
			// worker's, the backing array is the captured one.  A window cut out with the worker's
			// own index (`out[i*k : (i+1)*k]`) is an own element.
			if rt := rootIdent(x.X); rt != nil && (w.shared(rt) || w.aliasSl[rt.Name]) {
				ownWindow := false
				for _, b := range []ast.Expr{x.Low, x.High} {
					if b != nil && mentions(b, w.own) {
						ownWindow = true
					}
				}
				if ownWindow || w.hasOwnIndex(x.X) {
					w.aliasOk[id.Name] = true
				} else {
					w.aliasSl[id.Name] = true
					w.aliasSh[id.Name] = true
				}
			}
		}
	}
}

// block walks statements in order, tracking whether a shared mutex is held.
func (w *wctx) block(b *ast.BlockStmt, locked bool) {
	if b == nil {
		return
	}
	l := locked
	for _, s := range b.List {
		l = w.stmt(s, l)
	}
}

func (w *wctx) stmt(s ast.Stmt, locked bool) bool {
	switch x := s.(type) {
	case *ast.ExprStmt:
		if c, ok := x.X.(*ast.CallExpr); ok {
			if m, ok := isMutexCall(c, "Lock"); ok && w.shared(rootIdent(m)) {
				return true
			}
			if m, ok := isMutexCall(c, "Unlock"); ok && w.shared(rootIdent(m)) {
				return false
			}
			w.expr(c, locked, c)
			return locked
		}
		w.expr(x.X, locked, nil)
	case *ast.DeferStmt:
		if _, ok := isMutexCall(x.Call, "Unlock"); ok {
			return locked
		}
		w.expr(x.Call, locked, x.Call)
	case *ast.GoStmt:
		w.expr(x.Call, locked, x.Call)
	case *ast.AssignStmt:
		for _, r := range x.Rhs {
			w.expr(r, locked, nil)
		}
		if x.Tok == token.DEFINE {
			w.define(x.Lhs, x.Rhs)
			// a := redeclaration may still write an outer variable; ignore (Go scoping makes
			// DEFINE introduce at least one new local, the others are in the same scope)
		} else {
			w.define(x.Lhs, x.Rhs)
			for _, l := range x.Lhs {
				w.lhs(l, locked)
			}
		}
	case *ast.IncDecStmt:
		w.lhs(x.X, locked)
	case *ast.SendStmt:
		if r := rootIdent(x.Chan); w.shared(r) {
			w.add("chanSend", x.Chan)
		}
		w.expr(x.Value, locked, nil)
	case *ast.RangeStmt:
		if id, ok := x.X.(*ast.Ident); ok && w.chans[id.Name] && w.shared(id) {
			w.add("chanRecv", x.X)
		} else {
			w.expr(x.X, locked, nil)
		}
		if x.Tok == token.DEFINE && mentions(x.X, w.own) {
			for _, l := range []ast.Expr{x.Key, x.Value} {
				if id, ok := l.(*ast.Ident); ok && id != nil {
					w.own[id.Name] = true
				}
			}
		}
		if x.Tok == token.ASSIGN {
			for _, l := range []ast.Expr{x.Key, x.Value} {
				if l != nil {
					w.lhs(l, locked)
				}
			}
		}
		w.block(x.Body, locked)
	case *ast.IfStmt:
		if x.Init != nil {
			w.stmt(x.Init, locked)
		}
		w.expr(x.Cond, locked, nil)
		w.block(x.Body, locked)
		if x.Else != nil {
			w.stmt(x.Else, locked)
		}
	case *ast.ForStmt:
		if x.Init != nil {
			w.stmt(x.Init, locked)
		}
		w.expr(x.Cond, locked, nil)
		if x.Post != nil {
			w.stmt(x.Post, locked)
		}
		w.block(x.Body, locked)
	case *ast.BlockStmt:
		w.block(x, locked)
	case *ast.SwitchStmt:
		if x.Init != nil {
			w.stmt(x.Init, locked)
		}
		w.expr(x.Tag, locked, nil)
		w.block(x.Body, locked)
	case *ast.TypeSwitchStmt:
		w.block(x.Body, locked)
	case *ast.CaseClause:
		for _, e := range x.List {
			w.expr(e, locked, nil)
		}
		l := locked
		for _, st := range x.Body {
			l = w.stmt(st, l)
		}
	case *ast.SelectStmt:
		w.block(x.Body, locked)
	case *ast.CommClause:
		if x.Comm != nil {
			w.stmt(x.Comm, locked)
		}
		l := locked
		for _, st := range x.Body {
			l = w.stmt(st, l)
		}
	case *ast.ReturnStmt:
		for _, r := range x.Results {
			w.expr(r, locked, nil)
		}
	case *ast.DeclStmt:
		if gd, ok := x.Decl.(*ast.GenDecl); ok {
			for _, sp := range gd.Specs {
				if vs, ok := sp.(*ast.ValueSpec); ok {
					for _, v := range vs.Values {
						w.expr(v, locked, nil)
					}
					lhs := make([]ast.Expr, len(vs.Names))
					for i, nm := range vs.Names {
						lhs[i] = nm
					}
					if len(vs.Values) > 0 {
						w.define(lhs, vs.Values)
					}
				}
			}
		}
	case *ast.LabeledStmt:
		return w.stmt(x.Stmt, locked)
	}
	return locked
}

func paramNames(fl *ast.FuncLit) []string {
	var out []string
	if fl.Type.Params != nil {
		for _, p := range fl.Type.Params.List {
			for _, nm := range p.Names {
				out = append(out, nm.Name)
			}
		}
	}
	return out
}

// launchArg returns the closure passed to a worker launcher call, and the launcher's name.
func launchArg(c *ast.CallExpr) (string, *ast.FuncLit) {
	name := ""
	switch f := c.Fun.(type) {
	case *ast.SelectorExpr:
		if id, ok := f.X.(*ast.Ident); ok && id.Name == "essentials" &&
			(f.Sel.Name == "ConcurrentMap" || f.Sel.Name == "StatefulConcurrentMap" || f.Sel.Name == "ReduceConcurrentMap") {
			name = f.Sel.Name
		}
	case *ast.Ident:
		if f.Name == "mapCoordinates" {
			name = "mapCoordinates"
		}
	}
	if name == "" || len(c.Args) == 0 {
		return "", nil
	}
	fl, _ := c.Args[len(c.Args)-1].(*ast.FuncLit)
	return name, fl
}

// resolveReturned finds the closures returned by a per-goroutine factory: either function
// literals in the return statement, or identifiers bound to function literals in the factory.
func resolveReturned(factory *ast.FuncLit) []*ast.FuncLit {
	bound := map[string]*ast.FuncLit{}
	var out []*ast.FuncLit
	for _, s := range factory.Body.List {
		switch x := s.(type) {
		case *ast.AssignStmt:
			for i, l := range x.Lhs {
				if id, ok := l.(*ast.Ident); ok && i < len(x.Rhs) {
					if fl, ok := x.Rhs[i].(*ast.FuncLit); ok {
						bound[id.Name] = fl
					}
				}
			}
		case *ast.ReturnStmt:
			for _, r := range x.Results {
				switch y := r.(type) {
				case *ast.FuncLit:
					out = append(out, y)
				case *ast.Ident:
					out = append(out, bound[y.Name]) // nil for `nil`
				}
			}
		}
	}
	return out
}

func analyseFile(root, rel string, pkg *pkgInfo) ([]workerFact, *token.FileSet, *ast.File, error) {
	fset := token.NewFileSet()
	f, err := parser.ParseFile(fset, filepath.Join(root, rel), nil, 0)
	if err != nil {
		return nil, nil, nil, err
	}
	var facts []workerFact
	for _, d := range f.Decls {
		fd, ok := d.(*ast.FuncDecl)
		if !ok || fd.Body == nil {
			continue
		}
		fname := fd.Name.Name
		if fd.Recv != nil && len(fd.Recv.List) > 0 {
			t := exprStr(fset, fd.Recv.List[0].Type)
			t = strings.TrimPrefix(t, "*")
			if i := strings.Index(t, "["); i >= 0 {
				t = t[:i]
			}
			fname = t + "." + fname
		}
		chans := map[string]bool{}
		ast.Inspect(fd.Body, func(n ast.Node) bool {
			if as, ok := n.(*ast.AssignStmt); ok {
				for i, r := range as.Rhs {
					if c, ok := r.(*ast.CallExpr); ok {
						if id, ok := c.Fun.(*ast.Ident); ok && id.Name == "make" && len(c.Args) > 0 {
							if _, ok := c.Args[0].(*ast.ChanType); ok && i < len(as.Lhs) {
								if l, ok := as.Lhs[i].(*ast.Ident); ok {
									chans[l.Name] = true
								}
							}
						}
					}
				}
			}
			return true
		})
		// all launch sites of this function (nested ones are analysed on their own)
		launchLits := map[*ast.FuncLit]bool{}
		type site struct {
			launcher string
			lit      *ast.FuncLit
		}
		var sites []site
		ast.Inspect(fd.Body, func(n ast.Node) bool {
			switch x := n.(type) {
			case *ast.CallExpr:
				if name, fl := launchArg(x); fl != nil {
					launchLits[fl] = true
					sites = append(sites, site{name, fl})
				}
			case *ast.GoStmt:
				if fl, ok := x.Call.Fun.(*ast.FuncLit); ok {
					launchLits[fl] = true
					sites = append(sites, site{"go", fl})
				}
			}
			return true
		})
		count := map[string]int{}
		for _, s := range sites {
			newCtx := func(scope ast.Node) *wctx {
				w := &wctx{fset: fset, pkg: pkg, locals: map[string]bool{}, own: map[string]bool{},
					aliasOk: map[string]bool{}, aliasSh: map[string]bool{}, aliasSl: map[string]bool{}, chans: chans,
					skip: map[*ast.FuncLit]bool{}, seen: map[eff]bool{}}
				collectLocals(scope, w.locals)
				for fl := range launchLits {
					if fl != s.lit {
						w.skip[fl] = true
					}
				}
				return w
			}
			emit := func(launcher string, w *wctx) {
				count[launcher]++
				// hand-off: a mutating call on captured state followed by a channel send on the
				// same captured object (the receiver uses the state only after the receive)
				for i, e := range w.effects {
					if e.kind != "sharedMutCall" {
						continue
					}
					root := strings.SplitN(e.target, ".", 2)[0]
					for _, e2 := range w.effects[i+1:] {
						if e2.kind == "chanSend" && strings.SplitN(e2.target, ".", 2)[0] == root {
							w.effects[i].kind = "handoff"
						}
					}
				}
				facts = append(facts, workerFact{file: rel, fn: fmt.Sprintf("%s#%s%d", fname, launcher, count[launcher]),
					launcher: launcher, effects: w.effects})
			}
			switch s.launcher {
			case "ConcurrentMap", "mapCoordinates":
				w := newCtx(s.lit)
				for _, p := range paramNames(s.lit) {
					w.own[p] = true
				}
				w.block(s.lit.Body, false)
				emit(s.launcher, w)
			case "go":
				w := newCtx(s.lit)
				w.block(s.lit.Body, false)
				emit("go", w)
			case "StatefulConcurrentMap", "ReduceConcurrentMap":
				rets := resolveReturned(s.lit)
				// per-goroutine set-up code of the factory (runs concurrently with other workers)
				w := newCtx(s.lit)
				for _, r := range rets {
					if r != nil {
						w.skip[r] = true
					}
				}
				w.block(s.lit.Body, false)
				if len(rets) > 0 && rets[0] != nil {
					for _, p := range paramNames(rets[0]) {
						w.own[p] = true
					}
					w.block(rets[0].Body, false)
				}
				emit(s.launcher+".iter", w)
				if len(rets) > 1 && rets[1] != nil {
					w2 := newCtx(s.lit)
					// the reduce function runs under ReduceConcurrentMap's own mutex
					w2.block(rets[1].Body, true)
					emit(s.launcher+".reduce", w2)
				}
			}
		}
	}
	return facts, fset, f, nil
}

// ---------------------------------------------------------------- shapes

func findFunc(f *ast.File, recvType, name string) *ast.FuncDecl {
	for _, d := range f.Decls {
		fd, ok := d.(*ast.FuncDecl)
		if !ok || fd.Name.Name != name {
			continue
		}
		if recvType == "" {
			if fd.Recv == nil {
				return fd
			}
			continue
		}
		if fd.Recv != nil && len(fd.Recv.List) > 0 {
			var b bytes.Buffer
			printer.Fprint(&b, token.NewFileSet(), fd.Recv.List[0].Type)
			if strings.TrimPrefix(b.String(), "*") == recvType {
				return fd
			}
		}
	}
	return nil
}

func callOn(e ast.Expr, path string, method string) bool {
	c, ok := e.(*ast.CallExpr)
	if !ok {
		return false
	}
	se, ok := c.Fun.(*ast.SelectorExpr)
	if !ok || se.Sel.Name != method {
		return false
	}
	var b bytes.Buffer
	printer.Fprint(&b, token.NewFileSet(), se.X)
	return b.String() == path
}

// dclShape tokenises getVertexToFace.
func dclShape(f *ast.File) ([]string, bool, []string) {
	fd := findFunc(f, "Mesh", "getVertexToFace")
	if fd == nil {
		return []string{"other"}, false, nil
	}
	recv := fd.Recv.List[0].Names[0].Name
	var toks []string
	local := ""
	isNilCheckRet := func(s *ast.IfStmt) bool {
		be, ok := s.Cond.(*ast.BinaryExpr)
		if !ok || be.Op != token.NEQ || s.Init != nil || s.Else != nil {
			return false
		}
		x, ok1 := be.X.(*ast.Ident)
		y, ok2 := be.Y.(*ast.Ident)
		if !ok1 || !ok2 || x.Name != local || y.Name != "nil" || len(s.Body.List) != 1 {
			return false
		}
		rs, ok := s.Body.List[0].(*ast.ReturnStmt)
		if !ok || len(rs.Results) != 1 {
			return false
		}
		id, ok := rs.Results[0].(*ast.Ident)
		return ok && id.Name == local
	}
	for _, s := range fd.Body.List {
		tok := "other"
		switch x := s.(type) {
		case *ast.AssignStmt:
			if len(x.Lhs) == 1 && len(x.Rhs) == 1 {
				if id, ok := x.Lhs[0].(*ast.Ident); ok {
					if callOn(x.Rhs[0], recv, "getVertexToFaceOrNil") {
						local = id.Name
						tok = "atomicLoad"
					} else if c, ok := x.Rhs[0].(*ast.CallExpr); ok && id.Name == local {
						var b bytes.Buffer
						printer.Fprint(&b, token.NewFileSet(), c.Fun)
						if strings.HasPrefix(b.String(), "NewCoordToSlice") && len(c.Args) == 0 {
							tok = "alloc"
						}
					}
				}
			}
		case *ast.IfStmt:
			if isNilCheckRet(x) {
				tok = "retIfSet"
			}
		case *ast.ExprStmt:
			if callOn(x.X, recv+".v2fCreateLock", "Lock") {
				tok = "lock"
			} else if c, ok := x.X.(*ast.CallExpr); ok && callOn(x.X, recv+".vertexToFace", "Store") &&
				len(c.Args) == 1 {
				if id, ok := c.Args[0].(*ast.Ident); ok && id.Name == local {
					tok = "atomicStore"
				}
			}
		case *ast.DeferStmt:
			if callOn(x.Call, recv+".v2fCreateLock", "Unlock") {
				tok = "deferUnlock"
			}
		case *ast.RangeStmt:
			// for f := range m.faces { … v2f.Append(p, f) … }: writes only the fresh index
			var b bytes.Buffer
			printer.Fprint(&b, token.NewFileSet(), x.X)
			appends, otherWrites := false, false
			ast.Inspect(x.Body, func(n ast.Node) bool {
				switch y := n.(type) {
				case *ast.CallExpr:
					if callOn(y, local, "Append") {
						appends = true
					}
					if se, ok := y.Fun.(*ast.SelectorExpr); ok {
						if r := rootIdent(se.X); r != nil && r.Name == recv {
							otherWrites = true
						}
					}
				case *ast.AssignStmt:
					for _, l := range y.Lhs {
						if r := rootIdent(l); r != nil && r.Name == recv {
							otherWrites = true
						}
					}
				}
				return true
			})
			if b.String() == recv+".faces" && appends && !otherWrites {
				tok = "build"
			}
		case *ast.ReturnStmt:
			if len(x.Results) == 1 {
				if id, ok := x.Results[0].(*ast.Ident); ok && id.Name == local {
					tok = "ret"
				}
			}
		}
		toks = append(toks, tok)
	}
	// getVertexToFaceOrNil must be a single atomic load of m.vertexToFace and nothing else on m
	orNil := false
	if g := findFunc(f, "Mesh", "getVertexToFaceOrNil"); g != nil {
		r := g.Recv.List[0].Names[0].Name
		loads, others := 0, 0
		ast.Inspect(g.Body, func(n ast.Node) bool {
			switch y := n.(type) {
			case *ast.CallExpr:
				if callOn(y, r+".vertexToFace", "Load") {
					loads++
				} else if se, ok := y.Fun.(*ast.SelectorExpr); ok {
					if rt := rootIdent(se.X); rt != nil && rt.Name == r {
						others++
					}
				}
			case *ast.AssignStmt:
				for _, l := range y.Lhs {
					if rt := rootIdent(l); rt != nil && rt.Name == r {
						others++
					}
				}
			}
			return true
		})
		orNil = loads == 1 && others == 0
	}
	// field types
	var ftypes []string
	ast.Inspect(f, func(n ast.Node) bool {
		ts, ok := n.(*ast.TypeSpec)
		if !ok || ts.Name.Name != "Mesh" {
			return true
		}
		if st, ok := ts.Type.(*ast.StructType); ok {
			for _, fl := range st.Fields.List {
				for _, nm := range fl.Names {
					if nm.Name == "vertexToFace" || nm.Name == "v2fCreateLock" {
						var b bytes.Buffer
						printer.Fprint(&b, token.NewFileSet(), fl.Type)
						ftypes = append(ftypes, nm.Name+":"+b.String())
					}
				}
			}
		}
		return false
	})
	sort.Strings(ftypes)
	return toks, orNil, ftypes
}

// Other places in the file that touch vertexToFace / v2fCreateLock (writers are documented as
// not concurrency-safe: clearVertexToFace, mcSearch's reset).
func v2fTouchers(f *ast.File) []string {
	var out []string
	for _, d := range f.Decls {
		fd, ok := d.(*ast.FuncDecl)
		if !ok || fd.Body == nil {
			continue
		}
		touch := false
		ast.Inspect(fd.Body, func(n ast.Node) bool {
			if se, ok := n.(*ast.SelectorExpr); ok && (se.Sel.Name == "vertexToFace" || se.Sel.Name == "v2fCreateLock") {
				touch = true
			}
			return true
		})
		if touch {
			out = append(out, fd.Name.Name)
		}
	}
	sort.Strings(out)
	return out
}

func mapCoordinatesShape(f *ast.File) []string {
	fd := findFunc(f, "", "mapCoordinates")
	if fd == nil {
		return []string{"missing"}
	}
	var toks []string
	ch := ""
	for _, s := range fd.Body.List {
		tok := "other"
		switch x := s.(type) {
		case *ast.AssignStmt:
			if len(x.Rhs) == 1 {
				if c, ok := x.Rhs[0].(*ast.CallExpr); ok {
					if id, ok := c.Fun.(*ast.Ident); ok && id.Name == "make" && len(c.Args) == 2 {
						if _, ok := c.Args[0].(*ast.ChanType); ok {
							var b bytes.Buffer
							printer.Fprint(&b, token.NewFileSet(), c.Args[1])
							ch = x.Lhs[0].(*ast.Ident).Name
							tok = "makeChan(" + strings.ReplaceAll(b.String(), " ", "") + ")"
						}
					}
				}
			}
		case *ast.DeclStmt:
			tok = "var"
		case *ast.ForStmt:
			sends, incs, gos := 0, 0, 0
			var goBody *ast.BlockStmt
			ast.Inspect(x.Body, func(n ast.Node) bool {
				switch y := n.(type) {
				case *ast.SendStmt:
					if id, ok := y.Chan.(*ast.Ident); ok && id.Name == ch {
						sends++
					}
				case *ast.IncDecStmt:
					incs++
				case *ast.GoStmt:
					gos++
					if fl, ok := y.Call.Fun.(*ast.FuncLit); ok {
						goBody = fl.Body
					}
					return false
				}
				return true
			})
			if gos == 1 && goBody != nil {
				tok = "spawn"
				toks = append(toks, tok)
				for _, ws := range goBody.List {
					wt := "w:other"
					switch y := ws.(type) {
					case *ast.DeferStmt:
						if se, ok := y.Call.Fun.(*ast.SelectorExpr); ok && se.Sel.Name == "Done" {
							wt = "w:deferDone"
						}
					case *ast.AssignStmt:
						if y.Tok == token.DEFINE {
							wt = "w:newLocal"
						}
					case *ast.RangeStmt:
						if id, ok := y.X.(*ast.Ident); ok && id.Name == ch && len(y.Body.List) == 1 {
							if es, ok := y.Body.List[0].(*ast.ExprStmt); ok {
								if c, ok := es.X.(*ast.CallExpr); ok {
									if fid, ok := c.Fun.(*ast.Ident); ok && fid.Name == "f" {
										wt = "w:rangeRecvCall"
									}
								}
							}
						}
					}
					toks = append(toks, wt)
				}
				continue
			} else if sends == 1 && incs >= 1 && gos == 0 {
				tok = "fill"
			}
		case *ast.ExprStmt:
			if c, ok := x.X.(*ast.CallExpr); ok {
				if id, ok := c.Fun.(*ast.Ident); ok && id.Name == "close" && len(c.Args) == 1 {
					if a, ok := c.Args[0].(*ast.Ident); ok && a.Name == ch {
						tok = "close"
					}
				}
				if se, ok := c.Fun.(*ast.SelectorExpr); ok && se.Sel.Name == "Wait" {
					tok = "wait"
				}
			}
		}
		toks = append(toks, tok)
	}
	return toks
}

func updateAtShape(f *ast.File) []string {
	fd := findFunc(f, "HeightMap", "updateAt")
	if fd == nil {
		return []string{"missing"}
	}
	recv := fd.Recv.List[0].Names[0].Name
	var toks []string
	for _, s := range fd.Body.List {
		tok := "other"
		switch x := s.(type) {
		case *ast.IfStmt:
			var b bytes.Buffer
			printer.Fprint(&b, token.NewFileSet(), x.Cond)
			cond := b.String()
			if strings.Contains(cond, "row < 0") && len(x.Body.List) == 1 {
				tok = "boundsRet"
			} else if be, ok := x.Cond.(*ast.BinaryExpr); ok && be.Op == token.LSS && len(x.Body.List) == 2 {
				var l bytes.Buffer
				printer.Fprint(&l, token.NewFileSet(), be.X)
				if as, ok := x.Body.List[0].(*ast.AssignStmt); ok && len(as.Lhs) == 1 {
					var w bytes.Buffer
					printer.Fprint(&w, token.NewFileSet(), as.Lhs[0])
					if l.String() == w.String() && strings.HasPrefix(l.String(), recv+".Data[") {
						tok = "readCompareWrite"
					}
				}
			}
		case *ast.AssignStmt:
			if x.Tok == token.DEFINE {
				tok = "idx"
			}
		case *ast.ReturnStmt:
			tok = "ret"
		case *ast.ExprStmt:
			if c, ok := x.X.(*ast.CallExpr); ok {
				if _, ok := isMutexCall(c, "Lock"); ok {
					tok = "lock"
				}
			}
		case *ast.DeferStmt:
			if _, ok := isMutexCall(x.Call, "Unlock"); ok {
				tok = "deferUnlock"
			}
		}
		toks = append(toks, tok)
	}
	return toks
}

func cacheScalarFuncShape(f *ast.File) []string {
	fd := findFunc(f, "", "CacheScalarFunc")
	if fd == nil {
		return []string{"missing"}
	}
	var toks []string
	cacheVar := ""
	ast.Inspect(fd.Body, func(n ast.Node) bool {
		switch x := n.(type) {
		case *ast.AssignStmt:
			if x.Tok == token.DEFINE && len(x.Rhs) == 1 {
				if cl, ok := x.Rhs[0].(*ast.CompositeLit); ok {
					var b bytes.Buffer
					printer.Fprint(&b, token.NewFileSet(), cl.Type)
					if id, ok := x.Lhs[0].(*ast.Ident); ok && cacheVar == "" {
						cacheVar = id.Name
						toks = append(toks, "decl:"+b.String())
					}
				}
			} else if x.Tok != token.DEFINE {
				for _, l := range x.Lhs {
					if r := rootIdent(l); r != nil && r.Name == cacheVar {
						toks = append(toks, "plainWrite")
					}
				}
			}
		case *ast.CallExpr:
			if se, ok := x.Fun.(*ast.SelectorExpr); ok {
				if r := rootIdent(se.X); r != nil && r.Name == cacheVar {
					toks = append(toks, "call:"+se.Sel.Name)
				}
			}
		}
		return true
	})
	return toks
}

// ---------------------------------------------------------------- rendering

func leanStr(s string) string {
	s = strings.ReplaceAll(s, "\\", "\\\\")
	s = strings.ReplaceAll(s, "\"", "\\\"")
	return "\"" + s + "\""
}

func leanStrList(xs []string) string {
	q := make([]string, len(xs))
	for i, x := range xs {
		q[i] = leanStr(x)
	}
	return "[" + strings.Join(q, ", ") + "]"
}

func leanToks(xs []string) string {
	q := make([]string, len(xs))
	for i, x := range xs {
		q[i] = "." + x
	}
	return "[" + strings.Join(q, ", ") + "]"
}

func genConcFacts(repoRoot string) (string, error) {
	var b strings.Builder
	b.WriteString("import M3d.Model.Conc\n")
	b.WriteString("/-! GENERATED by harness/cmd/c13 (-gen ConcFacts) from the working tree of /repo with go/ast: the shape of the\n")
	b.WriteString("concurrency-relevant code that `M3d/Model/Conc.lean` models.  Do not edit. -/\n")
	b.WriteString("namespace M3d.Gen.ConcFacts\nopen M3d.Conc\n\n")

	pkgs := map[string]*pkgInfo{}
	var all []workerFact
	files := map[string]*ast.File{}
	for _, rel := range anchoredFiles {
		dir := filepath.Join(repoRoot, filepath.Dir(rel))
		if pkgs[dir] == nil {
			p, err := analysePackage(dir)
			if err != nil {
				return "", err
			}
			pkgs[dir] = p
		}
		facts, _, f, err := analyseFile(repoRoot, rel, pkgs[dir])
		if err != nil {
			return "", err
		}
		files[rel] = f
		all = append(all, facts...)
	}

	for _, dim := range []struct{ name, rel string }{{"3d", "model3d/mesh.go"}, {"2d", "model2d/mesh.go"}} {
		toks, orNil, ftypes := dclShape(files[dim.rel])
		fmt.Fprintf(&b, "/-- Statement sequence of `Mesh.getVertexToFace` in %s. -/\n", dim.rel)
		fmt.Fprintf(&b, "def getVertexToFace%s : List DclTok := %s\n", dim.name, leanToks(toks))
		fmt.Fprintf(&b, "/-- `getVertexToFaceOrNil` is one `vertexToFace.Load()` and touches nothing else of the mesh. -/\n")
		fmt.Fprintf(&b, "def orNilIsAtomicLoad%s : Bool := %v\n", dim.name, orNil)
		fmt.Fprintf(&b, "def v2fFieldTypes%s : List String := %s\n", dim.name, leanStrList(ftypes))
		fmt.Fprintf(&b, "/-- Functions of %s that mention `vertexToFace` / `v2fCreateLock`. -/\n", dim.rel)
		fmt.Fprintf(&b, "def v2fTouchers%s : List String := %s\n\n", dim.name, leanStrList(v2fTouchers(files[dim.rel])))
	}

	fmt.Fprintf(&b, "/-- Statement sequence of `render3d.mapCoordinates` (worker body entries prefixed `w:`). -/\n")
	fmt.Fprintf(&b, "def mapCoordinates : List String := %s\n\n", leanStrList(mapCoordinatesShape(files["render3d/concurrency.go"])))
	fmt.Fprintf(&b, "/-- Statement sequence of `HeightMap.updateAt`. -/\n")
	fmt.Fprintf(&b, "def updateAt : List String := %s\n\n", leanStrList(updateAtShape(files["toolbox3d/height_map.go"])))
	fmt.Fprintf(&b, "/-- What `model2d.CacheScalarFunc`'s closure does with its captured cache. -/\n")
	fmt.Fprintf(&b, "def cacheScalarFunc : List String := %s\n\n", leanStrList(cacheScalarFuncShape(files["model2d/curves.go"])))

	var qmut, qseen []string
	nq := 0
	for _, pk := range queryPackages {
		dir := filepath.Join(repoRoot, pk)
		if pkgs[dir] == nil {
			p, err := analysePackage(dir)
			if err != nil {
				return "", err
			}
			pkgs[dir] = p
		}
		for _, q := range pkgs[dir].queryMut {
			qmut = append(qmut, pk+"."+q)
		}
		for _, q := range pkgs[dir].queryAll {
			nq++
			if querySites[pk+"."+q] {
				qseen = append(qseen, pk+"."+q)
			}
		}
	}
	sort.Strings(qseen)
	fmt.Fprintf(&b, "/-- Receiver writes inside read-only query methods (Collider / Solid / SDF / Object / Material /\nmesh queries) of %s: assignments to the receiver's memory, directly, through a\nslice alias of it, or through another method of the same type.  Must be empty: queries stage\ntheir results in call-local state only (`owned_state_noninterference`). -/\n", strings.Join(queryPackages, ", "))
	fmt.Fprintf(&b, "def queryReceiverWrites : List String := %s\n", leanStrList(qmut))
	fmt.Fprintf(&b, "/-- Number of query methods analysed. -/\ndef queryMethodCount : Nat := %d\n", nq)
	fmt.Fprintf(&b, "/-- The sites the staged-query model stands for that the extractor found. -/\n")
	fmt.Fprintf(&b, "def querySitesSeen : List String := %s\n\n", leanStrList(qseen))

	var cmut, cseen []string
	nc := 0
	for _, pk := range queryPackages {
		pi := pkgs[filepath.Join(repoRoot, pk)]
		for _, q := range pi.closureMut {
			cmut = append(cmut, pk+"."+q)
		}
		for _, q := range pi.closureAll {
			nc++
			if closureSites[pk+"."+q] {
				cseen = append(cseen, pk+"."+q)
			}
		}
	}
	sort.Strings(cseen)
	fmt.Fprintf(&b, "/-- Writes to captured (per-structure) or package-level variables inside query closures of %s:\nthe function literals given to FuncSolid / CheckedFuncSolid / FuncSDF / FuncPointSDF and the literals a\nfunction returns (color functions, scalar functions).  Such a variable is allocated once per structure and\nshared by all calls.  Must be empty (`owned_state_noninterference`; `query_field_scratch_racy` is the\nwitness otherwise). -/\n", strings.Join(queryPackages, ", "))
	fmt.Fprintf(&b, "def queryClosureWrites : List String := %s\n", leanStrList(cmut))
	fmt.Fprintf(&b, "/-- Number of query closures analysed. -/\ndef queryClosureCount : Nat := %d\n", nc)
	fmt.Fprintf(&b, "/-- The closure sites the staged-query model stands for that the extractor found. -/\n")
	fmt.Fprintf(&b, "def queryClosureSitesSeen : List String := %s\n\n", leanStrList(cseen))

	b.WriteString("/-- Every worker closure of the anchored files with its effects on captured state. -/\n")
	b.WriteString("def workers : List Worker := [\n")
	for i, w := range all {
		fmt.Fprintf(&b, "  { file := %s, func := %s, launcher := %s, effects := [", leanStr(w.file), leanStr(w.fn), leanStr(w.launcher))
		for j, e := range w.effects {
			if j > 0 {
				b.WriteString(", ")
			}
			fmt.Fprintf(&b, "⟨.%s, %s⟩", e.kind, leanStr(e.target))
		}
		b.WriteString("] }")
		if i < len(all)-1 {
			b.WriteString(",")
		}
		b.WriteString("\n")
	}
	b.WriteString("]\n\nend M3d.Gen.ConcFacts\n")
	return b.String(), nil
}
