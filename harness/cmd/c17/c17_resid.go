package main

import (
	"fmt"
	"math"
	"sort"

	"verif/harness/hlib"

	"github.com/unixpickle/model3d/model3d"
	"github.com/unixpickle/model3d/numerical"
)

// VALIDATION ONLY.  The kernels below go through libm (cmplx.Pow, Sqrt of rounded data) or are
// iterative; their convergence/conditioning is floating-point analysis and is not proved.  What
// is checked here is their algebraic post-condition (reconstruction / residual) on
// well-conditioned generated inputs with a stated tolerance.  The Lean side answers "ok".

const residTol = 1e-6

func rot3(c *hlib.Ctx) *numerical.Matrix3 {
	axis := numerical.NewVec3RandomUnit()
	_ = axis
	// use the library-independent construction: product of three Givens rotations
	g := func(i, j int, th float64) *numerical.Matrix3 {
		m := numerical.Matrix3{1, 0, 0, 0, 1, 0, 0, 0, 1}
		m[i*3+i], m[j*3+j] = math.Cos(th), math.Cos(th)
		m[i*3+j], m[j*3+i] = -math.Sin(th), math.Sin(th)
		return &m
	}
	return g(0, 1, c.Rng.Float64()*6).Mul(g(1, 2, c.Rng.Float64()*6)).Mul(g(0, 2, c.Rng.Float64()*6))
}

func rot4(c *hlib.Ctx) *numerical.Matrix4 {
	r := numerical.NewMatrix4Identity()
	for i := 0; i < 4; i++ {
		for j := i + 1; j < 4; j++ {
			th := c.Rng.Float64() * 6
			m := numerical.NewMatrix4Identity()
			m[i*4+i], m[j*4+j] = math.Cos(th), math.Cos(th)
			m[i*4+j], m[j*4+i] = -math.Sin(th), math.Sin(th)
			r = r.Mul(m)
		}
	}
	return r
}

func rot2(c *hlib.Ctx) *numerical.Matrix2 {
	th := c.Rng.Float64() * 6
	return &numerical.Matrix2{math.Cos(th), -math.Sin(th), math.Sin(th), math.Cos(th)}
}

// separated draws k positive values, sorted descending, pairwise at least 20% apart.
func separated(c *hlib.Ctx, k int) []float64 {
	vals := make([]float64, k)
	x := 0.5 + c.Rng.Float64()
	for i := k - 1; i >= 0; i-- {
		vals[i] = x
		x *= 1.25 + c.Rng.Float64()
	}
	return vals
}

func maxAbsDiff(a, b []float64) float64 {
	d := 0.0
	for i := range a {
		d = math.Max(d, math.Abs(a[i]-b[i]))
	}
	return d
}

func verdict(err, scale float64, what string) string {
	if math.IsNaN(err) || err > residTol*math.Max(1, scale) {
		return fmt.Sprintf("bad:%s_err=%.3g", what, err)
	}
	return "ok"
}

func runResiduals(c *hlib.Ctx, n int) {
	md := mode{"v", nil}
	for i := 0; i < n/4; i++ {
		id := itoa(i)
		// --- 2x2 / 3x3 / 4x4 SVD: m = u s v^T, s sorted and non-negative, u and v orthogonal
		{
			s := separated(c, 2)
			m := rot2(c).Mul(&numerical.Matrix2{s[0], 0, 0, s[1]}).Mul(rot2(c).Transpose())
			emit(c, md, "resid svd2", id, func() string {
				var u, sv, v numerical.Matrix2
				m.SVD(&u, &sv, &v)
				rec := u.Mul(&sv).Mul(v.Transpose())
				e := maxAbsDiff(rec[:], m[:])
				e = math.Max(e, maxAbsDiff(u.Mul(u.Transpose())[:], []float64{1, 0, 0, 1}))
				e = math.Max(e, maxAbsDiff(v.Mul(v.Transpose())[:], []float64{1, 0, 0, 1}))
				e = math.Max(e, math.Abs(sv[0]-s[0])+math.Abs(sv[3]-s[1]))
				return verdict(e, s[0], "svd2")
			})
		}
		{
			s := separated(c, 3)
			m := rot3(c).Mul(&numerical.Matrix3{s[0], 0, 0, 0, s[1], 0, 0, 0, s[2]}).Mul(rot3(c).Transpose())
			id3 := []float64{1, 0, 0, 0, 1, 0, 0, 0, 1}
			emit(c, md, "resid svd3", id, func() string {
				var u, sv, v numerical.Matrix3
				m.SVD(&u, &sv, &v)
				rec := u.Mul(&sv).Mul(v.Transpose())
				e := maxAbsDiff(rec[:], m[:])
				e = math.Max(e, maxAbsDiff(u.Mul(u.Transpose())[:], id3))
				e = math.Max(e, maxAbsDiff(v.Mul(v.Transpose())[:], id3))
				e = math.Max(e, math.Abs(sv[0]-s[0])+math.Abs(sv[4]-s[1])+math.Abs(sv[8]-s[2]))
				return verdict(e, s[0], "svd3")
			})
			// the model3d twin
			var mm model3d.Matrix3
			copy(mm[:], m[:])
			emit(c, md, "resid svd3_model3d", id, func() string {
				var u, sv, v model3d.Matrix3
				mm.SVD(&u, &sv, &v)
				rec := u.Mul(&sv).Mul(v.Transpose())
				e := maxAbsDiff(rec[:], mm[:])
				e = math.Max(e, maxAbsDiff(u.Mul(u.Transpose())[:], id3))
				return verdict(e, s[0], "svd3")
			})
			// symmetric eigendecomposition: a = v s v^T
			q := rot3(c)
			sign := func() float64 {
				if c.Rng.Intn(3) == 0 {
					return -1
				}
				return 1
			}
			ev := []float64{s[0] * sign(), s[1] * sign(), s[2] * sign()}
			a := q.Mul(&numerical.Matrix3{ev[0], 0, 0, 0, ev[1], 0, 0, 0, ev[2]}).Mul(q.Transpose())
			// symmetrise exactly
			a[3], a[6], a[7] = a[1], a[2], a[5]
			emit(c, md, "resid symeig3", id, func() string {
				se, ve := numerical.VerifSymEigDecomp3(a)
				rec := ve.Mul(&se).Mul(ve.Transpose())
				e := maxAbsDiff(rec[:], a[:])
				e = math.Max(e, maxAbsDiff(ve.Mul(ve.Transpose())[:], id3))
				return verdict(e, s[0], "symeig3")
			})
			// eigenvalues: the three returned values are the eigenvalues (as a multiset)
			emit(c, md, "resid eigvals3", id, func() string {
				got := a.Eigenvalues()
				g := []float64{real(got[0]), real(got[1]), real(got[2])}
				w := append([]float64{}, ev...)
				sort.Float64s(g)
				sort.Float64s(w)
				e := maxAbsDiff(g, w)
				for _, z := range got {
					e = math.Max(e, math.Abs(imag(z)))
				}
				return verdict(e, s[0], "eigvals3")
			})
			// least squares: consistent over-determined system with well-conditioned rows
			rows := 3 + c.Rng.Intn(5)
			avs := make([]numerical.Vec3, rows)
			x0 := numerical.Vec3{c.Rng.NormFloat64(), c.Rng.NormFloat64(), c.Rng.NormFloat64()}
			bs := make([]float64, rows)
			for r := range avs {
				if r < 3 {
					avs[r] = numerical.Vec3{m[r*3], m[r*3+1], m[r*3+2]} // the well-conditioned matrix above
				} else {
					avs[r] = numerical.Vec3{c.Rng.NormFloat64(), c.Rng.NormFloat64(), c.Rng.NormFloat64()}
				}
				bs[r] = avs[r].Dot(x0)
			}
			emit(c, md, "resid lsq3", id, func() string {
				x := numerical.LeastSquares3(avs, bs, 1e-12)
				return verdict(maxAbsDiff(x[:], x0[:])/math.Max(1, x0.Norm()), s[0]*s[0]/(s[2]*s[2]), "lsq3")
			})
		}
		{
			s := separated(c, 4)
			m := rot4(c).Mul(&numerical.Matrix4{s[0], 0, 0, 0, 0, s[1], 0, 0, 0, 0, s[2], 0, 0, 0, 0, s[3]}).Mul(rot4(c).Transpose())
			id4 := numerical.NewMatrix4Identity()
			emit(c, md, "resid svd4", id, func() string {
				var u, sv, v numerical.Matrix4
				m.SVD(&u, &sv, &v)
				rec := u.Mul(&sv).Mul(v.Transpose())
				e := maxAbsDiff(rec[:], m[:])
				e = math.Max(e, maxAbsDiff(u.Mul(u.Transpose())[:], id4[:]))
				e = math.Max(e, maxAbsDiff(v.Mul(v.Transpose())[:], id4[:]))
				return verdict(e, 100*s[0], "svd4")
			})
		}
		// --- sparse Cholesky and BiCGSTAB on a random sparse symmetric diagonally dominant matrix
		{
			size := 3 + c.Rng.Intn(12)
			dense := make([][]float64, size)
			for r := range dense {
				dense[r] = make([]float64, size)
			}
			for r := 0; r < size; r++ {
				for k := 0; k < 2; k++ {
					o := c.Rng.Intn(size)
					if o != r {
						v := c.Rng.NormFloat64()
						dense[r][o], dense[o][r] = v, v
					}
				}
			}
			for r := 0; r < size; r++ {
				sum := 1 + c.Rng.Float64()
				for o := 0; o < size; o++ {
					if o != r {
						sum += math.Abs(dense[r][o])
					}
				}
				dense[r][r] = sum
			}
			sp := numerical.NewSparseMatrix(size)
			order := c.Rng.Perm(size)
			for r := 0; r < size; r++ {
				for _, o := range order {
					if dense[r][o] != 0 {
						sp.Set(r, o, dense[r][o])
					}
				}
			}
			b := make([]numerical.Vec3, size)
			bflat := make(numerical.Vec, size)
			for r := range b {
				b[r] = numerical.Vec3{c.Rng.NormFloat64(), c.Rng.NormFloat64(), c.Rng.NormFloat64()}
				bflat[r] = b[r][0]
			}
			emit(c, md, "resid cholesky", join(id, itoa(size)), func() string {
				ch := numerical.NewSparseCholesky(sp)
				x := ch.ApplyInverseVec3(b)
				ax := sp.ApplyVec3(x)
				e := 0.0
				for r := range ax {
					e = math.Max(e, ax[r].Dist(b[r]))
				}
				// and the factorisation applies like the matrix
				fx := ch.ApplyVec3(b)
				mx := sp.ApplyVec3(b)
				for r := range fx {
					e = math.Max(e, fx[r].Dist(mx[r])/math.Max(1, mx[r].Norm()))
				}
				return verdict(e, 1, "cholesky")
			})
			emit(c, md, "resid rcm", join(id, itoa(size)), func() string {
				p := sp.RCM()
				seen := make([]bool, size)
				if len(p) != size {
					return "bad:rcm_length"
				}
				for _, v := range p {
					if v < 0 || v >= size || seen[v] {
						return "bad:rcm_not_a_permutation"
					}
					seen[v] = true
				}
				// Permute is conjugation by the permutation: (PAP^T)[i][j] = A[p[i]][p[j]]
				pm := sp.Permute(p)
				got := make([][]float64, size)
				for r := range got {
					got[r] = make([]float64, size)
					pm.Iterate(r, func(col int, x float64) { got[r][col] += x })
				}
				for r := 0; r < size; r++ {
					for o := 0; o < size; o++ {
						if got[r][o] != dense[p[r]][p[o]] {
							return "bad:permute_entry"
						}
					}
				}
				return "ok"
			})
			emit(c, md, "resid bicgstab", join(id, itoa(size)), func() string {
				solver := &numerical.BiCGSTABSolver{MaxIters: 500, MAETolerance: 1e-10}
				x := solver.SolveLinearSystem(sp.Apply, bflat, nil)
				r := sp.Apply(x).Sub(bflat)
				return verdict(r.Norm(), bflat.Norm(), "bicgstab")
			})
		}
		// --- real roots, degree 3..8: separated real roots times optional quadratics without real roots
		{
			deg := 3 + c.Rng.Intn(6)
			nreal := c.Rng.Intn(deg + 1)
			if (deg-nreal)%2 == 1 {
				nreal++
			}
			roots := make([]float64, nreal)
			x := -3 + c.Rng.Float64()
			for j := range roots {
				roots[j] = x
				x += 0.6 + c.Rng.Float64()
			}
			lead := 1 + c.Rng.Float64()
			if c.Rng.Intn(2) == 0 {
				lead = -lead
				c.Stat("c17.resid.roots_negative_lead", 1)
			}
			p := numerical.Polynomial{lead}
			for _, r := range roots {
				p = p.Mul(numerical.Polynomial{-r, 1})
			}
			for j := 0; j < (deg-nreal)/2; j++ {
				h := c.Rng.Float64()*4 - 2
				k := 0.5 + c.Rng.Float64()
				p = p.Mul(numerical.Polynomial{h*h + k, -2 * h, 1})
			}
			c.Stat(fmt.Sprintf("c17.resid.roots_deg%d", deg), 1)
			emit(c, md, "resid roots", join(id, itoa(deg), itoa(nreal)), func() string {
				got := append(numerical.Polynomial{}, p...).RealRoots()
				sort.Float64s(got)
				if len(got) != len(roots) {
					return fmt.Sprintf("bad:roots_count_got_%d_want_%d", len(got), len(roots))
				}
				return verdict(maxAbsDiff(got, roots), 1, "roots")
			})
		}
	}
}
