package main

import (
	"math"
	"strings"

	"verif/harness/hlib"

	"github.com/unixpickle/model3d/model2d"
)

// nearFloat returns a double a few ulps (a power of two of them, up to 2^28, i.e. still within about one
// float32 ulp) away from x, on a random side.
func nearFloat(c *hlib.Ctx, x float64) float64 {
	if x == 0 || math.IsNaN(x) || math.IsInf(x, 0) {
		return x + math.Ldexp(1, -40-c.Rng.Intn(20))
	}
	step := uint64(1) << uint(c.Rng.Intn(29))
	bits := math.Float64bits(x)
	if c.Rng.Intn(2) == 0 {
		bits += step
	} else {
		bits -= step
	}
	y := math.Float64frombits(bits)
	if math.IsNaN(y) || math.IsInf(y, 0) || (y < 0) != (x < 0) {
		return x
	}
	return y
}

// runCached: kind `cachedevalx` — a HISTORY of several queries on ONE function returned by
// BezierCurve.CachedEvalX / CacheScalarFunc(b.EvalX): fresh arguments, exact repeats of earlier ones (cache hits),
// arguments a few float64 ulps away from earlier ones (distinct keys that are very close), end points and
// unbracketed arguments.  Expected (theorem cache_scalar_func_history): the i-th answer is EvalX of the i-th
// argument, whatever was asked before.
func runCached(c *hlib.Ctx, n int) {
	md := modeF
	for i := 0; i < n/4; i++ {
		k := bezLen(c)
		b := monotoneX(c, k)
		if c.Rng.Intn(2) == 0 { // steep curves: a tiny change of x is a visible change of y
			s := math.Ldexp(1, c.Rng.Intn(13))
			for j := range b {
				b[j].Y *= s
			}
		}
		x0, x1 := b[0].X, b[k-1].X
		m := 3 + c.Rng.Intn(6)
		qs := make([]float64, 0, m)
		qs = append(qs, x0+c.Rng.Float64()*(x1-x0))
		for len(qs) < m {
			prev := qs[c.Rng.Intn(len(qs))]
			switch c.Rng.Intn(8) {
			case 0, 1:
				qs = append(qs, x0+c.Rng.Float64()*(x1-x0))
			case 2:
				qs = append(qs, prev)
				c.Stat("c17.cachedevalx.exact_repeat", 1)
			case 3:
				qs = append(qs, pick(c, x0, x1))
			case 4:
				qs = append(qs, x0-1-math.Abs(x1-x0)) // not bracketed: NaN
			default:
				q := nearFloat(c, prev)
				qs = append(qs, q)
				if q != prev {
					c.Stat("c17.cachedevalx.near_pair", 1)
					if float32(q) == float32(prev) {
						c.Stat("c17.cachedevalx.near_pair_same_float32", 1)
					}
					if y1, y2 := b.EvalX(q), b.EvalX(prev); y1 != y2 && y1 == y1 && y2 == y2 {
						c.Stat("c17.cachedevalx.near_pair_distinct_y", 1)
					}
				}
			}
		}
		variant := c.Rng.Intn(2)
		emit(c, md, "cachedevalx", join(itoa(variant), itoa(len(qs)), md.nums(qs...), curveArgs(md, b)), func() string {
			var f func(float64) float64
			if variant == 0 {
				f = b.CachedEvalX(0)
			} else {
				f = model2d.CacheScalarFunc(b.EvalX)
			}
			outs := make([]string, len(qs))
			for j, q := range qs {
				outs[j] = md.out(f(q))
			}
			return strings.Join(outs, " ")
		})
	}
}
