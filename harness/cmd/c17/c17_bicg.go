package main

import (
	"fmt"
	"math"
	"strings"

	"verif/harness/hlib"

	"github.com/unixpickle/model3d/numerical"
)

// denseOp is the Op passed to BiCGSTAB: a dense n x n matrix applied row by row, sum += a[i][j]*v[j] from 0 — the
// operation order of M3d.BiCG.denseOp (bicgstab_dense_op_linear: it satisfies the hypothesis of the theorems).
func denseOp(a []float64, n int) func(v numerical.Vec) numerical.Vec {
	return func(v numerical.Vec) numerical.Vec {
		res := make(numerical.Vec, n)
		for i := 0; i < n; i++ {
			s := 0.0
			for j := 0; j < n; j++ {
				s += a[i*n+j] * v[j]
			}
			res[i] = s
		}
		return res
	}
}

// bicgSystem draws a small linear system: diagonally dominant (symmetric or not), diagonal, identity, arbitrary, or
// singular; right-hand side arbitrary, zero, or A*g for a small integer g; optional initial guess (possibly exact).
func bicgSystem(c *hlib.Ctx) (n int, a []float64, b, guess []float64, what string) {
	n = 1 + c.Rng.Intn(5)
	a = make([]float64, n*n)
	kind := c.Rng.Intn(8)
	switch kind {
	case 0:
		what = "identity"
		for i := 0; i < n; i++ {
			a[i*n+i] = 1
		}
	case 1:
		what = "diagonal"
		for i := 0; i < n; i++ {
			a[i*n+i] = float64(1 + c.Rng.Intn(8))
		}
	case 2:
		what = "arbitrary"
		for i := range a {
			a[i] = anyFloat(c, 3)
		}
	case 3:
		what = "singular"
		for i := range a {
			a[i] = float64(c.Rng.Intn(3))
		}
		for j := 0; j < n; j++ {
			a[(n-1)*n+j] = a[j] // last row = first row
		}
	default:
		what = "dominant"
		sym := c.Rng.Intn(2) == 0
		for i := 0; i < n; i++ {
			for j := 0; j < n; j++ {
				if i != j && c.Rng.Intn(3) != 0 {
					a[i*n+j] = anyFloat(c, 1)
					if sym {
						a[j*n+i] = a[i*n+j]
					}
				}
			}
		}
		for i := 0; i < n; i++ {
			s := 1 + c.Rng.Float64()
			for j := 0; j < n; j++ {
				if j != i {
					s += math.Abs(a[i*n+j])
				}
			}
			a[i*n+i] = s
		}
	}
	b = make([]float64, n)
	switch c.Rng.Intn(6) {
	case 0:
		what += "+zero_rhs"
	case 1:
		what += "+exact_guess"
		g := make(numerical.Vec, n)
		for i := range g {
			g[i] = float64(c.Rng.Intn(7) - 3)
		}
		copy(b, denseOp(a, n)(g))
		guess = g
	default:
		for i := range b {
			b[i] = anyFloat(c, 4)
		}
	}
	if guess == nil && c.Rng.Intn(3) == 0 {
		guess = make([]float64, n)
		for i := range guess {
			guess[i] = anyFloat(c, 2)
		}
	}
	return
}

func systemArgs(md mode, n int, a, b, guess []float64) string {
	g := "0"
	if guess != nil {
		g = join("1", md.nums(guess...))
	}
	return join(itoa(n), md.nums(a...), md.nums(b...), g)
}

// runBicg: numerical.BiCGSTAB / BiCGSTABSolver bit for bit against M3d.BiCG (bicgstab_residual_invariant,
// bicgstab_exit_exact, bicgstab_solver_tolerance), plus the property predicate evaluated on the real output.
func runBicg(c *hlib.Ctx, n int) {
	md := modeF
	for i := 0; i < n/3; i++ {
		sz, a, b, guess, what := bicgSystem(c)
		c.Stat("c17.bicg."+what, 1)
		op := denseOp(a, sz)
		var g numerical.Vec
		if guess != nil {
			g = append(numerical.Vec{}, guess...)
		}
		if i%2 == 0 {
			k := 1 + c.Rng.Intn(6)
			emit(c, md, "bicg", join(systemArgs(md, sz, a, b, guess), itoa(k)), func() string {
				s := numerical.NewBiCGSTAB(op, append(numerical.Vec{}, b...), g)
				outs := make([]string, k)
				for j := 0; j < k; j++ {
					outs[j] = vecOut(md, s.Iter())
				}
				return strings.Join(outs, " | ")
			})
			continue
		}
		solver := &numerical.BiCGSTABSolver{}
		switch c.Rng.Intn(4) {
		case 0:
			solver.MaxIters = 1 + c.Rng.Intn(8)
		case 1:
			solver.MaxIters = 1 + c.Rng.Intn(30)
			solver.MSETolerance = math.Ldexp(1, -10-c.Rng.Intn(40))
		case 2:
			solver.MaxIters = 1 + c.Rng.Intn(30)
			solver.MAETolerance = math.Ldexp(1, -10-c.Rng.Intn(30))
		case 3:
			solver.MaxIters = 1 + c.Rng.Intn(30)
			solver.MSETolerance = math.Ldexp(1, -10-c.Rng.Intn(40))
			solver.MAETolerance = math.Ldexp(1, -10-c.Rng.Intn(30))
		}
		args := join(systemArgs(md, sz, a, b, guess), itoa(solver.MaxIters), md.num(solver.MSETolerance), md.num(solver.MAETolerance))
		calls := 0
		counted := func(v numerical.Vec) numerical.Vec { calls++; return op(v) }
		var sol numerical.Vec
		emit(c, md, "bicgsolve", args, func() string {
			sol = solver.SolveLinearSystem(counted, append(numerical.Vec{}, b...), g)
			return vecOut(md, sol)
		})
		// the contract itself on the real output: when the solver certainly did not use all its rounds (the
		// constructor costs one operator call and every round at least one - the tolerance test; a round of a
		// terminated solver costs no more than that), the true residual meets one of the tolerances
		if sol != nil && (solver.MSETolerance != 0 || solver.MAETolerance != 0) && calls-1 < solver.MaxIters {
			sq, ab := 0.0, 0.0
			for j, y := range op(sol) {
				e := y - b[j]
				sq += e * e
				ab += math.Abs(e)
			}
			if !math.IsNaN(ab) && !(sq < solver.MSETolerance*float64(sz) || ab < solver.MAETolerance*float64(sz)) {
				c.PropFail("BiCGSTABSolver/stopped-early-above-tolerance",
					fmt.Sprintf("%s: stopped after %d operator calls (MaxIters %d) with sqErr=%g absErr=%g", args, calls, solver.MaxIters, sq, ab))
			}
			c.Stat("c17.bicg.stopped_by_tolerance", 1)
		}
	}
}
