// Command c17 is the correspondence harness for property C17 ("numerical and curve
// kernels satisfy their defining equations").  Every case drives the REAL code of
// /repo (numerical, model2d, model3d, toolbox3d) in-process and prints one protocol line
//
//	c17 <kind>.<mode> args…  \t  <implementation output>
//
// mode q: exact mode.  Inputs are dyadic rationals of bounded bit length chosen so that
// every float64 operation the Go code performs is exact; numbers cross the boundary as
// big.Rat strings and the Lean model (run at Rat) must produce EQUAL output.
// mode f: bit mode.  Arbitrary doubles cross as 16-hex-digit IEEE patterns; the same
// generic Lean model is run at Float (same operations, same order) and must agree
// bit for bit.  Only + - * / sqrt and comparisons occur in these kernels.
// kind resid: VALIDATION ONLY of libm-based / iterative kernels (eigen, SVD, least squares,
// Cholesky, BiCGSTAB, cubic-and-higher roots) through residual contracts with a stated
// tolerance; the Lean side answers the constant "ok".
package main

import (
	"fmt"
	"math"
	"strconv"
	"strings"

	"verif/harness/hlib"
)

func main() { hlib.Main("C17", run) }

// ---------------------------------------------------------------- number rendering

type mode struct {
	name string
	num  func(float64) string
}

var modeQ = mode{"q", hlib.RatStr}
var modeF = mode{"f", hlib.Hex}

func (m mode) nums(xs ...float64) string {
	parts := make([]string, len(xs))
	for i, x := range xs {
		parts[i] = m.num(x)
	}
	return strings.Join(parts, " ")
}

// out renders an implementation result; any NaN/Inf becomes the token "nan".
func (m mode) out(xs ...float64) string {
	for _, x := range xs {
		if math.IsNaN(x) || math.IsInf(x, 0) {
			return "nan"
		}
	}
	return m.nums(xs...)
}

func itoa(i int) string { return strconv.Itoa(i) }

func join(parts ...string) string {
	var out []string
	for _, p := range parts {
		if p != "" {
			out = append(out, p)
		}
	}
	return strings.Join(out, " ")
}

// dy draws k/2^bits with |k/2^bits| <= span.
func dy(c *hlib.Ctx, span int, bits uint) float64 { return c.Dyadic(span, bits) }

func pick[T any](c *hlib.Ctx, xs ...T) T { return xs[c.Rng.Intn(len(xs))] }

// anyFloat draws a "generic" double for bit mode: moderate magnitude, full mantissa.
func anyFloat(c *hlib.Ctx, span float64) float64 {
	switch c.Rng.Intn(8) {
	case 0:
		return float64(c.Rng.Intn(9) - 4)
	case 1:
		return c.Dyadic(4, 3)
	}
	return (c.Rng.Float64()*2 - 1) * span
}

func run(c *hlib.Ctx) {
	n := c.N
	runMatrices(c, n)
	runPolys(c, n)
	runAngles(c, n)
	runBezier(c, n)
	runBezOps(c, n)
	runSegCurve(c, n)
	runSegRepeated(c, n)
	runJoined(c, n)
	runSearch(c, n)
	runGSS(c, n)
	runBisect(c, n)
	runCurveGlue(c, n)
	runResiduals(c, n)
	runRealRoots(c, n)
	runLength(c, n)
	runPeaked(c, n)
	runScov(c, n)
	runScaledResiduals(c, n)
	runRotations(c, n)
	runEig2(c, n)
	runVecs(c, n)
	runPolysF(c, n)
	runBicg(c, n)
	runLsq(c, n)
	runCubicInflection(c, n)
	runCached(c, n) // added last: earlier PRNG streams unchanged
}

func emit(c *hlib.Ctx, m mode, kind string, args string, impl func() string) {
	// second token = <kind>.<mode>: the check groups violations by the first two tokens (the "site")
	kw := strings.SplitN(kind, " ", 2)
	op := join("c17", kw[0]+"."+m.name, strings.Join(kw[1:], " "), args)
	res := hlib.Guard(impl)
	if strings.HasPrefix(res, "panic:") {
		res = "panic" // canonical enum; the message is not part of the contract
	}
	c.Emit(op, res)
	c.Stat("c17.cases."+m.name+"."+strings.ReplaceAll(kind, " ", "_"), 1)
}

var _ = fmt.Sprint
