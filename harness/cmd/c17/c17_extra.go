package main

import (
	"fmt"
	"math"
	"sort"
	"strings"

	"verif/harness/hlib"

	"github.com/unixpickle/model3d/model2d"
	"github.com/unixpickle/model3d/numerical"
)

// ---------------------------------------------------------------- real roots with known answer
//
// p = lead · ∏(x − r_i) · ∏((x − h_j)² + k_j)  with dyadic, pairwise separated r_i, k_j > 0 and
// BOTH signs of lead, degrees 1–8.  The real roots are known exactly, so the expected line is
// computed by the Lean driver from them (sorted); the implementation's roots are rounded to the
// 2^-16 grid the known roots live on.  This is a VALIDATION of the libm/iterative branches
// (cubic formula, bracketing between derivative roots, deflation) with tolerance 2^-17; what it
// pins down is "every real root and only real roots", for p and for −p alike.
func runRealRoots(c *hlib.Ctx, n int) {
	md := modeQ
	for i := 0; i < n/2; i++ {
		var roots []float64
		var quads [][2]float64
		switch c.Rng.Intn(8) {
		case 0: // ±(x^4 − 1)-like: coefficients and roots of modulus ~1 (Cauchy ratio M <= 2)
			roots = []float64{-1, 1}
			quads = [][2]float64{{0, 1}}
			if c.Rng.Intn(2) == 0 {
				quads = append(quads, [2]float64{0, 0.25})
			}
		case 1: // one root far out, next to the Cauchy bound, no sign change to help
			roots = []float64{float64(pick(c, -12, -10, 8, 10))}
			quads = [][2]float64{{0, 1}, {0, 1}}
			if c.Rng.Intn(2) == 0 {
				quads = quads[:1]
				quads[0] = [2]float64{0.5, 0.25}
				roots = append(roots, roots[0]+1)
			}
		case 3: // a*(x^2 - s^2), alone or times one more linear factor: the (deflated) quadratic has a linear
			// coefficient that is exactly (or, after deflation, nearly) zero
			sr := pick(c, 1.0, 2, 0.5, 1.5, 3)
			roots = []float64{-sr, sr}
			if c.Rng.Intn(2) == 0 {
				r0 := float64(pick(c, -6, -5, 5, 6, 4, -4))
				if r0 < 0 {
					roots = []float64{r0, -sr, sr}
				} else {
					roots = []float64{-sr, sr, r0}
				}
			}
			c.Stat("c17.realroots.symmetric_quadratic", 1)
		case 2: // symmetric pair, even degree
			r := pick(c, 1.25, 1.5, 0.75, 2)
			roots = []float64{-r, r}
			quads = [][2]float64{{0, pick(c, 0.25, 0.5, 1)}, {pick(c, 0.0, 0.5), 1}}
		default:
			deg := 1 + c.Rng.Intn(8)
			nreal := c.Rng.Intn(deg + 1)
			if (deg-nreal)%2 == 1 {
				nreal++
			}
			x := float64(c.Rng.Intn(17)-12) / 4
			for j := 0; j < nreal; j++ {
				roots = append(roots, x)
				x += 0.5 + float64(c.Rng.Intn(7))/4
			}
			for j := 0; j < (deg-nreal)/2; j++ {
				quads = append(quads, [2]float64{float64(c.Rng.Intn(17)-8) / 4, pick(c, 0.25, 0.5, 1, 2)})
			}
		}
		lead := pick(c, 0.5, 1, 2, 3)
		if c.Rng.Intn(2) == 0 {
			lead = -lead
		}
		emitRealRoots(c, md, lead, roots, quads)
	}
}

// emitRealRoots emits one `realroots` case for p = lead · ∏(x − r_i) · ∏((x − h_j)² + k_j) (and for −p) and returns the
// polynomial that was solved.
func emitRealRoots(c *hlib.Ctx, md mode, lead float64, roots []float64, quads [][2]float64) numerical.Polynomial {
	build := func(lead float64) numerical.Polynomial {
		p := numerical.Polynomial{lead}
		for _, r := range roots {
			p = p.Mul(numerical.Polynomial{-r, 1})
		}
		for _, q := range quads {
			p = p.Mul(numerical.Polynomial{q[0]*q[0] + q[1], -2 * q[0], 1})
		}
		return p
	}
	deg := len(roots) + 2*len(quads)
	c.Stat(fmt.Sprintf("c17.realroots.deg%d_lead%s", deg, map[bool]string{true: "neg", false: "pos"}[lead < 0]), 1)
	var qa []float64
	for _, q := range quads {
		qa = append(qa, q[0], q[1])
	}
	args := join(md.num(lead), itoa(len(roots)), md.nums(roots...), itoa(len(quads)), md.nums(qa...))
	emit(c, md, "realroots", args, func() string {
		render := func(p numerical.Polynomial) string {
			// the SAME polynomial value is used twice: the root finder (deflation by divideRoot, recursion on
			// sub-slices) must leave it alone and answer the same again
			keep := preserved(c, "Polynomial.RealRoots", p)
			rs := p.RealRoots()
			again := p.RealRoots()
			keep()
			if fmt.Sprint(again) != fmt.Sprint(rs) {
				c.PropFail("RealRoots/second-call-differs", fmt.Sprintf("p=%v: first %v, then %v", p, rs, again))
			}
			sort.Float64s(rs)
			for j, r := range rs {
				rs[j] = math.Round(r*65536) / 65536
			}
			return polyOut(md, rs)
		}
		a, b := render(build(lead)), render(build(-lead))
		if a != b {
			c.PropFail("RealRoots/p-and-minus-p-have-different-roots",
				fmt.Sprintf("lead=%v roots=%v quadratics(h,k)=%v: roots(p)=%s roots(-p)=%s", lead, roots, quads, a, b))
		}
		return join(a, "|", b)
	})
	return build(lead)
}

// ---------------------------------------------------------------- Bezier arc length (VALIDATION)
//
// BezierCurve.Length is adaptive quadrature/subdivision steered by error estimates: floating-point
// analysis, not proved.  What is checked, with a stated tolerance, is its consistency with Eval
// and Split: Length(c) against a fine chord sum of Eval, and against Length(left)+Length(right)
// for Split at several t — for every special-cased size (2, 3, cubic, generic), closed curves
// (first == last control point), repeated control points, collinear, degenerate and tiny polygons.
func chordSum(b model2d.BezierCurve, n int) float64 {
	s := 0.0
	p := b.Eval(0)
	for i := 1; i <= n; i++ {
		q := b.Eval(float64(i) / float64(n))
		s += q.Dist(p)
		p = q
	}
	return s
}

func runLength(c *hlib.Ctx, n int) {
	md := mode{"v", nil}
	for i := 0; i < n/3; i++ {
		k := 2 + c.Rng.Intn(6)
		if c.Rng.Intn(3) == 0 {
			k = 4
		}
		b := make(model2d.BezierCurve, k)
		for j := range b {
			b[j] = model2d.XY(c.Rng.Float64()*8-4, c.Rng.Float64()*8-4)
		}
		cls := "generic"
		switch c.Rng.Intn(8) {
		case 0, 1:
			b[k-1] = b[0]
			cls = "closed"
		case 2:
			if k > 2 {
				b[1] = b[0]
				cls = "repeated_first"
			}
		case 3:
			if k > 2 {
				b[k-2] = b[k-1]
				cls = "repeated_last"
			}
		case 4:
			for j := range b {
				b[j].Y = 2*b[j].X + 1
			}
			cls = "collinear"
		case 5:
			for j := range b {
				b[j] = b[0].Add(b[j].Scale(1e-6))
			}
			cls = "tiny"
		case 6:
			for j := range b {
				b[j] = b[0]
			}
			cls = "point"
		}
		c.Stat(fmt.Sprintf("c17.length.%s_len%d", cls, k), 1)
		desc := make([]string, len(b))
		for j, p := range b {
			desc[j] = hlib.Hex(p.X) + "," + hlib.Hex(p.Y)
		}
		emit(c, md, "resid length", join(itoa(i), cls, strings.Join(desc, " ")), func() string {
			const tol = 1e-8
			l := b.Length(tol, 0)
			ch := chordSum(b, 8192)
			lim := 1e-5*ch + 1e-7
			if math.IsNaN(l) || math.Abs(l-ch) > lim {
				return fmt.Sprintf("bad:length_%.10g_vs_chord_sum_of_Eval_%.10g", l, ch)
			}
			for _, t := range []float64{0.3, 0.5, 0.8} {
				b1, b2 := b.Split(t)
				s := b1.Length(tol, 0) + b2.Length(tol, 0)
				if math.IsNaN(s) || math.Abs(l-s) > lim {
					return fmt.Sprintf("bad:length_%.10g_vs_sum_of_Split(%v)_halves_%.10g", l, t, s)
				}
			}
			return "ok"
		})
	}
}

// ---------------------------------------------------------------- searches peaked at an end stop
//
// Objectives with a narrow spike exactly on (or right next to) the FIRST or LAST stop of the
// coarse level: the refinement window is then clamped at the search bounds, is not centred on the
// best sample, and no finer stop re-samples it — for odd as well as even Stops.
func spikeTab(md mode, x, w float64, up bool, c *hlib.Ctx) tabFn {
	hi, lo := float64(2+c.Rng.Intn(3)), float64(-c.Rng.Intn(3))
	if !up {
		hi, lo = -hi, -lo
	}
	return tabFn{[]float64{x - w, x + w}, []float64{lo, hi, lo}}
}

func runPeaked(c *hlib.Ctx, n int) {
	for i := 0; i < n/2; i++ {
		md := modeF
		stops := pick(c, 1, 3, 3, 5, 5, 7, 9, 11, 2, 4, 6)
		recs := 1 + c.Rng.Intn(4)
		lo, hi := bounds(c, md)
		if i%4 == 0 {
			// exact mode: 3 stops, one recursion, window clamped => every step is dyadic
			md, stops, recs = modeQ, 3, 1
			lo = dy(c, 4, 1)
			hi = lo + 3*pick(c, 0.5, 1, 2, 4)
		}
		step := (hi - lo) / float64(stops)
		idx := pick(c, 0, 0, stops-1, stops-1, 1, stops-2)
		if idx < 0 || idx >= stops {
			idx = 0
		}
		x := float64(idx)*step + step/2 + lo
		w := step / float64(4*stops*stops) * pick(c, 1.0, 0.5, 0.01)
		if md.name == "q" {
			w = step / 64
			idx = pick(c, 0, stops-1)
			x = float64(idx)*step + step/2 + lo
		}
		if c.Rng.Intn(4) == 0 && md.name == "f" {
			x += w / 2 // the spike is next to the stop, the stop still inside it
		}
		switch c.Rng.Intn(4) {
		case 0, 1:
			dir := pick(c, "max", "min")
			c.Stat("c17.peaked.ls_"+dir, 1)
			lineCase(c, md, dir, stops, recs, lo, hi, spikeTab(md, x, w, dir == "max", c))
		case 2:
			peakedGrid2(c, md)
		case 3:
			peakedGrid3(c, md)
		}
	}
}

func cornerAxis(c *hlib.Ctx, md mode, stops int) (lo, hi float64, a tabFn) {
	lo, hi = bounds(c, md)
	if md.name == "q" {
		lo = dy(c, 4, 1)
		hi = lo + float64(stops)*pick(c, 0.5, 1, 2)
	}
	step := (hi - lo) / float64(stops)
	idx := pick(c, 0, stops-1)
	x := float64(idx)*step + step/2 + lo
	w := step / 64
	return lo, hi, tabFn{bp: []float64{x - w, x + w}}
}

func peakCells(dims int, c *hlib.Ctx, up bool) []float64 {
	cells := 1
	for d := 0; d < dims; d++ {
		cells *= 3
	}
	vals := make([]float64, cells)
	for i := range vals {
		vals[i] = float64(-c.Rng.Intn(3))
	}
	center := 0
	for d := 0; d < dims; d++ {
		center = center*3 + 1
	}
	vals[center] = 3
	if !up {
		for i := range vals {
			vals[i] = -vals[i]
		}
	}
	return vals
}

func peakedGrid2(c *hlib.Ctx, md mode) {
	xs, ys := pick(c, 1, 3, 3, 5, 2), pick(c, 3, 3, 5, 4)
	recs := 1 + c.Rng.Intn(2)
	if md.name == "q" {
		xs, ys, recs = 3, 3, 1
	}
	x0, x1, ax := cornerAxis(c, md, xs)
	y0, y1, ay := cornerAxis(c, md, ys)
	dir := pick(c, "max", "min")
	f := tabFnN{axes: []tabFn{ax, ay}, vals: peakCells(2, c, dir == "max")}
	c.Stat("c17.peaked.g2_"+dir, 1)
	grid2Run(c, md, dir, xs, ys, recs, x0, y0, x1, y1, f)
}

func peakedGrid3(c *hlib.Ctx, md mode) {
	xs, ys, zs := pick(c, 1, 3, 2), pick(c, 3, 3, 5), pick(c, 3, 1, 2)
	recs := 1 + c.Rng.Intn(2)
	if md.name == "q" {
		xs, ys, zs, recs = 3, 3, 3, 1
	}
	x0, x1, ax := cornerAxis(c, md, xs)
	y0, y1, ay := cornerAxis(c, md, ys)
	z0, z1, az := cornerAxis(c, md, zs)
	dir := pick(c, "max", "min")
	f := tabFnN{axes: []tabFn{ax, ay, az}, vals: peakCells(3, c, dir == "max")}
	c.Stat("c17.peaked.g3_"+dir, 1)
	grid3Run(c, md, dir, xs, ys, zs, recs, x0, y0, z0, x1, y1, z1, f)
}
