package main

import (
	"fmt"
	"math"

	"verif/harness/hlib"

	"github.com/unixpickle/model3d/numerical"
)

// ---------------------------------------------------------------- LeastSquaresReg3 / LeastSquares3 (Round 6)
//
// kind lsqreg.f (DECIDING, bit for bit): the faithful model M3d.Num.Lsq.lsqReg3 — assembly of the normal equations row
// by row, lambda added to the diagonal entries 0, 4, 8, eigenvalue floor, v·s⁺·vᵀ·rightSide — run at Float with
// symEigDecomp as an ORACLE: the op line carries the normal matrix N the harness computed (same loop order), and the
// answer (S, V) of the REAL symEigDecomp on N (hook VerifSymEigDecomp3).  The driver recomputes N by the model, rejects
// the line if it differs, and continues with (S, V) as `eig N`.  The theorems lsq_reg3_normal_equations / lsq_reg3_ridge
// say what that model returns for ANY eig that keeps its contract (v orthogonal, v·s·vᵀ = N, s diagonal); the contract
// itself is validated by `resid.v symeig3*`.
//
// kind resid.v lsqreg3 (VALIDATION, relative tolerance 1e-4·(1 + ‖A‖_F²/λ), ‖A‖_F² ≤ 100λ): the returned x satisfies (AᵀA + λI)·x = Aᵀb, on systems of
// 0..8 rows (rank-deficient and under-determined ones included) with λ well above the floor, where lsq_reg3_ridge
// proves the equation without any conditioning hypothesis.

// normalEq is the harness's own copy of the assembly loop (only used to ask the oracle; the driver checks it against
// the model).
func normalEq(a []numerical.Vec3, b []float64, lambda float64) (numerical.Matrix3, numerical.Vec3) {
	var left numerical.Matrix3
	var right numerical.Vec3
	for r, v := range a {
		for k := 0; k < 3; k++ {
			right[k] = right[k] + v[k]*b[r]
		}
		idx := 0
		for j := 0; j < 3; j++ {
			for i := 0; i < 3; i++ {
				left[idx] = left[idx] + v[i]*v[j]
				idx++
			}
		}
	}
	left[0] = left[0] + lambda
	left[4] = left[4] + lambda
	left[8] = left[8] + lambda
	return left, right
}

func unitVec3(c *hlib.Ctx) numerical.Vec3 {
	for {
		v := numerical.Vec3{c.Rng.NormFloat64(), c.Rng.NormFloat64(), c.Rng.NormFloat64()}
		if n := v.Norm(); n > 1e-3 {
			return v.Scale(1 / n)
		}
	}
}

func runLsq(c *hlib.Ctx, n int) {
	for i := 0; i < n/3; i++ {
		// ---- the system
		rows := c.Rng.Intn(9)
		shape := pick(c, "generic", "generic", "dc_normals", "rank1", "rank2", "axis", "integer")
		if rows == 0 {
			shape = "empty"
		}
		a := make([]numerical.Vec3, rows)
		b := make([]float64, rows)
		var u1, u2 numerical.Vec3
		u1, u2 = unitVec3(c), unitVec3(c)
		for r := range a {
			switch shape {
			case "generic":
				a[r] = numerical.Vec3{c.Rng.NormFloat64(), c.Rng.NormFloat64(), c.Rng.NormFloat64()}
				b[r] = c.Rng.NormFloat64() * 2
			case "dc_normals": // what DualContouring passes: unit normals, small offsets
				a[r] = unitVec3(c)
				b[r] = c.Rng.NormFloat64() * 0.05
			case "rank1": // every row a multiple of one direction
				a[r] = u1.Scale(c.Rng.NormFloat64())
				b[r] = c.Rng.NormFloat64()
			case "rank2": // rows in one plane
				a[r] = u1.Scale(c.Rng.NormFloat64()).Add(u2.Scale(c.Rng.NormFloat64()))
				b[r] = c.Rng.NormFloat64()
			case "axis": // scaled unit vectors: A^T A is diagonal
				a[r][c.Rng.Intn(3)] = float64(pick(c, 1, 2, -1, 3, 0.5))
				b[r] = float64(c.Rng.Intn(9) - 4)
			case "integer":
				a[r] = numerical.Vec3{float64(c.Rng.Intn(7) - 3), float64(c.Rng.Intn(7) - 3), float64(c.Rng.Intn(7) - 3)}
				b[r] = float64(c.Rng.Intn(9) - 4)
			}
		}
		// ---- the penalty: non-zero in three quarters of the cases (LeastSquares3 itself otherwise)
		var lambda float64
		lamCls := pick(c, "zero", "pow2", "pow2", "small", "generic", "generic", "large", "one")
		switch lamCls {
		case "pow2":
			lambda = math.Ldexp(1, c.Rng.Intn(13)-8)
		case "small":
			lambda = math.Ldexp(1+c.Rng.Float64(), -20-c.Rng.Intn(15))
		case "generic":
			lambda = 0.01 + c.Rng.Float64()*4
		case "large":
			lambda = 50 + c.Rng.Float64()*1000
		case "one":
			lambda = 1
		}
		eps := pick(c, 1e-12, 1e-12, 0, 0.1, 1e-3, 2.5)
		// ---- a third of the cases at a dyadic scale (A by 2^k, lambda and epsilon by 4^k: the same system)
		k := 0
		if c.Rng.Intn(3) == 0 {
			k = c.Rng.Intn(61) - 30
			for r := range a {
				a[r] = a[r].Scale(math.Ldexp(1, k))
			}
			lambda = math.Ldexp(lambda, 2*k)
			eps = math.Ldexp(eps, 2*k)
		}
		c.Stat("c17.lsqreg.rows_"+itoa(rows), 1)
		c.Stat("c17.lsqreg.shape_"+shape, 1)
		c.Stat("c17.lsqreg.lambda_"+lamCls, 1)
		if lambda != 0 {
			c.Stat("c17.lsqreg.lambda_nonzero", 1)
		}

		md := modeF
		nm, _ := normalEq(a, b, lambda)
		var s, v numerical.Matrix3
		oracle := hlib.Guard(func() string {
			s, v = numerical.VerifSymEigDecomp3(&nm)
			return "ok"
		})
		if oracle != "ok" {
			continue
		}
		cut := 0
		for d := 0; d < 3; d++ {
			if !(s[d*4] > eps) {
				cut++
			}
		}
		c.Stat(fmt.Sprintf("c17.lsqreg.eigenvalues_below_floor_%d", cut), 1)
		var flat []float64
		for r := range a {
			flat = append(flat, a[r][0], a[r][1], a[r][2], b[r])
		}
		variant := "reg3"
		if lambda == 0 && c.Rng.Intn(2) == 0 {
			variant = "lsq3"
		}
		args := join(variant, itoa(rows), md.nums(flat...), md.num(lambda), md.num(eps), "|",
			md.nums(nm[:]...), md.nums(s[:]...), md.nums(v[:]...))
		var x numerical.Vec3
		emit(c, md, "lsqreg", args, func() string {
			ac := append([]numerical.Vec3{}, a...)
			bc := append([]float64{}, b...)
			if variant == "lsq3" {
				x = numerical.LeastSquares3(ac, bc, eps)
			} else {
				x = numerical.LeastSquaresReg3(ac, bc, lambda, eps)
			}
			for r := range a {
				if ac[r] != a[r] || bc[r] != b[r] {
					c.PropFail("LeastSquaresReg3/operand-modified", fmt.Sprintf("a=%v b=%v lambda=%v", a, b, lambda))
					break
				}
			}
			return md.out(x[:]...)
		})

		// ---- validation of the defining equation where lsq_reg3_ridge needs no conditioning hypothesis:
		// lambda well above the floor and not negligible against A^T A
		frob := 0.0
		for r := range a {
			frob += a[r].Dot(a[r])
		}
		if lambda > 0 && lambda > 4*eps && frob <= 100*lambda {
			c.Stat("c17.lsqreg.residual_checked", 1)
			mdv := mode{"v", nil}
			desc := join(itoa(i), shape, itoa(rows), hlib.Hex(lambda), hlib.Hex(eps), modeF.nums(flat...))
			emit(c, mdv, "resid lsqreg3", desc, func() string {
				xs := numerical.LeastSquaresReg3(a, b, lambda, eps)
				gram, rhs := normalEq(a, b, 0)
				lhs := gram.MulColumn(xs).Add(xs.Scale(lambda))
				scale := 0.0
				for _, g := range gram {
					scale = math.Max(scale, math.Abs(g))
				}
				xm := math.Max(math.Abs(xs[0]), math.Max(math.Abs(xs[1]), math.Abs(xs[2])))
				rm := math.Max(math.Abs(rhs[0]), math.Max(math.Abs(rhs[1]), math.Abs(rhs[2])))
				den := (scale+lambda)*xm + rm
				e := maxAbsDiff(lhs[:], rhs[:])
				if den == 0 {
					if e == 0 {
						return "ok"
					}
					return fmt.Sprintf("bad:lsqreg3_residual_%.3g_on_zero_system", e)
				}
				// N = A^T A + lambda*I has (nearly) multiple eigenvalues by construction (lambda itself, with multiplicity 3 - rank A);
				// the closed-form cubic behind symEigDecomp resolves a nearly triple eigenvalue only to ~eps^(1/3) = 6e-6
				// (worst relative residual of the unchanged tree over 400 000 probes: 5.2e-6), hence 1e-4, times the condition bound
				if math.IsNaN(e) || e/den > 1e-4*(1+frob/lambda) {
					return fmt.Sprintf("bad:lsqreg3_(A^TA+lambda*I)x-A^Tb_relative_%.3g_x=%v", e/den, xs)
				}
				return "ok"
			})
		}
	}
}

// ---------------------------------------------------------------- cubics with b² = 3ac exactly (Round 6)
//
// The cubic branch of IterRealRoots computes disc0 = b² − 3ac; disc0 == 0 EXACTLY (with disc1 != 0) is the shifted pure
// cubic a·((x − m)³ − w³) of cubic_disc0_zero_roots / cubic_shifted_roots: one real root m + w, NOT the inflection
// point m.  Random coefficients never satisfy the equality, so these are drawn on purpose, in the (lead, roots,
// quadratic factors) form of `realroots.q`:  r = m + w, (h, k) = (m − w/2, 3w²/4); all numbers small dyadics, so the
// coefficients the real code receives are exact.  Also reached as a derivative (quartics (x − r1)(x − r2)((x − h)² + k)
// without cubic and quadratic term, quartic_pure_cubic_derivative, shifted by m) and as a deflated factor
// ((x − r0)·cubic).
func runCubicInflection(c *hlib.Ctx, n int) {
	md := modeQ
	ws := []float64{1, 2, -1, -2, 0.5, -0.5, 3, -3, 4, 1.5, -1.5, 6}
	for i := 0; i < n/6+4; i++ {
		var roots []float64
		var quads [][2]float64
		cls := pick(c, "pure", "pure", "shifted", "shifted", "shifted", "quartic_derivative", "quartic_derivative", "deflated", "quintic")
		w := pick(c, ws...)
		m := 0.0
		if cls != "pure" {
			m = float64(c.Rng.Intn(17)-8) / 2
		}
		switch cls {
		case "pure", "shifted":
			roots = []float64{m + w}
			quads = [][2]float64{{m - w/2, 3 * w * w / 4}}
		case "deflated": // one more real root, well away from m + w: the cubic is what deflation leaves behind
			r0 := m + w + float64(pick(c, -7, -5, 5, 8))
			roots = []float64{math.Min(r0, m+w), math.Max(r0, m+w)}
			quads = [][2]float64{{m - w/2, 3 * w * w / 4}}
		case "quartic_derivative", "quintic":
			r1 := float64(c.Rng.Intn(9)-4) / 2
			r2 := r1 + 0.5 + float64(c.Rng.Intn(8))/2
			h := -(r1 + r2) / 2
			k := 3*h*h - r1*r2
			roots = []float64{r1 + m, r2 + m}
			quads = [][2]float64{{h + m, k}}
			if cls == "quintic" {
				roots = append(roots, r2+m+3)
			}
		}
		lead := pick(c, 0.5, 1, 2, 3, 5)
		if c.Rng.Intn(2) == 0 {
			lead = -lead
		}
		c.Stat("c17.realroots.inflection_"+cls, 1)
		p := emitRealRoots(c, md, lead, roots, quads)
		// record that the branch condition is really met by the coefficients the code received
		q := p
		if cls == "quartic_derivative" {
			q = p.Derivative()
		}
		if len(q) == 4 {
			disc0 := q[2]*q[2] - 3*q[3]*q[1]
			disc1 := 2*q[2]*q[2]*q[2] - 9*q[3]*q[2]*q[1] + 27*q[3]*q[3]*q[0]
			if disc0 == 0 && disc1 != 0 {
				c.Stat("c17.realroots.cubic_disc0_exactly_zero_disc1_nonzero", 1)
			} else if cls != "deflated" && cls != "quintic" {
				c.Stat("c17.realroots.cubic_generator_missed_disc0", 1)
			}
		}
	}
}
