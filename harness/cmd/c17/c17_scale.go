package main

import (
	"fmt"
	"math"
	"sort"
	"strings"

	"verif/harness/hlib"

	"github.com/unixpickle/model3d/model2d"
	"github.com/unixpickle/model3d/model3d"
	"github.com/unixpickle/model3d/numerical"
)

// ---------------------------------------------------------------- scale covariance
//
// "Well-conditioned" is a scale-free notion: M and 2^k·M have the same condition number, so the
// reconstruction contracts of C17 must hold at every scale.  Multiplying a double by 2^k is exact
// (no entry here leaves the normal range), so the matrix 2^k·M is the SAME case up to the scale
// covariance theorems of Props/C17.lean (`mat*_smul_det`, `mat*_smul_inverse`, `mat*_smul_charpoly`,
// `mat*_smul_eigenpair`, `mat*_smul_gram`, `mat*_svd_smul`): eigenvalues and singular values scale
// by 2^k, the inverse by 2^-k, the determinant by 2^(nk), U and V do not change.
//
//   scov.f   DECIDES scale covariance bit for bit, for the kernels whose code path is scale-free
//            (only + - * / sqrt and comparisons, every one of which commutes exactly with a power
//            of two): Matrix2 Eigenvalues / SVD / symEigDecomp, Matrix2/3 Inverse and Det, Matrix4
//            Det and CharPoly.  The op line carries the real outputs on M; the Lean driver scales
//            them by the exponents the theorems give (2^(k·e), exact) and the real outputs on
//            2^k·M must be EQUAL.  Together with the verdict on M itself (decided by the faithful
//            models for Inverse/Det/CharPoly, validated by `resid.v` for SVD/Eigenvalues) this
//            carries that verdict to every scale.
//   resid.v  (… scaled) VALIDATES, with a tolerance RELATIVE to the matrix norm, the kernels whose
//            code path is not scale-free (cmplx.Pow(·, 1/3) in the cubic formula, the root finder in
//            Matrix4.SVD): Matrix3 Eigenvalues / SVD / symEigDecomp (numerical and model3d),
//            Matrix4 SVD, LeastSquares3 (epsilon scaled by 4^k), SparseCholesky, and once more the
//            2x2 kernels.  The Lean side answers "ok".

func ldexpAll(xs []float64, k int) []float64 {
	out := make([]float64, len(xs))
	f := math.Ldexp(1, k)
	for i, x := range xs {
		out[i] = x * f
	}
	return out
}

// drawK: exponent in [-40, 40], small scales (where absolute epsilons bite) over-weighted.
func drawK(c *hlib.Ctx) int {
	switch c.Rng.Intn(4) {
	case 0:
		return -40 + c.Rng.Intn(24) // 2^-40 .. 2^-17
	case 1:
		return 17 + c.Rng.Intn(24) // 2^17 .. 2^40
	}
	return c.Rng.Intn(81) - 40
}

func emitScov(c *hlib.Ctx, what string, k int, input []float64, base []float64, scaled func() []float64) {
	op := join("c17", "scov.f", what, itoa(k), modeF.nums(input...), "|", modeF.nums(base...))
	res := hlib.Guard(func() string { return modeF.out(scaled()...) })
	if strings.HasPrefix(res, "panic:") {
		res = "panic"
	}
	c.Emit(op, res)
	c.Stat("c17.cases.scov."+strings.ReplaceAll(what, " ", "_"), 1)
}

func cplx2(e [2]complex128) []float64 {
	return []float64{real(e[0]), imag(e[0]), real(e[1]), imag(e[1])}
}

// wellCond2 / 3 / 4: rotation · diag(separated) · rotation^T, optionally made symmetric.
func wellCond2(c *hlib.Ctx) (*numerical.Matrix2, []float64) {
	s := separated(c, 2)
	return rot2(c).Mul(&numerical.Matrix2{s[0], 0, 0, s[1]}).Mul(rot2(c).Transpose()), s
}

func wellCond3(c *hlib.Ctx) (*numerical.Matrix3, []float64) {
	s := separated(c, 3)
	return rot3(c).Mul(&numerical.Matrix3{s[0], 0, 0, 0, s[1], 0, 0, 0, s[2]}).Mul(rot3(c).Transpose()), s
}

func sym2(c *hlib.Ctx) (*numerical.Matrix2, []float64) {
	s := separated(c, 2)
	if c.Rng.Intn(3) == 0 {
		s[1] = -s[1]
	}
	q := rot2(c)
	a := q.Mul(&numerical.Matrix2{s[0], 0, 0, s[1]}).Mul(q.Transpose())
	a[2] = a[1]
	return a, s
}

func sym3(c *hlib.Ctx) (*numerical.Matrix3, []float64) {
	s := separated(c, 3)
	for i := range s {
		if c.Rng.Intn(3) == 0 {
			s[i] = -s[i]
		}
	}
	q := rot3(c)
	a := q.Mul(&numerical.Matrix3{s[0], 0, 0, 0, s[1], 0, 0, 0, s[2]}).Mul(q.Transpose())
	a[3], a[6], a[7] = a[1], a[2], a[5]
	return a, s
}

func runScov(c *hlib.Ctx, n int) {
	for i := 0; i < n/4; i++ {
		k := drawK(c)
		if k == 0 {
			k = -20
		}
		// --- Matrix2.SVD (numerical and model2d): u, v unchanged, s scaled by 2^k
		{
			m, _ := wellCond2(c)
			if c.Rng.Intn(4) == 0 {
				for j := range m {
					m[j] = anyFloat(c, 10)
				}
			}
			sm := ldexpAll(m[:], k)
			variant := pick(c, "num", "m2d")
			svd := func(x []float64) []float64 {
				if variant == "num" {
					a := numerical.Matrix2{x[0], x[1], x[2], x[3]}
					var u, s, v numerical.Matrix2
					a.SVD(&u, &s, &v)
					return append(append(append([]float64{}, u[:]...), s[:]...), v[:]...)
				}
				a := model2d.Matrix2{x[0], x[1], x[2], x[3]}
				var u, s, v model2d.Matrix2
				a.SVD(&u, &s, &v)
				return append(append(append([]float64{}, u[:]...), s[:]...), v[:]...)
			}
			emitScov(c, "svd2 "+variant, k, m[:], svd(m[:]), func() []float64 { return svd(sm) })
		}
		// --- Matrix2.Eigenvalues (real or complex pair): both scaled by 2^k
		{
			var m []float64
			if c.Rng.Intn(2) == 0 {
				a, _ := sym2(c)
				m = a[:]
			} else {
				m = []float64{anyFloat(c, 10), anyFloat(c, 10), anyFloat(c, 10), anyFloat(c, 10)}
			}
			sm := ldexpAll(m, k)
			variant := pick(c, "num", "m2d")
			eig := func(x []float64) []float64 {
				if variant == "num" {
					a := numerical.Matrix2{x[0], x[1], x[2], x[3]}
					return cplx2(a.Eigenvalues())
				}
				a := model2d.Matrix2{x[0], x[1], x[2], x[3]}
				return cplx2(a.Eigenvalues())
			}
			emitScov(c, "eig2 "+variant, k, m, eig(m), func() []float64 { return eig(sm) })
		}
		// --- Matrix2.symEigDecomp (hook): s scaled, v unchanged
		{
			a, _ := sym2(c)
			sm := ldexpAll(a[:], k)
			dec := func(x []float64) []float64 {
				s, v := numerical.VerifSymEigDecomp2(&numerical.Matrix2{x[0], x[1], x[2], x[3]})
				return append(append([]float64{}, s[:]...), v[:]...)
			}
			emitScov(c, "symeig2 num", k, a[:], dec(a[:]), func() []float64 { return dec(sm) })
		}
		// --- Inverse / Det of Matrix2, Matrix3 (+ twins), Det / CharPoly of Matrix4
		{
			m := make([]float64, 4)
			for j := range m {
				m[j] = anyFloat(c, 10)
			}
			sm := ldexpAll(m, k)
			variant := pick(c, "num", "m2d")
			inv := func(x []float64) []float64 {
				if variant == "num" {
					a := numerical.Matrix2{x[0], x[1], x[2], x[3]}
					return append(a.Inverse()[:], a.Det())
				}
				a := model2d.Matrix2{x[0], x[1], x[2], x[3]}
				return append(a.Inverse()[:], a.Det())
			}
			if d := m[0]*m[3] - m[1]*m[2]; d != 0 {
				emitScov(c, "inv2 "+variant, k, m, inv(m), func() []float64 { return inv(sm) })
			}
		}
		{
			m := make([]float64, 9)
			for j := range m {
				m[j] = anyFloat(c, 10)
			}
			sm := ldexpAll(m, k)
			variant := pick(c, "num", "m3d")
			inv := func(x []float64) []float64 {
				if variant == "num" {
					var a numerical.Matrix3
					copy(a[:], x)
					return append(a.Inverse()[:], a.Det())
				}
				var a model3d.Matrix3
				copy(a[:], x)
				return append(a.Inverse()[:], a.Det())
			}
			var a numerical.Matrix3
			copy(a[:], m)
			if a.Det() != 0 {
				emitScov(c, "inv3 "+variant, k, m, inv(m), func() []float64 { return inv(sm) })
			}
		}
		if i%2 == 0 {
			m := make([]float64, 16)
			for j := range m {
				m[j] = anyFloat(c, 4)
			}
			sm := ldexpAll(m, k)
			cp := func(x []float64) []float64 {
				var a numerical.Matrix4
				copy(a[:], x)
				return append(append([]float64{}, a.CharPoly()...), a.Det())
			}
			emitScov(c, "charpoly4 num", k, m, cp(m), func() []float64 { return cp(sm) })
		}
	}
}

// ---------------------------------------------------------------- relative residuals at scale

// relVerdict: err is already divided by the norm of the (scaled) matrix.
func relVerdict(err, tol float64, what string) string {
	if math.IsNaN(err) || err > tol {
		return fmt.Sprintf("bad:%s_relerr=%.3g", what, err)
	}
	return "ok"
}

func maxAbs(a []float64) float64 {
	d := 0.0
	for _, x := range a {
		d = math.Max(d, math.Abs(x))
	}
	return d
}

// sortedDiff: max |sorted(a) - sorted(b)|.
func sortedDiff(a, b []float64) float64 {
	x := append([]float64{}, a...)
	y := append([]float64{}, b...)
	sort.Float64s(x)
	sort.Float64s(y)
	return maxAbsDiff(x, y)
}

func runScaledResiduals(c *hlib.Ctx, n int) {
	md := mode{"v", nil}
	id2 := []float64{1, 0, 0, 1}
	id3 := []float64{1, 0, 0, 0, 1, 0, 0, 0, 1}
	for i := 0; i < n/4; i++ {
		id := itoa(i)
		// --- SVD 2x2 (numerical + model2d)
		{
			k := drawK(c)
			sc := math.Ldexp(1, k)
			m0, s := wellCond2(c)
			m := numerical.Matrix2{m0[0] * sc, m0[1] * sc, m0[2] * sc, m0[3] * sc}
			norm := s[0] * sc
			emit(c, md, "resid svd2_scaled", join(id, itoa(k), modeF.nums(m[:]...)), func() string {
				var u, sv, v numerical.Matrix2
				m.SVD(&u, &sv, &v)
				rec := u.Mul(&sv).Mul(v.Transpose())
				e := maxAbsDiff(rec[:], m[:]) / norm
				e = math.Max(e, maxAbsDiff(u.Mul(u.Transpose())[:], id2))
				e = math.Max(e, maxAbsDiff(v.Mul(v.Transpose())[:], id2))
				e = math.Max(e, (math.Abs(sv[0]-s[0]*sc)+math.Abs(sv[3]-s[1]*sc))/norm)
				return relVerdict(e, residTol, "svd2")
			})
			mm := model2d.Matrix2(m)
			emit(c, md, "resid svd2_model2d_scaled", join(id, itoa(k), modeF.nums(m[:]...)), func() string {
				var u, sv, v model2d.Matrix2
				mm.SVD(&u, &sv, &v)
				rec := u.Mul(&sv).Mul(v.Transpose())
				e := maxAbsDiff(rec[:], mm[:]) / norm
				e = math.Max(e, maxAbsDiff(u.Mul(u.Transpose())[:], id2))
				e = math.Max(e, maxAbsDiff(v.Mul(v.Transpose())[:], id2))
				e = math.Max(e, (math.Abs(sv[0]-s[0]*sc)+math.Abs(sv[3]-s[1]*sc))/norm)
				return relVerdict(e, residTol, "svd2")
			})
		}
		// --- SVD 3x3 (numerical + model3d), singular values known
		{
			k := drawK(c)
			sc := math.Ldexp(1, k)
			m0, s := wellCond3(c)
			var m numerical.Matrix3
			var mm model3d.Matrix3
			for j := range m {
				m[j] = m0[j] * sc
				mm[j] = m[j]
			}
			norm := s[0] * sc
			if k <= -17 {
				c.Stat("c17.scaled.svd3_below_2^-17", 1)
			}
			emit(c, md, "resid svd3_scaled", join(id, itoa(k), modeF.nums(m[:]...)), func() string {
				var u, sv, v numerical.Matrix3
				m.SVD(&u, &sv, &v)
				rec := u.Mul(&sv).Mul(v.Transpose())
				e := maxAbsDiff(rec[:], m[:]) / norm
				e = math.Max(e, maxAbsDiff(u.Mul(u.Transpose())[:], id3))
				e = math.Max(e, maxAbsDiff(v.Mul(v.Transpose())[:], id3))
				e = math.Max(e, (math.Abs(sv[0]-s[0]*sc)+math.Abs(sv[4]-s[1]*sc)+math.Abs(sv[8]-s[2]*sc))/norm)
				return relVerdict(e, residTol, "svd3")
			})
			emit(c, md, "resid svd3_model3d_scaled", join(id, itoa(k), modeF.nums(m[:]...)), func() string {
				var u, sv, v model3d.Matrix3
				mm.SVD(&u, &sv, &v)
				rec := u.Mul(&sv).Mul(v.Transpose())
				e := maxAbsDiff(rec[:], mm[:]) / norm
				e = math.Max(e, maxAbsDiff(u.Mul(u.Transpose())[:], id3))
				e = math.Max(e, maxAbsDiff(v.Mul(v.Transpose())[:], id3))
				e = math.Max(e, (math.Abs(sv[0]-s[0]*sc)+math.Abs(sv[4]-s[1]*sc)+math.Abs(sv[8]-s[2]*sc))/norm)
				return relVerdict(e, residTol, "svd3")
			})
		}
		// --- symmetric 3x3: Eigenvalues (numerical + model3d) and symEigDecomp, eigenvalues known
		{
			k := drawK(c)
			sc := math.Ldexp(1, k)
			a0, ev0 := sym3(c)
			var a numerical.Matrix3
			var am model3d.Matrix3
			for j := range a {
				a[j] = a0[j] * sc
				am[j] = a[j]
			}
			ev := ldexpAll(ev0, k)
			norm := maxAbs(ev)
			if k <= -27 {
				c.Stat("c17.scaled.eig3_below_2^-27", 1)
			}
			eigCheck := func(got [3]complex128) string {
				g := []float64{real(got[0]), real(got[1]), real(got[2])}
				e := sortedDiff(g, ev) / norm
				for _, z := range got {
					e = math.Max(e, math.Abs(imag(z))/norm)
				}
				return relVerdict(e, residTol, "eigvals3")
			}
			emit(c, md, "resid eigvals3_scaled", join(id, itoa(k), modeF.nums(a[:]...)), func() string { return eigCheck(a.Eigenvalues()) })
			emit(c, md, "resid eigvals3_model3d_scaled", join(id, itoa(k), modeF.nums(a[:]...)), func() string { return eigCheck(am.Eigenvalues()) })
			emit(c, md, "resid symeig3_scaled", join(id, itoa(k), modeF.nums(a[:]...)), func() string {
				se, ve := numerical.VerifSymEigDecomp3(&a)
				rec := ve.Mul(&se).Mul(ve.Transpose())
				e := maxAbsDiff(rec[:], a[:]) / norm
				e = math.Max(e, maxAbsDiff(ve.Mul(ve.Transpose())[:], id3))
				e = math.Max(e, sortedDiff([]float64{se[0], se[4], se[8]}, ev)/norm)
				return relVerdict(e, residTol, "symeig3")
			})
		}
		// --- non-symmetric 3x3 with known real eigenvalues: P diag P^-1, P well-conditioned
		{
			k := drawK(c)
			sc := math.Ldexp(1, k)
			p, ps := wellCond3(c)
			ev0 := separated(c, 3)
			for j := range ev0 {
				if c.Rng.Intn(3) == 0 {
					ev0[j] = -ev0[j]
				}
			}
			a0 := p.Mul(&numerical.Matrix3{ev0[0], 0, 0, 0, ev0[1], 0, 0, 0, ev0[2]}).Mul(p.Inverse())
			var a numerical.Matrix3
			var am model3d.Matrix3
			for j := range a {
				a[j] = a0[j] * sc
				am[j] = a[j]
			}
			ev := ldexpAll(ev0, k)
			norm := maxAbs(ev) * ps[0] / ps[2] // eigenvalue conditioning of a non-normal matrix: kappa(P)
			eigCheck := func(got [3]complex128) string {
				g := []float64{real(got[0]), real(got[1]), real(got[2])}
				e := sortedDiff(g, ev) / norm
				for _, z := range got {
					e = math.Max(e, math.Abs(imag(z))/norm)
				}
				return relVerdict(e, residTol, "eigvals3_nonsym")
			}
			emit(c, md, "resid eigvals3_nonsym_scaled", join(id, itoa(k), modeF.nums(a[:]...)), func() string { return eigCheck(a.Eigenvalues()) })
			emit(c, md, "resid eigvals3_nonsym_model3d_scaled", join(id, itoa(k), modeF.nums(a[:]...)), func() string { return eigCheck(am.Eigenvalues()) })
		}
		// --- least squares at scale: A -> 2^k A, b -> 2^j b, epsilon -> 4^k epsilon; x scales by 2^(j-k)
		{
			k := drawK(c)
			sc := math.Ldexp(1, k)
			m0, s := wellCond3(c)
			rows := 3 + c.Rng.Intn(5)
			avs := make([]numerical.Vec3, rows)
			x0 := numerical.Vec3{c.Rng.NormFloat64(), c.Rng.NormFloat64(), c.Rng.NormFloat64()}
			bs := make([]float64, rows)
			for r := range avs {
				if r < 3 {
					avs[r] = numerical.Vec3{m0[r*3] * sc, m0[r*3+1] * sc, m0[r*3+2] * sc}
				} else {
					avs[r] = numerical.Vec3{c.Rng.NormFloat64() * sc, c.Rng.NormFloat64() * sc, c.Rng.NormFloat64() * sc}
				}
				bs[r] = avs[r].Dot(x0)
			}
			eps := 1e-12 * sc * sc
			emit(c, md, "resid lsq3_scaled", join(id, itoa(k)), func() string {
				x := numerical.LeastSquares3(avs, bs, eps)
				e := maxAbsDiff(x[:], x0[:]) / math.Max(1, x0.Norm())
				return relVerdict(e, residTol*math.Max(1, s[0]*s[0]/(s[2]*s[2])), "lsq3")
			})
		}
		// --- SVD 4x4 at scale
		{
			k := drawK(c)
			sc := math.Ldexp(1, k)
			s := separated(c, 4)
			m0 := rot4(c).Mul(&numerical.Matrix4{s[0], 0, 0, 0, 0, s[1], 0, 0, 0, 0, s[2], 0, 0, 0, 0, s[3]}).Mul(rot4(c).Transpose())
			m := m0.Scale(sc)
			id4 := numerical.NewMatrix4Identity()
			norm := s[0] * sc
			emit(c, md, "resid svd4_scaled", join(id, itoa(k), modeF.nums(m[:]...)), func() string {
				var u, sv, v numerical.Matrix4
				m.SVD(&u, &sv, &v)
				rec := u.Mul(&sv).Mul(v.Transpose())
				e := maxAbsDiff(rec[:], m[:]) / norm
				e = math.Max(e, maxAbsDiff(u.Mul(u.Transpose())[:], id4[:]))
				e = math.Max(e, maxAbsDiff(v.Mul(v.Transpose())[:], id4[:]))
				e = math.Max(e, sortedDiff([]float64{sv[0], sv[5], sv[10], sv[15]}, ldexpAll(s, k))/norm)
				return relVerdict(e, 100*residTol, "svd4")
			})
		}
		// --- sparse Cholesky at scale: (2^k A) x = b
		{
			k := drawK(c)
			sc := math.Ldexp(1, k)
			size := 3 + c.Rng.Intn(10)
			dense := make([][]float64, size)
			for r := range dense {
				dense[r] = make([]float64, size)
			}
			for r := 0; r < size; r++ {
				for j := 0; j < 2; j++ {
					o := c.Rng.Intn(size)
					if o != r {
						v := c.Rng.NormFloat64()
						dense[r][o], dense[o][r] = v, v
					}
				}
			}
			// a ring, so that the factorisation has fill-in
			if size >= 4 && c.Rng.Intn(2) == 0 {
				for r := 0; r < size; r++ {
					o := (r + 1) % size
					dense[r][o], dense[o][r] = -1, -1
				}
			}
			for r := 0; r < size; r++ {
				sum := 1 + c.Rng.Float64()
				for o := 0; o < size; o++ {
					if o != r {
						sum += math.Abs(dense[r][o])
					}
				}
				dense[r][r] = sum
			}
			sp := numerical.NewSparseMatrix(size)
			for r := 0; r < size; r++ {
				for o := 0; o < size; o++ {
					if dense[r][o] != 0 {
						sp.Set(r, o, dense[r][o]*sc)
					}
				}
			}
			b := make([]numerical.Vec3, size)
			bn := 0.0
			for r := range b {
				b[r] = numerical.Vec3{c.Rng.NormFloat64(), c.Rng.NormFloat64(), c.Rng.NormFloat64()}
				bn = math.Max(bn, b[r].Norm())
			}
			emit(c, md, "resid cholesky_scaled", join(id, itoa(size), itoa(k)), func() string {
				ch := numerical.NewSparseCholesky(sp)
				x := ch.ApplyInverseVec3(b)
				ax := sp.ApplyVec3(x)
				e := 0.0
				for r := range ax {
					e = math.Max(e, ax[r].Dist(b[r])/bn)
				}
				fx := ch.ApplyVec3(b)
				mx := sp.ApplyVec3(b)
				for r := range fx {
					e = math.Max(e, fx[r].Dist(mx[r])/(bn*sc*float64(size)*8))
				}
				return relVerdict(e, residTol, "cholesky")
			})
		}
	}
}

// ---------------------------------------------------------------- rotations
//
// VALIDATION of the constructors through libm (cos/sin): NewMatrix2Rotation / NewMatrix3Rotation
// (numerical and the model2d / model3d twins) are orthogonal with determinant 1, fix the axis,
// have trace 1 + 2cos(angle), compose additively about one axis, R(-t) undoes R(t), and rotating a
// vector of any scale 2^k preserves its length and is undone (error relative to the length).
// The algebraic content is PROVED on the regenerated definitions (`rotation2_orthogonal`,
// `rotation3_orthogonal`, `rotation3_fixes_axis`, … in Props/C17.lean); here the real code is run.
func runRotations(c *hlib.Ctx, n int) {
	md := mode{"v", nil}
	id2 := []float64{1, 0, 0, 1}
	id3 := []float64{1, 0, 0, 0, 1, 0, 0, 0, 1}
	for i := 0; i < n/4; i++ {
		id := itoa(i)
		k := drawK(c)
		sc := math.Ldexp(1, k)
		th := (c.Rng.Float64()*2 - 1) * 7
		th2 := (c.Rng.Float64()*2 - 1) * 7
		if c.Rng.Intn(6) == 0 {
			th = pick(c, 0.0, math.Pi/2, math.Pi, -math.Pi/2, 2*math.Pi)
		}
		variant := pick(c, "num", "twin")
		emit(c, md, "resid rot2_"+variant, join(id, itoa(k), modeF.nums(th, th2)), func() string {
			var r, rn, r2, r12 []float64
			if variant == "num" {
				r, rn = numerical.NewMatrix2Rotation(th)[:], numerical.NewMatrix2Rotation(-th)[:]
				r2, r12 = numerical.NewMatrix2Rotation(th2)[:], numerical.NewMatrix2Rotation(th + th2)[:]
			} else {
				r, rn = model2d.NewMatrix2Rotation(th)[:], model2d.NewMatrix2Rotation(-th)[:]
				r2, r12 = model2d.NewMatrix2Rotation(th2)[:], model2d.NewMatrix2Rotation(th + th2)[:]
			}
			R := numerical.Matrix2{r[0], r[1], r[2], r[3]}
			Rn := numerical.Matrix2{rn[0], rn[1], rn[2], rn[3]}
			R2 := numerical.Matrix2{r2[0], r2[1], r2[2], r2[3]}
			e := maxAbsDiff(R.Mul(R.Transpose())[:], id2)
			e = math.Max(e, math.Abs(R.Det()-1))
			e = math.Max(e, maxAbsDiff(R.Mul(&Rn)[:], id2))
			e = math.Max(e, maxAbsDiff(R.Mul(&R2)[:], r12))
			e = math.Max(e, math.Abs(R[0]+R[3]-2*math.Cos(th)))
			// counter-clockwise: (1,0) -> (cos, sin)
			e = math.Max(e, math.Abs(R[0]-math.Cos(th))+math.Abs(R[2]-math.Sin(th)))
			v := numerical.Vec2{c.Rng.NormFloat64() * sc, c.Rng.NormFloat64() * sc}
			w := R.MulColumn(v)
			e = math.Max(e, math.Abs(w.Norm()-v.Norm())/v.Norm())
			e = math.Max(e, Rn.MulColumn(w).Dist(v)/v.Norm())
			return relVerdict(e, residTol, "rot2")
		})
		ax := numerical.Vec3{c.Rng.NormFloat64(), c.Rng.NormFloat64(), c.Rng.NormFloat64()}
		switch c.Rng.Intn(6) {
		case 0:
			ax = numerical.Vec3{0, 0, 0}
			ax[c.Rng.Intn(3)] = pick(c, 1.0, -1.0)
		case 1:
			ax[c.Rng.Intn(3)] = 0
		}
		ax = ax.Normalize()
		emit(c, md, "resid rot3_"+variant, join(id, itoa(k), modeF.nums(th, th2, ax[0], ax[1], ax[2])), func() string {
			var r, rn, r2, r12 []float64
			if variant == "num" {
				r, rn = numerical.NewMatrix3Rotation(ax, th)[:], numerical.NewMatrix3Rotation(ax, -th)[:]
				r2, r12 = numerical.NewMatrix3Rotation(ax, th2)[:], numerical.NewMatrix3Rotation(ax, th+th2)[:]
			} else {
				a := model3d.XYZ(ax[0], ax[1], ax[2])
				r, rn = model3d.NewMatrix3Rotation(a, th)[:], model3d.NewMatrix3Rotation(a, -th)[:]
				r2, r12 = model3d.NewMatrix3Rotation(a, th2)[:], model3d.NewMatrix3Rotation(a, th+th2)[:]
			}
			var R, Rn, R2 numerical.Matrix3
			copy(R[:], r)
			copy(Rn[:], rn)
			copy(R2[:], r2)
			e := maxAbsDiff(R.Mul(R.Transpose())[:], id3)
			e = math.Max(e, math.Abs(R.Det()-1))
			e = math.Max(e, R.MulColumn(ax).Dist(ax))
			e = math.Max(e, maxAbsDiff(R.Mul(&Rn)[:], id3))
			e = math.Max(e, maxAbsDiff(R.Mul(&R2)[:], r12))
			e = math.Max(e, math.Abs(R[0]+R[4]+R[8]-(1+2*math.Cos(th))))
			// right-handed: for u orthogonal to the axis, (u x R u) . axis = |u|^2 sin(angle)
			u, _ := ax.OrthoBasis()
			e = math.Max(e, math.Abs(u.Cross(R.MulColumn(u)).Dot(ax)-math.Sin(th)))
			v := numerical.Vec3{c.Rng.NormFloat64() * sc, c.Rng.NormFloat64() * sc, c.Rng.NormFloat64() * sc}
			w := R.MulColumn(v)
			e = math.Max(e, math.Abs(w.Norm()-v.Norm())/v.Norm())
			e = math.Max(e, Rn.MulColumn(w).Dist(v)/v.Norm())
			return relVerdict(e, residTol, "rot3")
		})
	}
}

// ---------------------------------------------------------------- Matrix2 Eigenvalues / symEigDecomp / SVD, DECIDING
//
// eig2.q / eig2.f, symeig2.f, svd2.f: the faithful models M2.eigenvalues / symEigDecomp / svd of
// lean/M3d/Model/Svd2.lean (only + - * / sqrt max(0,.) and comparisons) run at Rat on matrices
// with a square discriminant and at Float on arbitrary doubles (bit for bit), at every scale.
// The theorems mat2_eigenvalues_roots, mat2_sym_disc_nonneg, svd2_* are about exactly these models.
// Zeros are printed without their sign (x + 0) on both sides.

func canonZ(xs []float64) []float64 {
	out := make([]float64, len(xs))
	for i, x := range xs {
		out[i] = x + 0
	}
	return out
}

func eig2Out(md mode, e [2]complex128) string {
	if imag(e[0]) != -imag(e[1]) && !(imag(e[0]) == 0 && imag(e[1]) == 0) {
		return "bad-conjugate-pair"
	}
	return md.out(canonZ([]float64{real(e[0]), real(e[1]), math.Max(math.Abs(imag(e[0])), math.Abs(imag(e[1])))})...)
}

func runEig2(c *hlib.Ctx, n int) {
	for i := 0; i < n/3; i++ {
		// ---- exact mode: integer matrices P diag(p, q) P^-1 (P unimodular) -> disc = (p-q)^2;
		//      [a -b; b a] + shear -> disc = -4 b^2; both at scale 2^k
		{
			var m []float64
			if c.Rng.Intn(3) > 0 {
				p, q := float64(c.Rng.Intn(13)-6), float64(c.Rng.Intn(13)-6)
				if c.Rng.Intn(5) == 0 {
					q = p
				}
				m = []float64{p, 0, 0, q}
				for s := 0; s < 1+c.Rng.Intn(3); s++ { // conjugate by elementary unimodular matrices
					t := float64(c.Rng.Intn(5) - 2)
					if c.Rng.Intn(2) == 0 { // E = [1 t; 0 1]: E M E^-1
						m = []float64{m[0] + t*m[2], m[1] + t*m[3] - t*(m[0]+t*m[2]), m[2], m[3] - t*m[2]}
					} else { // E = [1 0; t 1]
						m = []float64{m[0] - t*m[1], m[1], m[2] + t*m[0] - t*(m[3]+t*m[1]), m[3] + t*m[1]}
					}
				}
			} else {
				a, b := float64(c.Rng.Intn(9)-4), float64(c.Rng.Intn(9)-4)
				m = []float64{a, -b, b, a}
			}
			k := scaleK(c)
			scaleAll(m, k)
			variant := pick(c, "num", "m2d")
			emit(c, modeQ, "eig2 "+variant, modeQ.nums(m...), func() string {
				if variant == "num" {
					a := numerical.Matrix2{m[0], m[1], m[2], m[3]}
					return eig2Out(modeQ, a.Eigenvalues())
				}
				a := model2d.Matrix2{m[0], m[1], m[2], m[3]}
				return eig2Out(modeQ, a.Eigenvalues())
			})
		}
		// ---- bit mode
		k := 0
		if c.Rng.Intn(2) == 0 {
			k = drawK(c)
		}
		{
			var m []float64
			switch c.Rng.Intn(4) {
			case 0:
				a, _ := sym2(c)
				m = a[:]
			case 1:
				a, _ := wellCond2(c)
				m = a[:]
			default:
				m = []float64{anyFloat(c, 10), anyFloat(c, 10), anyFloat(c, 10), anyFloat(c, 10)}
			}
			m = ldexpAll(m, k)
			variant := pick(c, "num", "m2d")
			emit(c, modeF, "eig2 "+variant, modeF.nums(m...), func() string {
				if variant == "num" {
					a := numerical.Matrix2{m[0], m[1], m[2], m[3]}
					return eig2Out(modeF, a.Eigenvalues())
				}
				a := model2d.Matrix2{m[0], m[1], m[2], m[3]}
				return eig2Out(modeF, a.Eigenvalues())
			})
		}
		{
			var a *numerical.Matrix2
			switch c.Rng.Intn(5) {
			case 0: // multiple of the identity: both rows of m - val*I vanish
				x := anyFloat(c, 10)
				a = &numerical.Matrix2{x, 0, 0, x}
			case 1: // diagonal
				a = &numerical.Matrix2{anyFloat(c, 10), 0, 0, anyFloat(c, 10)}
			default:
				a, _ = sym2(c)
			}
			m := ldexpAll(a[:], k)
			emit(c, modeF, "symeig2 num", modeF.nums(m...), func() string {
				s, v := numerical.VerifSymEigDecomp2(&numerical.Matrix2{m[0], m[1], m[2], m[3]})
				return modeF.out(canonZ(append(append([]float64{}, s[:]...), v[:]...))...)
			})
		}
		{
			var m []float64
			switch c.Rng.Intn(8) {
			case 0: // rank one
				x, y := anyFloat(c, 4), anyFloat(c, 4)
				z, w := anyFloat(c, 4), anyFloat(c, 4)
				m = []float64{x * z, x * w, y * z, y * w}
				c.Stat("c17.svd2.rank1", 1)
			case 1: // a rotation / reflection times a scalar: equal singular values
				r := rot2(c)
				x := anyFloat(c, 4)
				m = []float64{r[0] * x, r[1] * x, r[2] * x, r[3] * x}
				c.Stat("c17.svd2.conformal", 1)
			case 2: // diagonal / small integers (exact ties, zeros)
				m = []float64{float64(c.Rng.Intn(7) - 3), float64(c.Rng.Intn(3) - 1), float64(c.Rng.Intn(3) - 1), float64(c.Rng.Intn(7) - 3)}
				c.Stat("c17.svd2.small_int", 1)
			case 3:
				m = []float64{anyFloat(c, 10), anyFloat(c, 10), anyFloat(c, 10), anyFloat(c, 10)}
			default:
				a, _ := wellCond2(c)
				m = a[:]
			}
			m = ldexpAll(m, k)
			variant := pick(c, "num", "m2d")
			emit(c, modeF, "svd2 "+variant, modeF.nums(m...), func() string {
				if variant == "num" {
					a := numerical.Matrix2{m[0], m[1], m[2], m[3]}
					var u, s, v numerical.Matrix2
					a.SVD(&u, &s, &v)
					return modeF.out(canonZ(append(append(append([]float64{}, u[:]...), s[:]...), v[:]...))...)
				}
				a := model2d.Matrix2{m[0], m[1], m[2], m[3]}
				var u, s, v model2d.Matrix2
				a.SVD(&u, &s, &v)
				return modeF.out(canonZ(append(append(append([]float64{}, u[:]...), s[:]...), v[:]...))...)
			})
		}
	}
}
