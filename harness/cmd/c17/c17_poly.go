package main

import (
	"fmt"
	"math"
	"sort"

	"verif/harness/hlib"

	"github.com/unixpickle/model3d/numerical"
	"github.com/unixpickle/model3d/toolbox3d"
)

// dyPoly draws a polynomial with small dyadic coefficients (exact arithmetic in Eval/Mul/…).
func dyPoly(c *hlib.Ctx, maxLen int) numerical.Polynomial {
	n := c.Rng.Intn(maxLen + 1)
	p := make(numerical.Polynomial, n)
	for i := range p {
		switch c.Rng.Intn(6) {
		case 0:
			p[i] = 0
		case 1:
			p[i] = dy(c, 4, 2)
		default:
			p[i] = float64(c.Rng.Intn(9) - 4)
		}
	}
	return p
}

func polyArgs(md mode, p numerical.Polynomial) string {
	return join(itoa(len(p)), md.nums(p...))
}

func polyOut(md mode, p numerical.Polynomial) string {
	return join("["+itoa(len(p))+"]", md.out(p...))
}

// preserved snapshots operand slices; the returned function reports (PropFail) when a call has written into one of
// them.  Polynomial / Vec / BezierCurve are slices passed by reference; every method of the anchored code treats its
// operands as values, and the models (pure functions) and theorems take that for granted — a curve or polynomial is
// normally used many times.
func preserved(c *hlib.Ctx, what string, operands ...[]float64) func() {
	snaps := make([][]float64, len(operands))
	for i, o := range operands {
		snaps[i] = append([]float64(nil), o...)
	}
	return func() {
		for i, o := range operands {
			same := len(o) == len(snaps[i])
			for j := 0; same && j < len(o); j++ {
				same = o[j] == snaps[i][j] || (o[j] != o[j] && snaps[i][j] != snaps[i][j])
			}
			if !same {
				c.PropFail(what+"/operand-modified", fmt.Sprintf("operand %d was %v, is %v after the call", i, snaps[i], o))
			}
		}
	}
}

func runPolys(c *hlib.Ctx, n int) {
	md := modeQ
	for i := 0; i < n/2; i++ {
		op := pick(c, "eval", "add", "mul", "scale", "deriv", "divroot", "divrootid", "roots", "roots")
		switch op {
		case "eval":
			p := dyPoly(c, 7)
			x := dy(c, 3, 3)
			emit(c, md, "poly eval", join(polyArgs(md, p), md.num(x)), func() string {
				defer preserved(c, "Polynomial.Eval", p)()
				return md.out(p.Eval(x))
			})
		case "add":
			p := dyPoly(c, 6)
			q := dyPoly(c, 6)
			if c.Rng.Intn(3) == 0 && len(p) > 0 {
				// force cancellation of the top coefficients (exercises the trimming loop)
				q = append(numerical.Polynomial{}, p...)
				k := 1 + c.Rng.Intn(len(q))
				for j := len(q) - k; j < len(q); j++ {
					q[j] = -q[j]
				}
				c.Stat("c17.poly.add_cancel", 1)
			}
			emit(c, md, "poly add", join(polyArgs(md, p), polyArgs(md, q)), func() string {
				defer preserved(c, "Polynomial.Add", p, q)()
				return polyOut(md, p.Add(q))
			})
		case "mul":
			p := dyPoly(c, 5)
			q := dyPoly(c, 5)
			emit(c, md, "poly mul", join(polyArgs(md, p), polyArgs(md, q)), func() string {
				defer preserved(c, "Polynomial.Mul", p, q)()
				return polyOut(md, p.Mul(q))
			})
		case "scale":
			p := dyPoly(c, 6)
			s := dy(c, 4, 3)
			emit(c, md, "poly scale", join(polyArgs(md, p), md.num(s)), func() string {
				defer preserved(c, "Polynomial.Scale", p)()
				return polyOut(md, p.Scale(s))
			})
		case "deriv":
			p := dyPoly(c, 8)
			emit(c, md, "poly deriv", polyArgs(md, p), func() string {
				defer preserved(c, "Polynomial.Derivative", p)()
				return polyOut(md, p.Derivative())
			})
		case "divroot":
			p := dyPoly(c, 7)
			r := dy(c, 2, 2)
			emit(c, md, "poly divroot", join(polyArgs(md, p), md.num(r)), func() string {
				defer preserved(c, "Polynomial.divideRoot", p)()
				return polyOut(md, numerical.VerifDivideRoot(p, r))
			})
		case "divrootid":
			// the defining equation on the real code: q := divideRoot(p, r); report q(y)*(y-r) + p(r) - p(y)  (must be 0)
			p := dyPoly(c, 6)
			for len(p) < 3 {
				p = append(p, float64(1+c.Rng.Intn(3)))
			}
			r := dy(c, 2, 2)
			y := dy(c, 2, 2)
			emit(c, md, "poly divrootid", join(polyArgs(md, p), md.num(r), md.num(y)), func() string {
				defer preserved(c, "Polynomial.divideRoot", p)()
				q := numerical.VerifDivideRoot(p, r)
				return md.out(q.Eval(y)*(y-r) + p.Eval(r) - p.Eval(y))
			})
		case "roots":
			p := rootsPoly(c)
			emit(c, md, "poly roots", polyArgs(md, p), func() string {
				defer preserved(c, "Polynomial.RealRoots", p)()
				rs := p.RealRoots()
				if len(rs) == 1 && math.IsNaN(rs[0]) {
					return "all"
				}
				return polyOut(md, rs)
			})
		}
	}
}

// rootsPoly draws a polynomial of degree <= 2 (possibly padded with zero leading coefficients)
// whose roots the closed-form branches compute exactly: a = ±2^k, roots dyadic.
func rootsPoly(c *hlib.Ctx) numerical.Polynomial {
	var p numerical.Polynomial
	a := float64(int(1) << uint(c.Rng.Intn(3)))
	if c.Rng.Intn(2) == 0 {
		a = -a
	}
	switch c.Rng.Intn(8) {
	case 0:
		p = numerical.Polynomial{}
		c.Stat("c17.roots.zero_poly", 1)
	case 1:
		p = numerical.Polynomial{float64(c.Rng.Intn(5) - 2)}
		c.Stat("c17.roots.constant", 1)
	case 2:
		p = numerical.Polynomial{dy(c, 4, 2), a}
		c.Stat("c17.roots.linear", 1)
	case 3:
		// no real root: a(x-h)^2 + a*k, k > 0
		h := dy(c, 3, 1)
		if c.Rng.Intn(3) == 0 {
			h = 0 // a*x^2 + c without real roots
		}
		k := float64(1 + c.Rng.Intn(4))
		p = numerical.Polynomial{a*h*h + a*k, -2 * a * h, a}
		c.Stat("c17.roots.quadratic_none", 1)
	case 4:
		h := dy(c, 3, 2)
		if c.Rng.Intn(4) == 0 {
			h = 0 // a*x^2: double root at the origin
		}
		p = numerical.Polynomial{a * h * h, -2 * a * h, a}
		c.Stat("c17.roots.quadratic_double", 1)
	default:
		r1 := dy(c, 4, 2)
		r2 := dy(c, 4, 2)
		if c.Rng.Intn(3) == 0 {
			// roots symmetric about the origin: the linear coefficient is exactly zero (a*x^2 + c)
			r2 = -r1
			c.Stat("c17.roots.quadratic_zero_linear_term", 1)
		}
		p = numerical.Polynomial{a * r1 * r2, -a * (r1 + r2), a}
		c.Stat("c17.roots.quadratic_two", 1)
	}
	for z := c.Rng.Intn(3); z > 0 && c.Rng.Intn(2) == 0; z-- {
		p = append(p, 0)
		c.Stat("c17.roots.leading_zero", 1)
	}
	return p
}

var _ = sort.Float64s

// ---------------------------------------------------------------- angles

// CanonicalAngle/AngleDist: math.Mod is an exact operation on doubles, and for θ a multiple of
// 2^-40 with |θ| < 2^10 the additions/subtractions of the double 2π involved are exact too, so
// the exact mode applies with τ := the rational value of the double 2*math.Pi (sent in the line).
func runAngles(c *hlib.Ctx, n int) {
	md := modeQ
	tau := 2 * math.Pi
	theta := func() float64 {
		switch c.Rng.Intn(6) {
		case 0:
			return -dy(c, 1, 4) * dy(c, 1, 4) // small, often negative
		case 1:
			return float64(c.Rng.Intn(41) - 20)
		case 2:
			return 0
		}
		return dy(c, 40, 6)
	}
	for i := 0; i < n/3; i++ {
		t1 := theta()
		if i == 0 {
			t1 = -0.5
		}
		if t1 < 0 {
			c.Stat("c17.angle.negative", 1)
		}
		emit(c, md, "angle canon", join(md.num(tau), md.num(t1)), func() string {
			return md.out(toolbox3d.CanonicalAngle(t1))
		})
		t2 := theta()
		emit(c, md, "angle dist", join(md.num(tau), md.num(t1), md.num(t2)), func() string {
			return md.out(toolbox3d.AngleDist(t1, t2))
		})
	}
}
