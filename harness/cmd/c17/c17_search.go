package main

import (
	"fmt"
	"math"
	"sort"
	"strings"

	"verif/harness/hlib"

	"github.com/unixpickle/model3d/model2d"
	"github.com/unixpickle/model3d/numerical"
)

// A table objective: piecewise constant, f(x) = vals[#{i : bp[i] <= x}].  Both sides evaluate it
// with comparisons only, so it is exact in both modes and can take any shape (two bumps,
// plateaus, ties).
type tabFn struct {
	bp   []float64
	vals []float64
}

func (t tabFn) idx(x float64) int {
	k := 0
	for _, b := range t.bp {
		if b <= x {
			k++
		}
	}
	return k
}

func (t tabFn) eval(x float64) float64 { return t.vals[t.idx(x)] }

func (t tabFn) args(md mode) string {
	return join(itoa(len(t.bp)), md.nums(t.bp...), md.nums(t.vals...))
}

func genTab(c *hlib.Ctx, md mode, lo, hi float64) tabFn {
	m := 1 + c.Rng.Intn(7)
	bp := make([]float64, m)
	for i := range bp {
		if md.name == "q" {
			bp[i] = lo + float64(c.Rng.Intn(33))/32*(hi-lo)
			bp[i] = math.Round(bp[i]*64) / 64
		} else {
			bp[i] = lo + c.Rng.Float64()*(hi-lo)
		}
	}
	sort.Float64s(bp)
	vals := make([]float64, m+1)
	for i := range vals {
		vals[i] = float64(c.Rng.Intn(9) - 4)
		if c.Rng.Intn(4) == 0 {
			vals[i] += 0.5
		}
	}
	return tabFn{bp, vals}
}

func bounds(c *hlib.Ctx, md mode) (float64, float64) {
	if md.name == "q" {
		lo := dy(c, 4, 1)
		return lo, lo + float64(1+c.Rng.Intn(8))*pick(c, 0.5, 1, 2)
	}
	lo := anyFloat(c, 5)
	return lo, lo + 0.25 + c.Rng.Float64()*6
}

func stopsFor(c *hlib.Ctx, md mode, max int) int {
	if md.name == "q" {
		s := pick(c, 1, 2, 2, 4, 4, 8)
		for s > max {
			s /= 2
		}
		return s
	}
	return 1 + c.Rng.Intn(max)
}

func runSearch(c *hlib.Ctx, n int) {
	// The replay DESIGN.md §5 (F15) predicts: even Stops, two-bump objective.  On [0,8] with 2 stops
	// the samples are 2 and 6; the first level prefers 6 (value 3); the second level samples 5 and 7
	// where the objective is lower.
	{
		md := modeQ
		f := tabFn{[]float64{1.5, 2.5, 5.5, 6.5}, []float64{0, 2, 0, 3, 0}}
		lineCase(c, md, "max", 2, 1, 0, 8, f)
	}
	for i := 0; i < n; i++ {
		md := modeQ
		if i%3 == 2 {
			md = modeF
		}
		switch c.Rng.Intn(6) {
		case 0, 1, 2:
			lo, hi := bounds(c, md)
			lineCase(c, md, pick(c, "max", "max", "min"), stopsFor(c, md, 8), c.Rng.Intn(4), lo, hi, genTab(c, md, lo, hi))
		case 3:
			grid2Case(c, md)
		case 4:
			grid3Case(c, md)
		case 5:
			rlsCase(c, md)
		}
	}
}

func lineCase(c *hlib.Ctx, md mode, dir string, stops, recs int, lo, hi float64, f tabFn) {
	c.Stat(fmt.Sprintf("c17.ls.stops_%s", map[bool]string{true: "even", false: "odd"}[stops%2 == 0]), 1)
	args := join(dir, itoa(stops), itoa(recs), md.num(lo), md.num(hi), f.args(md))
	emit(c, md, "ls", args, func() string {
		var trace []float64
		obj := func(x float64) float64 {
			trace = append(trace, x)
			return f.eval(x)
		}
		ls := &numerical.LineSearch{Stops: stops, Recursions: recs}
		var x, v float64
		if dir == "max" {
			x, v = ls.Maximize(lo, hi, obj)
		} else {
			x, v = ls.Minimize(lo, hi, obj)
		}
		for _, s := range trace {
			fs := f.eval(s)
			if (dir == "max" && fs > v) || (dir == "min" && fs < v) {
				c.PropFail("LineSearch/result-worse-than-evaluated-sample",
					fmt.Sprintf("%s stops=%d recursions=%d [%v,%v] f=%v/%v: returned f(%v)=%v but evaluated f(%v)=%v", dir, stops, recs, lo, hi, f.bp, f.vals, x, v, s, fs))
				break
			}
		}
		return join(md.out(x, v), "|", md.out(trace...))
	})
}

// 2-D / 3-D table objectives: a product grid of cells with an arbitrary value per cell.
type tabFnN struct {
	axes []tabFn // only bp used
	vals []float64
}

func (t tabFnN) eval(p []float64) float64 {
	k := 0
	for d, a := range t.axes {
		k = k*(len(a.bp)+1) + a.idx(p[d])
	}
	return t.vals[k]
}

func (t tabFnN) args(md mode) string {
	var parts []string
	for _, a := range t.axes {
		parts = append(parts, itoa(len(a.bp)), md.nums(a.bp...))
	}
	parts = append(parts, md.nums(t.vals...))
	return strings.Join(parts, " ")
}

func genTabN(c *hlib.Ctx, md mode, lo, hi []float64) tabFnN {
	var t tabFnN
	cells := 1
	for d := range lo {
		a := genTab(c, md, lo[d], hi[d])
		if len(a.bp) > 3 {
			a.bp = a.bp[:3]
		}
		t.axes = append(t.axes, a)
		cells *= len(a.bp) + 1
	}
	t.vals = make([]float64, cells)
	for i := range t.vals {
		t.vals[i] = float64(c.Rng.Intn(9) - 4)
	}
	return t
}

func grid2Case(c *hlib.Ctx, md mode) {
	x0, x1 := bounds(c, md)
	y0, y1 := bounds(c, md)
	f := genTabN(c, md, []float64{x0, y0}, []float64{x1, y1})
	xs, ys, recs := stopsFor(c, md, 4), stopsFor(c, md, 4), c.Rng.Intn(3)
	grid2Run(c, md, pick(c, "max", "min"), xs, ys, recs, x0, y0, x1, y1, f)
}

func grid2Run(c *hlib.Ctx, md mode, dir string, xs, ys, recs int, x0, y0, x1, y1 float64, f tabFnN) {
	args := join(dir, itoa(xs), itoa(ys), itoa(recs), md.nums(x0, y0, x1, y1), f.args(md))
	emit(c, md, "g2", args, func() string {
		var trace []float64
		worst := false
		var vals []float64
		obj := func(p numerical.Vec2) float64 {
			trace = append(trace, p[0], p[1])
			v := f.eval(p[:])
			vals = append(vals, v)
			return v
		}
		g := &numerical.GridSearch2D{XStops: xs, YStops: ys, Recursions: recs}
		var p numerical.Vec2
		var v float64
		if dir == "max" {
			p, v = g.Maximize(numerical.Vec2{x0, y0}, numerical.Vec2{x1, y1}, obj)
		} else {
			p, v = g.Minimize(numerical.Vec2{x0, y0}, numerical.Vec2{x1, y1}, obj)
		}
		for _, fs := range vals {
			if (dir == "max" && fs > v) || (dir == "min" && fs < v) {
				worst = true
			}
		}
		if worst {
			c.PropFail("GridSearch2D/result-worse-than-evaluated-sample", fmt.Sprintf("%s stops=%dx%d recursions=%d box=[%v,%v]x[%v,%v]: returned value %v at %v", dir, xs, ys, recs, x0, x1, y0, y1, v, p))
		}
		return join(md.out(p[0], p[1], v), "|", md.out(trace...))
	})
}

func grid3Case(c *hlib.Ctx, md mode) {
	x0, x1 := bounds(c, md)
	y0, y1 := bounds(c, md)
	z0, z1 := bounds(c, md)
	f := genTabN(c, md, []float64{x0, y0, z0}, []float64{x1, y1, z1})
	xs, ys, zs, recs := stopsFor(c, md, 2), stopsFor(c, md, 3), stopsFor(c, md, 2), c.Rng.Intn(3)
	grid3Run(c, md, pick(c, "max", "min"), xs, ys, zs, recs, x0, y0, z0, x1, y1, z1, f)
}

func grid3Run(c *hlib.Ctx, md mode, dir string, xs, ys, zs, recs int, x0, y0, z0, x1, y1, z1 float64, f tabFnN) {
	args := join(dir, itoa(xs), itoa(ys), itoa(zs), itoa(recs), md.nums(x0, y0, z0, x1, y1, z1), f.args(md))
	emit(c, md, "g3", args, func() string {
		var trace, vals []float64
		obj := func(p numerical.Vec3) float64 {
			trace = append(trace, p[0], p[1], p[2])
			v := f.eval(p[:])
			vals = append(vals, v)
			return v
		}
		g := &numerical.GridSearch3D{XStops: xs, YStops: ys, ZStops: zs, Recursions: recs}
		var p numerical.Vec3
		var v float64
		if dir == "max" {
			p, v = g.Maximize(numerical.Vec3{x0, y0, z0}, numerical.Vec3{x1, y1, z1}, obj)
		} else {
			p, v = g.Minimize(numerical.Vec3{x0, y0, z0}, numerical.Vec3{x1, y1, z1}, obj)
		}
		for _, fs := range vals {
			if (dir == "max" && fs > v) || (dir == "min" && fs < v) {
				c.PropFail("GridSearch3D/result-worse-than-evaluated-sample", fmt.Sprintf("%s stops=%dx%dx%d recursions=%d: returned value %v at %v but evaluated %v", dir, xs, ys, zs, recs, v, p, fs))
				break
			}
		}
		return join(md.out(p[0], p[1], p[2], v), "|", md.out(trace...))
	})
}

func rlsCase(c *hlib.Ctx, md mode) {
	dims := 2 + c.Rng.Intn(2)
	lo := make([]float64, dims)
	hi := make([]float64, dims)
	for d := range lo {
		lo[d], hi[d] = bounds(c, md)
	}
	f := genTabN(c, md, lo, hi)
	stops, recs := stopsFor(c, md, 4), c.Rng.Intn(2)
	if stops > 2 && dims == 3 {
		recs = 0
	}
	dir := pick(c, "max", "min")
	args := join(dir, itoa(dims), itoa(stops), itoa(recs), md.nums(lo...), md.nums(hi...), f.args(md))
	emit(c, md, "rls", args, func() string {
		var vals []float64
		var sol []float64
		var v float64
		ls := numerical.LineSearch{Stops: stops, Recursions: recs}
		if dims == 2 {
			obj := func(p numerical.Vec2) float64 {
				x := f.eval(p[:])
				vals = append(vals, x)
				return x
			}
			r := &numerical.RecursiveLineSearch[numerical.Vec2]{LineSearch: ls}
			var p numerical.Vec2
			if dir == "max" {
				p, v = r.Maximize(numerical.Vec2{lo[0], lo[1]}, numerical.Vec2{hi[0], hi[1]}, obj)
			} else {
				p, v = r.Minimize(numerical.Vec2{lo[0], lo[1]}, numerical.Vec2{hi[0], hi[1]}, obj)
			}
			sol = p[:]
		} else {
			obj := func(p numerical.Vec3) float64 {
				x := f.eval(p[:])
				vals = append(vals, x)
				return x
			}
			r := &numerical.RecursiveLineSearch[numerical.Vec3]{LineSearch: ls}
			var p numerical.Vec3
			if dir == "max" {
				p, v = r.Maximize(numerical.Vec3{lo[0], lo[1], lo[2]}, numerical.Vec3{hi[0], hi[1], hi[2]}, obj)
			} else {
				p, v = r.Minimize(numerical.Vec3{lo[0], lo[1], lo[2]}, numerical.Vec3{hi[0], hi[1], hi[2]}, obj)
			}
			sol = p[:]
		}
		for _, fs := range vals {
			if (dir == "max" && fs > v) || (dir == "min" && fs < v) {
				c.PropFail("RecursiveLineSearch/result-worse-than-evaluated-sample", fmt.Sprintf("%s dims=%d stops=%d recursions=%d: returned %v but evaluated %v", dir, dims, stops, recs, v, fs))
				break
			}
		}
		return join(md.out(append(append([]float64{}, sol...), v)...), "|", itoa(len(vals)))
	})
}

// ---------------------------------------------------------------- GSS (bit mode)

func runGSS(c *hlib.Ctx, n int) {
	md := modeF
	phi := (math.Sqrt(5) + 1) / 2
	for i := 0; i < n/3; i++ {
		lo, hi := bounds(c, md)
		iters := pick(c, 0, 1, 2, 5, 10, 30)
		var spec string
		var f func(float64) float64
		if c.Rng.Intn(2) == 0 {
			t := genTab(c, md, lo, hi)
			spec = join("tab", t.args(md))
			f = t.eval
		} else {
			ctr := lo + c.Rng.Float64()*(hi-lo)
			spec = join("quad", md.num(ctr))
			f = func(x float64) float64 { return (x - ctr) * (x - ctr) }
		}
		emit(c, md, "gss", join(itoa(iters), md.nums(phi, lo, hi), spec), func() string {
			var trace []float64
			x := numerical.GSS(lo, hi, iters, func(x float64) float64 {
				trace = append(trace, x)
				return f(x)
			})
			for _, s := range trace {
				if f(s) < f(x) {
					c.PropFail("GSS/result-worse-than-evaluated-sample", fmt.Sprintf("iters=%d [%v,%v] %s: returned %v (f=%v) but evaluated f(%v)=%v", iters, lo, hi, spec, x, f(x), s, f(s)))
					break
				}
			}
			return join(md.out(x), "|", md.out(trace...))
		})
	}
}

// ---------------------------------------------------------------- bisectionSearch / CurveInverseX (bit mode)

func runBisect(c *hlib.Ctx, n int) {
	md := modeF
	for i := 0; i < n/3; i++ {
		k := 2 + c.Rng.Intn(3)
		if i%3 == 2 {
			// every degree: table rows and the recursive fallback (16, 17 points); InverseX evaluates the
			// SAME curve value 65 times, so this also sees an Eval that disturbs its receiver
			k = bezLen(c)
			if c.Rng.Intn(3) == 0 {
				k = 15 + c.Rng.Intn(3)
			}
			c.Stat(fmt.Sprintf("c17.bisect.len%02d", k), 1)
		}
		xs := make([]float64, k)
		for j := range xs {
			xs[j] = anyFloat(c, 4)
		}
		if c.Rng.Intn(3) != 0 {
			sort.Float64s(xs) // monotone in x
			if c.Rng.Intn(2) == 0 {
				for a, b := 0, len(xs)-1; a < b; a, b = a+1, b-1 {
					xs[a], xs[b] = xs[b], xs[a]
				}
			}
		}
		b := make(model2d.BezierCurve, k)
		for j := range b {
			b[j] = model2d.XY(xs[j], 0)
		}
		x := xs[0] + c.Rng.Float64()*(xs[k-1]-xs[0])
		switch c.Rng.Intn(8) {
		case 0:
			x = xs[0]
		case 1:
			x = xs[k-1]
		case 2:
			x = xs[0] - 1 - math.Abs(xs[k-1]-xs[0]) // not bracketed
		case 3:
			// root closer to an end than 2^-63: the interval never leaves that end, so the result
			// depends on the exact number of halvings
			for j := range xs {
				xs[j] = float64(j) * (1 + c.Rng.Float64())
				b[j] = model2d.XY(xs[j], 0)
			}
			x = math.Ldexp(1+c.Rng.Float64(), -70-c.Rng.Intn(20))
			c.Stat("c17.bisect.root_at_end", 1)
		}
		emit(c, md, "bisect", join(md.num(x), itoa(k), md.nums(xs...)), func() string {
			return md.out(model2d.CurveInverseX(b, x))
		})
	}
}
