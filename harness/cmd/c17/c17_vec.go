package main

import (
	"math"

	"verif/harness/hlib"

	"github.com/unixpickle/model3d/numerical"
)

// numerical.Vec (vectors of any length) and the bit-mode polynomial kinds.
//
// The Lean side runs VecN.* / Poly.* of lean/M3d/Model/Numeric.lean; lean/M3d/Lemmas/KernelsTiePoly.lean proves that
// these are the definitions REGENERATED from numerical/vecs.go and numerical/polynomial.go (loops over slices), so a
// change of one of these Go functions breaks a tie theorem AND shows up here with a concrete input.

func vecArgs(md mode, v numerical.Vec) string { return join(itoa(len(v)), md.nums(v...)) }

func vecOut(md mode, v numerical.Vec) string { return join("["+itoa(len(v))+"]", md.out(v...)) }

// drawVec draws a vector of the given length: small dyadics in exact mode (sums of <= 9 squares of 7-bit numbers are
// exact), arbitrary doubles over several magnitudes in bit mode.
func drawVec(c *hlib.Ctx, md mode, n int) numerical.Vec {
	v := make(numerical.Vec, n)
	scale := math.Ldexp(1, c.Rng.Intn(41)-20)
	for i := range v {
		if md.name == "q" {
			switch c.Rng.Intn(5) {
			case 0:
				v[i] = 0
			default:
				v[i] = dy(c, 8, 3)
			}
		} else {
			switch c.Rng.Intn(8) {
			case 0:
				v[i] = 0
			case 1:
				v[i] = float64(c.Rng.Intn(9) - 4)
			default:
				v[i] = anyFloat(c, 4) * scale
			}
		}
	}
	return v
}

func runVecs(c *hlib.Ctx, n int) {
	for i := 0; i < n; i++ {
		md := modeF
		if c.Rng.Intn(2) == 0 {
			md = modeQ
		}
		ln := c.Rng.Intn(9)
		if c.Rng.Intn(6) == 0 {
			ln = 9 + c.Rng.Intn(24)
		}
		v := drawVec(c, md, ln)
		w := drawVec(c, md, ln)
		ops := []string{"normsq", "scale", "distsq", "zeros", "add", "sub", "dot", "at", "mismatch"}
		if md.name == "f" {
			ops = append(ops, "norm", "dist", "normalize", "projout", "normsq", "distsq", "scale")
		} else {
			ops = append(ops, "norm", "normalize", "projout")
		}
		op := pick(c, ops...)
		switch op {
		case "normsq":
			emit(c, md, "vec normsq", vecArgs(md, v), func() string { return md.out(v.NormSquared()) })
		case "scale":
			s := dy(c, 4, 3)
			if md.name == "f" {
				s = anyFloat(c, 8)
			}
			emit(c, md, "vec scale", join(vecArgs(md, v), md.num(s)), func() string { return vecOut(md, v.Scale(s)) })
		case "distsq":
			emit(c, md, "vec distsq", join(vecArgs(md, v), vecArgs(md, w)), func() string { return md.out(v.DistSquared(w)) })
		case "zeros":
			emit(c, md, "vec zeros", vecArgs(md, v), func() string { return vecOut(md, v.Zeros()) })
		case "add":
			emit(c, md, "vec add", join(vecArgs(md, v), vecArgs(md, w)), func() string { return vecOut(md, v.Add(w)) })
		case "sub":
			emit(c, md, "vec sub", join(vecArgs(md, v), vecArgs(md, w)), func() string { return vecOut(md, v.Sub(w)) })
		case "dot":
			emit(c, md, "vec dot", join(vecArgs(md, v), vecArgs(md, w)), func() string { return md.out(v.Dot(w)) })
		case "at":
			if ln == 0 {
				continue
			}
			k := c.Rng.Intn(ln)
			emit(c, md, "vec at", join(itoa(k), vecArgs(md, v)), func() string {
				return join(itoa(v.Len()), md.out(v.At(k)))
			})
		case "mismatch":
			// Add/Sub/Dot panic on a length mismatch (the model answers none = "panic")
			w2 := drawVec(c, md, ln+1+c.Rng.Intn(2))
			which := pick(c, "add", "sub", "dot")
			emit(c, md, "vec "+which, join(vecArgs(md, v), vecArgs(md, w2)), func() string {
				switch which {
				case "add":
					return vecOut(md, v.Add(w2))
				case "sub":
					return vecOut(md, v.Sub(w2))
				}
				return md.out(v.Dot(w2))
			})
			c.Stat("c17.vec.length_mismatch", 1)
		case "norm", "dist", "normalize", "projout":
			if md.name == "q" {
				// exact mode: a vector whose squared norm is a perfect square of a power of two times an integer
				// Pythagorean pattern, so that math.Sqrt and the divisions that follow are exact
				v, w = pythVec(c), pythVec(c)
				for len(w) < len(v) {
					w = append(w, 0)
				}
				for len(v) < len(w) {
					v = append(v, 0)
				}
			} else if allZero(v) || allZero(w) {
				c.Stat("c17.vec.zero_vector_skipped", 1)
				continue
			}
			switch op {
			case "norm":
				emit(c, md, "vec norm", vecArgs(md, v), func() string { return md.out(v.Norm()) })
			case "dist":
				emit(c, md, "vec dist", join(vecArgs(md, v), vecArgs(md, w)), func() string { return md.out(v.Dist(w)) })
			case "normalize":
				if md.name == "q" {
					v = pow2NormVec(c)
				}
				emit(c, md, "vec normalize", vecArgs(md, v), func() string { return vecOut(md, v.Normalize()) })
			case "projout":
				if md.name == "q" {
					w = pow2NormVec(c)
					v = drawVec(c, md, len(w))
				}
				emit(c, md, "vec projout", join(vecArgs(md, v), vecArgs(md, w)), func() string { return vecOut(md, v.ProjectOut(w)) })
			}
		}
	}
}

// allZero is computed here (not through the library under test, which is only called under hlib.Guard).
func allZero(v numerical.Vec) bool {
	for _, x := range v {
		if x != 0 {
			return false
		}
	}
	return true
}

// pythVec: a vector with an integer norm times a power of two (3-4-5, 5-12-13, 1-2-2-…, axis vectors), entries permuted.
func pythVec(c *hlib.Ctx) numerical.Vec {
	base := [][]float64{{3, 4}, {5, 12}, {1, 2, 2}, {2, 3, 6}, {1, 4, 8}, {2, 4, 4, 5, 10, 8}, {7}, {0, 5, 0}, {1, 1, 1, 1}, {2, 10, 11}}
	b := base[c.Rng.Intn(len(base))]
	v := append(numerical.Vec{}, b...)
	c.Rng.Shuffle(len(v), func(i, j int) { v[i], v[j] = v[j], v[i] })
	s := math.Ldexp(1, c.Rng.Intn(9)-4)
	for i := range v {
		if c.Rng.Intn(2) == 0 {
			v[i] = -v[i]
		}
		v[i] *= s
	}
	return v
}

// pow2NormVec: a vector whose norm is a power of two (so that 1/norm and every product with it are exact).
func pow2NormVec(c *hlib.Ctx) numerical.Vec {
	base := [][]float64{{1, 1, 1, 1}, {2}, {0, 4, 0}, {1, 1, 1, 1, 2, 2, 2}, {2, 2, 2, 2}, {1, 0, 0}, {1, 1, 1, 1, 1, 1, 1, 1, 2, 2}}
	b := base[c.Rng.Intn(len(base))]
	v := append(numerical.Vec{}, b...)
	c.Rng.Shuffle(len(v), func(i, j int) { v[i], v[j] = v[j], v[i] })
	s := math.Ldexp(1, c.Rng.Intn(9)-4)
	for i := range v {
		if c.Rng.Intn(2) == 0 {
			v[i] = -v[i]
		}
		v[i] *= s
	}
	return v
}

// ---------------------------------------------------------------- polynomials, bit mode

// anyPoly draws a polynomial with arbitrary double coefficients (bit mode).
func anyPoly(c *hlib.Ctx, maxLen int) numerical.Polynomial {
	n := c.Rng.Intn(maxLen + 1)
	p := make(numerical.Polynomial, n)
	scale := math.Ldexp(1, c.Rng.Intn(21)-10)
	for i := range p {
		switch c.Rng.Intn(7) {
		case 0:
			p[i] = 0
		case 1:
			p[i] = float64(c.Rng.Intn(9) - 4)
		default:
			p[i] = anyFloat(c, 4) * scale
		}
	}
	return p
}

// runPolysF: Eval / Mul / Scale / Derivative on arbitrary doubles, compared bit for bit with the models that perform the
// same operations in the same order (Poly.eval, Poly.mulLoop — the double loop as written —, Poly.scale,
// Poly.derivative).
func runPolysF(c *hlib.Ctx, n int) {
	md := modeF
	for i := 0; i < n/2; i++ {
		switch pick(c, "eval", "mul", "mul", "scale", "deriv") {
		case "eval":
			p := anyPoly(c, 9)
			x := anyFloat(c, 3)
			emit(c, md, "poly eval", join(polyArgs(md, p), md.num(x)), func() string { return md.out(p.Eval(x)) })
		case "mul":
			p := anyPoly(c, 7)
			q := anyPoly(c, 7)
			emit(c, md, "poly mul", join(polyArgs(md, p), polyArgs(md, q)), func() string { return polyOut(md, p.Mul(q)) })
		case "scale":
			p := anyPoly(c, 8)
			s := anyFloat(c, 8)
			emit(c, md, "poly scale", join(polyArgs(md, p), md.num(s)), func() string { return polyOut(md, p.Scale(s)) })
		case "deriv":
			p := anyPoly(c, 10)
			emit(c, md, "poly deriv", polyArgs(md, p), func() string { return polyOut(md, p.Derivative()) })
		}
	}
}
