package main

import (
	"math"

	"verif/harness/hlib"

	"github.com/unixpickle/model3d/model2d"
	"github.com/unixpickle/model3d/model3d"
	"github.com/unixpickle/model3d/numerical"
)

// exactMat builds an n×n integer matrix with determinant ±2^k: a diagonal of signed powers of
// two hit by random integer row/column shears.  Entries stay small, so adjugate, determinant,
// 1/det and every product the Go code forms are exact doubles.
func exactMat(c *hlib.Ctx, n int) []float64 {
	m := make([]float64, n*n)
	for i := 0; i < n; i++ {
		v := float64(int(1) << uint(c.Rng.Intn(3)))
		if c.Rng.Intn(2) == 0 {
			v = -v
		}
		m[i*n+i] = v
	}
	steps := 2 + c.Rng.Intn(4)
	for s := 0; s < steps; s++ {
		i, j := c.Rng.Intn(n), c.Rng.Intn(n)
		if i == j {
			continue
		}
		k := float64(c.Rng.Intn(5) - 2)
		if c.Rng.Intn(2) == 0 {
			for col := 0; col < n; col++ { // row_i += k*row_j
				m[i*n+col] += k * m[j*n+col]
			}
		} else {
			for row := 0; row < n; row++ { // col_i += k*col_j
				m[row*n+i] += k * m[row*n+j]
			}
		}
	}
	return m
}

func smallMat(c *hlib.Ctx, n int, md mode) []float64 {
	m := make([]float64, n*n)
	for i := range m {
		if md.name == "q" {
			if c.Rng.Intn(4) == 0 {
				m[i] = dy(c, 4, 2)
			} else {
				m[i] = float64(c.Rng.Intn(13) - 6)
			}
		} else {
			m[i] = anyFloat(c, 10)
		}
	}
	return m
}

func smallVec(c *hlib.Ctx, n int, md mode) []float64 {
	v := make([]float64, n)
	for i := range v {
		if md.name == "q" {
			v[i] = dy(c, 8, 2)
		} else {
			v[i] = anyFloat(c, 10)
		}
	}
	return v
}

// scaleK draws the exponent of a dyadic scale factor: 0 for a third of the cases, otherwise
// uniform in [-40, 40].  Multiplying by 2^k is exact in float64 (no entry leaves the normal
// range: |entries| <= 2^6, products of at most four entries), so a case at scale 2^k is the
// SAME rational case as far as the theorems are concerned and the exact mode stays exact.
func scaleK(c *hlib.Ctx) int {
	if c.Rng.Intn(3) == 0 {
		return 0
	}
	return c.Rng.Intn(81) - 40
}

func scaleAll(xs []float64, k int) {
	f := math.Ldexp(1, k)
	for i := range xs {
		xs[i] *= f
	}
}

// scaleCase rescales the operands of one matrix case: a by 2^k; b by the same 2^k for "add"
// (so that the sum stays exact) and by an independent power otherwise; the vector by an
// independent power.
func scaleCase(c *hlib.Ctx, dim string, op string, a, b, v []float64) {
	k := scaleK(c)
	if k == 0 {
		return
	}
	scaleAll(a, k)
	kb := k
	if op != "add" {
		kb = scaleK(c)
	}
	scaleAll(b, kb)
	scaleAll(v, scaleK(c))
	c.Stat("c17.scaled."+dim, 1)
	if k <= -17 {
		c.Stat("c17.scaled."+dim+"_below_2^-17", 1)
	}
}

func runMatrices(c *hlib.Ctx, n int) {
	for _, md := range []mode{modeQ, modeF} {
		cnt := n / 4
		if md.name == "f" {
			cnt = n / 8
		}
		for i := 0; i < cnt; i++ {
			mat2Case(c, md)
			mat3Case(c, md)
		}
		for i := 0; i < cnt/2+1; i++ {
			mat4Case(c, md)
		}
	}
}

func mat2Case(c *hlib.Ctx, md mode) {
	variant := pick(c, "num", "m2d")
	op := pick(c, "det", "inv", "inv", "mul", "mulcol", "mulcolinv", "transpose", "add", "invmul")
	var a []float64
	if (op == "inv" || op == "mulcolinv" || op == "invmul") && md.name == "q" {
		a = exactMat(c, 2)
	} else {
		a = smallMat(c, 2, md)
	}
	b := smallMat(c, 2, md)
	v := smallVec(c, 2, md)
	scaleCase(c, "m2", op, a, b, v)
	na := numerical.Matrix2{a[0], a[1], a[2], a[3]}
	nb := numerical.Matrix2{b[0], b[1], b[2], b[3]}
	ma := model2d.Matrix2{a[0], a[1], a[2], a[3]}
	mb := model2d.Matrix2{b[0], b[1], b[2], b[3]}
	num := variant == "num"
	if na.Det() == 0 {
		c.Stat("c17.m2.singular", 1)
	}
	switch op {
	case "det":
		emit(c, md, "m2 "+variant+" det", md.nums(a...), func() string {
			if num {
				return md.out(na.Det())
			}
			return md.out(ma.Det())
		})
	case "inv":
		if na.Det() == 0 {
			return
		}
		emit(c, md, "m2 "+variant+" inv", md.nums(a...), func() string {
			if num {
				r := na.Inverse()
				return md.out(r[:]...)
			}
			r := ma.Inverse()
			return md.out(r[:]...)
		})
	case "invmul":
		// the defining equation itself, evaluated by the real code: Inverse(m)·m and m·Inverse(m)
		if na.Det() == 0 {
			return
		}
		emit(c, md, "m2 "+variant+" invmul", md.nums(a...), func() string {
			if num {
				r := na.Inverse().Mul(&na)
				r2 := na.Mul(na.Inverse())
				return md.out(append(r[:], r2[:]...)...)
			}
			r := ma.Inverse().Mul(&ma)
			r2 := ma.Mul(ma.Inverse())
			return md.out(append(r[:], r2[:]...)...)
		})
	case "mul":
		emit(c, md, "m2 "+variant+" mul", md.nums(append(a, b...)...), func() string {
			if num {
				r := na.Mul(&nb)
				return md.out(r[:]...)
			}
			r := ma.Mul(&mb)
			return md.out(r[:]...)
		})
	case "add":
		emit(c, md, "m2 "+variant+" add", md.nums(append(a, b...)...), func() string {
			if num {
				r := na.Add(&nb)
				return md.out(r[:]...)
			}
			r := ma.Add(&mb)
			return md.out(r[:]...)
		})
	case "mulcol":
		emit(c, md, "m2 "+variant+" mulcol", md.nums(append(a, v...)...), func() string {
			if num {
				r := na.MulColumn(numerical.Vec2{v[0], v[1]})
				return md.out(r[:]...)
			}
			r := ma.MulColumn(model2d.XY(v[0], v[1]))
			return md.out(r.X, r.Y)
		})
	case "mulcolinv":
		det := na.Det()
		if det == 0 {
			return
		}
		emit(c, md, "m2 "+variant+" mulcolinv", md.nums(append(append(a, v...), det)...), func() string {
			if num {
				r := na.MulColumnInv(numerical.Vec2{v[0], v[1]}, det)
				return md.out(r[:]...)
			}
			r := ma.MulColumnInv(model2d.XY(v[0], v[1]), det)
			return md.out(r.X, r.Y)
		})
	case "transpose":
		emit(c, md, "m2 "+variant+" transpose", md.nums(a...), func() string {
			if num {
				r := na.Transpose()
				return md.out(r[:]...)
			}
			r := ma.Transpose()
			return md.out(r[:]...)
		})
	}
}

func mat3Case(c *hlib.Ctx, md mode) {
	variant := pick(c, "num", "m3d")
	op := pick(c, "det", "inv", "inv", "mul", "mulcol", "mulcolinv", "transpose", "add", "invmul")
	var a []float64
	if (op == "inv" || op == "mulcolinv" || op == "invmul") && md.name == "q" {
		a = exactMat(c, 3)
	} else {
		a = smallMat(c, 3, md)
	}
	b := smallMat(c, 3, md)
	v := smallVec(c, 3, md)
	scaleCase(c, "m3", op, a, b, v)
	var na, nb numerical.Matrix3
	var ma, mb model3d.Matrix3
	copy(na[:], a)
	copy(nb[:], b)
	copy(ma[:], a)
	copy(mb[:], b)
	num := variant == "num"
	if na.Det() == 0 {
		c.Stat("c17.m3.singular", 1)
	}
	switch op {
	case "det":
		emit(c, md, "m3 "+variant+" det", md.nums(a...), func() string {
			if num {
				return md.out(na.Det())
			}
			return md.out(ma.Det())
		})
	case "inv":
		if na.Det() == 0 {
			return
		}
		emit(c, md, "m3 "+variant+" inv", md.nums(a...), func() string {
			if num {
				r := na.Inverse()
				return md.out(r[:]...)
			}
			r := ma.Inverse()
			return md.out(r[:]...)
		})
	case "invmul":
		if na.Det() == 0 {
			return
		}
		emit(c, md, "m3 "+variant+" invmul", md.nums(a...), func() string {
			if num {
				r := na.Inverse().Mul(&na)
				r2 := na.Mul(na.Inverse())
				return md.out(append(r[:], r2[:]...)...)
			}
			r := ma.Inverse().Mul(&ma)
			r2 := ma.Mul(ma.Inverse())
			return md.out(append(r[:], r2[:]...)...)
		})
	case "mul":
		emit(c, md, "m3 "+variant+" mul", md.nums(append(a, b...)...), func() string {
			if num {
				r := na.Mul(&nb)
				return md.out(r[:]...)
			}
			r := ma.Mul(&mb)
			return md.out(r[:]...)
		})
	case "add":
		emit(c, md, "m3 "+variant+" add", md.nums(append(a, b...)...), func() string {
			if num {
				r := na.Add(&nb)
				return md.out(r[:]...)
			}
			r := ma.Add(&mb)
			return md.out(r[:]...)
		})
	case "mulcol":
		emit(c, md, "m3 "+variant+" mulcol", md.nums(append(a, v...)...), func() string {
			if num {
				r := na.MulColumn(numerical.Vec3{v[0], v[1], v[2]})
				return md.out(r[:]...)
			}
			r := ma.MulColumn(model3d.XYZ(v[0], v[1], v[2]))
			return md.out(r.X, r.Y, r.Z)
		})
	case "mulcolinv":
		det := na.Det()
		if det == 0 {
			return
		}
		emit(c, md, "m3 "+variant+" mulcolinv", md.nums(append(append(a, v...), det)...), func() string {
			if num {
				r := na.MulColumnInv(numerical.Vec3{v[0], v[1], v[2]}, det)
				return md.out(r[:]...)
			}
			r := ma.MulColumnInv(model3d.XYZ(v[0], v[1], v[2]), det)
			return md.out(r.X, r.Y, r.Z)
		})
	case "transpose":
		emit(c, md, "m3 "+variant+" transpose", md.nums(a...), func() string {
			if num {
				r := na.Transpose()
				return md.out(r[:]...)
			}
			r := ma.Transpose()
			return md.out(r[:]...)
		})
	}
}

func mat4Case(c *hlib.Ctx, md mode) {
	op := pick(c, "det", "mul", "transpose", "charpoly", "mulcol")
	a := make([]float64, 16)
	b := make([]float64, 16)
	for i := range a {
		if md.name == "q" {
			a[i] = float64(c.Rng.Intn(9) - 4)
			b[i] = float64(c.Rng.Intn(9) - 4)
		} else {
			a[i] = anyFloat(c, 4)
			b[i] = anyFloat(c, 4)
		}
	}
	var v4 []float64
	if op == "mulcol" && md.name == "q" {
		v4 = smallVec(c, 4, md)
	}
	scaleCase(c, "m4", op, a, b, v4)
	var na, nb numerical.Matrix4
	copy(na[:], a)
	copy(nb[:], b)
	switch op {
	case "det":
		emit(c, md, "m4 det", md.nums(a...), func() string { return md.out(na.Det()) })
	case "mul":
		emit(c, md, "m4 mul", md.nums(append(a, b...)...), func() string {
			r := na.Mul(&nb)
			return md.out(r[:]...)
		})
	case "transpose":
		emit(c, md, "m4 transpose", md.nums(a...), func() string {
			r := na.Transpose()
			return md.out(r[:]...)
		})
	case "charpoly":
		emit(c, md, "m4 charpoly", md.nums(a...), func() string {
			r := na.CharPoly()
			return md.out(r...)
		})
	case "mulcol":
		if md.name != "q" {
			return // the Go loop accumulates from 0 (res[i] += …): order differs from the row formula only in bit mode
		}
		v := v4
		emit(c, md, "m4 mulcol", md.nums(append(a, v...)...), func() string {
			r := na.MulColumn(numerical.Vec4{v[0], v[1], v[2], v[3]})
			return md.out(r[:]...)
		})
	}
}
