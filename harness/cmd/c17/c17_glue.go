package main

import (
	"fmt"
	"math"
	"sort"
	"strings"

	"verif/harness/hlib"

	"github.com/unixpickle/model3d/model2d"
)

// monotoneX draws control points whose x coordinates are sorted (so the curve is monotone in x), ascending or
// descending, with arbitrary y.
func monotoneX(c *hlib.Ctx, k int) model2d.BezierCurve {
	xs := make([]float64, k)
	for j := range xs {
		xs[j] = anyFloat(c, 4)
	}
	sort.Float64s(xs)
	if c.Rng.Intn(2) == 0 {
		for a, b := 0, len(xs)-1; a < b; a, b = a+1, b-1 {
			xs[a], xs[b] = xs[b], xs[a]
		}
	}
	b := make(model2d.BezierCurve, k)
	for j := range b {
		b[j] = model2d.XY(xs[j], anyFloat(c, 4))
	}
	return b
}

// runCurveGlue: the wrappers of model2d/curves.go around Eval — EvalX / CurveEvalX (also through CurveTranspose),
// CurveInverseX on a SegmentCurve, CurveMesh (curve_evalx_bracket, bisection_search_bracket, curve_mesh_samples).
func runCurveGlue(c *hlib.Ctx, n int) {
	md := modeF
	for i := 0; i < n/4; i++ {
		k := bezLen(c)
		if c.Rng.Intn(4) == 0 {
			k = 15 + c.Rng.Intn(3)
		}
		b := monotoneX(c, k)
		x := b[0].X + c.Rng.Float64()*(b[k-1].X-b[0].X)
		switch c.Rng.Intn(8) {
		case 0:
			x = b[0].X
		case 1:
			x = b[k-1].X
		case 2:
			x = b[0].X - 1 - math.Abs(b[k-1].X-b[0].X) // not bracketed: NaN
		}
		c.Stat(fmt.Sprintf("c17.evalx.len%02d", k), 1)
		switch c.Rng.Intn(3) {
		case 0:
			emit(c, md, "evalx", join(md.num(x), curveArgs(md, b)), func() string {
				return md.out(b.EvalX(x))
			})
		case 1:
			emit(c, md, "evalx", join(md.num(x), curveArgs(md, b)), func() string {
				return md.out(model2d.CurveEvalX(b, x))
			})
		case 2:
			// the transposed curve: look up along y of the transpose = x of b; the op line carries the
			// transposed control points, so the same model answers
			tb := b.Transpose()
			emit(c, md, "evalx", join(md.num(x), curveArgs(md, b)), func() string {
				return md.out(model2d.CurveEvalX(model2d.CurveTranspose(tb), x))
			})
		}
	}
	// CurveInverseX on a polyline that is monotone in x (repeated vertices included)
	for i := 0; i < n/6; i++ {
		m := 1 + c.Rng.Intn(5)
		p := model2d.XY(anyFloat(c, 4), anyFloat(c, 4))
		dir := 1.0
		if c.Rng.Intn(2) == 0 {
			dir = -1
		}
		var segs []*model2d.Segment
		for j := 0; j < m; j++ {
			q := model2d.XY(p.X+dir*(0.25+c.Rng.Float64()*3), anyFloat(c, 4))
			if c.Rng.Intn(5) == 0 {
				q = p // repeated vertex
			}
			segs = append(segs, &model2d.Segment{p, q})
			p = q
		}
		x0, x1 := segs[0][0].X, segs[len(segs)-1][1].X
		x := x0 + c.Rng.Float64()*(x1-x0)
		switch c.Rng.Intn(8) {
		case 0:
			x = x0
		case 1:
			x = x1
		case 2:
			x = x0 - dir
		}
		emit(c, md, "segbisect", join(md.num(x), segArgs(md, segs)), func() string {
			return md.out(model2d.CurveInverseX(model2d.NewSegmentCurve(segs), x))
		})
	}
	// CurveMesh
	for i := 0; i < n/4; i++ {
		cm := modeQ
		if i%3 == 2 {
			cm = modeF
		}
		k := bezLen(c)
		b := ctrlPoints(c, cm, k)
		var cnt int
		if cm.name == "q" {
			cnt = 1 << uint(c.Rng.Intn(int(tBits(k-1))+1)) // k/cnt dyadic with few enough bits
		} else {
			cnt = c.Rng.Intn(9)
		}
		emit(c, cm, "curvemesh", join(itoa(cnt), curveArgs(cm, b)), func() string {
			m := model2d.CurveMesh(b, cnt)
			var rows [][]float64
			m.Iterate(func(s *model2d.Segment) {
				rows = append(rows, []float64{s[0].X, s[0].Y, s[1].X, s[1].Y})
			})
			for _, r := range rows {
				for _, v := range r {
					if math.IsNaN(v) || math.IsInf(v, 0) {
						return "nan"
					}
				}
			}
			sort.Slice(rows, func(a, b int) bool {
				for j := 0; j < 4; j++ {
					if rows[a][j] != rows[b][j] {
						return rows[a][j] < rows[b][j]
					}
				}
				return false
			})
			parts := make([]string, len(rows))
			for j, r := range rows {
				parts[j] = cm.nums(r...)
			}
			return "[" + itoa(len(rows)) + "] " + strings.Join(parts, " | ")
		})
	}
}
