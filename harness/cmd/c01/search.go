package main

// The searched members of the marching families: MarchingCubesSearch, MarchingCubesSearchFilter,
// MarchingCubesInterior (its mesh) and MarchingSquaresSearch(+Filter).  They mesh the lattice labelling like
// MarchingCubes / MarchingSquares and then move every vertex ALONG ITS OWN LATTICE EDGE by bisection.  The mesh
// stays a closed manifold exactly because the new position is strictly inside the edge
// (M3d.C01.search_vertex_strictly_inside_edge): positions on different lattice edges can then never coincide
// (M3d.C01.search_positions_distinct), the searched mesh is the lattice mesh under an injective vertex map and
// inherits edge balance and one-cycle fans (M3d.C01.mc_search_edges_balanced_on_every_lattice /
// mc_search_fans_one_cycle_on_every_lattice / ms_search_closed_on_every_lattice).
//
// What the solid answers BETWEEN the lattice points is arbitrary (that is what the theorems quantify over), and the
// dangerous answers are the extreme ones: a surface passing through (or within delta/2^iters of) a lattice point -
// every probe on the edge answers like one of its ends - and iters = 0.  Solids here:
//
//   - oracle solids: a random lattice labelling (as for the kinds mc / ms) whose value between the lattice points is
//     a per-solid rule: always outside, always inside, a hash of the probe position (non-monotone), or one random
//     crossing per lattice edge; - axis-aligned CSG solids and polytopes of the coarse-to-fine kinds, whose faces lie
//     ON lattice planes for a quarter of the draws.
//
// Kinds: `c01 mcs nx ny nz bits tag…` / `c01 mss nx ny bits tag…` (lattice POINTS incl. the empty outer layer): the
// driver answers with the plain lattice mesh (verdicts of the proved deciders + multiset hash); the harness snaps every
// real vertex to the lattice edge it lies strictly inside of (a vertex that is ON a lattice point or off the lattice
// lines gives `offlattice`).  The real mesh with its exact float coordinates also goes through soup3 / soup2.

import (
	"fmt"
	"math"

	"github.com/unixpickle/model3d/model2d"
	"github.com/unixpickle/model3d/model3d"
	"verif/harness/hlib"
)

// between-lattice rules of an oracle solid
const (
	offOutside = iota
	offInside
	offHash
	offCrossing
	offModes
)

var offNames = []string{"outside", "inside", "hash", "crossing"}

type oracle3 struct {
	latticeSolid
	mode int
	salt uint64
}

func isInt(x float64) bool { return x == math.Floor(x) }

func (o *oracle3) Contains(p model3d.Coord3D) bool {
	if isInt(p.X) && isInt(p.Y) && isInt(p.Z) {
		return o.latticeSolid.Contains(p)
	}
	arr := p.Array()
	ax := -1
	for i, v := range arr {
		if !isInt(v) {
			if ax >= 0 {
				offLatticeQuery.Store(true) // see latticeSolid.Contains
				return false
			}
			ax = i
		}
	}
	lo, hi := arr, arr
	lo[ax], hi[ax] = math.Floor(arr[ax]), math.Floor(arr[ax])+1
	a := o.latticeSolid.Contains(model3d.NewCoord3DArray(lo))
	b := o.latticeSolid.Contains(model3d.NewCoord3DArray(hi))
	return offAnswer(o.mode, o.salt, a, b, arr[ax]-lo[ax],
		math.Float64bits(lo[0]), math.Float64bits(lo[1]), math.Float64bits(lo[2]), uint64(ax), math.Float64bits(arr[ax]))
}

// offAnswer: the value at fraction t in (0,1) of a lattice edge whose ends are labelled a (at 0) and b (at 1).
func offAnswer(mode int, salt uint64, a, b bool, t float64, key ...uint64) bool {
	switch mode {
	case offOutside:
		return false
	case offInside:
		return true
	case offHash:
		return mix(append([]uint64{salt}, key...)...)&1 == 0
	}
	// one crossing per edge at a dyadic fraction (k/16, k = 0..16: 0 and 16 = the surface passes through an end)
	cut := float64(mix(append([]uint64{salt}, key[:len(key)-1]...)...)%17) / 16
	if a == b {
		return a
	}
	if a {
		return t < cut // inside near the 0 end
	}
	return t > cut
}

type oracle2 struct {
	latticeSolid2
	mode int
	salt uint64
}

func (o *oracle2) Contains(p model2d.Coord) bool {
	if isInt(p.X) && isInt(p.Y) {
		return o.latticeSolid2.Contains(p)
	}
	arr := p.Array()
	ax := -1
	for i, v := range arr {
		if !isInt(v) {
			if ax >= 0 {
				offLatticeQuery.Store(true)
				return false
			}
			ax = i
		}
	}
	lo, hi := arr, arr
	lo[ax], hi[ax] = math.Floor(arr[ax]), math.Floor(arr[ax])+1
	a := o.latticeSolid2.Contains(model2d.NewCoordArray(lo))
	b := o.latticeSolid2.Contains(model2d.NewCoordArray(hi))
	return offAnswer(o.mode, o.salt, a, b, arr[ax]-lo[ax],
		math.Float64bits(lo[0]), math.Float64bits(lo[1]), uint64(ax), math.Float64bits(arr[ax]))
}

var searchIters = []int{0, 0, 1, 2, 3, 5, 8, 12}

func emitSearch3(c *hlib.Ctx, s model3d.Solid, delta float64, desc string) {
	l := newLat3(s, delta)
	if !l.outerEmpty() {
		c.Stat("c01.search3.skipped_outer", 1)
		return
	}
	iters := searchIters[c.Rng.Intn(len(searchIters))]
	fn := c.Rng.Intn(4)
	fnName := []string{"MarchingCubesSearch", "MarchingCubesInterior", "MarchingCubesSearchFilter", "MarchingCubesInterior"}[fn]
	c.Stat("c01.search3.fn."+fnName, 1)
	c.Stat(fmt.Sprintf("c01.search3.iters_%d", iters), 1)
	tag := fmt.Sprintf("fn=%s delta=%v iters=%d solid=%s", fnName, delta, iters, desc)
	op := fmt.Sprintf("c01 mcs %d %d %d %s %s", len(l.xs), len(l.ys), len(l.zs), boolBits(l.bits), tag)
	var got *model3d.Mesh
	c.EmitSite(op, guarded(func() string {
		switch fn {
		case 0:
			got = model3d.MarchingCubesSearch(s, delta, iters)
		case 2:
			got = model3d.MarchingCubesSearchFilter(s, func(*model3d.Rect) bool { return true }, delta, iters)
		default:
			got, _ = model3d.MarchingCubesInterior(s, delta, iters)
		}
		return "balanced=1 fans=1 outward=1 " + l.snapHash(got) + offQuery()
	}), "corr:c01 mcs/"+fnName)
	if got != nil && got.NumTriangles() > 0 && got.NumTriangles() <= 40000 {
		soup3(c, "mcs_"+fnName, func() *model3d.Mesh { return got }, tag)
	}
}

func emitSearch2(c *hlib.Ctx, s model2d.Solid, delta float64, desc string) {
	l := newLat2(s, delta)
	if !l.outerEmpty() {
		c.Stat("c01.search2.skipped_outer", 1)
		return
	}
	iters := searchIters[c.Rng.Intn(len(searchIters))]
	fn := c.Rng.Intn(2)
	fnName := []string{"MarchingSquaresSearch", "MarchingSquaresSearchFilter"}[fn]
	c.Stat("c01.search2.fn."+fnName, 1)
	tag := fmt.Sprintf("fn=%s delta=%v iters=%d solid=%s", fnName, delta, iters, desc)
	op := fmt.Sprintf("c01 mss %d %d %s %s", len(l.xs), len(l.ys), boolBits(l.bits), tag)
	var got *model2d.Mesh
	c.EmitSite(op, guarded(func() string {
		if fn == 0 {
			got = model2d.MarchingSquaresSearch(s, delta, iters)
		} else {
			got = model2d.MarchingSquaresSearchFilter(s, func(*model2d.Rect) bool { return true }, delta, iters)
		}
		return "inout=1 outward=1 " + l.snapHash(got) + offQuery()
	}), "corr:c01 mss/"+fnName)
	if got != nil && got.NumSegments() > 0 {
		soup2(c, "mss_"+fnName, func() *model2d.Mesh { return got })
	}
}

func runSearch(c *hlib.Ctx) {
	runConj(c)
	// ---- oracle solids on random labellings
	for i := 0; i < c.N/2+10; i++ {
		nx, ny, nz := 1+c.Rng.Intn(4), 1+c.Rng.Intn(4), 1+c.Rng.Intn(4)
		var bs []bool
		if c.Rng.Intn(4) == 0 {
			nx, ny, nz = 3+c.Rng.Intn(5), 3+c.Rng.Intn(5), 3+c.Rng.Intn(5)
			bs = blobBits3(c, nx, ny, nz)
		} else {
			bs = randBits(c, nx*ny*nz, []int{nx, ny, nz})
		}
		mode := c.Rng.Intn(offModes)
		o := &oracle3{latticeSolid{nx, ny, nz, bs}, mode, c.Rng.Uint64()}
		c.Stat("c01.search3.oracle_"+offNames[mode], 1)
		emitSearch3(c, o, 1, fmt.Sprintf("oracle(%s,%d)", offNames[mode], o.salt))
	}
	for i := 0; i < c.N/2+10; i++ {
		nx, ny := 1+c.Rng.Intn(6), 1+c.Rng.Intn(6)
		var bs []bool
		if c.Rng.Intn(4) == 0 {
			nx, ny = 7+c.Rng.Intn(14), 7+c.Rng.Intn(14)
			bs = blobBits2(c, nx, ny)
		} else {
			bs = randBits(c, nx*ny, []int{nx, ny})
		}
		mode := c.Rng.Intn(offModes)
		o := &oracle2{latticeSolid2{nx, ny, bs}, mode, c.Rng.Uint64()}
		c.Stat("c01.search2.oracle_"+offNames[mode], 1)
		emitSearch2(c, o, 1, fmt.Sprintf("oracle(%s,%d)", offNames[mode], o.salt))
	}
	// ---- geometric solids with sharp features; faces on lattice planes happen for a quarter of the coordinates
	for i := 0; i < c.N/8+6; i++ {
		delta := 1.0 / 32
		s, family := candidate3(c, delta, 2, 10)
		c.Stat("c01.search3.geom_"+family, 1)
		emitSearch3(c, s, delta, family+" "+s.desc())
	}
	for i := 0; i < c.N/4+6; i++ {
		delta := 1.0 / 64
		s, family := candidate2(c, delta, 2)
		c.Stat("c01.search2.geom_"+family, 1)
		emitSearch2(c, s, delta, family+" "+s.desc())
	}
}
