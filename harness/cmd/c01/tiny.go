package main

// Round 6: small shapes FAR from the origin through the Conj members, and extruded profiles with very short edges.
//
// (1) MarchingSquaresConj / MarchingCubesConj on a solid whose size is 2^-30 ... 2^-40 (2-D) / 2^-20 ... 2^-26 (3-D) of
// its distance to the origin (3-D: size 2^-7 ... 2^-10 at 2^18 ... 2^20).  The orientation of the returned mesh does not depend on where the solid is
// (M3d.C01.conj_translation_is_irrelevant; M3d.C01.conj_sign_test_is_translation_invariant: the signed area / volume
// measured from a point that moves with the mesh is the same number wherever the mesh is, closed or not), so C01 demands
// an outward mesh there as everywhere.  In floating point a sign test that measures from the coordinate origin (shoelace
// sum over raw coordinates, seeded C01-13) sums products of size D^2 rounded to D^2 2^-53 for an area of r^2: noise.
// Everything stays EXACT here: the far point has coordinates m 2^18 (|m| <= 16; 3-D: m 2^16), the shapes are the dyadic
// shapes of candidate2 / candidate3 scaled by 2^-kk, the lists consist of dyadic translations, power-of-two scales and
// signed permutations; 22 + 17 + 1 + iters <= 49 bits.  Kinds: msj / mcj and soup2/msj_far_tiny, soup3/mcj_far_tiny.
//
// (2) ProfileMesh on valid profiles (closed, oriented, manifold) with boundary edges shorter than 1e-8: a short edge
// still needs its wall (M3d.C01.profile_boundary_edge_needs_its_wall); seeded C01-15 skips it.  Families: convex polygons
// with tiny chamfers, star polygons with a tiny chamfer at a convex corner, finely sampled small discs / polar shapes.
// Judged by the proved deciders (soup3/profile_fine).

import (
	"fmt"
	"math"

	"github.com/unixpickle/model3d/model2d"
	"github.com/unixpickle/model3d/model3d"
	"verif/harness/hlib"
)

// farTiny2: the shape `inner` scaled by 1/k (k a power of two) and moved to p.
type farTiny2 struct {
	inner *shape2
	k     float64
	p     model2d.Coord
}

func (f *farTiny2) Min() model2d.Coord { return f.inner.Min().Scale(1 / f.k).Add(f.p) }
func (f *farTiny2) Max() model2d.Coord { return f.inner.Max().Scale(1 / f.k).Add(f.p) }
func (f *farTiny2) Contains(c model2d.Coord) bool {
	return f.inner.Contains(c.Sub(f.p).Scale(f.k))
}

type farTiny3 struct {
	inner *shape3
	k     float64
	p     model3d.Coord3D
}

func (f *farTiny3) Min() model3d.Coord3D { return f.inner.Min().Scale(1 / f.k).Add(f.p) }
func (f *farTiny3) Max() model3d.Coord3D { return f.inner.Max().Scale(1 / f.k).Add(f.p) }
func (f *farTiny3) Contains(c model3d.Coord3D) bool {
	return f.inner.Contains(c.Sub(f.p).Scale(f.k))
}

var tinyIters = []int{0, 0, 1, 2, 3, 5, 8}

// farCoord: +-(4..16) * unit.
func farCoord(c *hlib.Ctx, unit float64) float64 {
	v := float64(4+c.Rng.Intn(13)) * unit
	if c.Rng.Intn(2) == 0 {
		v = -v
	}
	return v
}

func runConjTiny2(c *hlib.Ctx, n int) {
	for i := 0; i < n; i++ {
		delta := 1.0 / 64
		inner, family := candidate2(c, delta, 2)
		kk := 6 + c.Rng.Intn(4)
		k := pow2(kk)
		p := model2d.XY(farCoord(c, pow2(18)), farCoord(c, pow2(18)))
		switch c.Rng.Intn(6) {
		case 0:
			p.X = 0
		case 1:
			p.Y = 0
		}
		s := &farTiny2{inner, k, p}
		// a point near the solid (a multiple of 1/(8k))
		near := func() model2d.Coord {
			return p.Add(model2d.XY(float64(c.Rng.Intn(17)-8), float64(c.Rng.Intn(17)-8)).Scale(1 / (8 * k)))
		}
		var ts []model2d.Transform
		desc := ""
		det, lin := 1.0, 1.0 // determinant sign, linear scale of the list (a power of two)
		tr := func(o model2d.Coord) {
			ts = append(ts, &model2d.Translate{Offset: o})
			desc += fmt.Sprintf("T(%v,%v)", o.X, o.Y)
		}
		vs := func(sx, sy float64) {
			ts = append(ts, &model2d.VecScale{Scale: model2d.XY(sx, sy)})
			desc += fmt.Sprintf("V(%v,%v)", sx, sy)
			det *= sx * sy
		}
		sgn := func() float64 {
			if c.Rng.Intn(2) == 0 {
				return -1
			}
			return 1
		}
		fam := i % 7
		if i >= 7 {
			fam = c.Rng.Intn(7)
		}
		switch fam {
		case 0: // a pure translation by a few sizes of the shape
			tr(model2d.XY(float64(c.Rng.Intn(9)-4), float64(c.Rng.Intn(9)-4)).Scale(1 / k))
		case 1: // the shape brought to the origin
			tr(near().Scale(-1))
		case 2: // ... and to unit size
			tr(near().Scale(-1))
			ts = append(ts, &model2d.Scale{Scale: k})
			desc += fmt.Sprintf("S(%v)", k)
			lin = k
		case 3: // ... with independent signs
			tr(near().Scale(-1))
			vs(sgn()*k, sgn()*k)
			lin = k
		case 4: // mirror image about a line through a point near the shape
			q := near()
			tr(q.Scale(-1))
			if c.Rng.Intn(2) == 0 {
				vs(-1, 1)
			} else {
				vs(1, -1)
			}
			tr(q)
		case 5: // mirror image / half turn about the ORIGIN: the transformed solid is as far away as the solid
			vs(sgn(), sgn())
		default: // quarter turn / diagonal mirror about a point near the shape
			q := near()
			tr(q.Scale(-1))
			a, b := sgn(), sgn()
			m := model2d.NewMatrix2Columns(model2d.XY(0, a), model2d.XY(b, 0))
			ts = append(ts, &model2d.Matrix2Transform{Matrix: m})
			desc += fmt.Sprintf("M[0,%v,%v,0]", a, b)
			det *= -a * b
			tr(q)
		}
		rev := det < 0
		iters := tinyIters[c.Rng.Intn(len(tinyIters))]
		joined := model2d.JoinedTransform(ts)
		solid := model2d.TransformSolid(joined, s)
		d := delta / k * lin * pow2(c.Rng.Intn(3)-1)
		for ext := solid.Max().Sub(solid.Min()); ext.MaxCoord()/d > 120; {
			d *= 2
		}
		l := newLat2(solid, d)
		if !l.outerEmpty() {
			c.Stat("c01.conj2tiny.skipped_outer", 1)
			continue
		}
		tag := fmt.Sprintf("fn=MarchingSquaresConj delta=%v iters=%d rev=%d xforms=%s solid=far_tiny/%s at=(%v,%v) scale=1/%v of %s",
			d, iters, b01(rev), desc, family, p.X, p.Y, k, inner.desc())
		c.Stat("c01.conj2tiny.cases", 1)
		c.Stat(fmt.Sprintf("c01.conj2tiny.family_%d", fam), 1)
		c.Stat(fmt.Sprintf("c01.conj2tiny.reversing_%d", b01(rev)), 1)
		op := fmt.Sprintf("c01 msj %d %d %s %d %s", len(l.xs), len(l.ys), boolBits(l.bits), b01(rev), tag)
		var got *model2d.Mesh
		c.EmitSite(op, guarded(func() string {
			got = model2d.MarchingSquaresConj(s, d, iters, ts...)
			return "inout=1 outward=1 " + l.snapHashFwd(got, joined.Apply)
		}), "corr:c01 msj")
		if got != nil && got.NumSegments() > 0 {
			c.Stat("c01.conj2tiny.nonempty", 1)
			soup2(c, "msj_far_tiny", func() *model2d.Mesh { return got }, tag)
		}
	}
}

func runConjTiny3(c *hlib.Ctx, n int) {
	for i := 0; i < n; i++ {
		delta := 1.0 / 32
		inner, family := candidate3(c, delta, 2, 8)
		kk := 4 + c.Rng.Intn(4)
		k := pow2(kk)
		p := model3d.XYZ(farCoord(c, pow2(16)), farCoord(c, pow2(16)), farCoord(c, pow2(16)))
		switch c.Rng.Intn(6) {
		case 0:
			p.X = 0
		case 1:
			p.Y, p.Z = 0, 0
		}
		s := &farTiny3{inner, k, p}
		near := func() model3d.Coord3D {
			return p.Add(model3d.XYZ(float64(c.Rng.Intn(17)-8), float64(c.Rng.Intn(17)-8), float64(c.Rng.Intn(17)-8)).Scale(1 / (8 * k)))
		}
		var ts []model3d.Transform
		desc := ""
		det, lin := 1.0, 1.0
		tr := func(o model3d.Coord3D) {
			ts = append(ts, &model3d.Translate{Offset: o})
			desc += fmt.Sprintf("T(%v,%v,%v)", o.X, o.Y, o.Z)
		}
		vs := func(sx, sy, sz float64) {
			ts = append(ts, &model3d.VecScale{Scale: model3d.XYZ(sx, sy, sz)})
			desc += fmt.Sprintf("V(%v,%v,%v)", sx, sy, sz)
			det *= sx * sy * sz
		}
		sgn := func() float64 {
			if c.Rng.Intn(2) == 0 {
				return -1
			}
			return 1
		}
		fam := i % 6
		if i >= 6 {
			fam = c.Rng.Intn(6)
		}
		switch fam {
		case 0:
			tr(model3d.XYZ(float64(c.Rng.Intn(9)-4), float64(c.Rng.Intn(9)-4), float64(c.Rng.Intn(9)-4)).Scale(1 / k))
		case 1:
			tr(near().Scale(-1))
		case 2:
			tr(near().Scale(-1))
			f := k * sgn()
			ts = append(ts, &model3d.Scale{Scale: f})
			desc += fmt.Sprintf("S(%v)", f)
			det *= f
			lin = k
		case 3:
			tr(near().Scale(-1))
			vs(sgn()*k, sgn()*k, sgn()*k)
			lin = k
		case 4:
			q := near()
			tr(q.Scale(-1))
			switch c.Rng.Intn(3) {
			case 0:
				vs(-1, 1, 1)
			case 1:
				vs(1, -1, 1)
			default:
				vs(1, 1, -1)
			}
			tr(q)
		default:
			vs(sgn(), sgn(), sgn())
		}
		rev := det < 0
		iters := tinyIters[c.Rng.Intn(len(tinyIters))]
		joined := model3d.JoinedTransform(ts)
		solid := model3d.TransformSolid(joined, s)
		d := delta / k * lin * pow2(c.Rng.Intn(3)-1)
		for ext := solid.Max().Sub(solid.Min()); ext.MaxCoord()/d > 28; {
			d *= 2
		}
		l := newLat3(solid, d)
		if !l.outerEmpty() {
			c.Stat("c01.conj3tiny.skipped_outer", 1)
			continue
		}
		tag := fmt.Sprintf("fn=MarchingCubesConj delta=%v iters=%d rev=%d xforms=%s solid=far_tiny/%s at=(%v,%v,%v) scale=1/%v of %s",
			d, iters, b01(rev), desc, family, p.X, p.Y, p.Z, k, inner.desc())
		c.Stat("c01.conj3tiny.cases", 1)
		c.Stat(fmt.Sprintf("c01.conj3tiny.family_%d", fam), 1)
		c.Stat(fmt.Sprintf("c01.conj3tiny.reversing_%d", b01(rev)), 1)
		op := fmt.Sprintf("c01 mcj %d %d %d %s %d %s", len(l.xs), len(l.ys), len(l.zs), boolBits(l.bits), b01(rev), tag)
		var got *model3d.Mesh
		c.EmitSite(op, guarded(func() string {
			got = model3d.MarchingCubesConj(s, d, iters, ts...)
			return "balanced=1 fans=1 outward=1 " + l.snapHashRot(got, joined.Apply)
		}), "corr:c01 mcj")
		if got != nil && got.NumTriangles() > 0 && got.NumTriangles() <= 60000 {
			c.Stat("c01.conj3tiny.nonempty", 1)
			soup3(c, "mcj_far_tiny", func() *model3d.Mesh { return got }, tag)
		}
	}
}

// ---- extruded profiles with very short boundary edges

// polyMesh2: the closed outline of a polygon listed counter-clockwise (segments run clockwise round the inside, as
// the library's own outlines do).
func polyMesh2(pts []model2d.Coord) *model2d.Mesh {
	m := model2d.NewMesh()
	for i, p := range pts {
		m.Add(&model2d.Segment{pts[(i+1)%len(pts)], p})
	}
	return m
}

// chamfer replaces corner i of a polygon by two points at distance cut along its two edges.
func chamfer(pts []model2d.Coord, i int, cut float64) []model2d.Coord {
	n := len(pts)
	v, a, b := pts[i], pts[(i+n-1)%n], pts[(i+1)%n]
	p1 := v.Add(a.Sub(v).Normalize().Scale(cut))
	p2 := v.Add(b.Sub(v).Normalize().Scale(cut))
	var res []model2d.Coord
	res = append(res, pts[:i]...)
	res = append(res, p1, p2)
	res = append(res, pts[i+1:]...)
	return res
}

func shortCut(c *hlib.Ctx) float64 {
	// edge lengths between 2e-10 and 9e-9 (chamfer edge = cut * 2 sin(angle/2) <= 2 cut)
	return (0.1 + 4.4*c.Rng.Float64()) * 1e-9 * []float64{1, 1, 0.3}[c.Rng.Intn(3)]
}

func runProfilesFine(c *hlib.Ctx, n int) {
	rf := func(lo, hi float64) float64 { return lo + (hi-lo)*c.Rng.Float64() }
	for i := 0; i < n; i++ {
		fam := i % 4
		if i >= 4 {
			fam = c.Rng.Intn(4)
		}
		var m2 *model2d.Mesh
		desc := ""
		short := 0
		countShort := func(m *model2d.Mesh) {
			m.Iterate(func(s *model2d.Segment) {
				if s[0].Dist(s[1]) < 1e-8 {
					short++
				}
			})
		}
		switch fam {
		case 0: // a rectangle with 1..4 chamfered corners
			w, h := rf(0.3, 3), rf(0.3, 3)
			x0, y0 := rf(-2, 2), rf(-2, 2)
			if c.Rng.Intn(3) == 0 {
				x0, y0, w, h = 0, 0, 1, 1
			}
			pts := []model2d.Coord{model2d.XY(x0, y0), model2d.XY(x0+w, y0), model2d.XY(x0+w, y0+h), model2d.XY(x0, y0+h)}
			k := 1 + c.Rng.Intn(4)
			desc = fmt.Sprintf("family=rect_chamfered rect=(%v,%v)+(%v,%v) cuts=", x0, y0, w, h)
			for j := k - 1; j >= 0; j-- { // from the last corner down, so that indices stay valid
				cut := shortCut(c)
				pts = chamfer(pts, j, cut)
				desc += fmt.Sprintf("%d:%v;", j, cut)
			}
			m2 = polyMesh2(pts)
		case 1: // a convex polygon (points on an ellipse) with one or two chamfered corners
			nn := 3 + c.Rng.Intn(9)
			a, b := rf(0.5, 2), rf(0.5, 2)
			ph := rf(0, 1)
			pts := make([]model2d.Coord, nn)
			for j := range pts {
				th := 2 * math.Pi * (float64(j) + ph) / float64(nn)
				pts[j] = model2d.XY(a*math.Cos(th), b*math.Sin(th))
			}
			j := c.Rng.Intn(nn)
			cut := shortCut(c)
			pts = chamfer(pts, j, cut)
			desc = fmt.Sprintf("family=convex_chamfered n=%d a=%v b=%v phase=%v cut=%d:%v", nn, a, b, ph, j, cut)
			m2 = polyMesh2(pts)
		case 2: // a star-shaped polygon with a chamfer at its outermost (hence convex) corner
			nn := 5 + c.Rng.Intn(10)
			pts := make([]model2d.Coord, nn)
			best, bestR := 0, 0.0
			for j := range pts {
				th := 2 * math.Pi * float64(j) / float64(nn)
				r := rf(0.5, 2)
				if r > bestR {
					best, bestR = j, r
				}
				pts[j] = model2d.XY(r*math.Cos(th), r*math.Sin(th))
			}
			cut := shortCut(c)
			desc = fmt.Sprintf("family=star_chamfered n=%d cut=%d:%v pts=", nn, best, cut)
			for _, p := range pts {
				desc += fmt.Sprintf("%v,%v;", p.X, p.Y)
			}
			pts = chamfer(pts, best, cut)
			m2 = polyMesh2(pts)
		default: // a small disc / polar shape outlined finely: every segment is short
			stops := 1200 + c.Rng.Intn(1400)
			radius := rf(2e-7, 1.4e-6) // segment length 2 pi r / stops <= 7.4e-9
			wob := []float64{0, 0, 0.05, 0.2}[c.Rng.Intn(4)]
			lobes := float64(2 + c.Rng.Intn(5))
			desc = fmt.Sprintf("family=fine_polar stops=%d radius=%v wobble=%v lobes=%v", stops, radius, wob, lobes)
			m2 = model2d.NewMeshPolar(func(th float64) float64 { return radius * (1 + wob*math.Cos(lobes*th)) }, stops)
		}
		countShort(m2)
		minZ, maxZ := rf(-1, 0), rf(0.1, 2)
		if fam == 3 {
			minZ, maxZ = rf(-1e-4, 0), rf(1e-5, 1e-4)
		}
		c.Stat("c01.profile_fine.cases", 1)
		c.Stat(fmt.Sprintf("c01.profile_fine.family_%d", fam), 1)
		c.Stat("c01.profile_fine.edges_shorter_than_1e-8", short)
		tag := fmt.Sprintf("fn=ProfileMesh minZ=%v maxZ=%v short_edges=%d %s", minZ, maxZ, short, desc)
		soup3(c, "profile_fine", func() *model3d.Mesh { return model3d.ProfileMesh(m2, minZ, maxZ) }, tag)
	}
}

// runRound6 is appended at the end of run(), so that the random streams of the older kinds are unchanged.
func runRound6(c *hlib.Ctx) {
	runConjTiny2(c, c.N/12+14)
	runConjTiny3(c, c.N/25+8)
	runProfilesFine(c, c.N/20+10)
}
