package main

// Box-set HISTORIES: a RectSet built by any sequence of Add / Remove / AddRectSet / RemoveRectSet (the argument
// sets being built the same way), then
//
//   - kind `rsmesh`: ExactMesh() triangle-for-triangle (exact coordinates, multiset hash) against the Lean model -
//     C04's model of the operations (M3d.RectSet.Hist.eval, whose representation invariant is
//     M3d.C04.rectset_history_aligned) + M3d.RectMesh.exactMesh (the uniqueQuads loop).  This validates the faithful
//     model the theorems M3d.C01.exactmesh_* are about: a face is cancelled iff a second stored box has it.
//   - kind `rectops`: Mesh() judged against the point set of the history (boxes added minus boxes removed, in order, at
//     generic points; M3d.RectSpec on the grid of the ESSENTIAL planes - the planes that carry a boundary face; they are
//     a subset of the real split lists, so the thinnest essential gap bounds the real epsilon from above).
//
// The op line is the history: `[ a <6 hex> | r <6 hex> | A [ … ] | R [ … ] … ]`.

import (
	"fmt"
	"math/big"
	"strings"

	"github.com/unixpickle/model3d/model2d"
	"github.com/unixpickle/model3d/model3d"
	"github.com/unixpickle/model3d/toolbox3d"
	"verif/harness/hlib"
)

type rsOp struct {
	kind string // a r A R
	box  ibox
	sub  []rsOp
}

func histTokens(ops []rsOp) string {
	var b strings.Builder
	b.WriteString("[")
	for _, o := range ops {
		switch o.kind {
		case "a", "r":
			b.WriteString(" " + o.kind)
			for _, v := range []float64{o.box.lo[0], o.box.lo[1], o.box.lo[2], o.box.hi[0], o.box.hi[1], o.box.hi[2]} {
				b.WriteString(" " + hlib.Hex(v))
			}
		default:
			b.WriteString(" " + o.kind + " " + histTokens(o.sub))
		}
	}
	b.WriteString(" ]")
	return b.String()
}

func histBuild(ops []rsOp) *toolbox3d.RectSet {
	rs := toolbox3d.NewRectSet()
	for _, o := range ops {
		r := &model3d.Rect{MinVal: model3d.XYZ(o.box.lo[0], o.box.lo[1], o.box.lo[2]), MaxVal: model3d.XYZ(o.box.hi[0], o.box.hi[1], o.box.hi[2])}
		switch o.kind {
		case "a":
			rs.Add(r)
		case "r":
			rs.Remove(r)
		case "A":
			rs.AddRectSet(histBuild(o.sub))
		case "R":
			rs.RemoveRectSet(histBuild(o.sub))
		}
	}
	return rs
}

func countOps(ops []rsOp, kind string) int {
	n := 0
	for _, o := range ops {
		if o.kind == kind {
			n++
		}
		n += countOps(o.sub, kind)
	}
	return n
}

// genHistory: the boxes of a rectset scenario as additions (directly or through sub-sets), with removals in between:
// notches, through-cuts, slices off one side, removal of exactly an earlier box, removal of a box that misses.
func genHistory(c *hlib.Ctx) ([]rsOp, string) {
	bs, family := rectScenario(c)
	ri := func(lo, hi int) int { return lo + c.Rng.Intn(hi-lo+1) }
	var lo, hi [3]float64
	for i, b := range bs {
		for a := 0; a < 3; a++ {
			if i == 0 || b.lo[a] < lo[a] {
				lo[a] = b.lo[a]
			}
			if i == 0 || b.hi[a] > hi[a] {
				hi[a] = b.hi[a]
			}
		}
	}
	// a removal box in terms of the bounding box: per axis through / lower part / upper part / middle part / thin slot
	cut := func() ibox {
		var b ibox
		for a := 0; a < 3; a++ {
			w := hi[a] - lo[a]
			switch c.Rng.Intn(6) {
			case 0, 1: // through, sticking out
				b.lo[a], b.hi[a] = lo[a]-1, hi[a]+1
			case 2:
				b.lo[a], b.hi[a] = lo[a]-1, lo[a]+w/float64(int(1)<<uint(ri(1, 3)))
			case 3:
				b.lo[a], b.hi[a] = hi[a]-w/float64(int(1)<<uint(ri(1, 3))), hi[a]+1
			case 4:
				b.lo[a], b.hi[a] = lo[a]+w/4, hi[a]-w/4
			default: // a slot a few binary orders thinner than the extent
				t := w * pow2(-ri(3, 12))
				b.lo[a] = lo[a] + w/2
				b.hi[a] = b.lo[a] + t
			}
		}
		return b
	}
	var ops []rsOp
	addOps := func(idx []int) []rsOp {
		var r []rsOp
		for _, i := range idx {
			r = append(r, rsOp{kind: "a", box: bs[i]})
		}
		return r
	}
	idx := make([]int, len(bs))
	for i := range idx {
		idx[i] = i
	}
	for len(idx) > 0 {
		k := 1 + c.Rng.Intn(len(idx))
		switch c.Rng.Intn(4) {
		case 0:
			ops = append(ops, rsOp{kind: "A", sub: addOps(idx[:k])})
		default:
			ops = append(ops, addOps(idx[:k])...)
		}
		idx = idx[k:]
		switch c.Rng.Intn(5) {
		case 0:
			ops = append(ops, rsOp{kind: "r", box: cut()})
		case 1:
			ops = append(ops, rsOp{kind: "R", sub: []rsOp{{kind: "a", box: cut()}, {kind: "a", box: cut()}}})
		case 2:
			ops = append(ops, rsOp{kind: "r", box: bs[c.Rng.Intn(len(bs))]})
		}
	}
	if countOps(ops, "r")+countOps(ops, "R") == 0 && c.Rng.Intn(4) != 0 {
		ops = append(ops, rsOp{kind: "r", box: cut()})
	}
	if c.Rng.Intn(6) == 0 {
		// re-add something after the cuts
		ops = append(ops, rsOp{kind: "a", box: bs[c.Rng.Intn(len(bs))]})
	}
	return ops, family
}

func ratWords(x float64) (uint64, uint64) {
	r := new(big.Rat).SetFloat64(x)
	mask := new(big.Int).SetUint64(^uint64(0))
	n := new(big.Int).And(new(big.Int).Abs(r.Num()), mask).Uint64()
	d := new(big.Int).And(r.Denom(), mask).Uint64()
	if r.Sign() < 0 {
		return 2*n + 1, d
	}
	return 2 * n, d
}

func exactMeshHash(m *model3d.Mesh) string {
	var ms mset
	bad := false
	m.Iterate(func(t *model3d.Triangle) {
		var v []uint64
		for _, p := range t {
			for _, x := range p.Array() {
				if x-x != 0 {
					bad = true
					x = 0
				}
				n, d := ratWords(x)
				v = append(v, n, d)
			}
		}
		ms.add(v...)
	})
	if bad {
		return "nonfinite " + ms.String()
	}
	return ms.String()
}

// runMeshRect: NewMeshRect (3-D and 2-D) on boxes of every aspect ratio (extents 2^-30 .. 2^30, offsets far from the
// origin, negative coordinates, non-dyadic values): the real triangle / segment list with its exact coordinates must be
// the model's (M3d.RectMesh.meshRect / meshRect2; closed manifold for ALL boxes of positive extent:
// M3d.C01.mesh_rect_is_closed_manifold, mesh_rect2_is_closed).
func runMeshRect(c *hlib.Ctx) {
	val := func() (float64, float64) {
		var lo float64
		switch c.Rng.Intn(4) {
		case 0:
			lo = float64(c.Rng.Intn(21) - 10)
		case 1:
			lo = (c.Rng.Float64() - 0.5) * pow2(c.Rng.Intn(40)-10)
		case 2:
			lo = -pow2(c.Rng.Intn(30))
		default:
			lo = c.Rng.NormFloat64()
		}
		var ext float64
		switch c.Rng.Intn(3) {
		case 0:
			ext = pow2(c.Rng.Intn(61) - 30)
		case 1:
			ext = c.Rng.Float64() * 3
		default:
			ext = float64(1 + c.Rng.Intn(5))
		}
		hi := lo + ext
		if !(hi > lo) { // the extent was absorbed by rounding: not a valid box
			hi = lo + 1
		}
		return lo, hi
	}
	for i := 0; i < c.N/3+10; i++ {
		x0, x1 := val()
		y0, y1 := val()
		z0, z1 := val()
		c.Emit(fmt.Sprintf("c01 meshrect %s %s %s %s %s %s", hlib.Hex(x0), hlib.Hex(y0), hlib.Hex(z0), hlib.Hex(x1), hlib.Hex(y1), hlib.Hex(z1)),
			guarded(func() string {
				return exactMeshHash(model3d.NewMeshRect(model3d.XYZ(x0, y0, z0), model3d.XYZ(x1, y1, z1)))
			}))
		c.Emit(fmt.Sprintf("c01 meshrect2 %s %s %s %s", hlib.Hex(x0), hlib.Hex(y0), hlib.Hex(x1), hlib.Hex(y1)),
			guarded(func() string {
				var ms mset
				model2d.NewMeshRect(model2d.XY(x0, y0), model2d.XY(x1, y1)).Iterate(func(s *model2d.Segment) {
					var v []uint64
					for _, p := range s {
						for _, x := range p.Array() {
							n, d := ratWords(x)
							v = append(v, n, d)
						}
					}
					ms.add(v...)
				})
				return ms.String()
			}))
	}
}

func runRectOps(c *hlib.Ctx) {
	runMeshRect(c)
	n := c.N/2 + 10
	for i := 0; i < n; i++ {
		ops, family := genHistory(c)
		hist := histTokens(ops)
		for _, k := range []string{"a", "r", "A", "R"} {
			c.Stat("c01.rectops.op_"+k, countOps(ops, k))
		}
		c.Stat("c01.rectops.family."+family, 1)
		c.EmitSite("c01 rsmesh "+hist, guarded(func() string {
			return exactMeshHash(histBuild(ops).ExactMesh())
		}), "corr:c01 rsmesh/"+family)
		var op string
		res := guarded(func() string {
			op = "c01 rectops " + hist + " 0 0"
			m := histBuild(ops).Mesh()
			ids := map[model3d.Coord3D]int{}
			var coords, tris []string
			nonfinite := false
			m.Iterate(func(t *model3d.Triangle) {
				for _, p := range t {
					if p.X-p.X != 0 || p.Y-p.Y != 0 || p.Z-p.Z != 0 {
						nonfinite = true
						continue
					}
					if _, ok := ids[p]; !ok {
						ids[p] = len(ids)
						coords = append(coords, hlib.Hex(p.X), hlib.Hex(p.Y), hlib.Hex(p.Z))
					}
					tris = append(tris, fmt.Sprint(ids[p]))
				}
			})
			if nonfinite {
				return "nonfinite-vertex"
			}
			op = fmt.Sprintf("c01 rectops %s %d %s %d %s", hist, len(ids), strings.Join(coords, " "), len(tris)/3, strings.Join(tris, " "))
			if len(tris) == 0 {
				return "empty-set empty-mesh"
			}
			return "balanced=1 fans=1 outward=1 tri=1 wind=1 vol=1"
		})
		c.EmitSite(op, res, "corr:c01 rectops/"+family)
	}
}
