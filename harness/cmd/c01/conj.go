package main

// Conj members of the marching families: MarchingCubesConj / MarchingSquaresConj mesh the TRANSFORMED solid (search
// included) and map the mesh back through the inverse of the joined transform.  C01 demands of them what it demands of
// every member: a closed manifold whose normals point from the contained to the excluded side - for EVERY invertible
// transform list, orientation-preserving or not.  Mapping a mesh through an orientation-reversing map (a mirror image,
// a negative scale, an odd number of them in the list) turns it inside out, so the functions have to flip the
// triangles / segments back (M3d.C01.conj_flip_iff_reversing, conj_normals_follow_the_solid,
// mc_conj_outward_on_every_lattice_partial, conj2_flip_iff_reversing, ms_conj_outward_on_every_lattice_partial; closedness for every injective map and either flip decision:
// mc_conj_edges_balanced_on_every_lattice, mc_conj_fans_one_cycle_on_every_lattice, ms_conj_closed_on_every_lattice).
//
// Transforms are exact in floating point (dyadic translations, scales by powers of two of either sign, signed
// permutation matrices with power-of-two factors), so that
//
//   - kinds `c01 mcj nx ny nz bits rev tag…` / `c01 msj nx ny bits rev tag…`: the harness maps the returned mesh FORWARD
//     again (exactly) onto the lattice of the transformed solid and snaps it; the driver answers with the plain lattice
//     mesh of that labelling, every face reversed iff the joined transform reverses orientation (rev = 1: seen from the
//     lattice space an outward mesh of the original space is inside out).  Faces are hashed up to rotation of their
//     vertex order, so WHICH two vertices an implementation swaps is immaterial.
//   - kinds `soup3/mcj`, `soup2/msj`: the returned mesh itself with exact float coordinates through the proved deciders
//     and the sign of the exact signed volume / area.

import (
	"fmt"
	"strings"

	"github.com/unixpickle/model3d/model2d"
	"github.com/unixpickle/model3d/model3d"
	"github.com/unixpickle/model3d/toolbox3d"
	"verif/harness/hlib"
)

func signPow2(c *hlib.Ctx, lo, hi int) float64 {
	v := pow2(lo + c.Rng.Intn(hi-lo+1))
	if c.Rng.Intn(2) == 0 {
		return -v
	}
	return v
}

// permParity: +1 for an even permutation, -1 for an odd one
func permParity(p []int) float64 {
	s := 1.0
	for i := range p {
		for j := i + 1; j < len(p); j++ {
			if p[i] > p[j] {
				s = -s
			}
		}
	}
	return s
}

// conjXforms3 draws 1-3 exact transforms; rev = the composition reverses orientation (sign of the determinant of its
// linear part, known by construction).
func conjXforms3(c *hlib.Ctx, squeeze bool) (ts []model3d.Transform, desc string, rev bool) {
	det := 1.0
	for n := 1 + c.Rng.Intn(3); n > 0; n-- {
		k := c.Rng.Intn(5)
		if squeeze && (n == 1 || c.Rng.Intn(2) == 0) {
			k = 5
			squeeze = false
		}
		switch k {
		case 5:
			// a piecewise-linear, orientation-preserving, NON-affine member: toolbox3d.AxisSqueeze with dyadic
			// bounds and a power-of-two ratio (exact in floating point, inverse included)
			lo := float64(c.Rng.Intn(5)-2) / 8
			sq := &toolbox3d.AxisSqueeze{Axis: toolbox3d.Axis(c.Rng.Intn(3)), Min: lo, Max: lo + float64(1+c.Rng.Intn(3))/16,
				Ratio: pow2(c.Rng.Intn(4) - 2)}
			ts = append(ts, sq)
			desc += fmt.Sprintf("Q(%d,%v,%v,%v)", sq.Axis, sq.Min, sq.Max, sq.Ratio)
		case 0:
			o := model3d.XYZ(float64(c.Rng.Intn(9)-4)/8, float64(c.Rng.Intn(9)-4)/8, float64(c.Rng.Intn(9)-4)/8)
			ts = append(ts, &model3d.Translate{Offset: o})
			desc += fmt.Sprintf("T(%v,%v,%v)", o.X, o.Y, o.Z)
		case 1, 2:
			sc := model3d.XYZ(signPow2(c, -2, 2), signPow2(c, -2, 2), signPow2(c, -2, 2))
			ts = append(ts, &model3d.VecScale{Scale: sc})
			desc += fmt.Sprintf("V(%v,%v,%v)", sc.X, sc.Y, sc.Z)
			det *= sc.X * sc.Y * sc.Z
		case 3:
			s := signPow2(c, -1, 1)
			ts = append(ts, &model3d.Scale{Scale: s})
			desc += fmt.Sprintf("S(%v)", s)
			det *= s * s * s
		default:
			// signed permutation matrix with power-of-two factors: 90 degree rotations and reflections
			perm := c.Rng.Perm(3)
			var cols [3]model3d.Coord3D
			d := permParity(perm)
			for j := 0; j < 3; j++ {
				f := signPow2(c, 0, 0)
				if c.Rng.Intn(4) == 0 {
					f *= 2
				}
				var a [3]float64
				a[perm[j]] = f
				cols[j] = model3d.NewCoord3DArray(a)
				d *= f
			}
			m := model3d.NewMatrix3Columns(cols[0], cols[1], cols[2])
			ts = append(ts, &model3d.Matrix3Transform{Matrix: m})
			desc += "M" + strings.ReplaceAll(fmt.Sprint(*m), " ", ",")
			det *= d
		}
	}
	return ts, desc, det < 0
}

func conjXforms2(c *hlib.Ctx) (ts []model2d.Transform, desc string, rev bool) {
	det := 1.0
	for n := 1 + c.Rng.Intn(3); n > 0; n-- {
		switch c.Rng.Intn(5) {
		case 0:
			o := model2d.XY(float64(c.Rng.Intn(9)-4)/8, float64(c.Rng.Intn(9)-4)/8)
			ts = append(ts, &model2d.Translate{Offset: o})
			desc += fmt.Sprintf("T(%v,%v)", o.X, o.Y)
		case 1, 2:
			sc := model2d.XY(signPow2(c, -2, 2), signPow2(c, -2, 2))
			ts = append(ts, &model2d.VecScale{Scale: sc})
			desc += fmt.Sprintf("V(%v,%v)", sc.X, sc.Y)
			det *= sc.X * sc.Y
		case 3:
			s := signPow2(c, -1, 1) // a negative uniform scale is a rotation by pi in the plane
			ts = append(ts, &model2d.Scale{Scale: s})
			desc += fmt.Sprintf("S(%v)", s)
			det *= s * s
		default:
			perm := c.Rng.Perm(2)
			var cols [2]model2d.Coord
			d := permParity(perm)
			for j := 0; j < 2; j++ {
				f := signPow2(c, 0, 0)
				if c.Rng.Intn(4) == 0 {
					f *= 2
				}
				var a [2]float64
				a[perm[j]] = f
				cols[j] = model2d.NewCoordArray(a)
				d *= f
			}
			m := model2d.NewMatrix2Columns(cols[0], cols[1])
			ts = append(ts, &model2d.Matrix2Transform{Matrix: m})
			desc += "M" + strings.ReplaceAll(fmt.Sprint(*m), " ", ",")
			det *= d
		}
	}
	return ts, desc, det < 0
}

func lexLess3(a, b [3]uint64) bool {
	for i := 0; i < 3; i++ {
		if a[i] != b[i] {
			return a[i] < b[i]
		}
	}
	return false
}

// snapHashRot: like snapHash, after mapping every vertex through fwd; each triangle is rotated so that its
// lexicographically least vertex comes first (orientation kept, the choice of the first vertex forgotten).
func (l *lat3) snapHashRot(m *model3d.Mesh, fwd func(model3d.Coord3D) model3d.Coord3D) string {
	var ms mset
	bad := false
	m.Iterate(func(t *model3d.Triangle) {
		var v [3][3]uint64
		for i, p0 := range t {
			p := fwd(p0)
			x, ox := snapDoubled(p.X, l.xs[0], l.delta, &bad)
			y, oy := snapDoubled(p.Y, l.ys[0], l.delta, &bad)
			z, oz := snapDoubled(p.Z, l.zs[0], l.delta, &bad)
			if ox+oy+oz != 1 {
				bad = true
			}
			v[i] = [3]uint64{x, y, z}
		}
		k := 0
		for i := 1; i < 3; i++ {
			if lexLess3(v[i], v[k]) {
				k = i
			}
		}
		var flat []uint64
		for i := 0; i < 3; i++ {
			w := v[(k+i)%3]
			flat = append(flat, w[0], w[1], w[2])
		}
		ms.add(flat...)
	})
	if bad {
		return "offlattice " + ms.String()
	}
	return ms.String()
}

func (l *lat2) snapHashFwd(m *model2d.Mesh, fwd func(model2d.Coord) model2d.Coord) string {
	var ms mset
	bad := false
	m.Iterate(func(s *model2d.Segment) {
		var v [4]uint64
		for k, p0 := range s {
			p := fwd(p0)
			x, ox := snapDoubled(p.X, l.xs[0], l.delta, &bad)
			y, oy := snapDoubled(p.Y, l.ys[0], l.delta, &bad)
			if ox+oy != 1 {
				bad = true
			}
			v[2*k], v[2*k+1] = x, y
		}
		ms.add(v[:]...)
	})
	if bad {
		return "offlattice " + ms.String()
	}
	return ms.String()
}

func b01(b bool) int {
	if b {
		return 1
	}
	return 0
}

func runConj(c *hlib.Ctx) {
	for i := 0; i < c.N/8+6; i++ {
		delta := 1.0 / 32
		s, family := candidate3(c, delta, 2, 8)
		// one list in five contains a NON-affine member (an axis squeeze): the outward theorems are about affine maps, so
		// such a list is judged on the returned mesh itself only (soup3/mcj_squeeze: deciders + exact signed volume)
		nonAffine := c.Rng.Intn(5) == 0
		ts, desc, rev := conjXforms3(c, nonAffine)
		iters := searchIters[c.Rng.Intn(len(searchIters))]
		joined := model3d.JoinedTransform(ts)
		solid := model3d.TransformSolid(joined, s)
		// spacing: a power of two that keeps the lattice of the TRANSFORMED solid small
		d := delta * pow2(c.Rng.Intn(3)-1)
		for ext := solid.Max().Sub(solid.Min()); ext.MaxCoord()/d > 28; {
			d *= 2
		}
		l := newLat3(solid, d)
		if !l.outerEmpty() {
			c.Stat("c01.conj3.skipped_outer", 1)
			continue
		}
		tag := fmt.Sprintf("fn=MarchingCubesConj delta=%v iters=%d rev=%d xforms=%s solid=%s %s", d, iters, b01(rev), desc, family, s.desc())
		c.Stat("c01.conj3.cases", 1)
		c.Stat(fmt.Sprintf("c01.conj3.reversing_%d", b01(rev)), 1)
		c.Stat(fmt.Sprintf("c01.conj3.members_%d", len(ts)), 1)
		if nonAffine {
			c.Stat("c01.conj3.with_squeeze", 1)
			var got *model3d.Mesh
			r := guarded(func() string {
				got = model3d.MarchingCubesConj(s, d, iters, ts...)
				return "ok"
			})
			if r != "ok" || got == nil {
				c.EmitSite("c01 same conj-ran "+tag, r, "corr:c01 mcj/ran")
			} else if got.NumTriangles() > 0 && got.NumTriangles() <= 60000 {
				soup3(c, "mcj_squeeze", func() *model3d.Mesh { return got }, tag)
			}
			continue
		}
		op := fmt.Sprintf("c01 mcj %d %d %d %s %d %s", len(l.xs), len(l.ys), len(l.zs), boolBits(l.bits), b01(rev), tag)
		var got *model3d.Mesh
		c.EmitSite(op, guarded(func() string {
			got = model3d.MarchingCubesConj(s, d, iters, ts...)
			return "balanced=1 fans=1 outward=1 " + l.snapHashRot(got, joined.Apply)
		}), "corr:c01 mcj")
		if got != nil && got.NumTriangles() > 0 && got.NumTriangles() <= 60000 {
			soup3(c, "mcj", func() *model3d.Mesh { return got }, tag)
		}
	}
	for i := 0; i < c.N/5+6; i++ {
		delta := 1.0 / 64
		s, family := candidate2(c, delta, 2)
		ts, desc, rev := conjXforms2(c)
		iters := searchIters[c.Rng.Intn(len(searchIters))]
		joined := model2d.JoinedTransform(ts)
		solid := model2d.TransformSolid(joined, s)
		d := delta * pow2(c.Rng.Intn(3)-1)
		for ext := solid.Max().Sub(solid.Min()); ext.MaxCoord()/d > 120; {
			d *= 2
		}
		l := newLat2(solid, d)
		if !l.outerEmpty() {
			c.Stat("c01.conj2.skipped_outer", 1)
			continue
		}
		tag := fmt.Sprintf("fn=MarchingSquaresConj delta=%v iters=%d rev=%d xforms=%s solid=%s %s", d, iters, b01(rev), desc, family, s.desc())
		c.Stat("c01.conj2.cases", 1)
		c.Stat(fmt.Sprintf("c01.conj2.reversing_%d", b01(rev)), 1)
		op := fmt.Sprintf("c01 msj %d %d %s %d %s", len(l.xs), len(l.ys), boolBits(l.bits), b01(rev), tag)
		var got *model2d.Mesh
		c.EmitSite(op, guarded(func() string {
			got = model2d.MarchingSquaresConj(s, d, iters, ts...)
			return "inout=1 outward=1 " + l.snapHashFwd(got, joined.Apply)
		}), "corr:c01 msj")
		if got != nil && got.NumSegments() > 0 {
			soup2(c, "msj", func() *model2d.Mesh { return got }, tag)
		}
	}
}
