package main

// Conj members of the marching families: MarchingCubesConj / MarchingSquaresConj mesh the TRANSFORMED solid (search
// included) and map the mesh back through the inverse of the joined transform.  C01 demands of them what it demands of
// every member: a closed manifold whose normals point from the contained to the excluded side - for EVERY invertible
// transform list, orientation-preserving or not.  Mapping a mesh through an orientation-reversing map (a mirror image,
// a negative scale, an odd number of them in the list) turns it inside out, so the functions have to flip the
// triangles / segments back (M3d.C01.conj_flip_iff_reversing, conj_normals_follow_the_solid,
// mc_conj_outward_on_every_lattice_partial, conj2_flip_iff_reversing, ms_conj_outward_on_every_lattice_partial; closedness for every injective map and either flip decision:
// mc_conj_edges_balanced_on_every_lattice, mc_conj_fans_one_cycle_on_every_lattice, ms_conj_closed_on_every_lattice).
//
// Transforms are exact in floating point (dyadic translations, scales by powers of two of either sign, signed
// permutation matrices with power-of-two factors), so that
//
//   - kinds `c01 mcj nx ny nz bits rev tag…` / `c01 msj nx ny bits rev tag…`: the harness maps the returned mesh FORWARD
//     again (exactly) onto the lattice of the transformed solid and snaps it; the driver answers with the plain lattice
//     mesh of that labelling, every face reversed iff the joined transform reverses orientation (rev = 1: seen from the
//     lattice space an outward mesh of the original space is inside out).  Faces are hashed up to rotation of their
//     vertex order, so WHICH two vertices an implementation swaps is immaterial.
//   - kinds `soup3/mcj`, `soup2/msj`: the returned mesh itself with exact float coordinates through the proved deciders
//     and the sign of the exact signed volume / area.

import (
	"fmt"
	"strings"

	"github.com/unixpickle/model3d/model2d"
	"github.com/unixpickle/model3d/model3d"
	"github.com/unixpickle/model3d/toolbox3d"
	"verif/harness/hlib"
)

func signPow2(c *hlib.Ctx, lo, hi int) float64 {
	v := pow2(lo + c.Rng.Intn(hi-lo+1))
	if c.Rng.Intn(2) == 0 {
		return -v
	}
	return v
}

// permParity: +1 for an even permutation, -1 for an odd one
func permParity(p []int) float64 {
	s := 1.0
	for i := range p {
		for j := i + 1; j < len(p); j++ {
			if p[i] > p[j] {
				s = -s
			}
		}
	}
	return s
}

// conjXforms3 draws 1-3 exact transforms; rev = the composition reverses orientation (sign of the determinant of its
// linear part, known by construction).
func conjXforms3(c *hlib.Ctx, squeeze bool) (ts []model3d.Transform, desc string, rev bool) {
	det := 1.0
	for n := 1 + c.Rng.Intn(3); n > 0; n-- {
		k := c.Rng.Intn(5)
		if squeeze && (n == 1 || c.Rng.Intn(2) == 0) {
			k = 5
			squeeze = false
		}
		switch k {
		case 5:
			// a piecewise-linear, orientation-preserving, NON-affine member: toolbox3d.AxisSqueeze with dyadic
			// bounds and a power-of-two ratio (exact in floating point, inverse included)
			lo := float64(c.Rng.Intn(5)-2) / 8
			sq := &toolbox3d.AxisSqueeze{Axis: toolbox3d.Axis(c.Rng.Intn(3)), Min: lo, Max: lo + float64(1+c.Rng.Intn(3))/16,
				Ratio: pow2(c.Rng.Intn(4) - 2)}
			ts = append(ts, sq)
			desc += fmt.Sprintf("Q(%d,%v,%v,%v)", sq.Axis, sq.Min, sq.Max, sq.Ratio)
		case 0:
			o := model3d.XYZ(float64(c.Rng.Intn(9)-4)/8, float64(c.Rng.Intn(9)-4)/8, float64(c.Rng.Intn(9)-4)/8)
			ts = append(ts, &model3d.Translate{Offset: o})
			desc += fmt.Sprintf("T(%v,%v,%v)", o.X, o.Y, o.Z)
		case 1, 2:
			sc := model3d.XYZ(signPow2(c, -2, 2), signPow2(c, -2, 2), signPow2(c, -2, 2))
			ts = append(ts, &model3d.VecScale{Scale: sc})
			desc += fmt.Sprintf("V(%v,%v,%v)", sc.X, sc.Y, sc.Z)
			det *= sc.X * sc.Y * sc.Z
		case 3:
			s := signPow2(c, -1, 1)
			ts = append(ts, &model3d.Scale{Scale: s})
			desc += fmt.Sprintf("S(%v)", s)
			det *= s * s * s
		default:
			// signed permutation matrix with power-of-two factors: 90 degree rotations and reflections
			perm := c.Rng.Perm(3)
			var cols [3]model3d.Coord3D
			d := permParity(perm)
			for j := 0; j < 3; j++ {
				f := signPow2(c, 0, 0)
				if c.Rng.Intn(4) == 0 {
					f *= 2
				}
				var a [3]float64
				a[perm[j]] = f
				cols[j] = model3d.NewCoord3DArray(a)
				d *= f
			}
			m := model3d.NewMatrix3Columns(cols[0], cols[1], cols[2])
			ts = append(ts, &model3d.Matrix3Transform{Matrix: m})
			desc += "M" + strings.ReplaceAll(fmt.Sprint(*m), " ", ",")
			det *= d
		}
	}
	return ts, desc, det < 0
}

func conjXforms2(c *hlib.Ctx) (ts []model2d.Transform, desc string, rev bool) {
	det := 1.0
	for n := 1 + c.Rng.Intn(3); n > 0; n-- {
		switch c.Rng.Intn(5) {
		case 0:
			o := model2d.XY(float64(c.Rng.Intn(9)-4)/8, float64(c.Rng.Intn(9)-4)/8)
			ts = append(ts, &model2d.Translate{Offset: o})
			desc += fmt.Sprintf("T(%v,%v)", o.X, o.Y)
		case 1, 2:
			sc := model2d.XY(signPow2(c, -2, 2), signPow2(c, -2, 2))
			ts = append(ts, &model2d.VecScale{Scale: sc})
			desc += fmt.Sprintf("V(%v,%v)", sc.X, sc.Y)
			det *= sc.X * sc.Y
		case 3:
			s := signPow2(c, -1, 1) // a negative uniform scale is a rotation by pi in the plane
			ts = append(ts, &model2d.Scale{Scale: s})
			desc += fmt.Sprintf("S(%v)", s)
			det *= s * s
		default:
			perm := c.Rng.Perm(2)
			var cols [2]model2d.Coord
			d := permParity(perm)
			for j := 0; j < 2; j++ {
				f := signPow2(c, 0, 0)
				if c.Rng.Intn(4) == 0 {
					f *= 2
				}
				var a [2]float64
				a[perm[j]] = f
				cols[j] = model2d.NewCoordArray(a)
				d *= f
			}
			m := model2d.NewMatrix2Columns(cols[0], cols[1])
			ts = append(ts, &model2d.Matrix2Transform{Matrix: m})
			desc += "M" + strings.ReplaceAll(fmt.Sprint(*m), " ", ",")
			det *= d
		}
	}
	return ts, desc, det < 0
}

func lexLess3(a, b [3]uint64) bool {
	for i := 0; i < 3; i++ {
		if a[i] != b[i] {
			return a[i] < b[i]
		}
	}
	return false
}

// snapHashRot: like snapHash, after mapping every vertex through fwd; each triangle is rotated so that its
// lexicographically least vertex comes first (orientation kept, the choice of the first vertex forgotten).
func (l *lat3) snapHashRot(m *model3d.Mesh, fwd func(model3d.Coord3D) model3d.Coord3D) string {
	var ms mset
	bad := false
	m.Iterate(func(t *model3d.Triangle) {
		var v [3][3]uint64
		for i, p0 := range t {
			p := fwd(p0)
			x, ox := snapDoubled(p.X, l.xs[0], l.delta, &bad)
			y, oy := snapDoubled(p.Y, l.ys[0], l.delta, &bad)
			z, oz := snapDoubled(p.Z, l.zs[0], l.delta, &bad)
			if ox+oy+oz != 1 {
				bad = true
			}
			v[i] = [3]uint64{x, y, z}
		}
		k := 0
		for i := 1; i < 3; i++ {
			if lexLess3(v[i], v[k]) {
				k = i
			}
		}
		var flat []uint64
		for i := 0; i < 3; i++ {
			w := v[(k+i)%3]
			flat = append(flat, w[0], w[1], w[2])
		}
		ms.add(flat...)
	})
	if bad {
		return "offlattice " + ms.String()
	}
	return ms.String()
}

func (l *lat2) snapHashFwd(m *model2d.Mesh, fwd func(model2d.Coord) model2d.Coord) string {
	var ms mset
	bad := false
	m.Iterate(func(s *model2d.Segment) {
		var v [4]uint64
		for k, p0 := range s {
			p := fwd(p0)
			x, ox := snapDoubled(p.X, l.xs[0], l.delta, &bad)
			y, oy := snapDoubled(p.Y, l.ys[0], l.delta, &bad)
			if ox+oy != 1 {
				bad = true
			}
			v[2*k], v[2*k+1] = x, y
		}
		ms.add(v[:]...)
	})
	if bad {
		return "offlattice " + ms.String()
	}
	return ms.String()
}

func b01(b bool) int {
	if b {
		return 1
	}
	return 0
}

// conjDraw3 / conjDraw2: one transform list - its members, a description, whether it reverses orientation, whether it
// has a non-affine member
type conjDraw3 func(c *hlib.Ctx) (ts []model3d.Transform, desc string, rev bool, nonAffine bool)
type conjDraw2 func(c *hlib.Ctx) (ts []model2d.Transform, desc string, rev bool)

func runConj(c *hlib.Ctx) {
	runConj3(c, c.N/8+6, "", func(c *hlib.Ctx) ([]model3d.Transform, string, bool, bool) {
		// one list in five contains a NON-affine member (an axis squeeze): the outward theorems are about affine maps, so
		// such a list is judged on the returned mesh itself only (soup3/mcj_squeeze: deciders + exact signed volume)
		nonAffine := c.Rng.Intn(5) == 0
		ts, desc, rev := conjXforms3(c, nonAffine)
		return ts, desc, rev, nonAffine
	})
	runConj2(c, c.N/5+6, "", conjXforms2)
}

// pointFrameDet3: the determinant of the images of the three unit POINTS X(1), Y(1), Z(1) - for p -> M p + b it is
// det(M + b 1^T) = det(M) (1 + 1^T M^-1 b), NOT det(M) (M3d.C01.point_frame_probe_is_not_the_determinant): a handedness
// probe that forgets to subtract the image of the origin.  Only used for the statistics of the generator.
func pointFrameDet3(t model3d.Transform) float64 {
	x, y, z := t.Apply(model3d.X(1)), t.Apply(model3d.Y(1)), t.Apply(model3d.Z(1))
	return x.Dot(y.Cross(z))
}

func pointFrameDet2(t model2d.Transform) float64 {
	x, y := t.Apply(model2d.X(1)), t.Apply(model2d.Y(1))
	return x.X*y.Y - x.Y*y.X
}

func runConj3(c *hlib.Ctx, n int, sfx string, draw conjDraw3) {
	for i := 0; i < n; i++ {
		delta := 1.0 / 32
		s, family := candidate3(c, delta, 2, 8)
		ts, desc, rev, nonAffine := draw(c)
		iters := searchIters[c.Rng.Intn(len(searchIters))]
		joined := model3d.JoinedTransform(ts)
		solid := model3d.TransformSolid(joined, s)
		// spacing: a power of two that keeps the lattice of the TRANSFORMED solid small
		d := delta * pow2(c.Rng.Intn(3)-1)
		for ext := solid.Max().Sub(solid.Min()); ext.MaxCoord()/d > 28; {
			d *= 2
		}
		l := newLat3(solid, d)
		if !l.outerEmpty() {
			c.Stat("c01.conj3"+sfx+".skipped_outer", 1)
			continue
		}
		tag := fmt.Sprintf("fn=MarchingCubesConj delta=%v iters=%d rev=%d xforms=%s solid=%s %s", d, iters, b01(rev), desc, family, s.desc())
		c.Stat("c01.conj3"+sfx+".cases", 1)
		c.Stat(fmt.Sprintf("c01.conj3%s.reversing_%d", sfx, b01(rev)), 1)
		c.Stat(fmt.Sprintf("c01.conj3%s.members_%d", sfx, len(ts)), 1)
		if !nonAffine {
			// lists for which the translation part matters to a frame-of-points handedness probe (either direction)
			if (pointFrameDet3(joined) < 0) != rev {
				c.Stat("c01.conj3"+sfx+".point_frame_of_joined_has_wrong_sign", 1)
			}
			if (pointFrameDet3(joined.Inverse()) < 0) != rev {
				c.Stat("c01.conj3"+sfx+".point_frame_of_inverse_has_wrong_sign", 1)
				if rev {
					c.Stat("c01.conj3"+sfx+".reversing_but_point_frame_of_inverse_nonnegative", 1)
				}
			}
		}
		if nonAffine {
			c.Stat("c01.conj3"+sfx+".with_squeeze", 1)
			var got *model3d.Mesh
			r := guarded(func() string {
				got = model3d.MarchingCubesConj(s, d, iters, ts...)
				return "ok"
			})
			if r != "ok" || got == nil {
				c.EmitSite("c01 same conj-ran "+tag, r, "corr:c01 mcj/ran")
			} else if got.NumTriangles() > 0 && got.NumTriangles() <= 60000 {
				soup3(c, "mcj_squeeze", func() *model3d.Mesh { return got }, tag)
			}
			continue
		}
		op := fmt.Sprintf("c01 mcj %d %d %d %s %d %s", len(l.xs), len(l.ys), len(l.zs), boolBits(l.bits), b01(rev), tag)
		var got *model3d.Mesh
		c.EmitSite(op, guarded(func() string {
			got = model3d.MarchingCubesConj(s, d, iters, ts...)
			return "balanced=1 fans=1 outward=1 " + l.snapHashRot(got, joined.Apply)
		}), "corr:c01 mcj")
		if got != nil && got.NumTriangles() > 0 && got.NumTriangles() <= 60000 {
			soup3(c, "mcj", func() *model3d.Mesh { return got }, tag)
		}
	}
}

func runConj2(c *hlib.Ctx, n int, sfx string, draw conjDraw2) {
	for i := 0; i < n; i++ {
		delta := 1.0 / 64
		s, family := candidate2(c, delta, 2)
		ts, desc, rev := draw(c)
		iters := searchIters[c.Rng.Intn(len(searchIters))]
		joined := model2d.JoinedTransform(ts)
		solid := model2d.TransformSolid(joined, s)
		d := delta * pow2(c.Rng.Intn(3)-1)
		for ext := solid.Max().Sub(solid.Min()); ext.MaxCoord()/d > 120; {
			d *= 2
		}
		l := newLat2(solid, d)
		if !l.outerEmpty() {
			c.Stat("c01.conj2"+sfx+".skipped_outer", 1)
			continue
		}
		tag := fmt.Sprintf("fn=MarchingSquaresConj delta=%v iters=%d rev=%d xforms=%s solid=%s %s", d, iters, b01(rev), desc, family, s.desc())
		c.Stat("c01.conj2"+sfx+".cases", 1)
		c.Stat(fmt.Sprintf("c01.conj2%s.reversing_%d", sfx, b01(rev)), 1)
		if (pointFrameDet2(joined.Inverse()) < 0) != rev {
			c.Stat("c01.conj2"+sfx+".point_frame_of_inverse_has_wrong_sign", 1)
		}
		op := fmt.Sprintf("c01 msj %d %d %s %d %s", len(l.xs), len(l.ys), boolBits(l.bits), b01(rev), tag)
		var got *model2d.Mesh
		c.EmitSite(op, guarded(func() string {
			got = model2d.MarchingSquaresConj(s, d, iters, ts...)
			return "inout=1 outward=1 " + l.snapHashFwd(got, joined.Apply)
		}), "corr:c01 msj")
		if got != nil && got.NumSegments() > 0 {
			soup2(c, "msj", func() *model2d.Mesh { return got }, tag)
		}
	}
}

// ---- transform lists in which the TRANSLATIONS matter (round 5)
//
// The orientation of an affine map p -> M p + b is the sign of det M, whatever b is (M3d.C01.conj_flip_iff_reversing is
// about every Aff3, M3d.C01.conj_translation_is_irrelevant says so explicitly).  The lists of conjXforms3 keep their
// offsets within 1/2 of the origin; here the offsets reach 8 (in eighths, exact) and the lists are the ones a caller
// writes for a mirror image about a plane / a point / a diagonal plane that does NOT pass through the origin:
// Translate(-c), reflect, Translate(c); glide reflections; random lists with at least one far translation.

type listB3 struct {
	ts   []model3d.Transform
	desc string
	det  float64
}

func (b *listB3) tr(o model3d.Coord3D) {
	b.ts = append(b.ts, &model3d.Translate{Offset: o})
	b.desc += fmt.Sprintf("T(%v,%v,%v)", o.X, o.Y, o.Z)
}

func (b *listB3) vs(sc model3d.Coord3D) {
	b.ts = append(b.ts, &model3d.VecScale{Scale: sc})
	b.desc += fmt.Sprintf("V(%v,%v,%v)", sc.X, sc.Y, sc.Z)
	b.det *= sc.X * sc.Y * sc.Z
}

func (b *listB3) sc(s float64) {
	b.ts = append(b.ts, &model3d.Scale{Scale: s})
	b.desc += fmt.Sprintf("S(%v)", s)
	b.det *= s * s * s
}

// signed permutation matrix (factors +-1, one in four doubled)
func (b *listB3) perm(c *hlib.Ctx, perm []int) {
	var cols [3]model3d.Coord3D
	d := permParity(perm)
	for j := 0; j < 3; j++ {
		f := signPow2(c, 0, 0)
		if c.Rng.Intn(4) == 0 {
			f *= 2
		}
		var a [3]float64
		a[perm[j]] = f
		cols[j] = model3d.NewCoord3DArray(a)
		d *= f
	}
	m := model3d.NewMatrix3Columns(cols[0], cols[1], cols[2])
	b.ts = append(b.ts, &model3d.Matrix3Transform{Matrix: m})
	b.desc += "M" + strings.ReplaceAll(fmt.Sprint(*m), " ", ",")
	b.det *= d
}

func farOffset(c *hlib.Ctx) float64 { return float64(c.Rng.Intn(129)-64) / 8 }

func farPoint3(c *hlib.Ctx) model3d.Coord3D {
	p := model3d.XYZ(farOffset(c), farOffset(c), farOffset(c))
	if c.Rng.Intn(3) == 0 { // along one axis only
		arr := [3]float64{}
		ax := c.Rng.Intn(3)
		arr[ax] = p.Array()[ax]
		p = model3d.NewCoord3DArray(arr)
	}
	return p
}

// conjFar3: forced = 0..5 draws the mirror image about the plane x_ax = cc with ax = forced % 3 and cc > 0 for forced < 3,
// cc < 0 otherwise (every run has all six); forced < 0: a random family.
func conjFar3(c *hlib.Ctx, forced int) ([]model3d.Transform, string, bool, bool) {
	b := &listB3{det: 1}
	family := c.Rng.Intn(6)
	if forced >= 0 {
		family = 0
	}
	switch family {
	case 0: // mirror image about the plane x_ax = cc
		ax := c.Rng.Intn(3)
		var o, sc [3]float64
		o[ax] = farOffset(c)
		if forced >= 0 {
			ax = forced % 3
			o = [3]float64{}
			o[ax] = float64(1+c.Rng.Intn(64)) / 8
			if forced >= 3 {
				o[ax] = -o[ax]
			}
		}
		sc = [3]float64{1, 1, 1}
		sc[ax] = -1
		b.tr(model3d.NewCoord3DArray(o).Scale(-1))
		b.vs(model3d.NewCoord3DArray(sc))
		b.tr(model3d.NewCoord3DArray(o))
	case 1: // point reflection about p (in space: orientation-reversing), or a half turn about an axis through p
		p := farPoint3(c)
		b.tr(p.Scale(-1))
		if c.Rng.Intn(2) == 0 {
			b.sc(-1)
		} else {
			sc := [3]float64{-1, -1, -1}
			sc[c.Rng.Intn(3)] = 1
			b.vs(model3d.NewCoord3DArray(sc))
		}
		b.tr(p)
	case 2: // signed permutation (a mirror image about a diagonal plane, a quarter turn, …) about the point p
		p := farPoint3(c)
		b.tr(p.Scale(-1))
		b.perm(c, c.Rng.Perm(3))
		b.tr(p)
	case 3: // glide: a (possibly reflecting) scale and one far translation, in either order
		sc := model3d.XYZ(signPow2(c, -1, 1), signPow2(c, -1, 1), signPow2(c, -1, 1))
		if c.Rng.Intn(2) == 0 {
			b.tr(farPoint3(c))
			b.vs(sc)
		} else {
			b.vs(sc)
			b.tr(farPoint3(c))
		}
	default: // 2-4 random members, far translations among them
		hasT := false
		for n := 2 + c.Rng.Intn(3); n > 0; n-- {
			k := c.Rng.Intn(5)
			if n == 1 && !hasT {
				k = 0
			}
			switch k {
			case 0, 1:
				b.tr(farPoint3(c))
				hasT = true
			case 2:
				b.vs(model3d.XYZ(signPow2(c, -2, 2), signPow2(c, -2, 2), signPow2(c, -2, 2)))
			case 3:
				b.sc(signPow2(c, -1, 1))
			default:
				b.perm(c, c.Rng.Perm(3))
			}
		}
	}
	c.Stat(fmt.Sprintf("c01.conj3far.family_%d", family), 1)
	return b.ts, b.desc, b.det < 0, false
}

func conjFar2(c *hlib.Ctx, forced int) ([]model2d.Transform, string, bool) {
	var ts []model2d.Transform
	desc := ""
	det := 1.0
	tr := func(o model2d.Coord) {
		ts = append(ts, &model2d.Translate{Offset: o})
		desc += fmt.Sprintf("T(%v,%v)", o.X, o.Y)
	}
	vs := func(sc model2d.Coord) {
		ts = append(ts, &model2d.VecScale{Scale: sc})
		desc += fmt.Sprintf("V(%v,%v)", sc.X, sc.Y)
		det *= sc.X * sc.Y
	}
	perm := func() {
		p := c.Rng.Perm(2)
		var cols [2]model2d.Coord
		d := permParity(p)
		for j := 0; j < 2; j++ {
			f := signPow2(c, 0, 0)
			if c.Rng.Intn(4) == 0 {
				f *= 2
			}
			var a [2]float64
			a[p[j]] = f
			cols[j] = model2d.NewCoordArray(a)
			d *= f
		}
		m := model2d.NewMatrix2Columns(cols[0], cols[1])
		ts = append(ts, &model2d.Matrix2Transform{Matrix: m})
		desc += "M" + strings.ReplaceAll(fmt.Sprint(*m), " ", ",")
		det *= d
	}
	far := func() model2d.Coord {
		p := model2d.XY(farOffset(c), farOffset(c))
		switch c.Rng.Intn(4) {
		case 0:
			p.X = 0
		case 1:
			p.Y = 0
		}
		return p
	}
	family := c.Rng.Intn(4)
	if forced >= 0 {
		family = 0
	}
	switch family {
	case 0: // mirror image about the line x = cc or y = cc (forced 0..3: x/y, cc > 0 / cc < 0)
		p := far()
		sc := model2d.XY(-1, 1)
		vertical := c.Rng.Intn(2) == 0
		if forced >= 0 {
			vertical = forced%2 == 0
			v := float64(1+c.Rng.Intn(64)) / 8
			if forced >= 2 {
				v = -v
			}
			p = model2d.XY(v, v)
		}
		if vertical {
			p.Y = 0
		} else {
			p.X = 0
			sc = model2d.XY(1, -1)
		}
		tr(p.Scale(-1))
		vs(sc)
		tr(p)
	case 1: // signed permutation about the point p (mirror image about a diagonal, quarter turn)
		p := far()
		tr(p.Scale(-1))
		perm()
		tr(p)
	case 2: // glide
		sc := model2d.XY(signPow2(c, -1, 1), signPow2(c, -1, 1))
		if c.Rng.Intn(2) == 0 {
			tr(far())
			vs(sc)
		} else {
			vs(sc)
			tr(far())
		}
	default:
		hasT := false
		for n := 2 + c.Rng.Intn(3); n > 0; n-- {
			k := c.Rng.Intn(4)
			if n == 1 && !hasT {
				k = 0
			}
			switch k {
			case 0, 1:
				tr(far())
				hasT = true
			case 2:
				vs(model2d.XY(signPow2(c, -2, 2), signPow2(c, -2, 2)))
			default:
				perm()
			}
		}
	}
	c.Stat(fmt.Sprintf("c01.conj2far.family_%d", family), 1)
	return ts, desc, det < 0
}

// runConjFar: MarchingCubesConj / MarchingSquaresConj with the lists above (kinds mcj / msj, soup3/mcj, soup2/msj).
func runConjFar(c *hlib.Ctx) {
	k3 := 0
	runConj3(c, c.N/6+12, "far", func(c *hlib.Ctx) ([]model3d.Transform, string, bool, bool) {
		k3++
		if k3 <= 6 {
			return conjFar3(c, k3-1)
		}
		return conjFar3(c, -1)
	})
	k2 := 0
	runConj2(c, c.N/6+10, "far", func(c *hlib.Ctx) ([]model2d.Transform, string, bool) {
		k2++
		if k2 <= 4 {
			return conjFar2(c, k2-1)
		}
		return conjFar2(c, -1)
	})
}
