package main

// ConvexPolytope.Mesh() (3-D and 2-D) on constraint systems whose normals are NOT unit length.
//
// A LinearConstraint is `Normal.Dot(p) <= Max` with a Normal of ANY length (the package's own RectUnnormalized test uses
// 1e90 and 1e50): multiplying one inequality by a positive factor does not change the half-space, so the polytope, the
// vertices Mesh() enumerates and the mesh are the same (M3d.C01.polytope_mesh_vertices_scale_invariant: the determinant
// test is relative to the product of the normals' lengths, the solved vertex does not depend on the factors, and the
// feasibility test `n.x <= Max + epsilon*|n|` is a test of the DISTANCE to the half-space,
// M3d.C01.polytope_vertex_accepted_iff_within_distance - a tolerance that forgets the factor |n| is a slack of
// epsilon/|n| in space, M3d.C01.polytope_absolute_tolerance_scales_with_the_factor).  C01 demands of all these systems
// what it demands of every polytope mesh: a closed, consistently oriented manifold with outward normals.
//
// A system is drawn as half-spaces (n, m) of an object of size about 1 near the origin, then written down the way a
// caller may:
//
//   - geometry scale L (the same object modelled at size L: 1, 10^-1..10^-7, 2^-k, 10^1..10^3): (n, L*m);
//   - every inequality times a positive factor: all equal / independent / some short, 2^k with k in [-60, 60], decimal
//     factors 10^-u*(0.5+v);
//   - `through-points`: the half-space through three points of the face, Normal = the RAW cross product of two edge
//     vectors (length ~ L^2), Max = Normal.Dot(point) - what a caller deriving planes from a part's vertices writes.
//
// Objects: boxes with oblique cuts, boxes with cut corners (planes through points on the three edges of a corner),
// n-gonal pyramids / bipyramids / prisms (vertices of high degree), tetrahedra; 2-D: rectangles with cuts, tangent
// polygons, triangles.  The real mesh goes through the proved deciders with exact float coordinates (soup3 / soup2o:
// balanced / fans / inout + the sign of the exact signed volume / shoelace sum).  The op line ends in the constraint
// system as written (`cons=nx,ny,nz,max;...`, Go's shortest round-trip decimals), so a failing case names its input.

import (
	"fmt"
	"math"
	"strings"

	"github.com/unixpickle/model3d/model2d"
	"github.com/unixpickle/model3d/model3d"
	"verif/harness/hlib"
)

// hcon: the half-space n.p <= m (unit geometry); pts (optional): three points of the boundary plane, counter-clockwise
// seen from outside
type hcon struct {
	n [3]float64
	m float64
}

func hdot(a, b [3]float64) float64 { return a[0]*b[0] + a[1]*b[1] + a[2]*b[2] }
func hnorm(a [3]float64) float64  { return math.Sqrt(hdot(a, a)) }
func hcross(a, b [3]float64) [3]float64 {
	return [3]float64{a[1]*b[2] - a[2]*b[1], a[2]*b[0] - a[0]*b[2], a[0]*b[1] - a[1]*b[0]}
}

func prf(c *hlib.Ctx, lo, hi float64) float64 { return lo + c.Rng.Float64()*(hi-lo) }

func pdir(c *hlib.Ctx) [3]float64 {
	for {
		v := [3]float64{c.Rng.NormFloat64(), c.Rng.NormFloat64(), c.Rng.NormFloat64()}
		if l := hnorm(v); l > 0.2 {
			return [3]float64{v[0] / l, v[1] / l, v[2] / l}
		}
	}
}

func boxCons(lo, hi [3]float64) []hcon {
	var cs []hcon
	for i := 0; i < 3; i++ {
		var a, b [3]float64
		a[i], b[i] = 1, -1
		cs = append(cs, hcon{a, hi[i]}, hcon{b, -lo[i]})
	}
	return cs
}

// polyBase3 draws an object of size about 1 (it contains a ball of radius >= 0.2 round a point within 1 of the origin).
func polyBase3(c *hlib.Ctx) ([]hcon, string) {
	var lo, hi [3]float64
	for i := 0; i < 3; i++ {
		lo[i], hi[i] = prf(c, -1.5, -0.5), prf(c, 0.5, 1.5)
		if c.Rng.Intn(4) == 0 {
			lo[i] = 0 // faces through the origin: Max = 0
		}
	}
	switch c.Rng.Intn(6) {
	case 0: // box with oblique cuts through its interior
		cs := boxCons(lo, hi)
		for k := 1 + c.Rng.Intn(4); k > 0; k-- {
			n := pdir(c)
			mid := [3]float64{(lo[0] + hi[0]) / 2, (lo[1] + hi[1]) / 2, (lo[2] + hi[2]) / 2}
			cs = append(cs, hcon{n, hdot(n, mid) + prf(c, 0.25, 0.9)})
		}
		return cs, "boxcuts"
	case 1: // box with 1-3 corners cut off by the plane through a point on each of the corner's three edges
		cs := boxCons(lo, hi)
		used := map[int]bool{}
		for k := 1 + c.Rng.Intn(3); k > 0; k-- {
			corner := c.Rng.Intn(8)
			if used[corner] {
				continue
			}
			used[corner] = true
			// the part within |x_i - corner_i| / d_i summing to < 1 is cut off (d_i = f_i * extent_i): with sg_i = +1 for
			// a corner at hi_i and -1 at lo_i the kept side is  sum_i (sg_i/d_i) x_i <= sum_i (sg_i/d_i) corner_i - 1
			var n, p [3]float64
			for i := 0; i < 3; i++ {
				f := prf(c, 0.15, 0.45) // fractions < 1/2: cuts of different corners never meet
				if c.Rng.Intn(3) == 0 {
					f = 0.25
				}
				d := f * (hi[i] - lo[i])
				if corner>>uint(i)&1 == 1 {
					n[i], p[i] = 1/d, hi[i]
				} else {
					n[i], p[i] = -1/d, lo[i]
				}
			}
			m := hdot(n, p) - 1
			cs = append(cs, hcon{n, m})
		}
		return cs, "cornercut"
	case 2, 3: // n-gonal pyramid / bipyramid: more than three planes through the apex
		n := 3 + c.Rng.Intn(8)
		bip := c.Rng.Intn(2) == 0
		steep := prf(c, 0.5, 2)
		var cs []hcon
		for k := 0; k < n; k++ {
			th := 2 * math.Pi * float64(k) / float64(n)
			cs = append(cs, hcon{[3]float64{math.Cos(th), math.Sin(th), steep}, 1})
			if bip {
				cs = append(cs, hcon{[3]float64{math.Cos(th), math.Sin(th), -steep}, 1})
			}
		}
		if !bip {
			cs = append(cs, hcon{[3]float64{0, 0, -1}, prf(c, 0, 0.5)})
			return cs, "pyramid"
		}
		return cs, "bipyramid"
	case 4: // prism over a tangent polygon
		n := 3 + c.Rng.Intn(7)
		var cs []hcon
		jit := tangentJitter(n)
		for k := 0; k < n; k++ {
			th := 2 * math.Pi * (float64(k) + prf(c, -jit, jit)) / float64(n)
			cs = append(cs, hcon{[3]float64{math.Cos(th), math.Sin(th), 0}, prf(c, 0.6, 1)})
		}
		cs = append(cs, hcon{[3]float64{0, 0, 1}, hi[2]}, hcon{[3]float64{0, 0, -1}, -lo[2]})
		return cs, "prism"
	default: // tetrahedron: four planes with normals spread round the sphere
		base := [][3]float64{{1, 1, 1}, {1, -1, -1}, {-1, 1, -1}, {-1, -1, 1}}
		var cs []hcon
		for _, b := range base {
			// perturbations shorter than the inradius of the normals' tetrahedron: the origin stays inside their hull (bounded)
			n := [3]float64{b[0] + prf(c, -0.25, 0.25), b[1] + prf(c, -0.25, 0.25), b[2] + prf(c, -0.25, 0.25)}
			l := hnorm(n)
			cs = append(cs, hcon{[3]float64{n[0] / l, n[1] / l, n[2] / l}, prf(c, 0.3, 1)})
		}
		return cs, "tetrahedron"
	}
}

// tangentJitter: how far (in units of 2*pi/n) the k-th tangent direction may leave k*2*pi/n so that consecutive normals stay
// less than 160 degrees apart - the polygon is bounded and no vertex runs away
func tangentJitter(n int) float64 {
	if n == 3 {
		return 0.16
	}
	return 0.3
}

// geomScale: the size the object is modelled at
func geomScale(c *hlib.Ctx) (float64, string) {
	switch c.Rng.Intn(6) {
	case 0, 1:
		return 1, "L=1"
	case 2, 3:
		k := 1 + c.Rng.Intn(7)
		l := math.Pow(10, -float64(k)) * float64(1+c.Rng.Intn(9))
		return l, fmt.Sprintf("L=%v", l)
	case 4:
		l := pow2(-(1 + c.Rng.Intn(30)))
		return l, fmt.Sprintf("L=%v", l)
	default:
		l := math.Pow(10, float64(1+c.Rng.Intn(3)))
		return l, fmt.Sprintf("L=%v", l)
	}
}

// polyFactors: one positive factor per inequality; mode "through-points" is signalled by a nil slice
func polyFactors(c *hlib.Ctx, n int) ([]float64, string) {
	k := func(lo, hi int) float64 { return pow2(lo + c.Rng.Intn(hi-lo+1)) }
	fs := make([]float64, n)
	for i := range fs {
		fs[i] = 1
	}
	switch c.Rng.Intn(8) {
	case 0:
		return fs, "unit"
	case 1:
		s := k(-60, 60)
		for i := range fs {
			fs[i] = s
		}
		return fs, "uniform"
	case 2:
		s := k(-60, -14)
		for i := range fs {
			fs[i] = s
		}
		return fs, "uniform-short"
	case 3:
		for i := range fs {
			fs[i] = k(-60, 60)
		}
		return fs, "independent"
	case 4:
		for i := range fs {
			if c.Rng.Intn(3) == 0 {
				fs[i] = k(-40, -12)
			}
		}
		return fs, "some-short"
	case 5:
		for i := range fs {
			fs[i] = math.Pow(10, -12*c.Rng.Float64()) * (0.5 + c.Rng.Float64())
		}
		return fs, "decimal"
	default:
		return nil, "through-points"
	}
}

// writeCons3 turns the unit system into the constraints a caller writes at geometry scale L.
func writeCons3(c *hlib.Ctx, cs []hcon, L float64, fs []float64) model3d.ConvexPolytope {
	var p model3d.ConvexPolytope
	for i, h := range cs {
		if fs != nil {
			s := fs[i]
			p = append(p, &model3d.LinearConstraint{Normal: model3d.XYZ(h.n[0]*s, h.n[1]*s, h.n[2]*s), Max: h.m * L * s})
			continue
		}
		// three points of the plane n.x = m*L: the foot of the origin's perpendicular plus two in-plane edge vectors
		// of length ~L; Normal = their raw cross product (oriented like n), Max = Normal.Dot(point)
		nn := hdot(h.n, h.n)
		foot := [3]float64{h.n[0] * h.m * L / nn, h.n[1] * h.m * L / nn, h.n[2] * h.m * L / nn}
		var u [3]float64
		for {
			u = hcross(h.n, pdir(c))
			if hnorm(u) > 0.3*hnorm(h.n) {
				break
			}
		}
		v := hcross(h.n, u)
		lu, lv := L*prf(c, 0.2, 1)/hnorm(u), L*prf(c, 0.2, 1)/hnorm(v)
		a := model3d.XYZ(foot[0], foot[1], foot[2])
		b := a.Add(model3d.XYZ(u[0]*lu, u[1]*lu, u[2]*lu))
		d := a.Add(model3d.XYZ(v[0]*lv, v[1]*lv, v[2]*lv))
		n := b.Sub(a).Cross(d.Sub(a))
		if n.Dot(model3d.XYZ(h.n[0], h.n[1], h.n[2])) < 0 {
			n = n.Scale(-1)
		}
		p = append(p, &model3d.LinearConstraint{Normal: n, Max: n.Dot(a)})
	}
	return p
}

func consDesc3(p model3d.ConvexPolytope) string {
	var parts []string
	for _, l := range p {
		parts = append(parts, fmt.Sprintf("%v,%v,%v,%v", l.Normal.X, l.Normal.Y, l.Normal.Z, l.Max))
	}
	return strings.Join(parts, ";")
}

func normBucket(mn float64) string {
	switch {
	case mn < 1e-12:
		return "below_1e-12"
	case mn < 1e-6:
		return "1e-12..1e-6"
	case mn < 1e-2:
		return "1e-6..1e-2"
	case mn <= 100:
		return "1e-2..1e2"
	}
	return "above_1e2"
}

// ---- 2-D

func polyBase2(c *hlib.Ctx) ([]hcon, string) {
	lo := [2]float64{prf(c, -1.5, -0.5), prf(c, -1.5, -0.5)}
	hi := [2]float64{prf(c, 0.5, 1.5), prf(c, 0.5, 1.5)}
	if c.Rng.Intn(4) == 0 {
		lo[c.Rng.Intn(2)] = 0
	}
	rect := []hcon{{[3]float64{1, 0, 0}, hi[0]}, {[3]float64{-1, 0, 0}, -lo[0]}, {[3]float64{0, 1, 0}, hi[1]}, {[3]float64{0, -1, 0}, -lo[1]}}
	switch c.Rng.Intn(4) {
	case 0: // rectangle with oblique cuts
		cs := rect
		mid := [3]float64{(lo[0] + hi[0]) / 2, (lo[1] + hi[1]) / 2, 0}
		for k := 1 + c.Rng.Intn(4); k > 0; k-- {
			th := prf(c, 0, 2*math.Pi)
			n := [3]float64{math.Cos(th), math.Sin(th), 0}
			cs = append(cs, hcon{n, hdot(n, mid) + prf(c, 0.25, 0.9)})
		}
		return cs, "rectcuts"
	case 1: // rectangle with cut corners: x/a + y/b <= c in small integers (the README's square with one corner cut)
		cs := rect
		for corner := 0; corner < 4; corner++ {
			if c.Rng.Intn(2) == 0 {
				continue
			}
			var n [3]float64
			var q [3]float64 // the point on the corner's x-edge
			for i := 0; i < 2; i++ {
				f := prf(c, 0.15, 0.45) * (hi[i] - lo[i])
				if corner>>uint(i)&1 == 1 {
					n[i] = 1 / f
					q[i] = hi[i]
				} else {
					n[i] = -1 / f
					q[i] = lo[i]
				}
			}
			if corner&1 == 1 {
				q[0] -= 1 / math.Abs(n[0])
			} else {
				q[0] += 1 / math.Abs(n[0])
			}
			cs = append(cs, hcon{n, hdot(n, q)})
		}
		return cs, "cornercut"
	case 2: // tangent polygon
		n := 3 + c.Rng.Intn(9)
		var cs []hcon
		jit := tangentJitter(n)
		for k := 0; k < n; k++ {
			th := 2 * math.Pi * (float64(k) + prf(c, -jit, jit)) / float64(n)
			cs = append(cs, hcon{[3]float64{math.Cos(th), math.Sin(th), 0}, prf(c, 0.6, 1)})
		}
		return cs, "tangent-polygon"
	default:
		var cs []hcon
		for k := 0; k < 3; k++ {
			th := 2*math.Pi*float64(k)/3 + prf(c, -0.35, 0.35) // gaps between consecutive normals stay below 160 degrees
			cs = append(cs, hcon{[3]float64{math.Cos(th), math.Sin(th), 0}, prf(c, 0.3, 1)})
		}
		return cs, "triangle"
	}
}

func writeCons2(c *hlib.Ctx, cs []hcon, L float64, fs []float64) model2d.ConvexPolytope {
	var p model2d.ConvexPolytope
	for i, h := range cs {
		if fs != nil {
			s := fs[i]
			p = append(p, &model2d.LinearConstraint{Normal: model2d.XY(h.n[0]*s, h.n[1]*s), Max: h.m * L * s})
			continue
		}
		// the line through two points of the edge: Normal = the edge vector turned by a right angle (length = the
		// distance of the two points, ~L), Max = Normal.Dot(point)
		nn := hdot(h.n, h.n)
		a := model2d.XY(h.n[0]*h.m*L/nn, h.n[1]*h.m*L/nn)
		t := model2d.XY(-h.n[1], h.n[0]).Normalize().Scale(L * prf(c, 0.2, 1))
		b := a.Add(t)
		e := b.Sub(a)
		n := model2d.XY(e.Y, -e.X)
		if n.Dot(model2d.XY(h.n[0], h.n[1])) < 0 {
			n = n.Scale(-1)
		}
		p = append(p, &model2d.LinearConstraint{Normal: n, Max: n.Dot(a)})
	}
	return p
}

func consDesc2(p model2d.ConvexPolytope) string {
	var parts []string
	for _, l := range p {
		parts = append(parts, fmt.Sprintf("%v,%v,%v", l.Normal.X, l.Normal.Y, l.Max))
	}
	return strings.Join(parts, ";")
}

// polyRedundant lists half-spaces again: the same polytope written redundantly - what concatenating the constraint lists
// of two polytopes with common face planes gives (the intersection of two boxes that share a side), or a caller who adds
// a bounding box "to be safe".  Every extra constraint is a copy of an earlier one (it gets its own factor later, so the
// copy is in general NOT bit-identical), a looser parallel one, or a half-space far outside the object
// (M3d.C01.polytope_repeated_constraint_same_solid).  Returns the tag of what was added ("" = nothing).
func polyRedundant(c *hlib.Ctx, cs []hcon, d3 bool) ([]hcon, string) {
	switch c.Rng.Intn(6) {
	case 0: // one constraint repeated
		k := cs[c.Rng.Intn(len(cs))]
		return append(cs, k), "+repeat"
	case 1: // a second box round the object sharing some of its axis planes: every axis-aligned constraint again, the same or looser
		n := len(cs)
		added := false
		for i := 0; i < n; i++ {
			h := cs[i]
			nz := 0
			for _, v := range h.n {
				if v != 0 {
					nz++
				}
			}
			if nz != 1 {
				continue
			}
			switch c.Rng.Intn(3) {
			case 0:
				cs = append(cs, h)
				added = true
			case 1:
				cs = append(cs, hcon{h.n, h.m + hnorm(h.n)*prf(c, 0.1, 1)})
				added = true
			}
		}
		if !added {
			return cs, ""
		}
		return cs, "+second-box"
	case 2: // a half-space far outside (the objects lie within 3 of the origin)
		var n [3]float64
		if d3 {
			n = pdir(c)
		} else {
			th := prf(c, 0, 2*math.Pi)
			n = [3]float64{math.Cos(th), math.Sin(th), 0}
		}
		return append(cs, hcon{n, prf(c, 4, 9)}), "+far"
	}
	return cs, ""
}

func runPolytopes(c *hlib.Ctx) {
	for i := 0; i < c.N/3+20; i++ {
		cs, family := polyBase3(c)
		cs, red := polyRedundant(c, cs, true)
		family += red
		if red != "" {
			c.Stat("c01.polytope3.redundant_"+red[1:], 1)
		}
		L, ldesc := geomScale(c)
		fs, scal := polyFactors(c, len(cs))
		p := writeCons3(c, cs, L, fs)
		if c.Rng.Intn(3) == 0 {
			c.Rng.Shuffle(len(p), func(i, j int) { p[i], p[j] = p[j], p[i] })
		}
		mn := math.Inf(1)
		for _, l := range p {
			mn = math.Min(mn, l.Normal.Norm())
		}
		c.Stat("c01.polytope3.family_"+family, 1)
		c.Stat("c01.polytope3.scaling_"+scal, 1)
		c.Stat("c01.polytope3.min_normal_"+normBucket(mn), 1)
		if L < 1e-3 && scal == "through-points" {
			c.Stat("c01.polytope3.small_part_raw_cross_products", 1)
		}
		soup3(c, "polytope_unnormalized", func() *model3d.Mesh { return p.Mesh() },
			fmt.Sprintf("fn=ConvexPolytope.Mesh family=%s %s scaling=%s cons=%s", family, ldesc, scal, consDesc3(p)))
	}
	for i := 0; i < c.N/3+20; i++ {
		cs, family := polyBase2(c)
		cs, red := polyRedundant(c, cs, false)
		family += red
		if red != "" {
			c.Stat("c01.polytope2.redundant_"+red[1:], 1)
		}
		L, ldesc := geomScale(c)
		fs, scal := polyFactors(c, len(cs))
		p := writeCons2(c, cs, L, fs)
		if c.Rng.Intn(3) == 0 {
			c.Rng.Shuffle(len(p), func(i, j int) { p[i], p[j] = p[j], p[i] })
		}
		mn := math.Inf(1)
		for _, l := range p {
			mn = math.Min(mn, l.Normal.Norm())
		}
		c.Stat("c01.polytope2.family_"+family, 1)
		c.Stat("c01.polytope2.scaling_"+scal, 1)
		c.Stat("c01.polytope2.min_normal_"+normBucket(mn), 1)
		soup2(c, "polytope2d_unnormalized", func() *model2d.Mesh { return p.Mesh() },
			fmt.Sprintf("fn=ConvexPolytope.Mesh family=%s %s scaling=%s cons=%s", family, ldesc, scal, consDesc2(p)))
	}
}
