package main

import (
	"fmt"
	"math"
	"sort"
	"strings"
	"sync/atomic"

	"github.com/unixpickle/model3d/model2d"
	"github.com/unixpickle/model3d/model3d"
	"github.com/unixpickle/model3d/toolbox3d"
	"verif/harness/hlib"
)

func main() { hlib.Main("C01", run) }

// latticeSolid is a solid defined only by its value on integer lattice points
// 0..n-1 per axis (false elsewhere) — exactly what the marching algorithms see.
type latticeSolid struct {
	nx, ny, nz int
	bits       []bool
}

func (l *latticeSolid) Min() model3d.Coord3D { return model3d.Coord3D{} }
func (l *latticeSolid) Max() model3d.Coord3D {
	return model3d.XYZ(float64(l.nx-1), float64(l.ny-1), float64(l.nz-1))
}
func (l *latticeSolid) Contains(c model3d.Coord3D) bool {
	x, y, z := int(math.Round(c.X)), int(math.Round(c.Y)), int(math.Round(c.Z))
	if float64(x) != c.X || float64(y) != c.Y || float64(z) != c.Z {
		// not a panic: the meshers query from worker goroutines, where a panic would kill the harness instead of
		// becoming a failing case.  The flag is appended to the case's output (offQuery).
		offLatticeQuery.Store(true)
		return false
	}
	if x < 0 || y < 0 || z < 0 || x >= l.nx || y >= l.ny || z >= l.nz {
		return false
	}
	return l.bits[x+l.nx*(y+l.ny*z)]
}

type latticeSolid2 struct {
	nx, ny int
	bits   []bool
}

func (l *latticeSolid2) Min() model2d.Coord { return model2d.Coord{} }
func (l *latticeSolid2) Max() model2d.Coord { return model2d.XY(float64(l.nx-1), float64(l.ny-1)) }
func (l *latticeSolid2) Contains(c model2d.Coord) bool {
	x, y := int(math.Round(c.X)), int(math.Round(c.Y))
	if float64(x) != c.X || float64(y) != c.Y {
		offLatticeQuery.Store(true)
		return false
	}
	if x < 0 || y < 0 || x >= l.nx || y >= l.ny {
		return false
	}
	return l.bits[x+l.nx*y]
}

// offLatticeQuery is set when a lattice-defined solid is asked about a point it is not defined at (a lattice solid off
// the lattice, an oracle solid off the lattice lines): the mesher placed a probe where the algorithm has no business.
var offLatticeQuery atomic.Bool

// offQuery returns (and clears) the flag as a suffix of a case's output; the model never prints it.
func offQuery() string {
	if offLatticeQuery.Swap(false) {
		return " queried-off-lattice"
	}
	return ""
}

func bitStr(bs []bool) string {
	var b strings.Builder
	for _, x := range bs {
		if x {
			b.WriteByte('1')
		} else {
			b.WriteByte('0')
		}
	}
	return b.String()
}

// randBits draws a labelling: densities vary, and some are built only from
// the ambiguous patterns (checkerboards, diagonal contacts, thin sheets).
func randBits(c *hlib.Ctx, n int, dims []int) []bool {
	bs := make([]bool, n)
	switch c.Rng.Intn(6) {
	case 0: // 3-D checkerboard with noise
		idx := 0
		var rec func(d int, par int)
		coords := make([]int, len(dims))
		rec = func(d int, par int) {
			if d < 0 {
				bs[idx] = par%2 == 0
				if c.Rng.Intn(10) == 0 {
					bs[idx] = !bs[idx]
				}
				idx++
				return
			}
			for i := 0; i < dims[d]; i++ {
				coords[d] = i
				rec(d-1, par+i)
			}
		}
		rec(len(dims)-1, 0)
		c.Stat("c01.gen.checkerboard", 1)
	case 1: // sparse
		for i := range bs {
			bs[i] = c.Rng.Intn(5) == 0
		}
		c.Stat("c01.gen.sparse", 1)
	case 2: // dense
		for i := range bs {
			bs[i] = c.Rng.Intn(5) != 0
		}
		c.Stat("c01.gen.dense", 1)
	default:
		for i := range bs {
			bs[i] = c.Rng.Intn(2) == 0
		}
		c.Stat("c01.gen.uniform", 1)
	}
	return bs
}

// blobBits3 / blobBits2: unions of a few random balls/boxes sampled on the lattice, so that the
// surface crosses many rows and columns of a large lattice.
func blobBits3(c *hlib.Ctx, nx, ny, nz int) []bool {
	bs := make([]bool, nx*ny*nz)
	for k := 1 + c.Rng.Intn(3); k > 0; k-- {
		cx, cy, cz := c.Rng.Float64()*float64(nx), c.Rng.Float64()*float64(ny), c.Rng.Float64()*float64(nz)
		r := 1 + c.Rng.Float64()*float64(nx+ny+nz)/5
		for z := 0; z < nz; z++ {
			for y := 0; y < ny; y++ {
				for x := 0; x < nx; x++ {
					dx, dy, dz := float64(x)-cx, float64(y)-cy, float64(z)-cz
					if dx*dx+dy*dy+dz*dz < r*r {
						bs[x+nx*(y+ny*z)] = true
					}
				}
			}
		}
	}
	return bs
}

func blobBits2(c *hlib.Ctx, nx, ny int) []bool {
	bs := make([]bool, nx*ny)
	for k := 1 + c.Rng.Intn(3); k > 0; k-- {
		cx, cy := c.Rng.Float64()*float64(nx), c.Rng.Float64()*float64(ny)
		r := 1 + c.Rng.Float64()*float64(nx+ny)/3
		for y := 0; y < ny; y++ {
			for x := 0; x < nx; x++ {
				dx, dy := float64(x)-cx, float64(y)-cy
				if dx*dx+dy*dy < r*r {
					bs[x+nx*y] = true
				}
			}
		}
	}
	return bs
}

func d2(x float64) int { return int(math.Round(2*x + 2)) }

func mcOut(m *model3d.Mesh) string {
	var ts []string
	m.Iterate(func(t *model3d.Triangle) {
		var vs [3]string
		for i, p := range t {
			vs[i] = fmt.Sprintf("%d.%d.%d", d2(p.X), d2(p.Y), d2(p.Z))
		}
		ts = append(ts, strings.Join(vs[:], ","))
	})
	sort.Strings(ts)
	return fmt.Sprintf("balanced=1 fans=1 outward=1 n=%d %s", len(ts), strings.Join(ts, ";")) + offQuery()
}

func msOut(m *model2d.Mesh) string {
	var ts []string
	m.Iterate(func(s *model2d.Segment) {
		ts = append(ts, fmt.Sprintf("%d.%d,%d.%d", d2(s[0].X), d2(s[0].Y), d2(s[1].X), d2(s[1].Y)))
	})
	sort.Strings(ts)
	return fmt.Sprintf("inout=1 outward=1 n=%d %s", len(ts), strings.Join(ts, ";")) + offQuery()
}

func run(c *hlib.Ctx) {
	// ---- exhaustive: every one of the 256 cell configurations as a 2x2x2 lattice (16 in 2-D)
	for cfg := 0; cfg < 256; cfg++ {
		bs := make([]bool, 8)
		for i := range bs {
			bs[i] = cfg&(1<<uint(i)) != 0
		}
		s := &latticeSolid{2, 2, 2, bs}
		c.Emit(fmt.Sprintf("c01 mc 2 2 2 %s", bitStr(bs)), hlib.Guard(func() string {
			return mcOut(model3d.MarchingCubes(s, 1))
		}))
	}
	for cfg := 0; cfg < 16; cfg++ {
		bs := make([]bool, 4)
		for i := range bs {
			bs[i] = cfg&(1<<uint(i)) != 0
		}
		s := &latticeSolid2{2, 2, bs}
		c.Emit(fmt.Sprintf("c01 ms 2 2 %s", bitStr(bs)), hlib.Guard(func() string {
			return msOut(model2d.MarchingSquares(s, 1))
		}))
	}
	c.Stat("c01.exhaustive_single_cell_lattices", 272)
	// ---- marching cubes on lattice-defined solids
	for i := 0; i < c.N; i++ {
		nx, ny, nz := 1+c.Rng.Intn(4), 1+c.Rng.Intn(4), 1+c.Rng.Intn(4)
		bs := randBits(c, nx*ny*nz, []int{nx, ny, nz})
		s := &latticeSolid{nx, ny, nz, bs}
		op := fmt.Sprintf("c01 mc %d %d %d %s", nx, ny, nz, bitStr(bs))
		variant := c.Rng.Intn(2)
		c.Emit(op, hlib.Guard(func() string {
			switch variant {
			case 0:
				c.Stat("c01.mc.plain", 1)
				return mcOut(model3d.MarchingCubes(s, 1))
			default:
				c.Stat("c01.mc.filter_all", 1)
				return mcOut(model3d.MarchingCubesFilter(s, func(*model3d.Rect) bool { return true }, 1))
			}
		}))
	}
	// ---- larger lattices through the block-splitting (Filter) variants: odd and even cell counts
	for i := 0; i < c.N/10+2; i++ {
		nx, ny, nz := 3+c.Rng.Intn(6), 3+c.Rng.Intn(6), 3+c.Rng.Intn(6)
		bs := blobBits3(c, nx, ny, nz)
		s := &latticeSolid{nx, ny, nz, bs}
		c.Stat("c01.mc.filter_large", 1)
		c.Emit(fmt.Sprintf("c01 mc %d %d %d %s", nx, ny, nz, bitStr(bs)), hlib.Guard(func() string {
			return mcOut(model3d.MarchingCubesFilter(s, func(*model3d.Rect) bool { return true }, 1))
		}))
	}
	for i := 0; i < c.N/4+4; i++ {
		nx, ny := 7+c.Rng.Intn(20), 7+c.Rng.Intn(20)
		bs := blobBits2(c, nx, ny)
		s := &latticeSolid2{nx, ny, bs}
		c.Stat("c01.ms.filter_large", 1)
		c.Emit(fmt.Sprintf("c01 ms %d %d %s", nx, ny, bitStr(bs)), hlib.Guard(func() string {
			return msOut(model2d.MarchingSquaresFilter(s, func(*model2d.Rect) bool { return true }, 1))
		}))
	}
	// ---- marching squares
	for i := 0; i < c.N; i++ {
		nx, ny := 1+c.Rng.Intn(6), 1+c.Rng.Intn(6)
		bs := randBits(c, nx*ny, []int{nx, ny})
		s := &latticeSolid2{nx, ny, bs}
		op := fmt.Sprintf("c01 ms %d %d %s", nx, ny, bitStr(bs))
		variant := c.Rng.Intn(2)
		c.Emit(op, hlib.Guard(func() string {
			if variant == 0 {
				c.Stat("c01.ms.plain", 1)
				return msOut(model2d.MarchingSquares(s, 1))
			}
			c.Stat("c01.ms.filter", 1)
			return msOut(model2d.MarchingSquaresFilter(s, func(*model2d.Rect) bool { return true }, 1))
		}))
	}
	// ---- bitmap outlining
	for i := 0; i < c.N; i++ {
		w, h := 1+c.Rng.Intn(6), 1+c.Rng.Intn(6)
		bs := randBits(c, w*h, []int{w, h})
		bm := model2d.NewBitmap(w, h)
		copy(bm.Data, bs)
		op := fmt.Sprintf("c01 bitmap %d %d %s", w, h, bitStr(bs))
		c.Emit(op, hlib.Guard(func() string {
			var ts []string
			bm.Mesh().Iterate(func(s *model2d.Segment) {
				q := func(x float64) int { return int(math.Round(4*x + 4)) }
				ts = append(ts, fmt.Sprintf("%d.%d,%d.%d", q(s[0].X), q(s[0].Y), q(s[1].X), q(s[1].Y)))
			})
			sort.Strings(ts)
			return fmt.Sprintf("inout=1 outward=1 n=%d %s", len(ts), strings.Join(ts, ";"))
		}))
		c.Stat("c01.bitmap", 1)
	}
	runGenerators(c)
	runRectSets(c)
	runC2F(c)
	runSearch(c)
	runRectOps(c)
	// round 5 (appended, so that the random streams of the kinds above are unchanged)
	runPolytopes(c)
	runConjFar(c)
	// round 6 (appended)
	runRound6(c)
}

// soup3 sends a real mesh (exact float coordinates, interned vertex ids) to the proved deciders.
func soup3(c *hlib.Ctx, name string, build func() *model3d.Mesh, tag ...string) {
	var op string
	res := hlib.Guard(func() string {
		m := build()
		ids := map[model3d.Coord3D]int{}
		var coords []string
		var tris []string
		m.Iterate(func(t *model3d.Triangle) {
			for _, p := range t {
				if _, ok := ids[p]; !ok {
					ids[p] = len(ids)
					coords = append(coords, hlib.Hex(p.X), hlib.Hex(p.Y), hlib.Hex(p.Z))
				}
				tris = append(tris, fmt.Sprint(ids[p]))
			}
		})
		op = fmt.Sprintf("c01 soup3 %d %s %d %s", len(ids), strings.Join(coords, " "), len(tris)/3, strings.Join(tris, " "))
		if len(tag) > 0 {
			op += " " + strings.Join(tag, " ") // trailing tokens are ignored by the driver: they name the generator call
		}
		return "balanced=1 fans=1 outward=1"
	})
	if op == "" {
		op = "c01 soup3 0 0"
	}
	c.Stat("c01.soup3."+name, 1)
	c.EmitSite(op, res, "corr:c01 soup3/"+name)
}

// soup2 sends a real 2-D mesh with exact float coordinates to the proved decider and judges its orientation by the
// sign of the exact shoelace sum (the contained side is on the right of every segment: clockwise, sum negative) - op
// kind `soup2o` (the coordinate-free `soup2` is still understood by the driver).
func soup2(c *hlib.Ctx, name string, build func() *model2d.Mesh, tag ...string) {
	var op string
	res := hlib.Guard(func() string {
		m := build()
		ids := map[model2d.Coord]int{}
		var coords, segs []string
		m.Iterate(func(s *model2d.Segment) {
			for _, p := range s {
				if _, ok := ids[p]; !ok {
					ids[p] = len(ids)
					coords = append(coords, hlib.Hex(p.X), hlib.Hex(p.Y))
				}
				segs = append(segs, fmt.Sprint(ids[p]))
			}
		})
		op = fmt.Sprintf("c01 soup2o %d %s %d %s", len(ids), strings.Join(coords, " "), len(segs)/2, strings.Join(segs, " "))
		if len(tag) > 0 {
			op += " " + strings.Join(tag, " ")
		}
		return "inout=1 outward=1"
	})
	if op == "" {
		op = "c01 soup2o 0 0"
	}
	c.Stat("c01.soup2."+name, 1)
	c.EmitSite(op, res, "corr:c01 soup2/"+name)
}

func runGenerators(c *hlib.Ctx) {
	reps := c.N / 40
	if reps < 2 {
		reps = 2
	}
	rf := func(lo, hi float64) float64 { return lo + c.Rng.Float64()*(hi-lo) }
	rdir := func() model3d.Coord3D {
		return model3d.XYZ(c.Rng.NormFloat64(), c.Rng.NormFloat64(), c.Rng.NormFloat64()).Normalize()
	}
	soup3(c, "rect", func() *model3d.Mesh {
		return model3d.NewMeshRect(model3d.XYZ(-1, -2, -3), model3d.XYZ(2, 1, 0.5))
	})
	soup3(c, "icosahedron", func() *model3d.Mesh { return model3d.NewMeshIcosahedron() })
	for n := 1; n <= 4; n++ {
		n := n
		soup3(c, "icosphere", func() *model3d.Mesh {
			return model3d.NewMeshIcosphere(model3d.XYZ(1, 2, 3), 0.7, n)
		})
	}
	// ---- the discretisation parameter of the parametric generators, COMPLETELY over a range: whether a seam or a
	// pole closes is a question about float rounding of k*(2*pi/stops) (and of sin/cos at the results), which
	// depends on the individual value of `stops` and on nothing else - so every value from 3 up to a bound is
	// meshed (the radius function varies from value to value), and a few larger ones are drawn at random.
	polarAll, polarMax := 104, 420
	// thorough tier: the sweep goes on to 180, each run taking every fourth value (phase = seed mod 4; the eight
	// seeds of a thorough check, seed + 7919*i, cover every phase twice) - a complete sweep per run made the
	// scratch files of one thorough check 6 GB
	polarExt := 0
	if c.N > 400 {
		polarExt = 180
	}
	polarRadius := func() func(g model3d.GeoCoord) float64 {
		a, b := rf(0, 0.4), rf(1, 5)
		if c.Rng.Intn(4) == 0 {
			return nil // documented: nil = unit sphere
		}
		return func(g model3d.GeoCoord) float64 { return 1 + a*math.Sin(b*g.Lat)*math.Cos(g.Lon) }
	}
	for stops := 3; stops <= polarAll; stops++ {
		stops := stops
		c.Stat("c01.polar.stops_swept", 1)
		soup3(c, "polar", func() *model3d.Mesh { return model3d.NewMeshPolar(polarRadius(), stops) },
			fmt.Sprintf("fn=NewMeshPolar stops=%d", stops))
	}
	for stops := polarAll + 1; stops <= polarExt; stops++ {
		if int64(stops)%4 != ((c.Seed%4)+4)%4 {
			continue
		}
		stops := stops
		c.Stat("c01.polar.stops_swept_thorough", 1)
		soup3(c, "polar", func() *model3d.Mesh { return model3d.NewMeshPolar(polarRadius(), stops) },
			fmt.Sprintf("fn=NewMeshPolar stops=%d", stops))
	}
	for i := 0; i < minInt(reps/2+1, 4); i++ { // up to 350 000 triangles = 8 MB of op line each
		stops := polarAll + 1 + c.Rng.Intn(polarMax-polarAll)
		c.Stat("c01.polar.stops_random_large", 1)
		soup3(c, "polar", func() *model3d.Mesh { return model3d.NewMeshPolar(polarRadius(), stops) },
			fmt.Sprintf("fn=NewMeshPolar stops=%d", stops))
	}
	for stops := 3; stops <= 2*polarAll; stops++ {
		stops := stops
		a := rf(0, 0.5)
		soup2(c, "polar2d", func() *model2d.Mesh {
			return model2d.NewMeshPolar(func(t float64) float64 { return 1 + a*math.Sin(3*t) }, stops)
		})
	}
	for i := 0; i < c.N/5+5; i++ {
		soup3(c, "heightmap_grid", func() *model3d.Mesh {
			// the grid filled directly (SetHeightSquaredAt / Data are public): isolated cells, cells touching
			// diagonally (singular vertices on the zero level), cells on the border rows / columns, equal and tiny
			// heights - what smooth sphere unions almost never produce
			rows, cols := 2+c.Rng.Intn(7), 2+c.Rng.Intn(7)
			hm := toolbox3d.NewHeightMap(model2d.XY(0, 0), model2d.XY(float64(cols-1), float64(rows-1)), maxInt(rows, cols))
			bs := randBits(c, hm.Rows*hm.Cols, []int{hm.Cols, hm.Rows})
			hts := []float64{1, 1, 0.25, 4, 2.25, 1e-12, 1e-4}
			same := c.Rng.Intn(3) == 0
			for k := range hm.Data {
				if k < len(bs) && bs[k] {
					if same {
						hm.Data[k] = 1
					} else {
						hm.Data[k] = hts[c.Rng.Intn(len(hts))]
					}
				}
			}
			if hm.MaxHeight() == 0 {
				hm.Data[c.Rng.Intn(len(hm.Data))] = 1 // an empty map has an empty mesh: nothing to judge
			}
			if c.Rng.Intn(2) == 0 {
				return hm.Mesh()
			}
			return hm.MeshBidir()
		})
	}
	// seam handling by index (i % stops): cheap meshes, a wide range of stop counts
	wideStops := func() int {
		if c.Rng.Intn(2) == 0 {
			return 3 + c.Rng.Intn(40)
		}
		return 3 + c.Rng.Intn(600)
	}
	for i := 0; i < reps; i++ {
		soup3(c, "cylinder", func() *model3d.Mesh {
			p := model3d.XYZ(rf(-1, 1), rf(-1, 1), rf(-1, 1))
			return model3d.NewMeshCylinder(p, p.Add(rdir().Scale(rf(0.1, 3))), rf(0.05, 2), wideStops())
		})
		soup3(c, "cone", func() *model3d.Mesh {
			p := model3d.XYZ(rf(-1, 1), rf(-1, 1), rf(-1, 1))
			return model3d.NewMeshCone(p, p.Add(rdir().Scale(rf(0.1, 3))), rf(0.05, 2), wideStops())
		})
		soup3(c, "torus", func() *model3d.Mesh {
			inner := rf(0.05, 0.9)
			is, os := 3+c.Rng.Intn(20), 3+c.Rng.Intn(20)
			if c.Rng.Intn(3) == 0 {
				is, os = 3+c.Rng.Intn(90), 3+c.Rng.Intn(90)
			}
			return model3d.NewMeshTorus(model3d.XYZ(rf(-1, 1), rf(-1, 1), rf(-1, 1)), rdir(), inner, inner+rf(0.2, 2), is, os)
		})
		soup3(c, "profile", func() *model3d.Mesh {
			// a star-shaped polygon, clockwise or not is the library's business
			n := 3 + c.Rng.Intn(12)
			m2 := model2d.NewMesh()
			pts := make([]model2d.Coord, n)
			for j := range pts {
				th := 2 * math.Pi * float64(j) / float64(n)
				r := rf(0.5, 2)
				pts[j] = model2d.XY(r*math.Cos(th), r*math.Sin(th))
			}
			for j := range pts {
				m2.Add(&model2d.Segment{pts[(j+1)%n], pts[j]})
			}
			return model3d.ProfileMesh(m2, rf(-1, 0), rf(0.1, 2))
		})
		soup3(c, "polytope", func() *model3d.Mesh {
			// a random bounded polytope: a box cut by a few random planes through its interior
			p := model3d.NewConvexPolytopeRect(model3d.XYZ(-1, -1, -1), model3d.XYZ(1, 1, 1))
			for k := c.Rng.Intn(5); k > 0; k-- {
				p = append(p, &model3d.LinearConstraint{Normal: rdir(), Max: rf(0.3, 1.2)})
			}
			return p.Mesh()
		})
		soup3(c, "polytope_pyramid", func() *model3d.Mesh {
			// n-gonal pyramid or bipyramid: more than three planes meet at the apex
			n := 3 + c.Rng.Intn(8)
			bip := c.Rng.Intn(2) == 0
			var p model3d.ConvexPolytope
			for k := 0; k < n; k++ {
				th := 2 * math.Pi * float64(k) / float64(n)
				p = append(p, &model3d.LinearConstraint{Normal: model3d.XYZ(math.Cos(th), math.Sin(th), 1), Max: 1})
				if bip {
					p = append(p, &model3d.LinearConstraint{Normal: model3d.XYZ(math.Cos(th), math.Sin(th), -1), Max: 1})
				}
			}
			if !bip {
				p = append(p, &model3d.LinearConstraint{Normal: model3d.XYZ(0, 0, -1), Max: 0.5})
			}
			return p.Mesh()
		})
		soup3(c, "rectset", func() *model3d.Mesh {
			rs := toolbox3d.NewRectSet()
			for k := 1 + c.Rng.Intn(5); k > 0; k-- {
				// integer boxes: faces, edges and corners touch and overlap often
				x, y, z := float64(c.Rng.Intn(4)), float64(c.Rng.Intn(4)), float64(c.Rng.Intn(4))
				rs.Add(&model3d.Rect{MinVal: model3d.XYZ(x, y, z),
					MaxVal: model3d.XYZ(x+1+float64(c.Rng.Intn(2)), y+1+float64(c.Rng.Intn(2)), z+1+float64(c.Rng.Intn(2)))})
			}
			// ExactMesh() is documented as possibly non-manifold (touching boxes); only Mesh() claims it.
			return rs.Mesh()
		})
		soup3(c, "heightmap", func() *model3d.Mesh {
			hm := toolbox3d.NewHeightMap(model2d.XY(-2, -2), model2d.XY(2, 2), 10+c.Rng.Intn(30))
			for k := 1 + c.Rng.Intn(4); k > 0; k-- {
				hm.AddSphere(model2d.XY(rf(-1, 1), rf(-1, 1)), rf(0.3, 1))
			}
			if c.Rng.Intn(2) == 0 {
				return hm.Mesh()
			}
			return hm.MeshBidir()
		})
		soup3(c, "mc_search_sphere", func() *model3d.Mesh {
			return model3d.MarchingCubesSearch(&model3d.Sphere{Center: model3d.XYZ(rf(-1, 1), rf(-1, 1), rf(-1, 1)), Radius: rf(0.3, 1.5)},
				rf(0.1, 0.4), c.Rng.Intn(9))
		})
		soup3(c, "mc_search_torus", func() *model3d.Mesh {
			return model3d.MarchingCubesSearch(&model3d.Torus{Axis: rdir(), InnerRadius: 0.3, OuterRadius: 1},
				rf(0.08, 0.2), c.Rng.Intn(9))
		})
		soup2(c, "ms_search_circle", func() *model2d.Mesh {
			return model2d.MarchingSquaresSearch(&model2d.Circle{Center: model2d.XY(rf(-1, 1), rf(-1, 1)), Radius: rf(0.3, 1.5)},
				rf(0.05, 0.4), c.Rng.Intn(9))
		})
		soup2(c, "rect2d", func() *model2d.Mesh {
			return model2d.NewMeshRect(model2d.XY(rf(-2, 0), rf(-2, 0)), model2d.XY(rf(0.1, 2), rf(0.1, 2)))
		})
		soup2(c, "polar2d", func() *model2d.Mesh {
			a := rf(0, 0.5)
			return model2d.NewMeshPolar(func(t float64) float64 { return 1 + a*math.Sin(3*t) }, 3+c.Rng.Intn(50))
		})
		soup2(c, "polytope2d", func() *model2d.Mesh {
			p := model2d.NewConvexPolytopeRect(model2d.XY(-1, -1), model2d.XY(1, 1))
			for k := c.Rng.Intn(5); k > 0; k-- {
				th := rf(0, 2*math.Pi)
				p = append(p, &model2d.LinearConstraint{Normal: model2d.XY(math.Cos(th), math.Sin(th)), Max: rf(0.3, 1.2)})
			}
			return p.Mesh()
		})
	}
}
