package main

// Box sets: RectSet.Mesh() ("creates a manifold 3D mesh from the set of rects") on unions of dyadic boxes that
// touch along faces, along edges and at single vertices, with aspect ratios up to 2^30: thin beads, plates and
// crumbs placed in the FIRST and in the LAST grid interval of each axis (and in the middle), next to blocks
// that are many orders of magnitude larger.  The op line carries the boxes and the real triangles; the Lean
// driver judges the triangles against the boxes as a point set (M3d.RectSpec: closed manifold, every triangle
// facing from the contained to the excluded side, winding number = membership at a generic sample point of
// every grid cell, exact volume = volume of the union up to the documented pull of the singularity repair).

import (
	"fmt"
	"strings"

	"github.com/unixpickle/model3d/model3d"
	"github.com/unixpickle/model3d/toolbox3d"
	"verif/harness/hlib"
)

type ibox struct{ lo, hi [3]float64 }

func pow2(k int) float64 {
	x := 1.0
	for ; k > 0; k-- {
		x *= 2
	}
	for ; k < 0; k++ {
		x /= 2
	}
	return x
}

// rectScenario draws a list of boxes (dyadic coordinates).
func rectScenario(c *hlib.Ctx) ([]ibox, string) {
	ri := func(lo, hi int) int { return lo + c.Rng.Intn(hi-lo+1) }
	// block extents: small integers or large powers of two
	ext := func() float64 {
		switch c.Rng.Intn(4) {
		case 0:
			return float64(ri(1, 4))
		case 1:
			return pow2(ri(0, 7))
		case 2:
			return float64(ri(50, 200))
		}
		return pow2(ri(-3, 3))
	}
	thin := func() float64 { return pow2(-ri(4, 26)) }
	var bs []ibox
	family := ""
	block := ibox{hi: [3]float64{ext(), ext(), ext()}}
	// attach: a box touching `base` only along the edge parallel to axis e (or only at a corner when e < 0),
	// on the sides sg (per axis: false = below lo, true = above hi), thickness th per axis
	attach := func(base ibox, e int, sg [3]bool, th [3]float64, along [2]float64) ibox {
		var b ibox
		for a := 0; a < 3; a++ {
			if a == e {
				b.lo[a], b.hi[a] = along[0], along[1]
				continue
			}
			if sg[a] {
				b.lo[a], b.hi[a] = base.hi[a], base.hi[a]+th[a]
			} else {
				b.lo[a], b.hi[a] = base.lo[a]-th[a], base.lo[a]
			}
		}
		return b
	}
	rsg := func() [3]bool { return [3]bool{c.Rng.Intn(2) == 0, c.Rng.Intn(2) == 0, c.Rng.Intn(2) == 0} }
	rth := func(p float64) [3]float64 {
		var t [3]float64
		for i := range t {
			if c.Rng.Float64() < p {
				t[i] = thin()
			} else {
				t[i] = ext()
			}
		}
		return t
	}
	alongOf := func(base ibox, e int) [2]float64 {
		lo, hi := base.lo[e], base.hi[e]
		switch c.Rng.Intn(4) {
		case 0: // the whole edge
			return [2]float64{lo, hi}
		case 1: // a dyadic part of it
			d := (hi - lo) / 4
			return [2]float64{lo + d*float64(ri(0, 1)), hi - d*float64(ri(0, 1))}
		case 2: // sticking out on one side
			return [2]float64{lo + (hi-lo)/2, hi + (hi-lo)/2}
		}
		return [2]float64{lo, lo + (hi-lo)/2}
	}
	switch c.Rng.Intn(13) {
	case 0:
		family = "stairs"
		for k := ri(1, 5); k > 0; k-- {
			x, y, z := float64(ri(0, 3)), float64(ri(0, 3)), float64(ri(0, 3))
			bs = append(bs, ibox{[3]float64{x, y, z}, [3]float64{x + float64(ri(1, 2)), y + float64(ri(1, 2)), z + float64(ri(1, 2))}})
		}
	case 1, 2:
		family = "bead_on_edge"
		e := ri(0, 2)
		bs = append(bs, block, attach(block, e, rsg(), rth(0.9), alongOf(block, e)))
	case 3:
		family = "crumb_on_vertex"
		bs = append(bs, block, attach(block, -1, rsg(), rth(0.8), [2]float64{}))
	case 4:
		family = "beads_on_block"
		bs = append(bs, block)
		for k := ri(2, 4); k > 0; k-- {
			e := ri(-1, 2)
			var al [2]float64
			if e >= 0 {
				al = alongOf(block, e)
			}
			bs = append(bs, attach(block, e, rsg(), rth(0.8), al))
		}
	case 5:
		family = "diagonal_chain"
		// each box touches the previous one along an edge or at a vertex: a staircase of plates / beads
		cur := block
		bs = append(bs, cur)
		for k := ri(2, 4); k > 0; k-- {
			e := ri(-1, 2)
			var al [2]float64
			if e >= 0 {
				al = alongOf(cur, e)
			}
			nb := attach(cur, e, rsg(), rth(0.6), al)
			bs = append(bs, nb)
			cur = nb
		}
	case 6:
		family = "two_blocks_edge"
		e := ri(0, 2)
		bs = append(bs, block, attach(block, e, rsg(), rth(0.1), alongOf(block, e)))
		if c.Rng.Intn(2) == 0 {
			bs = append(bs, attach(block, ri(0, 2), rsg(), rth(0.9), alongOf(block, e)))
		}
	case 8, 9:
		family = "overlap"
		// boxes that overlap / contain each other / touch with faces of different size: grid planes of one box
		// pass through the interior of another
		unit := 1.0
		if c.Rng.Intn(3) == 0 {
			unit = pow2(-ri(1, 12))
		}
		for k := ri(2, 5); k > 0; k-- {
			var b ibox
			for a := 0; a < 3; a++ {
				b.lo[a] = float64(ri(0, 4)) * unit
				b.hi[a] = b.lo[a] + float64(ri(1, 4))*unit
				if c.Rng.Intn(8) == 0 {
					b.hi[a] = b.lo[a] + thin()*unit
				}
			}
			bs = append(bs, b)
		}
	case 10:
		family = "slab_on_post"
		// a face of one box lies inside a larger face of the other
		a := ri(0, 2)
		post := block
		slab := block
		for k := 0; k < 3; k++ {
			if k == a {
				if c.Rng.Intn(2) == 0 {
					slab.lo[k], slab.hi[k] = post.hi[k], post.hi[k]+rth(0.5)[0]
				} else {
					slab.lo[k], slab.hi[k] = post.lo[k]-rth(0.5)[0], post.lo[k]
				}
				continue
			}
			switch c.Rng.Intn(3) {
			case 0: // sticks out on both sides
				slab.lo[k], slab.hi[k] = post.lo[k]-ext(), post.hi[k]+ext()
			case 1: // flush on one side
				slab.lo[k], slab.hi[k] = post.lo[k], post.hi[k]+ext()
			default: // strictly inside the post's face
				d := (post.hi[k] - post.lo[k]) / 4
				slab.lo[k], slab.hi[k] = post.lo[k]+d, post.hi[k]-d
			}
		}
		bs = append(bs, post, slab)
		if c.Rng.Intn(2) == 0 {
			e := ri(0, 2)
			bs = append(bs, attach(slab, e, rsg(), rth(0.7), alongOf(slab, e)))
		}
	case 11:
		family = "cross"
		// bars through a common core along two or three axes
		core := ext()
		arm := [3]float64{ext(), ext(), ext()}
		for a := 0; a < 3; a++ {
			if a == 2 && c.Rng.Intn(2) == 0 {
				break
			}
			var b ibox
			for k := 0; k < 3; k++ {
				b.lo[k], b.hi[k] = 0, core
				if k == a {
					b.lo[k], b.hi[k] = -arm[a], core+arm[a]
				}
			}
			bs = append(bs, b)
		}
	default:
		family = "plates"
		// thin plates stacked diagonally in the first / last intervals of one axis
		a := ri(0, 2)
		bs = append(bs, block)
		sg := rsg()
		cur := block
		for k := ri(1, 3); k > 0; k-- {
			th := [3]float64{ext(), ext(), ext()}
			th[a] = thin()
			e := (a + 1 + c.Rng.Intn(2)) % 3
			nb := attach(cur, e, sg, th, alongOf(cur, e))
			bs = append(bs, nb)
			cur = nb
		}
	}
	// a dyadic translation (keeps every coordinate exact: offsets are multiples of the coarsest unit used)
	if c.Rng.Intn(3) == 0 {
		off := [3]float64{float64(ri(-3, 3)), float64(ri(-3, 3)), float64(ri(-3, 3))}
		for i := range bs {
			for a := 0; a < 3; a++ {
				bs[i].lo[a] += off[a]
				bs[i].hi[a] += off[a]
			}
		}
	}
	// drop degenerate boxes (zero thickness cannot happen: all extents are positive), shuffle the order
	c.Rng.Shuffle(len(bs), func(i, j int) { bs[i], bs[j] = bs[j], bs[i] })
	return bs, family
}

// buildRectSet puts boxes idx[…] of bs into a RectSet the way a caller may: box by box with Add, or by building
// parts as sets of their own and merging them with AddRectSet (recursively, in either role).  The union - all the
// judgement in Lean knows - does not depend on it.  Returns the set and a description for the replay.
func buildRectSet(c *hlib.Ctx, bs []ibox, idx []int, merge bool) (*toolbox3d.RectSet, string) {
	rs := toolbox3d.NewRectSet()
	add := func(i int) string {
		b := bs[i]
		rs.Add(&model3d.Rect{MinVal: model3d.XYZ(b.lo[0], b.lo[1], b.lo[2]), MaxVal: model3d.XYZ(b.hi[0], b.hi[1], b.hi[2])})
		return fmt.Sprintf("Add(%d)", i)
	}
	var how []string
	for len(idx) > 0 {
		if !merge || len(idx) == 1 || c.Rng.Intn(3) == 0 {
			how = append(how, add(idx[0]))
			idx = idx[1:]
			continue
		}
		k := 1 + c.Rng.Intn(len(idx))
		if k == len(idx) && len(how) == 0 && len(idx) > 1 {
			k = len(idx) - 1
		}
		sub, d := buildRectSet(c, bs, idx[:k], k > 1 && c.Rng.Intn(2) == 0)
		rs.AddRectSet(sub)
		how = append(how, "AddRectSet("+d+")")
		idx = idx[k:]
	}
	return rs, strings.Join(how, ";")
}

func emitRectSet(c *hlib.Ctx, bs []ibox, family string) {
	var op string
	merge := c.Rng.Intn(5) < 3
	res := guarded(func() string {
		var bw []string
		for _, b := range bs {
			for _, v := range []float64{b.lo[0], b.lo[1], b.lo[2], b.hi[0], b.hi[1], b.hi[2]} {
				bw = append(bw, hlib.Hex(v))
			}
		}
		idx := make([]int, len(bs))
		for i := range idx {
			idx[i] = i
		}
		op = fmt.Sprintf("c01 rectset %d %s 0 0", len(bs), strings.Join(bw, " "))
		rs, how := buildRectSet(c, bs, idx, merge)
		if strings.Contains(how, "AddRectSet") {
			c.Stat("c01.rectset.built_with_AddRectSet", 1)
		}
		op = fmt.Sprintf("c01 rectset %d %s 0 0 how=%s", len(bs), strings.Join(bw, " "), how)
		m := rs.Mesh()
		ids := map[model3d.Coord3D]int{}
		var coords, tris []string
		m.Iterate(func(t *model3d.Triangle) {
			for _, p := range t {
				if p.X-p.X != 0 || p.Y-p.Y != 0 || p.Z-p.Z != 0 {
					coords = append(coords, "nonfinite") // NaN is not even a map key
					continue
				}
				if _, ok := ids[p]; !ok {
					ids[p] = len(ids)
					coords = append(coords, hlib.Hex(p.X), hlib.Hex(p.Y), hlib.Hex(p.Z))
				}
				tris = append(tris, fmt.Sprint(ids[p]))
			}
		})
		for _, p := range coords {
			if p == "nonfinite" {
				return "nonfinite-vertex"
			}
		}
		op = fmt.Sprintf("c01 rectset %d %s %d %s %d %s how=%s", len(bs), strings.Join(bw, " "), len(ids), strings.Join(coords, " "),
			len(tris)/3, strings.Join(tris, " "), how)
		return "balanced=1 fans=1 outward=1 tri=1 wind=1 vol=1"
	})
	if op == "" {
		op = "c01 rectset 0 0 0"
	}
	c.Stat("c01.rectset."+family, 1)
	c.EmitSite(op, res, "corr:c01 rectset/"+family)
}

func runRectSets(c *hlib.Ctx) {
	n := c.N + 10
	for i := 0; i < n; i++ {
		bs, family := rectScenario(c)
		emitRectSet(c, bs, family)
	}
	// the documented example of the thin-feature regime: a 1e-4-ish bead on the top edge of a 100x1x100 block,
	// in every combination of first/last interval
	for _, sx := range []bool{false, true} {
		for _, sz := range []bool{false, true} {
			w := pow2(-13)
			b := ibox{hi: [3]float64{100, 1, 100}}
			bead := ibox{lo: [3]float64{0, 0, 0}, hi: [3]float64{0, 1, 0}}
			if sx {
				bead.lo[0], bead.hi[0] = 100, 100+w
			} else {
				bead.lo[0], bead.hi[0] = -w, 0
			}
			if sz {
				bead.lo[2], bead.hi[2] = 100, 100+w
			} else {
				bead.lo[2], bead.hi[2] = -w, 0
			}
			emitRectSet(c, []ibox{b, bead}, "bead_100x1x100")
		}
	}
}
