package main

// Coarse-to-fine members of the marching families (MarchingSquaresC2F / MarchingCubesC2F) on solids with
// SHARP features: boxes, CSG of boxes (convex and reflex corners and edges), convex polygons / polytopes with
// acute corners, and boxes with a thin spike / rod that the coarse lattice misses; spacing ratios
// bigDelta/smallDelta = 2..32, random phase of the solid against both lattices.
//
// When must the C2F output be watertight?  Documented contract (model2d/marching.go, model3d/mc.go): the
// fine mesh is computed near the coarse mesh; "extraSpace ... is extra space to consider around the coarse
// mesh.  It can be increased in the case where the solid has fine details that are totally missed by the
// coarse mesh."  Reading used here, evaluated on the two lattice labellings by this harness and (deciding)
// by the Lean driver (M3d.C2F.seenAll2/3 with reach R = m + E, E*smallDelta <= extraSpace):
//
//	every fine cell with a sign change is, in the max-norm, within E fine steps plus ONE coarse spacing
//	of a coarse cell with a sign change.
//
// M3d.C01.c2f_ms_closed_under_documented_cover / c2f_mc_edges_balanced_under_documented_cover prove that under
// this precondition the C2F face multiset is the plain fine one and hence watertight
// (ms_closed_on_every_lattice / mc_edges_balanced_on_every_lattice); M3d.C01MarginTie proves that the
// expansion written in the source (regenerated) is at least E*smallDelta + 2*bigDelta.  The harness computes
// the smallest E for which the cover holds and passes extraSpace = (E + a little)*smallDelta: for solids the
// coarse lattice sees (every Rect that is its own bounding box) that is E = 0 = no extraSpace; for thin
// features it is the explicit extraSpace the documentation asks for.  Solids whose coarse labelling has no
// sign change at all are skipped (nothing to be near to).

import (
	"fmt"
	"math"
	"sort"
	"strings"
	"time"

	"github.com/unixpickle/model3d/model2d"
	"github.com/unixpickle/model3d/model3d"
	"verif/harness/hlib"
)

// ---- hash shared with lean/M3d/Drv/C01.lean (same construction as harness/cmd/c12)

func mix(vals ...uint64) uint64 {
	h := uint64(14695981039346656037)
	for _, v := range vals {
		h = (h ^ v) * 1099511628211
	}
	h ^= h >> 32
	h *= 0x9E3779B97F4A7C15
	h ^= h >> 29
	return h
}

type mset struct {
	n    int
	s, x uint64
}

func (m *mset) add(vals ...uint64) {
	h := mix(vals...)
	m.n++
	m.s += h
	m.x ^= h
}

func (m *mset) String() string { return fmt.Sprintf("n=%d s=%016x x=%016x", m.n, m.s, m.x) }

// guarded runs f with panic capture and a watchdog.
func guarded(f func() string) string {
	ch := make(chan string, 1)
	go func() { ch <- hlib.Guard(f) }()
	select {
	case r := <-ch:
		return r
	case <-time.After(240 * time.Second):
		return "timeout"
	}
}

// axisPoints mirrors newSquareSpacer: min-delta, then += delta while <= max+delta (exact on dyadic input).
func axisPoints(min, max, delta float64) []float64 {
	var xs []float64
	for x := min - delta; x <= max+delta; x += delta {
		xs = append(xs, x)
	}
	return xs
}

// nearGap: the smallest reach R (fine steps) with M3d.C2F.nearAxis m R i J.
func nearGap(m, i, J int) int {
	g := 0
	if d := i - m*J - 1; d > g {
		g = d
	}
	if d := m*J - i - m; d > g {
		g = d
	}
	return g
}

func snapDoubled(v, origin, delta float64, bad *bool) (uint64, int) {
	t := (v - origin) / delta
	k := math.Floor(t)
	if !(k >= 0 && k < 1e9) {
		*bad = true
		return 0, 0
	}
	if t == k {
		return 2 * uint64(k), 0
	}
	return 2*uint64(k) + 1, 1
}

// ---------------------------------------------------------------- 2-D

type part2 interface {
	in(x, y float64) bool
	desc() string
}

type box2 struct{ x0, y0, x1, y1 float64 }

func (b box2) in(x, y float64) bool { return x >= b.x0 && x <= b.x1 && y >= b.y0 && y <= b.y1 }
func (b box2) desc() string          { return fmt.Sprintf("box(%v,%v,%v,%v)", b.x0, b.y0, b.x1, b.y1) }

// poly2: intersection of half planes a*x + b*y <= c (small integer normals: sharp corners).
type poly2 struct{ hs [][3]float64 }

func (p poly2) in(x, y float64) bool {
	for _, h := range p.hs {
		if h[0]*x+h[1]*y > h[2] {
			return false
		}
	}
	return true
}
func (p poly2) desc() string { return fmt.Sprintf("poly%v", p.hs) }

type shape2 struct {
	min, max model2d.Coord
	add, sub []part2
}

func (t *shape2) Min() model2d.Coord { return t.min }
func (t *shape2) Max() model2d.Coord { return t.max }
func (t *shape2) Contains(c model2d.Coord) bool {
	if c.X < t.min.X || c.Y < t.min.Y || c.X > t.max.X || c.Y > t.max.Y {
		return false
	}
	for _, p := range t.sub {
		if p.in(c.X, c.Y) {
			return false
		}
	}
	for _, p := range t.add {
		if p.in(c.X, c.Y) {
			return true
		}
	}
	return false
}
func (t *shape2) desc() string {
	s := fmt.Sprintf("min=%v,%v max=%v,%v", t.min.X, t.min.Y, t.max.X, t.max.Y)
	for _, p := range t.add {
		s += "+" + p.desc()
	}
	for _, p := range t.sub {
		s += "-" + p.desc()
	}
	return s
}

type lat2 struct {
	xs, ys []float64
	delta  float64
	bits   []bool
}

func newLat2(s model2d.Solid, delta float64) *lat2 {
	l := &lat2{xs: axisPoints(s.Min().X, s.Max().X, delta), ys: axisPoints(s.Min().Y, s.Max().Y, delta), delta: delta}
	l.bits = make([]bool, 0, len(l.xs)*len(l.ys))
	for _, y := range l.ys {
		for _, x := range l.xs {
			l.bits = append(l.bits, s.Contains(model2d.XY(x, y)))
		}
	}
	return l
}

func (l *lat2) at(i, j int) bool { return l.bits[i+len(l.xs)*j] }

func (l *lat2) mixedCells() [][2]int {
	var res [][2]int
	for j := 0; j+1 < len(l.ys); j++ {
		for i := 0; i+1 < len(l.xs); i++ {
			a := l.at(i, j)
			if l.at(i+1, j) != a || l.at(i, j+1) != a || l.at(i+1, j+1) != a {
				res = append(res, [2]int{i, j})
			}
		}
	}
	return res
}

func (l *lat2) outerEmpty() bool {
	nx, ny := len(l.xs), len(l.ys)
	for i := 0; i < nx; i++ {
		if l.at(i, 0) || l.at(i, ny-1) {
			return false
		}
	}
	for j := 0; j < ny; j++ {
		if l.at(0, j) || l.at(nx-1, j) {
			return false
		}
	}
	return true
}

// needReach2: the smallest R such that every fine sign-change cell is within reach R of a coarse one.
func needReach2(m int, fine, coarse [][2]int) int {
	worst := 0
	for _, f := range fine {
		best := math.MaxInt32
		for _, q := range coarse {
			g := nearGap(m, f[0], q[0])
			if h := nearGap(m, f[1], q[1]); h > g {
				g = h
			}
			if g < best {
				best = g
				if best == 0 {
					break
				}
			}
		}
		if best > worst {
			worst = best
		}
	}
	return worst
}

func (l *lat2) snapHash(m *model2d.Mesh) string {
	var ms mset
	bad := false
	m.Iterate(func(s *model2d.Segment) {
		var v [4]uint64
		for k, p := range s {
			x, ox := snapDoubled(p.X, l.xs[0], l.delta, &bad)
			y, oy := snapDoubled(p.Y, l.ys[0], l.delta, &bad)
			if ox+oy != 1 {
				bad = true
			}
			v[2*k], v[2*k+1] = x, y
		}
		ms.add(v[:]...)
	})
	if bad {
		return "offlattice " + ms.String()
	}
	return ms.String()
}

func segList(m *model2d.Mesh) [][4]float64 {
	var res [][4]float64
	m.Iterate(func(s *model2d.Segment) {
		res = append(res, [4]float64{s[0].X, s[0].Y, s[1].X, s[1].Y})
	})
	sort.Slice(res, func(i, j int) bool {
		for k := 0; k < 4; k++ {
			if res[i][k] != res[j][k] {
				return res[i][k] < res[j][k]
			}
		}
		return false
	})
	return res
}

func boolBits(bs []bool) string { return bitStr(bs) }

// candidate2 draws a 2-D solid in quarter-fine-step units q = delta/4 (dyadic, every lattice point exact).
func candidate2(c *hlib.Ctx, delta float64, m int) (*shape2, string) {
	q := delta / 4
	big := 4 * m // coarse spacing in q units
	ri := func(lo, hi int) int {
		if hi < lo {
			hi = lo
		}
		return lo + c.Rng.Intn(hi-lo+1)
	}
	f := func(v int) float64 { return float64(v) * q }
	mkbox := func(x0, y0, w, h int) box2 { return box2{f(x0), f(y0), f(x0 + w), f(y0 + h)} }
	t := &shape2{}
	family := ""
	lo, hi := [2]int{0, 0}, [2]int{0, 0}
	grow := func(x0, y0, x1, y1 int) {
		if len(t.add) == 0 {
			lo, hi = [2]int{x0, y0}, [2]int{x1, y1}
			return
		}
		lo[0], lo[1] = minInt(lo[0], x0), minInt(lo[1], y0)
		hi[0], hi[1] = maxInt(hi[0], x1), maxInt(hi[1], y1)
	}
	maxSide := 4 * big
	if m >= 16 {
		maxSide = 3 * big
	}
	spikeDir := -1
	switch c.Rng.Intn(9) {
	case 0, 1:
		family = "rect"
		w, h := ri(big/2, maxSide), ri(big/2, maxSide)
		grow(0, 0, w, h)
		t.add = append(t.add, mkbox(0, 0, w, h))
	case 2, 3:
		family = "boxes"
		for k := ri(2, 4); k > 0; k-- {
			x0, y0, w, h := ri(0, 2*big), ri(0, 2*big), ri(big/2, maxSide/2+big), ri(big/2, maxSide/2+big)
			grow(x0, y0, x0+w, y0+h)
			t.add = append(t.add, mkbox(x0, y0, w, h))
		}
		if c.Rng.Intn(2) == 0 {
			// a notch / hole with sharp reflex corners, at least one coarse cell wide
			w, h := ri(big, 2*big), ri(big, 2*big)
			t.sub = append(t.sub, mkbox(ri(lo[0]-big/2, hi[0]-w), ri(lo[1]-big/2, hi[1]-h), w, h))
		}
	case 4, 5:
		family = "polygon"
		// a convex polygon with small integer edge normals (acute and obtuse corners) inside a box
		w, h := ri(big, maxSide), ri(big, maxSide)
		grow(0, 0, w, h)
		p := poly2{hs: [][3]float64{{-1, 0, 0}, {0, -1, 0}, {1, 0, f(w)}, {0, 1, f(h)}}}
		for k := ri(1, 3); k > 0; k-- {
			a, b := ri(-3, 3), ri(-3, 3)
			if a == 0 && b == 0 {
				a = 1
			}
			// through a random interior point
			px, py := ri(w/4, 3*w/4), ri(h/4, 3*h/4)
			off := ri(0, big)
			p.hs = append(p.hs, [3]float64{float64(a), float64(b), float64(a)*f(px) + float64(b)*f(py) + f(off)*math.Sqrt(float64(a*a+b*b))})
		}
		t.add = append(t.add, p)
	default:
		family = "spike"
		// a body the coarse lattice sees, with a thin spike (thinner than bigDelta) sticking out
		w, h := ri(3*big/2, maxSide), ri(3*big/2, maxSide)
		grow(0, 0, w, h)
		t.add = append(t.add, mkbox(0, 0, w, h))
		spikeDir = c.Rng.Intn(4)
	}
	// bounds: tight or padded; padding randomises the phase of the solid against both lattices
	pad := [4]int{}
	if c.Rng.Intn(3) != 0 {
		for i := range pad {
			pad[i] = ri(0, big+3)
		}
	}
	if spikeDir >= 0 {
		// the spike lies strictly between two coarse lattice lines (coarse points: min - Delta + k*Delta)
		L := ri(big, 10*big)
		wd := ri(4, big-2)
		if wd > big-2 {
			wd = big - 2
		}
		if wd < 2 {
			wd = 2
		}
		horizontal := spikeDir < 2
		// lateral axis index: y for a horizontal spike
		lat := 1
		if !horizontal {
			lat = 0
		}
		origin := lo[lat] - pad[lat] // = Min on that axis
		span := hi[lat] - lo[lat]
		// choose a coarse interval [origin + k*big, origin + (k+1)*big] meeting the body, put the spike inside it
		kmin := (lo[lat] - origin) / big
		kmax := (hi[lat] - origin - 1) / big
		k := ri(kmin, maxInt(kmin, kmax))
		a := origin + k*big + 1
		if a < lo[lat] {
			a = lo[lat]
		}
		if a+wd > origin+(k+1)*big-1 {
			wd = origin + (k+1)*big - 1 - a
		}
		if a+wd > lo[lat]+span {
			wd = lo[lat] + span - a
		}
		if wd >= 1 {
			var b box2
			switch spikeDir {
			case 0:
				b = box2{f(hi[0]), f(a), f(hi[0] + L), f(a + wd)}
				grow(hi[0], a, hi[0]+L, a+wd)
			case 1:
				b = box2{f(lo[0] - L), f(a), f(lo[0]), f(a + wd)}
				grow(lo[0]-L, a, lo[0], a+wd)
			case 2:
				b = box2{f(a), f(hi[1]), f(a + wd), f(hi[1] + L)}
				grow(a, hi[1], a+wd, hi[1]+L)
			default:
				b = box2{f(a), f(lo[1] - L), f(a + wd), f(lo[1])}
				grow(a, lo[1]-L, a+wd, lo[1])
			}
			t.add = append(t.add, b)
			// keep Min on the lateral axis where it was (so the spike stays between the coarse lines); the
			// padding on the spike's own axis is re-applied below
		}
		t.min = model2d.XY(f(lo[0]-pad[0]), f(lo[1]-pad[1]))
		t.max = model2d.XY(f(hi[0]+pad[2]), f(hi[1]+pad[3]))
		return t, family
	}
	t.min = model2d.XY(f(lo[0]-pad[0]), f(lo[1]-pad[1]))
	t.max = model2d.XY(f(hi[0]+pad[2]), f(hi[1]+pad[3]))
	return t, family
}

func minInt(a, b int) int {
	if a < b {
		return a
	}
	return b
}
func maxInt(a, b int) int {
	if a > b {
		return a
	}
	return b
}

var c2fRatios = []int{2, 4, 8, 8, 16, 16, 32, 32}

func runC2F2(c *hlib.Ctx) {
	n := c.N/2 + 8
	delta := 1.0 / 64
	for i := 0; i < n; i++ {
		m := c2fRatios[c.Rng.Intn(len(c2fRatios))]
		big := float64(m) * delta
		s, family := candidate2(c, delta, m)
		l := newLat2(s, delta)
		lc := newLat2(s, big)
		c.Stat("c01.c2f2.candidates", 1)
		fine, coarse := l.mixedCells(), lc.mixedCells()
		if len(fine) == 0 || len(coarse) == 0 || !l.outerEmpty() {
			c.Stat("c01.c2f2.skipped_nothing_seen", 1)
			continue
		}
		need := needReach2(m, fine, coarse)
		E := 0
		if need > m {
			E = need - m
			c.Stat("c01.c2f2.needs_extraspace", 1)
		}
		E += []int{0, 0, 0, 1, 3}[c.Rng.Intn(5)]
		if E > 0 {
			c.Stat("c01.c2f2.extraspace_nonzero", 1)
		}
		iters := []int{0, 4, 8}[c.Rng.Intn(3)]
		c.Stat("c01.c2f2.family."+family, 1)
		c.Stat(fmt.Sprintf("c01.c2f2.ratio_%d", m), 1)
		tag := fmt.Sprintf("fn=MarchingSquaresC2F family=%s delta=%v big=%d extraSpace=%d*delta iters=%d solid=%s", family, delta, m, E, iters, s.desc())
		op := fmt.Sprintf("c01 msc2f %d %d %s %d %d %d %d %s %s", len(l.xs), len(l.ys), boolBits(l.bits), m, m+E,
			len(lc.xs), len(lc.ys), boolBits(lc.bits), tag)
		var got *model2d.Mesh
		c.EmitSite(op, guarded(func() string {
			got = model2d.MarchingSquaresC2F(s, big, delta, float64(E)*delta, iters)
			return "inout=1 outward=1 " + l.snapHash(got)
		}), "corr:c01 msc2f")
		c.Stat("c01.c2f2.cases", 1)
		if got == nil {
			continue
		}
		// the real output with its exact float coordinates through the deciders
		soup2(c, "ms_c2f", func() *model2d.Mesh { return got })
		// and segment-for-segment against the direct fine outline
		c.EmitSite("c01 same msc2f-direct "+tag, guarded(func() string {
			want := segList(model2d.MarchingSquaresSearch(s, delta, iters))
			have := segList(got)
			if len(want) != len(have) {
				return fmt.Sprintf("differs:segments=%d direct=%d", len(have), len(want))
			}
			for i := range want {
				if want[i] != have[i] {
					return fmt.Sprintf("differs:segment#%d=%v direct=%v", i, have[i], want[i])
				}
			}
			return "same"
		}), "corr:c01 msc2f/direct")
	}
}

// ---------------------------------------------------------------- 3-D

type part3 interface {
	in(p model3d.Coord3D) bool
	desc() string
}

type box3 struct{ lo, hi model3d.Coord3D }

func (b box3) in(p model3d.Coord3D) bool {
	return p.X >= b.lo.X && p.X <= b.hi.X && p.Y >= b.lo.Y && p.Y <= b.hi.Y && p.Z >= b.lo.Z && p.Z <= b.hi.Z
}
func (b box3) desc() string {
	return fmt.Sprintf("box(%v,%v,%v,%v,%v,%v)", b.lo.X, b.lo.Y, b.lo.Z, b.hi.X, b.hi.Y, b.hi.Z)
}

type poly3 struct{ hs [][4]float64 }

func (p poly3) in(q model3d.Coord3D) bool {
	for _, h := range p.hs {
		if h[0]*q.X+h[1]*q.Y+h[2]*q.Z > h[3] {
			return false
		}
	}
	return true
}
func (p poly3) desc() string { return fmt.Sprintf("poly%v", p.hs) }

type shape3 struct {
	min, max model3d.Coord3D
	add, sub []part3
}

func (t *shape3) Min() model3d.Coord3D { return t.min }
func (t *shape3) Max() model3d.Coord3D { return t.max }
func (t *shape3) Contains(c model3d.Coord3D) bool {
	if c.X < t.min.X || c.Y < t.min.Y || c.Z < t.min.Z || c.X > t.max.X || c.Y > t.max.Y || c.Z > t.max.Z {
		return false
	}
	for _, p := range t.sub {
		if p.in(c) {
			return false
		}
	}
	for _, p := range t.add {
		if p.in(c) {
			return true
		}
	}
	return false
}
func (t *shape3) desc() string {
	s := fmt.Sprintf("min=%v,%v,%v max=%v,%v,%v", t.min.X, t.min.Y, t.min.Z, t.max.X, t.max.Y, t.max.Z)
	for _, p := range t.add {
		s += "+" + p.desc()
	}
	for _, p := range t.sub {
		s += "-" + p.desc()
	}
	return s
}

type lat3 struct {
	xs, ys, zs []float64
	delta      float64
	bits       []bool
}

func newLat3(s model3d.Solid, delta float64) *lat3 {
	mn, mx := s.Min(), s.Max()
	l := &lat3{xs: axisPoints(mn.X, mx.X, delta), ys: axisPoints(mn.Y, mx.Y, delta), zs: axisPoints(mn.Z, mx.Z, delta), delta: delta}
	l.bits = make([]bool, 0, len(l.xs)*len(l.ys)*len(l.zs))
	for _, z := range l.zs {
		for _, y := range l.ys {
			for _, x := range l.xs {
				l.bits = append(l.bits, s.Contains(model3d.XYZ(x, y, z)))
			}
		}
	}
	return l
}

func (l *lat3) at(i, j, k int) bool { return l.bits[i+len(l.xs)*(j+len(l.ys)*k)] }

func (l *lat3) mixedCells() [][3]int {
	var res [][3]int
	for k := 0; k+1 < len(l.zs); k++ {
		for j := 0; j+1 < len(l.ys); j++ {
			for i := 0; i+1 < len(l.xs); i++ {
				a := l.at(i, j, k)
				mixed := false
				for q := 1; q < 8 && !mixed; q++ {
					mixed = l.at(i+q&1, j+(q>>1)&1, k+(q>>2)&1) != a
				}
				if mixed {
					res = append(res, [3]int{i, j, k})
				}
			}
		}
	}
	return res
}

func (l *lat3) outerEmpty() bool {
	nx, ny, nz := len(l.xs), len(l.ys), len(l.zs)
	for k := 0; k < nz; k++ {
		for j := 0; j < ny; j++ {
			for i := 0; i < nx; i++ {
				if (i == 0 || j == 0 || k == 0 || i == nx-1 || j == ny-1 || k == nz-1) && l.at(i, j, k) {
					return false
				}
			}
		}
	}
	return true
}

func needReach3(m int, fine, coarse [][3]int) int {
	worst := 0
	for _, f := range fine {
		best := math.MaxInt32
		for _, q := range coarse {
			g := nearGap(m, f[0], q[0])
			if g >= best {
				continue
			}
			if h := nearGap(m, f[1], q[1]); h > g {
				g = h
			}
			if h := nearGap(m, f[2], q[2]); h > g {
				g = h
			}
			if g < best {
				best = g
				if best == 0 {
					break
				}
			}
		}
		if best > worst {
			worst = best
		}
	}
	return worst
}

func (l *lat3) snapHash(m *model3d.Mesh) string {
	var ms mset
	bad := false
	m.Iterate(func(t *model3d.Triangle) {
		var v [9]uint64
		for i, p := range t {
			x, ox := snapDoubled(p.X, l.xs[0], l.delta, &bad)
			y, oy := snapDoubled(p.Y, l.ys[0], l.delta, &bad)
			z, oz := snapDoubled(p.Z, l.zs[0], l.delta, &bad)
			if ox+oy+oz != 1 {
				bad = true
			}
			v[3*i], v[3*i+1], v[3*i+2] = x, y, z
		}
		ms.add(v[:]...)
	})
	if bad {
		return "offlattice " + ms.String()
	}
	return ms.String()
}

func triList(m *model3d.Mesh) [][9]float64 {
	var res [][9]float64
	m.Iterate(func(t *model3d.Triangle) {
		res = append(res, [9]float64{t[0].X, t[0].Y, t[0].Z, t[1].X, t[1].Y, t[1].Z, t[2].X, t[2].Y, t[2].Z})
	})
	sort.Slice(res, func(i, j int) bool {
		for k := 0; k < 9; k++ {
			if res[i][k] != res[j][k] {
				return res[i][k] < res[j][k]
			}
		}
		return false
	})
	return res
}

// candidate3 draws a 3-D solid in quarter-fine-step units; cells is the budget of fine cells per axis.
func candidate3(c *hlib.Ctx, delta float64, m int, cells int) (*shape3, string) {
	q := delta / 4
	big := 4 * m
	ri := func(lo, hi int) int {
		if hi < lo {
			hi = lo
		}
		return lo + c.Rng.Intn(hi-lo+1)
	}
	f := func(v int) float64 { return float64(v) * q }
	pt := func(x, y, z int) model3d.Coord3D { return model3d.XYZ(f(x), f(y), f(z)) }
	t := &shape3{}
	var lo, hi [3]int
	grow := func(a, b [3]int) {
		if len(t.add) == 0 {
			lo, hi = a, b
			return
		}
		for i := 0; i < 3; i++ {
			lo[i], hi[i] = minInt(lo[i], a[i]), maxInt(hi[i], b[i])
		}
	}
	maxSide := 4 * cells // q units
	minSide := big / 2
	if minSide > maxSide/2 {
		minSide = maxSide / 2
	}
	family := ""
	spike := false
	switch c.Rng.Intn(8) {
	case 0, 1, 2:
		family = "rect"
		b := [3]int{ri(minSide, maxSide), ri(minSide, maxSide), ri(minSide, maxSide)}
		grow([3]int{}, b)
		t.add = append(t.add, box3{pt(0, 0, 0), pt(b[0], b[1], b[2])})
	case 3, 4:
		family = "boxes"
		for k := ri(2, 3); k > 0; k-- {
			var a, b [3]int
			for i := 0; i < 3; i++ {
				a[i] = ri(0, maxSide/2)
				b[i] = a[i] + ri(minSide, maxSide/2)
			}
			grow(a, b)
			t.add = append(t.add, box3{pt(a[0], a[1], a[2]), pt(b[0], b[1], b[2])})
		}
		if c.Rng.Intn(2) == 0 {
			var a, b [3]int
			for i := 0; i < 3; i++ {
				w := ri(minInt(big, (hi[i]-lo[i])/2), maxInt(big, (hi[i]-lo[i])/2))
				a[i] = ri(lo[i]-w/2, hi[i]-w/2)
				b[i] = a[i] + w
			}
			t.sub = append(t.sub, box3{pt(a[0], a[1], a[2]), pt(b[0], b[1], b[2])})
		}
	case 5, 6:
		family = "polytope"
		b := [3]int{ri(2*minSide, maxSide), ri(2*minSide, maxSide), ri(2*minSide, maxSide)}
		grow([3]int{}, b)
		p := poly3{hs: [][4]float64{{-1, 0, 0, 0}, {0, -1, 0, 0}, {0, 0, -1, 0}, {1, 0, 0, f(b[0])}, {0, 1, 0, f(b[1])}, {0, 0, 1, f(b[2])}}}
		for k := ri(1, 3); k > 0; k-- {
			n := [3]int{ri(-2, 2), ri(-2, 2), ri(-2, 2)}
			if n == [3]int{} {
				n[c.Rng.Intn(3)] = 1
			}
			px, py, pz := ri(b[0]/4, 3*b[0]/4), ri(b[1]/4, 3*b[1]/4), ri(b[2]/4, 3*b[2]/4)
			off := f(ri(0, big)) * math.Sqrt(float64(n[0]*n[0]+n[1]*n[1]+n[2]*n[2]))
			p.hs = append(p.hs, [4]float64{float64(n[0]), float64(n[1]), float64(n[2]),
				float64(n[0])*f(px) + float64(n[1])*f(py) + float64(n[2])*f(pz) + off})
		}
		t.add = append(t.add, p)
	default:
		family = "rod"
		spike = true
		b := [3]int{ri(3*big/2, maxInt(3*big/2, maxSide/2)), ri(3*big/2, maxInt(3*big/2, maxSide/2)), ri(3*big/2, maxInt(3*big/2, maxSide/2))}
		grow([3]int{}, b)
		t.add = append(t.add, box3{pt(0, 0, 0), pt(b[0], b[1], b[2])})
	}
	var padLo, padHi [3]int
	if c.Rng.Intn(3) != 0 {
		for i := 0; i < 3; i++ {
			padLo[i], padHi[i] = ri(0, minInt(big+3, 4*8)), ri(0, minInt(big+3, 4*8))
		}
	}
	if spike {
		ax := c.Rng.Intn(3)
		up := c.Rng.Intn(2) == 0
		Lmax := 6 * big
		if m == 16 {
			Lmax = 5 * big
		} else if m >= 32 {
			Lmax = 17 * big / 4
		}
		L := ri(big, Lmax)
		var a, b [3]int
		ok := true
		for i := 0; i < 3; i++ {
			if i == ax {
				continue
			}
			origin := lo[i] - padLo[i]
			kmin := (lo[i] - origin) / big
			kmax := (hi[i] - origin - 1) / big
			k := ri(kmin, maxInt(kmin, kmax))
			a[i] = maxInt(origin+k*big+1, lo[i])
			wd := ri(4, maxInt(4, big-2))
			b[i] = minInt(minInt(a[i]+wd, origin+(k+1)*big-1), hi[i])
			if b[i] <= a[i] {
				ok = false
			}
		}
		if ok {
			if up {
				a[ax], b[ax] = hi[ax], hi[ax]+L
			} else {
				a[ax], b[ax] = lo[ax]-L, lo[ax]
			}
			t.add = append(t.add, box3{pt(a[0], a[1], a[2]), pt(b[0], b[1], b[2])})
			oldLo := lo
			grow(a, b)
			// keep Min on the lateral axes (they did not change: the rod lies within the body's extent there)
			_ = oldLo
		}
	}
	t.min = pt(lo[0]-padLo[0], lo[1]-padLo[1], lo[2]-padLo[2])
	t.max = pt(hi[0]+padHi[0], hi[1]+padHi[1], hi[2]+padHi[2])
	return t, family
}

func runC2F3(c *hlib.Ctx) {
	n := c.N/10 + 5
	delta := 1.0 / 32
	for i := 0; i < n; i++ {
		m := c2fRatios[c.Rng.Intn(len(c2fRatios))]
		big := float64(m) * delta
		// budget of fine cells per axis for the solid itself: at least ~1.5 coarse cells
		cells := 24
		if m >= 16 {
			cells = 3 * m / 2
		}
		s, family := candidate3(c, delta, m, cells)
		l := newLat3(s, delta)
		lc := newLat3(s, big)
		c.Stat("c01.c2f3.candidates", 1)
		fine, coarse := l.mixedCells(), lc.mixedCells()
		if len(fine) == 0 || len(coarse) == 0 || !l.outerEmpty() {
			c.Stat("c01.c2f3.skipped_nothing_seen", 1)
			continue
		}
		need := needReach3(m, fine, coarse)
		E := 0
		if need > m {
			E = need - m
			c.Stat("c01.c2f3.needs_extraspace", 1)
		}
		E += []int{0, 0, 0, 1, 2}[c.Rng.Intn(5)]
		if E > 0 {
			c.Stat("c01.c2f3.extraspace_nonzero", 1)
		}
		iters := []int{0, 4, 8}[c.Rng.Intn(3)]
		c.Stat("c01.c2f3.family."+family, 1)
		c.Stat(fmt.Sprintf("c01.c2f3.ratio_%d", m), 1)
		tag := fmt.Sprintf("fn=MarchingCubesC2F family=%s delta=%v big=%d extraSpace=%d*delta iters=%d solid=%s", family, delta, m, E, iters, s.desc())
		op := fmt.Sprintf("c01 mcc2f %d %d %d %s %d %d %d %d %d %s %s", len(l.xs), len(l.ys), len(l.zs), boolBits(l.bits), m, m+E,
			len(lc.xs), len(lc.ys), len(lc.zs), boolBits(lc.bits), tag)
		var got *model3d.Mesh
		c.EmitSite(op, guarded(func() string {
			got = model3d.MarchingCubesC2F(s, big, delta, float64(E)*delta, iters)
			return "balanced=1 fans=1 outward=1 " + l.snapHash(got)
		}), "corr:c01 mcc2f")
		c.Stat("c01.c2f3.cases", 1)
		if got == nil {
			continue
		}
		if got.NumTriangles() <= 40000 {
			soup3(c, "mc_c2f", func() *model3d.Mesh { return got })
		} else {
			c.Stat("c01.c2f3.soup_skipped_large", 1)
		}
		c.EmitSite("c01 same mcc2f-direct "+tag, guarded(func() string {
			want := triList(model3d.MarchingCubesSearch(s, delta, iters))
			have := triList(got)
			if len(want) != len(have) {
				return fmt.Sprintf("differs:triangles=%d direct=%d", len(have), len(want))
			}
			for i := range want {
				if want[i] != have[i] {
					return fmt.Sprintf("differs:triangle#%d=%v direct=%v", i, have[i], want[i])
				}
			}
			return "same"
		}), "corr:c01 mcc2f/direct")
	}
}

func runC2F(c *hlib.Ctx) {
	runC2F2(c)
	runC2F3(c)
}

var _ = strings.Join
