package main

import (
	"fmt"
	"math/rand"
	"runtime"
	"strings"
	"time"
	"verif/harness/hlib"

	"github.com/unixpickle/model3d/model3d"
	"github.com/unixpickle/model3d/render3d"
)

// ---------------------------------------------------------------------------
// A single lit matte surface: RayCaster and RecursiveRayTracer(MaxDepth 0) pixels against the closed
// form, pixel by pixel.  The primitive's own Cast answers (primary ray and shadow rays) are oracle
// data on the operation line; everything else (+ - * / sqrt) is recomputed by the model bit-for-bit.

type constMat struct{ amb, em, rho render3d.Color }

func (m *constMat) BSDF(normal, source, dest model3d.Coord3D) render3d.Color { return m.rho }
func (m *constMat) SampleSource(gen *rand.Rand, normal, dest model3d.Coord3D) model3d.Coord3D {
	return normal
}
func (m *constMat) SourceDensity(normal, source, dest model3d.Coord3D) float64 { return 1 }
func (m *constMat) Emission() render3d.Color                                   { return m.em }
func (m *constMat) Ambient() render3d.Color                                    { return m.amb }

func runLit(c *hlib.Ctx) {
	prev := runtime.GOMAXPROCS(0)
	defer runtime.GOMAXPROCS(prev)
	rc := func() render3d.Color { return model3d.XYZ(c.Rng.Float64(), c.Rng.Float64(), c.Rng.Float64()) }
	for it := 0; it < c.N/3+3; it++ {
		runtime.GOMAXPROCS(1 + c.Rng.Intn(16))
		mat := &constMat{amb: rc().Scale(0.2), rho: rc()}
		if c.Rng.Intn(3) == 0 {
			mat.em = rc().Scale(0.5)
		}
		var coll model3d.Collider
		switch c.Rng.Intn(3) {
		case 0:
			coll = &model3d.Sphere{Center: model3d.XYZ(c.Rng.NormFloat64()*0.3, c.Rng.NormFloat64()*0.3, 0), Radius: 0.5 + c.Rng.Float64()}
		case 1:
			coll = model3d.NewRect(model3d.XYZ(-2, -2, -1), model3d.XYZ(2, 2, -0.25))
		default:
			coll = &model3d.Triangle{model3d.XYZ(-2, -2, 0), model3d.XYZ(2, -1, 0.25), model3d.XYZ(0, 2, -0.25)}
		}
		var scene render3d.Object = &render3d.ColliderObject{Collider: coll, Material: mat}
		if c.Rng.Intn(2) == 0 {
			// real shadows: an occluder above the surface, everything inside a large enclosing sphere
			// (so shadow rays also find collisions beyond the light, scale > 1)
			occ := &render3d.ColliderObject{Collider: &model3d.Sphere{Center: model3d.XYZ(0.3, 0.1, 1.5), Radius: 0.4},
				Material: &constMat{amb: rc().Scale(0.1), rho: rc()}}
			encl := &render3d.ColliderObject{Collider: &model3d.Sphere{Radius: 30}, Material: &constMat{em: rc().Scale(0.1), rho: rc()}}
			scene = render3d.JoinedObject{scene, occ, encl}
			c.Stat("lit.scene-with-occluder", 1)
		}
		cam := render3d.NewCameraAt(model3d.XYZ(c.Rng.NormFloat64(), c.Rng.NormFloat64(), 3+c.Rng.Float64()*2), model3d.XYZ(0, 0, 0), 0.8)
		var lights []*render3d.PointLight
		for i := c.Rng.Intn(4); i > 0; i-- {
			lights = append(lights, &render3d.PointLight{
				Origin:      model3d.XYZ(c.Rng.NormFloat64()*3, c.Rng.NormFloat64()*3, c.Rng.NormFloat64()*4+1),
				Color:       rc().Scale(1 + 3*c.Rng.Float64()),
				QuadDropoff: c.Rng.Intn(2) == 0,
			})
		}
		w, h := 2+c.Rng.Intn(5), 2+c.Rng.Intn(5)
		n := 1 + c.Rng.Intn(5)
		eps := 0.0
		if c.Rng.Intn(2) == 0 {
			eps = 1e-6
		}
		img1, img2 := render3d.NewImage(w, h), render3d.NewImage(w, h)
		res := withTimeout(60*time.Second, func() string {
			(&render3d.RayCaster{Camera: cam, Lights: lights}).Render(img1, scene)
			(&render3d.RecursiveRayTracer{Camera: cam, Lights: lights, MaxDepth: 0, NumSamples: n, Epsilon: eps}).Render(img2, scene)
			return ""
		})
		useEps := eps
		if useEps == 0 {
			useEps = render3d.DefaultEpsilon
		}
		caster := cam.Caster(float64(w)-1, float64(h)-1)
		for k := 0; k < 5; k++ {
			x, y := c.Rng.Intn(w), c.Rng.Intn(h)
			ray := &model3d.Ray{Origin: cam.Origin, Direction: caster(float64(x), float64(y))}
			hit, hitMat, ok := scene.Cast(ray)
			mat := mat
			if cm, isConst := hitMat.(*constMat); ok && isConst {
				mat = cm
			}
			var sb strings.Builder
			fmt.Fprintf(&sb, "c20 litf %s %s", hex3(ray.Origin), hex3(ray.Direction))
			if ok {
				fmt.Fprintf(&sb, " 1 %s %s", hlib.Hex(hit.Scale), hex3(hit.Normal))
				c.Stat("lit.pixel-hit", 1)
			} else {
				fmt.Fprintf(&sb, " 0 %s %s", hlib.Hex(0), hex3(model3d.Coord3D{}))
			}
			fmt.Fprintf(&sb, " %s %s %s %s %d %d", hex3(mat.amb), hex3(mat.em), hex3(mat.rho), hlib.Hex(useEps), n, len(lights))
			point := ray.Origin.Add(ray.Direction.Scale(hit.Scale))
			for _, l := range lights {
				dir := l.Origin.Sub(point)
				sray := &model3d.Ray{Origin: point.Add(dir.Normalize().Scale(useEps)), Direction: dir}
				sh, _, sok := scene.Cast(sray)
				q, sf := 0, 0
				if l.QuadDropoff {
					q = 1
				}
				if sok {
					sf = 1
					if sh.Scale < 1 {
						c.Stat("lit.light-shadowed", 1)
						if ok && hit.Normal.Dot(dir) > 0 {
							c.Stat("lit.light-shadowed-on-facing-surface", 1)
						}
					} else {
						c.Stat("lit.shadow-ray-hit-beyond-light", 1)
					}
				}
				fmt.Fprintf(&sb, " %s %s %d %s %s %d %s", hex3(l.Origin), hex3(l.Color), q, hex3(sray.Origin), hex3(sray.Direction), sf, hlib.Hex(sh.Scale))
			}
			out := res
			if out == "" {
				out = hex3(img1.At(x, y)) + " " + hex3(img2.At(x, y))
			}
			c.Emit(sb.String(), out)
			c.Stat("lit.pixels", 1)
		}
	}
}
