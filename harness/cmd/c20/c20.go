// Command c20 is the correspondence harness of property C20 (render3d: a pixel is the mean of
// its samples of the right scene).  It drives the REAL code of /repo/render3d and prints, for
// every generated case, the operation line understood by lean/M3d/Drv/C20.lean and the
// implementation's canonical answer.
package main

import (
	"fmt"
	"math"
	"strings"
	"verif/harness/hlib"

	"github.com/unixpickle/model3d/model3d"
	"github.com/unixpickle/model3d/render3d"
)

func main() { hlib.Main("C20", run) }

func run(c *hlib.Ctx) {
	runEst(c)
	runVar(c)
	runMap(c)
	runCamera(c)
	runDirectional(c)
	runCast(c)
	runImages(c)
	runLit(c)
	runImageOps(c)
	runBounce(c)
	runBPT(c)
}

func hex3(v model3d.Coord3D) string {
	return hlib.Hex(v.X) + " " + hlib.Hex(v.Y) + " " + hlib.Hex(v.Z)
}

func rat3(v model3d.Coord3D) string {
	return hlib.RatStr(v.X) + " " + hlib.RatStr(v.Y) + " " + hlib.RatStr(v.Z)
}

func isPow2(n int) bool { return n > 0 && n&(n-1) == 0 }

// ---------------------------------------------------------------------------
// estimateColor through the verif hook: scripted radiance stream + convergence answers

type estCase struct {
	bpt       bool
	aa        float64
	n, minS   int
	maxStd    float64
	overs     float64
	scripted  bool   // custom Convergence function answering from `answers`
	answers   string // '0'/'1' per call, "" = always false
	samples   []model3d.Coord3D
	camSeed   int64
	px, py    float64
	w, h      int
	jitterBad bool
}

type estResult struct {
	color     model3d.Coord3D
	count     int
	ncalls    int
	lastMean  model3d.Coord3D
	lastStd   model3d.Coord3D
	drawn     int
	dirs      []model3d.Coord3D
	panicText string
}

func testCamera() *render3d.Camera {
	return render3d.NewCameraAt(model3d.XYZ(0, -3, 1), model3d.XYZ(0.25, 0, 0), 0)
}

func (e *estCase) runReal() (res estResult) {
	cam := testCamera()
	var conv func(mean, stddev render3d.Color) bool
	if e.scripted {
		conv = func(mean, stddev render3d.Color) bool {
			i := res.ncalls
			res.ncalls++
			res.lastMean, res.lastStd = mean, stddev
			return i < len(e.answers) && e.answers[i] == '1'
		}
	}
	script := func(i int, ray model3d.Ray) render3d.Color {
		res.drawn++
		res.dirs = append(res.dirs, ray.Direction)
		if ray.Origin != cam.Origin {
			res.panicText = "ray-origin-not-camera"
		}
		if i < len(e.samples) {
			return e.samples[i]
		}
		return render3d.Color{}
	}
	out := hlib.Guard(func() string {
		if e.bpt {
			b := &render3d.BidirPathTracer{Camera: cam, NumSamples: e.n, MinSamples: e.minS,
				MaxStddev: e.maxStd, OversaturatedStddevs: e.overs, Convergence: conv, Antialias: e.aa,
				MaxDepth: 3}
			res.color, res.count = render3d.VerifEstimateColorBPT(b, script, e.w, e.h, e.px, e.py, e.camSeed)
		} else {
			r := &render3d.RecursiveRayTracer{Camera: cam, NumSamples: e.n, MinSamples: e.minS,
				MaxStddev: e.maxStd, OversaturatedStddevs: e.overs, Convergence: conv, Antialias: e.aa,
				MaxDepth: 3}
			res.color, res.count = render3d.VerifEstimateColorRT(r, script, e.w, e.h, e.px, e.py, e.camSeed)
		}
		return ""
	})
	if out != "" {
		res.panicText = out
	}
	return
}

func (e *estCase) variant() string {
	if e.bpt {
		return "bpt"
	}
	return "rt"
}

func (e *estCase) answersTok() string {
	if e.answers == "" {
		return "-"
	}
	return e.answers
}

// Without a custom function the real Converged does not tell us its arguments; the statistics of the
// last call are recomputed by the model only, and the harness prints zeros for them in that mode
// (mode "n"): the line then only compares count and colour.
func (e *estCase) emitF(c *hlib.Ctx, res estResult) {
	mode := "n"
	if e.scripted {
		mode = "s"
	}
	var sb strings.Builder
	fmt.Fprintf(&sb, "c20 estf %s %s %d %d %s %s %s %s %d", e.variant(), hlib.Hex(e.aa), e.n, e.minS,
		hlib.Hex(e.maxStd), hlib.Hex(e.overs), mode, e.answersTok(), len(e.samples))
	for _, s := range e.samples {
		sb.WriteString(" " + hex3(s))
	}
	impl := res.panicText
	if impl == "" {
		if e.scripted {
			impl = fmt.Sprintf("%d %s %d %s %s", res.count, hex3(res.color), res.ncalls, hex3(res.lastMean), hex3(res.lastStd))
		} else {
			impl = fmt.Sprintf("%d %s", res.count, hex3(res.color))
		}
	}
	c.Emit(sb.String(), impl)
}

func (e *estCase) emitQ(c *hlib.Ctx, res estResult) {
	chk := "0"
	if e.scripted {
		chk = "1"
	}
	var sb strings.Builder
	fmt.Fprintf(&sb, "c20 estq %s %s %d %d %s %s %d", e.variant(), hlib.Hex(e.aa), e.n, e.minS, chk, e.answersTok(), len(e.samples))
	for _, s := range e.samples {
		sb.WriteString(" " + rat3(s))
	}
	impl := res.panicText
	if impl == "" {
		if isPow2(res.count) {
			impl = fmt.Sprintf("%d %s", res.count, rat3(res.color))
		} else {
			impl = fmt.Sprintf("%d -", res.count)
		}
	}
	c.Emit(sb.String(), impl)
}

// checkRays: the samples are samples of THIS pixel: without antialiasing every traced ray is
// caster(x, y); with antialiasing the i-th ray is caster(x+A(u-1/2), y+A(v-1/2)) for the next
// two draws (u, v) of the worker's generator (validates the jitter step of the model's `draw`).
func (e *estCase) checkRays(c *hlib.Ctx, res estResult) {
	cam := testCamera()
	caster := cam.Caster(float64(e.w)-1, float64(e.h)-1)
	gen := newRand(e.camSeed)
	for i, d := range res.dirs {
		want := caster(e.px, e.py)
		if e.aa != 0 {
			dx := e.aa * (gen.Float64() - 0.5)
			dy := e.aa * (gen.Float64() - 0.5)
			want = caster(e.px+dx, e.py+dy)
		}
		if d != want {
			c.PropFail("estimateColor/sample-ray", fmt.Sprintf("sample %d of pixel (%v,%v) antialias=%v traced direction %v, expected %v (variant %s)", i, e.px, e.py, e.aa, d, want, e.variant()))
			return
		}
	}
	if res.drawn != res.count && res.panicText == "" {
		c.PropFail("estimateColor/count-vs-drawn", fmt.Sprintf("reported numSamples=%d but RayColor was called %d times: N=%d min=%d answers=%s", res.count, res.drawn, e.n, e.minS, e.answersTok()))
	}
}

func randAnswers(c *hlib.Ctx, n int) string {
	var sb strings.Builder
	switch c.Rng.Intn(5) {
	case 0: // never converges
		return ""
	case 1: // converges at the very first question
		return "1"
	case 2: // converges at a random question
		k := c.Rng.Intn(n + 1)
		for i := 0; i < k; i++ {
			sb.WriteByte('0')
		}
		sb.WriteByte('1')
	default:
		for i := 0; i < n; i++ {
			if c.Rng.Intn(6) == 0 {
				sb.WriteByte('1')
			} else {
				sb.WriteByte('0')
			}
		}
	}
	return sb.String()
}

// fixedEst: regression cases run first (constant streams with an early stop: DESIGN.md F11).
func fixedEst(c *hlib.Ctx) {
	one := model3d.XYZ(1, 1, 1)
	for _, bpt := range []bool{false, true} {
		for _, cfg := range [][3]int{{8, 2, 0}, {8, 1, 0}, {8, 3, 1}, {4, 4, 0}, {64, 10, 5}, {2, 2, 0}, {1, 1, 0}, {3, 1, 1}} {
			e := &estCase{bpt: bpt, w: 4, h: 4, px: 1, py: 2, camSeed: 7, n: cfg[0], minS: cfg[1], scripted: true}
			e.answers = strings.Repeat("0", cfg[2]) + "1"
			for i := 0; i < e.n; i++ {
				e.samples = append(e.samples, one)
			}
			res := e.runReal()
			e.emitQ(c, res)
			e.checkRays(c, res)
			e.stat(c, res)
			// the same with the built-in threshold test (zero variance converges at the first test)
			e2 := *e
			e2.scripted, e2.answers, e2.maxStd = false, "", 0.5
			res2 := e2.runReal()
			e2.emitF(c, res2)
			e2.checkRays(c, res2)
			e2.stat(c, res2)
		}
	}
}

func runEst(c *hlib.Ctx) {
	fixedEst(c)
	total := c.N * 4
	for it := 0; it < total; it++ {
		e := &estCase{bpt: c.Rng.Intn(2) == 0, w: 1 + c.Rng.Intn(9), h: 1 + c.Rng.Intn(9), camSeed: c.Rng.Int63()}
		e.w, e.h = e.w+1, e.h+1
		e.px, e.py = float64(c.Rng.Intn(e.w)), float64(c.Rng.Intn(e.h))
		if c.Rng.Intn(2) == 0 {
			e.aa = []float64{0.5, 1, 0.25, 2}[c.Rng.Intn(4)]
		}
		// sample counts 1..64 (small ones more often), min samples 0..10
		if c.Rng.Intn(3) == 0 {
			e.n = 1 + c.Rng.Intn(64)
		} else {
			e.n = 1 + c.Rng.Intn(12)
		}
		e.minS = c.Rng.Intn(11)
		exact := it%2 == 0
		constant := c.Rng.Intn(5) == 0
		base := model3d.XYZ(c.Dyadic(2, 4), c.Dyadic(2, 4), c.Dyadic(2, 4)).Max(model3d.Coord3D{})
		for i := 0; i < e.n; i++ {
			switch {
			case constant:
				e.samples = append(e.samples, base)
			case exact:
				// dyadic k/64 in [0,4]: sums of 64 of them and their mean over a power of two are exact
				e.samples = append(e.samples, model3d.XYZ(c.Dyadic(2, 6)+2, c.Dyadic(2, 6)+2, c.Dyadic(2, 6)+2))
			default:
				e.samples = append(e.samples, model3d.XYZ(c.Rng.Float64()*2, c.Rng.ExpFloat64(), c.Rng.Float64()*c.Rng.Float64()*4))
			}
		}
		if exact {
			// exact mode: scripted convergence (or none)
			e.scripted = c.Rng.Intn(5) != 0
			if e.scripted {
				e.answers = randAnswers(c, e.n)
			}
			res := e.runReal()
			e.emitQ(c, res)
			e.checkRays(c, res)
			e.stat(c, res)
			continue
		}
		switch c.Rng.Intn(3) {
		case 0: // custom function
			e.scripted = true
			e.answers = randAnswers(c, e.n)
			if c.Rng.Intn(2) == 0 {
				e.maxStd = 0.25 // must be ignored when Convergence != nil
			}
		case 1: // variance threshold
			e.maxStd = []float64{0.05, 0.25, 0.5, 1, 4}[c.Rng.Intn(5)]
			if c.Rng.Intn(3) == 0 {
				e.overs = []float64{0.5, 1, 3}[c.Rng.Intn(3)]
			}
		default: // no early stopping configured (MaxStddev == 0, Convergence == nil)
			if c.Rng.Intn(2) == 0 {
				e.overs = 1
			}
		}
		res := e.runReal()
		e.emitF(c, res)
		e.checkRays(c, res)
		e.stat(c, res)
	}
}

func (e *estCase) stat(c *hlib.Ctx, res estResult) {
	c.Stat("est.cases", 1)
	if res.count < e.n {
		c.Stat("est.stopped-early", 1)
	}
	if e.aa != 0 {
		c.Stat("est.antialias", 1)
	}
	if e.bpt {
		c.Stat("est.bpt", 1)
	}
	if e.minS == 0 {
		c.Stat("est.min0", 1)
	}
	if e.scripted {
		c.Stat("est.custom-convergence", 1)
	} else if e.maxStd != 0 {
		c.Stat("est.threshold", 1)
	}
	if res.ncalls > 0 {
		c.Stat("est.convergence-calls", res.ncalls)
	}
	_ = math.Pi
}
