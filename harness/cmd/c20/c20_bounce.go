package main

import (
	"fmt"
	"math/rand"
	"strings"
	"verif/harness/hlib"

	"github.com/unixpickle/model3d/model3d"
	"github.com/unixpickle/model3d/render3d"
)

// ---------------------------------------------------------------------------
// scripted randomness (same technique as harness/cmd/c19): a rand.Source replaying raw values

type script struct {
	vals []int64
	pos  int
	over int
}

func (s *script) Int63() int64 {
	if s.pos < len(s.vals) {
		v := s.vals[s.pos]
		s.pos++
		return v
	}
	s.over++
	return 0
}
func (s *script) Seed(int64) {}

// rawU is the raw value for which gen.Float64() returns u (u = k/2^53).
func rawU(u float64) int64 {
	v := int64(u * (1 << 63))
	if got := rand.New(&script{vals: []int64{v}}).Float64(); got != u {
		panic(fmt.Sprintf("harness: math/rand.Float64 no longer maps raw %d to %v (got %v)", v, u, got))
	}
	return v
}

// ---------------------------------------------------------------------------
// scripted materials / focus points and a recording scene

type scriptMat struct {
	id            int
	amb, em, rho  render3d.Color
	base          model3d.Coord3D
	a             float64
	q             float64
	destQ         float64
	asDest        bool
	calls, dcalls int
}

func (m *scriptMat) BSDF(normal, source, dest model3d.Coord3D) render3d.Color { return m.rho }
func (m *scriptMat) SampleSource(gen *rand.Rand, normal, dest model3d.Coord3D) model3d.Coord3D {
	m.calls++
	return m.base.Add(normal.Scale(m.a)).Normalize()
}
func (m *scriptMat) SourceDensity(normal, source, dest model3d.Coord3D) float64 { return m.q }
func (m *scriptMat) Emission() render3d.Color                                   { return m.em }
func (m *scriptMat) Ambient() render3d.Color                                    { return m.amb }

func (m *scriptMat) toks() string {
	return fmt.Sprintf("%s %s %s %s %s %s", hex3(m.amb), hex3(m.em), hex3(m.rho), hex3(m.base), hlib.Hex(m.a), hlib.Hex(m.q))
}

type scriptFocus struct {
	base, target model3d.Coord3D
	a, b, q      float64
}

func (f *scriptFocus) SampleFocus(gen *rand.Rand, mat render3d.Material, point, normal, dest model3d.Coord3D) model3d.Coord3D {
	return f.base.Add(normal.Scale(f.a)).Add(point.Sub(f.target).Scale(f.b)).Normalize()
}
func (f *scriptFocus) FocusDensity(mat render3d.Material, point, normal, source, dest model3d.Coord3D) float64 {
	return f.q
}

type castRec struct {
	ray   model3d.Ray
	ok    bool
	scale float64
	n     model3d.Coord3D
	mat   int
}

type recScene struct {
	render3d.Object
	recs []castRec
}

func (r *recScene) Cast(ray *model3d.Ray) (model3d.RayCollision, render3d.Material, bool) {
	rc, mat, ok := r.Object.Cast(ray)
	id := -1
	if sm, isS := mat.(interface{ matID() int }); ok && isS {
		id = sm.matID()
	}
	r.recs = append(r.recs, castRec{*ray, ok, rc.Scale, rc.Normal, id})
	return rc, mat, ok
}

func (r *recScene) toks() string {
	var sb strings.Builder
	fmt.Fprintf(&sb, "%d", len(r.recs))
	for _, e := range r.recs {
		f := 0
		if e.ok {
			f = 1
		}
		fmt.Fprintf(&sb, " %s %s %d %s %s %d", hex3(e.ray.Origin), hex3(e.ray.Direction), f, hlib.Hex(e.scale), hex3(e.n), e.mat)
	}
	return sb.String()
}

func unit53(c *hlib.Ctx) float64 {
	switch c.Rng.Intn(10) {
	case 0:
		return 0
	case 1:
		return float64(c.Rng.Intn(16)) / 16
	}
	return float64(c.Rng.Int63n(1<<53)) / (1 << 53)
}

func runBounce(c *hlib.Ctx) {
	rcol := func(s float64) render3d.Color {
		return model3d.XYZ(c.Rng.Float64(), c.Rng.Float64(), c.Rng.Float64()).Scale(s)
	}
	for it := 0; it < c.N; it++ {
		lightPos := model3d.XYZ(c.Rng.NormFloat64()*0.5, c.Rng.NormFloat64()*0.5, 2+c.Rng.Float64())
		floor := &scriptMat{id: 0, amb: rcol(0.2), rho: rcol(1), base: model3d.XYZ(c.Rng.NormFloat64()*0.3, c.Rng.NormFloat64()*0.3, 0), a: -1, q: 0.5 + c.Rng.Float64()*3}
		light := &scriptMat{id: 1, em: rcol(4), base: model3d.XYZ(0.1, 0.2, 0.3), a: -1, q: 1 + c.Rng.Float64()}
		if c.Rng.Intn(3) == 0 {
			light.rho = rcol(0.5) // a light that also reflects: the recursion continues with weight
		}
		if c.Rng.Intn(4) == 0 {
			floor.em = rcol(0.3)
		}
		wall := &scriptMat{id: 2, amb: rcol(0.1), em: rcol(0.2), rho: rcol(0.7), base: model3d.XYZ(0.3, -0.2, 0.1), a: -1, q: 2}
		objs := render3d.JoinedObject{
			&render3d.ColliderObject{Collider: model3d.NewRect(model3d.XYZ(-3, -3, -1), model3d.XYZ(3, 3, 0)), Material: floor},
			&render3d.ColliderObject{Collider: &model3d.Sphere{Center: lightPos, Radius: 0.3 + c.Rng.Float64()*0.5}, Material: light},
		}
		if c.Rng.Intn(2) == 0 {
			objs = append(objs, &render3d.ColliderObject{Collider: &model3d.Sphere{Radius: 12}, Material: wall})
		}
		scene := &recScene{Object: objs}
		var focus []render3d.FocusPoint
		var probs []float64
		var ftoks []string
		nf := c.Rng.Intn(3)
		for i := 0; i < nf; i++ {
			f := &scriptFocus{base: model3d.XYZ(c.Rng.NormFloat64()*0.05, c.Rng.NormFloat64()*0.05, 0), target: lightPos, a: 0, b: 1, q: 0.5 + c.Rng.Float64()*8}
			if c.Rng.Intn(4) == 0 {
				f.a, f.b = -1, 0.1
			}
			p := []float64{0.25, 0.5, 0.3, 0.125, 0}[c.Rng.Intn(5)]
			focus = append(focus, f)
			probs = append(probs, p)
			ftoks = append(ftoks, fmt.Sprintf("%s %s %s %s %s %s %s", hlib.Hex(p), hex3(f.base), hlib.Hex(f.a), hlib.Hex(f.b), hex3(f.target), hlib.Hex(f.q), "f"))
		}
		maxDepth := c.Rng.Intn(4)
		cutoff := []float64{0, 1e-4, 0.05, 0.5}[c.Rng.Intn(4)]
		eps := []float64{0, 1e-6}[c.Rng.Intn(2)]
		var us []float64
		var raws []int64
		for i := 0; i < 6; i++ {
			u := unit53(c)
			us = append(us, u)
			raws = append(raws, rawU(u))
		}
		src := &script{vals: raws}
		gen := rand.New(src)
		cam := model3d.XYZ(c.Rng.NormFloat64(), c.Rng.NormFloat64(), 4+c.Rng.Float64())
		target := model3d.XYZ(c.Rng.NormFloat64()*1.5, c.Rng.NormFloat64()*1.5, 0)
		if c.Rng.Intn(5) == 0 {
			target = lightPos
		}
		ray := &model3d.Ray{Origin: cam, Direction: target.Sub(cam)}
		rt := &render3d.RecursiveRayTracer{MaxDepth: maxDepth, Cutoff: cutoff, Epsilon: eps, FocusPoints: focus, FocusPointProbs: probs}
		var val render3d.Color
		res := hlib.Guard(func() string {
			val = render3d.VerifRecurse(rt, gen, scene, ray)
			return ""
		})
		if res == "" {
			res = hex3(val)
		}
		useEps := eps
		if useEps == 0 {
			useEps = render3d.DefaultEpsilon
		}
		var sb strings.Builder
		fmt.Fprintf(&sb, "c20 bouncef %d %s %s %s %s 3 %s %s %s %d", maxDepth, hlib.Hex(cutoff), hlib.Hex(useEps), hex3(ray.Origin), hex3(ray.Direction),
			floor.toks(), light.toks(), wall.toks(), nf)
		for _, t := range ftoks {
			sb.WriteString(" " + t)
		}
		fmt.Fprintf(&sb, " %d", len(us))
		for _, u := range us {
			sb.WriteString(" " + hlib.Hex(u))
		}
		sb.WriteString(" " + scene.toks())
		c.Emit(sb.String(), res)
		c.Stat("bounce.cases", 1)
		c.Stat(fmt.Sprintf("bounce.casts-%d", len(scene.recs)), 1)
		if src.over > 0 {
			c.PropFail("harness:c20/bounce-draws", "recurse consumed more uniform draws than scripted")
		}
		if src.pos > 0 {
			c.Stat("bounce.focus-draws", src.pos)
		}
	}
}
