package main

import (
	"fmt"
	"math"
	"math/rand"
	"runtime"
	"sort"
	"strings"
	"sync"
	"time"
	"verif/harness/hlib"

	"github.com/unixpickle/model3d/model3d"
	"github.com/unixpickle/model3d/render3d"
)

func newRand(seed int64) *rand.Rand { return rand.New(rand.NewSource(seed)) }

// withTimeout runs f in a goroutine; "timeout" if it does not finish.
func withTimeout(d time.Duration, f func() string) string {
	ch := make(chan string, 1)
	go func() { ch <- hlib.Guard(f) }()
	select {
	case s := <-ch:
		return s
	case <-time.After(d):
		return "timeout"
	}
}

// ---------------------------------------------------------------------------
// estimateVariance / RayVariance

func runVar(c *hlib.Ctx) {
	cam := testCamera()
	for it := 0; it < c.N; it++ {
		bpt := c.Rng.Intn(2) == 0
		aa := 0.0
		if c.Rng.Intn(2) == 0 {
			aa = 0.5
		}
		exact := it%3 == 0
		n := 2 + c.Rng.Intn(20)
		if exact {
			n = 2 // 1/2 and 2/1 are exact; for larger n the Float kind compares bit-for-bit
		}
		var samples []model3d.Coord3D
		for i := 0; i < n; i++ {
			if exact {
				samples = append(samples, model3d.XYZ(c.Dyadic(2, 5)+2, c.Dyadic(2, 5)+2, c.Dyadic(2, 5)+2))
			} else if c.Rng.Intn(8) == 0 && i > 0 {
				samples = append(samples, samples[0])
			} else {
				samples = append(samples, model3d.XYZ(c.Rng.Float64()*2, c.Rng.ExpFloat64(), c.Rng.Float64()))
			}
		}
		drawn := 0
		script := func(i int, ray model3d.Ray) render3d.Color {
			drawn++
			if i < len(samples) {
				return samples[i]
			}
			return render3d.Color{}
		}
		var v render3d.Color
		res := hlib.Guard(func() string {
			if bpt {
				b := &render3d.BidirPathTracer{Camera: cam, NumSamples: 7, Antialias: aa, MaxDepth: 2}
				v = render3d.VerifEstimateVarianceBPT(b, script, 5, 4, 2, 1, 3, n)
			} else {
				r := &render3d.RecursiveRayTracer{Camera: cam, NumSamples: 7, Antialias: aa, MaxDepth: 2}
				v = render3d.VerifEstimateVarianceRT(r, script, 5, 4, 2, 1, 3, n)
			}
			return ""
		})
		variant := "rt"
		if bpt {
			variant = "bpt"
		}
		var sb strings.Builder
		if exact {
			fmt.Fprintf(&sb, "c20 varq %s %s %d", variant, hlib.Hex(aa), n)
			for _, s := range samples {
				sb.WriteString(" " + rat3(s))
			}
			if res == "" {
				res = rat3(v)
			}
		} else {
			fmt.Fprintf(&sb, "c20 varf %s %s %d", variant, hlib.Hex(aa), n)
			for _, s := range samples {
				sb.WriteString(" " + hex3(s))
			}
			if res == "" {
				res = hex3(v)
			}
		}
		c.Emit(sb.String(), res)
		if drawn != n {
			c.PropFail("estimateVariance/drawn", fmt.Sprintf("asked for %d samples, RayColor called %d times", n, drawn))
		}
		c.Stat("var.cases", 1)
	}
	// RayVariance: all pixels, all workers; per-pixel scripted streams identified by the ray direction.
	for it := 0; it < c.N/6+1; it++ {
		w, h := 1+c.Rng.Intn(4), 1+c.Rng.Intn(4)
		n := 2 + c.Rng.Intn(5)
		caster := cam.Caster(float64(w)-1, float64(h)-1)
		pix := map[model3d.Coord3D]int{}
		ok := true
		for y := 0; y < h; y++ {
			for x := 0; x < w; x++ {
				d := caster(float64(x), float64(y))
				if _, dup := pix[d]; dup || math.IsNaN(d.X) {
					ok = false
				}
				pix[d] = x + y*w
			}
		}
		if !ok { // 1-pixel-wide images have NaN/identical directions (0/0 in Caster)
			c.Stat("rvar.skipped-degenerate-size", 1)
			continue
		}
		streams := make([][]model3d.Coord3D, w*h)
		for i := range streams {
			for j := 0; j < n; j++ {
				streams[i] = append(streams[i], model3d.XYZ(c.Rng.Float64(), c.Rng.Float64()*3, c.Rng.ExpFloat64()))
			}
		}
		var mu sync.Mutex
		counts := make([]int, w*h)
		bad := ""
		f := func(ray model3d.Ray) render3d.Color {
			mu.Lock()
			defer mu.Unlock()
			i, found := pix[ray.Direction]
			if !found {
				bad = "ray direction is no pixel's caster(x,y) (antialias must be off in RayVariance)"
				return render3d.Color{}
			}
			k := counts[i]
			counts[i]++
			if k >= n {
				bad = "more samples than requested for a pixel"
				return render3d.Color{}
			}
			return streams[i][k]
		}
		var val float64
		res := withTimeout(20*time.Second, func() string {
			r := &render3d.RecursiveRayTracer{Camera: cam, NumSamples: 3, Antialias: 1, MaxDepth: 1}
			val = render3d.VerifRayVarianceRT(r, f, w, h, n)
			return ""
		})
		var sb strings.Builder
		fmt.Fprintf(&sb, "c20 rvarf %d %d %d", w, h, n)
		for _, st := range streams {
			for _, s := range st {
				sb.WriteString(" " + hex3(s))
			}
		}
		if res == "" {
			res = hlib.Hex(val)
		}
		c.Emit(sb.String(), res)
		if bad != "" {
			c.PropFail("RayVariance/samples", bad)
		}
		c.Stat("rvar.cases", 1)
	}
}

// ---------------------------------------------------------------------------
// mapCoordinates: every (x, y, idx) exactly once for any GOMAXPROCS

func runMap(c *hlib.Ctx) {
	prev := runtime.GOMAXPROCS(0)
	defer runtime.GOMAXPROCS(prev)
	for it := 0; it < c.N/2+1; it++ {
		w, h := c.Rng.Intn(13), c.Rng.Intn(13)
		if it < 4 {
			w, h = []int{0, 1, 0, 1}[it], []int{0, 0, 1, 1}[it]
		}
		procs := 1 + c.Rng.Intn(16)
		runtime.GOMAXPROCS(procs)
		var mu sync.Mutex
		type ent struct{ x, y, idx, worker int }
		var got []ent
		workers := map[*int]int{}
		res := withTimeout(20*time.Second, func() string {
			render3d.VerifMapCoordinates(w, h, func(wk *int, x, y, idx int) {
				if c := idx % 7; c == 3 {
					runtime.Gosched()
				}
				mu.Lock()
				id, ok := workers[wk]
				if !ok {
					id = len(workers)
					workers[wk] = id
				}
				got = append(got, ent{x, y, idx, id})
				mu.Unlock()
			})
			return ""
		})
		if res == "" {
			sort.Slice(got, func(i, j int) bool {
				if got[i].idx != got[j].idx {
					return got[i].idx < got[j].idx
				}
				if got[i].y != got[j].y {
					return got[i].y < got[j].y
				}
				return got[i].x < got[j].x
			})
			var sb strings.Builder
			for i, e := range got {
				if i > 0 {
					sb.WriteByte(';')
				}
				fmt.Fprintf(&sb, "%d,%d,%d", e.x, e.y, e.idx)
			}
			res = sb.String()
			if res == "" {
				res = "-"
			}
		}
		c.Emit(fmt.Sprintf("c20 map %d %d %d", w, h, procs), res)
		c.Stat("map.cases", 1)
		if len(workers) > 1 {
			c.Stat("map.more-than-one-worker-received", 1)
		}
	}
}

// ---------------------------------------------------------------------------
// Camera: axes, Caster, Uncaster

func randUnit(c *hlib.Ctx) model3d.Coord3D {
	return model3d.XYZ(c.Rng.NormFloat64(), c.Rng.NormFloat64(), c.Rng.NormFloat64()).Normalize()
}

func runCamera(c *hlib.Ctx) {
	axesList := []model3d.Coord3D{model3d.X(1), model3d.Y(1), model3d.Z(1), model3d.X(-1), model3d.Y(-1), model3d.Z(-1)}
	for it := 0; it < c.N*2; it++ {
		var cam *render3d.Camera
		fov := []float64{math.Pi / 2, math.Pi / 3.6, 0.3, 2.5, -1.0, math.Pi / 3}[c.Rng.Intn(6)]
		exact := it%4 == 0
		switch {
		case exact:
			// axis-aligned (optionally power-of-two scaled) screen axes: Caster is exact in float64
			i := c.Rng.Intn(6)
			j := (i + 1 + c.Rng.Intn(2)) % 6
			if j%3 == i%3 {
				j = (j + 1) % 6
			}
			sx, sy := axesList[i], axesList[j]
			if c.Rng.Intn(3) == 0 {
				sx = sx.Scale(2)
			}
			if c.Rng.Intn(3) == 0 {
				sy = sy.Scale(0.5)
			}
			cam = &render3d.Camera{Origin: model3d.XYZ(c.Dyadic(4, 3), c.Dyadic(4, 3), c.Dyadic(4, 3)), ScreenX: sx, ScreenY: sy, FieldOfView: fov}
		case it%4 == 1:
			cam = render3d.NewCameraAt(model3d.XYZ(c.Rng.NormFloat64()*3, c.Rng.NormFloat64()*3, c.Rng.NormFloat64()*3),
				model3d.XYZ(c.Rng.NormFloat64(), c.Rng.NormFloat64(), c.Rng.NormFloat64()), fov)
			if c.Rng.Intn(4) == 0 { // looking straight along z: the fallback x axis of NewCameraAt
				cam = render3d.NewCameraAt(model3d.XYZ(1, 2, 5), model3d.XYZ(1, 2, -1), fov)
			}
		case it%4 == 2:
			x, _ := randUnit(c).OrthoBasis()
			y := randUnit(c).ProjectOut(x).Normalize()
			cam = &render3d.Camera{Origin: model3d.XYZ(c.Rng.NormFloat64(), c.Rng.NormFloat64(), c.Rng.NormFloat64()), ScreenX: x, ScreenY: y, FieldOfView: fov}
		default: // not orthogonal, not unit: the algebra does not need it
			cam = &render3d.Camera{Origin: model3d.XYZ(c.Rng.NormFloat64(), c.Rng.NormFloat64(), c.Rng.NormFloat64()),
				ScreenX: randUnit(c).Scale(0.5 + c.Rng.Float64()), ScreenY: randUnit(c).Scale(0.5 + c.Rng.Float64()), FieldOfView: fov}
		}
		var w, h float64
		if exact {
			w, h = float64(int(1)<<uint(c.Rng.Intn(6))), float64(int(1)<<uint(c.Rng.Intn(6)))
		} else {
			w, h = float64(1+c.Rng.Intn(300)), float64(1+c.Rng.Intn(300))
			if c.Rng.Intn(5) == 0 {
				h = w
			}
		}
		pd := 1 / math.Tan(cam.FieldOfView/2)
		var ix, iy float64
		if exact {
			ix, iy = c.Dyadic(40, 2), c.Dyadic(40, 2)
		} else {
			ix, iy = c.Rng.Float64()*w*1.2-0.1*w, c.Rng.Float64()*h*1.2-0.1*h
		}
		caster := cam.Caster(w, h)
		dir := caster(ix, iy)
		if exact {
			c.Emit(fmt.Sprintf("c20 castq %s %s %s %s %s %s %s %s", rat3(cam.Origin), rat3(cam.ScreenX), rat3(cam.ScreenY),
				hlib.RatStr(pd), hlib.RatStr(w), hlib.RatStr(h), hlib.RatStr(ix), hlib.RatStr(iy)), rat3(dir))
			c.Stat("cam.exact-caster", 1)
			continue
		}
		ax, ay, az := render3d.VerifCameraAxes(cam, w, h)
		// a point somewhere in front of (sometimes behind) the camera
		t := c.Rng.ExpFloat64()*3 + 0.01
		if c.Rng.Intn(6) == 0 {
			t = -t
		}
		p := cam.Origin.Add(caster(c.Rng.Float64()*w, c.Rng.Float64()*h).Scale(t))
		if c.Rng.Intn(3) == 0 {
			p = model3d.XYZ(c.Rng.NormFloat64()*4, c.Rng.NormFloat64()*4, c.Rng.NormFloat64()*4)
		}
		ux, uy := cam.Uncaster(w, h)(p)
		c.Emit(fmt.Sprintf("c20 camf %s %s %s %s %s %s %s %s %s", hex3(cam.Origin), hex3(cam.ScreenX), hex3(cam.ScreenY),
			hlib.Hex(pd), hlib.Hex(w), hlib.Hex(h), hlib.Hex(ix), hlib.Hex(iy), hex3(p)),
			fmt.Sprintf("%s %s %s %s %s %s", hex3(ax), hex3(ay), hex3(az), hex3(dir), hlib.Hex(ux), hlib.Hex(uy)))
		c.Stat("cam.float", 1)
		if w > h {
			c.Stat("cam.wide", 1)
		} else if w < h {
			c.Stat("cam.tall", 1)
		}
	}
}

// ---------------------------------------------------------------------------
// DirectionalCamera: the returned (auto-framing) camera must contain the object's bounding box,
// judged with the returned camera's own Uncaster(1, 1) and the 5% margin the search uses.

func bboxContained(cam *render3d.Camera, obj render3d.Object) (bool, string) {
	un := cam.Uncaster(1, 1)
	min, max := obj.Min(), obj.Max()
	const margin = 0.05
	for _, x := range []float64{min.X, max.X} {
		for _, y := range []float64{min.Y, max.Y} {
			for _, z := range []float64{min.Z, max.Z} {
				sx, sy := un(model3d.XYZ(x, y, z))
				if sx < margin || sy < margin || sx >= 1-margin || sy >= 1-margin || math.IsNaN(sx) || math.IsNaN(sy) {
					return false, fmt.Sprintf("corner(%v,%v,%v)->(%.4g,%.4g)", x, y, z, sx, sy)
				}
			}
		}
	}
	return true, ""
}

func runDirectional(c *hlib.Ctx) {
	for it := 0; it < c.N/2+6; it++ {
		p := randPrim(c)
		var obj render3d.Object = p.object(0)
		if c.Rng.Intn(3) == 0 {
			obj = render3d.Translate(obj, model3d.XYZ(c.Dyadic(4, 2), c.Dyadic(4, 2), c.Dyadic(4, 2)))
		}
		if c.Rng.Intn(4) == 0 {
			obj = render3d.JoinedObject{obj, randPrim(c).object(1)}
		}
		fov := []float64{0, math.Pi / 3.6, 0.3, 0.6, 1.2, 2.0, math.Pi / 2}[it%7]
		dir := randUnit(c)
		if c.Rng.Intn(6) == 0 { // along z: the fallback x axis of NewCameraAt
			dir = model3d.Z(float64(1 - 2*c.Rng.Intn(2)))
		}
		min, max := obj.Min(), obj.Max()
		// step by step: the model runs NewCameraAt + Uncaster + the 32 bisection steps in the same
		// floating-point operations; the returned camera must agree bit-for-bit.
		eff := fov
		if eff == 0 {
			eff = render3d.DefaultFieldOfView
		}
		full := withTimeout(20*time.Second, func() string {
			cam := render3d.DirectionalCamera(obj, dir, fov)
			return hex3(cam.Origin) + " " + hex3(cam.ScreenX) + " " + hex3(cam.ScreenY)
		})
		c.Emit(fmt.Sprintf("c20 dircamf %s %s %s %s %s %s %s %s", hlib.Hex(1/math.Tan(eff/2)), hlib.Hex(1e-5), hlib.Hex(0.05),
			hlib.Hex(1e-4), hlib.Hex(1e4), hex3(min), hex3(max), hex3(dir)), full)
		// hypothesis of directional_camera_contains: the farthest candidate contains the box
		center := min.Mid(max)
		far := render3d.NewCameraAt(center.Add(dir.Scale(min.Dist(max)*1e4)), center, fov)
		if ok, _ := bboxContained(far, obj); !ok {
			c.Stat("dircam.skipped-far-candidate-not-containing", 1)
			continue
		}
		res := withTimeout(20*time.Second, func() string {
			cam := render3d.DirectionalCamera(obj, dir, fov)
			want := fov
			if want == 0 {
				want = render3d.DefaultFieldOfView
			}
			if cam.FieldOfView != want {
				return "wrong-fov:" + hlib.Hex(cam.FieldOfView)
			}
			if ok, why := bboxContained(cam, obj); !ok {
				return "outside:" + why
			}
			return "contained"
		})
		c.Emit(fmt.Sprintf("c20 dircam %s %s %s %s", hlib.Hex(fov), hex3(dir), hex3(min), hex3(max)), res)
		c.Stat("dircam.cases", 1)
	}
}
