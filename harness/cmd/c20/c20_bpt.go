package main

import (
	"fmt"
	"math"
	"math/rand"
	"strings"
	"verif/harness/hlib"

	"github.com/unixpickle/model3d/model3d"
	"github.com/unixpickle/model3d/render3d"
)

// ---------------------------------------------------------------------------
// Bidirectional path tracer bookkeeping: bptPathEnder, bptLightPath.Densities, and rayColor's
// combination/weighting stage on a two-surface scene with reproducible randomness.

type bptMat struct {
	id           int
	amb, em, rho render3d.Color
	srcBase      model3d.Coord3D
	dstBase      model3d.Coord3D
	q, destQ     float64
}

func (m *bptMat) matID() int                                                 { return m.id }
func (m *bptMat) BSDF(normal, source, dest model3d.Coord3D) render3d.Color   { return m.rho }
func (m *bptMat) SourceDensity(normal, source, dest model3d.Coord3D) float64 { return m.q }
func (m *bptMat) DestDensity(normal, source, dest model3d.Coord3D) float64   { return m.destQ }
func (m *bptMat) Emission() render3d.Color                                   { return m.em }
func (m *bptMat) Ambient() render3d.Color                                    { return m.amb }
func (m *bptMat) SampleSource(gen *rand.Rand, normal, dest model3d.Coord3D) model3d.Coord3D {
	return m.srcBase.Add(normal.Scale(-0.5)).Add(model3d.XYZ(gen.Float64()-0.5, gen.Float64()-0.5, 0).Scale(0.3)).Normalize()
}
func (m *bptMat) SampleDest(gen *rand.Rand, normal, source model3d.Coord3D) model3d.Coord3D {
	return m.dstBase.Add(normal.Scale(0.5)).Add(model3d.XYZ(gen.Float64()-0.5, gen.Float64()-0.5, 0).Scale(0.3)).Normalize()
}

func (m *scriptMat) matID() int { return m.id }

type bptLight struct {
	render3d.Object
	point, normal model3d.Coord3D
	emission      render3d.Color
	total         float64
}

func (l *bptLight) SampleLight(gen *rand.Rand) (model3d.Coord3D, model3d.Coord3D, render3d.Color) {
	off := model3d.XYZ(gen.Float64()-0.5, gen.Float64()-0.5, 0).Scale(0.5)
	return l.point.Add(off), l.normal, l.emission
}
func (l *bptLight) TotalEmission() float64 { return l.total }

func vertToks(v render3d.VerifVertex) string {
	id := -1
	if m, ok := v.Material.(interface{ matID() int }); ok && v.Material != nil {
		id = m.matID()
	}
	return fmt.Sprintf("%s %s %s %s %s %s %d %s %s %s", hex3(v.Point), hex3(v.Normal), hex3(v.Source), hex3(v.Dest),
		hex3(v.BSDF), hex3(v.Emission), id, hlib.Hex(v.SourceDensity), hlib.Hex(v.DestDensity), hlib.Hex(v.RouletteScale))
}

func runBPT(c *hlib.Ctx) {
	rcol := func(s float64) render3d.Color {
		return model3d.XYZ(c.Rng.Float64(), c.Rng.Float64(), c.Rng.Float64()).Scale(s)
	}
	// (a) bptPathEnder with scripted coins
	for it := 0; it < c.N; it++ {
		minLen := c.Rng.Intn(4)
		cutoff := []float64{0, 1e-3, 0.1, 0.5, 2}[c.Rng.Intn(5)]
		n := 1 + c.Rng.Intn(6)
		var masks []render3d.Color
		var us []float64
		var raws []int64
		for i := 0; i < n; i++ {
			masks = append(masks, rcol([]float64{0.3, 1, 1.5}[c.Rng.Intn(3)]))
		}
		for i := 0; i < 2*n; i++ {
			u := unit53(c)
			us = append(us, u)
			raws = append(raws, rawU(u))
		}
		src := &script{vals: raws}
		scales, ended, final := render3d.VerifPathEnder(minLen, cutoff, rand.New(src), masks)
		var sb strings.Builder
		fmt.Fprintf(&sb, "c20 pendf %d %s %d", minLen, hlib.Hex(cutoff), n)
		for _, m := range masks {
			sb.WriteString(" " + hex3(m))
		}
		fmt.Fprintf(&sb, " %d", len(us))
		for _, u := range us {
			sb.WriteString(" " + hlib.Hex(u))
		}
		out := fmt.Sprintf("%d %s %d", ended, hlib.Hex(final), src.pos)
		for _, s := range scales {
			out += " " + hlib.Hex(s)
		}
		c.Emit(sb.String(), out)
		c.Stat("pend.cases", 1)
		if ended >= 0 {
			c.Stat("pend.ended", 1)
		}
		if final != 1 {
			c.Stat("pend.survived-roulette", 1)
		}
	}
	// (b) Densities on random vertex data
	for it := 0; it < c.N; it++ {
		n := 1 + c.Rng.Intn(5)
		var verts []render3d.VerifVertex
		for i := 0; i < n; i++ {
			verts = append(verts, render3d.VerifVertex{
				Point:  model3d.XYZ(c.Rng.NormFloat64(), c.Rng.NormFloat64(), c.Rng.NormFloat64()),
				Normal: randUnit(c), Source: randUnit(c), Dest: randUnit(c),
				BSDF: rcol(1), Emission: rcol(2), SourceDensity: 0.2 + c.Rng.Float64()*3, DestDensity: 0.2 + c.Rng.Float64()*3, RouletteScale: 1,
			})
		}
		total := 1 + c.Rng.Float64()*5
		maxDepth, maxLight := c.Rng.Intn(6), c.Rng.Intn(4)
		ds := render3d.VerifPathDensities(verts, total, maxDepth, maxLight)
		var sb strings.Builder
		fmt.Fprintf(&sb, "c20 densf %s %s %d %d %d", hlib.Hex(4*math.Pi), hlib.Hex(total), maxDepth, maxLight, n)
		for _, v := range verts {
			sb.WriteString(" " + vertToks(v))
		}
		out := fmt.Sprintf("%d", len(ds))
		for _, d := range ds {
			out += " " + hlib.Hex(d)
		}
		c.Emit(sb.String(), out)
		c.Stat("dens.cases", 1)
		c.Stat(fmt.Sprintf("dens.strategies-%d", len(ds)), 1)
	}
	// (c) rayColor from sampled paths on a floor + light panel (+ enclosure) scene
	for it := 0; it < c.N; it++ {
		floor := &bptMat{id: 0, rho: rcol(1), srcBase: model3d.XYZ(0, 0, -1), dstBase: model3d.XYZ(0, 0, 1), q: 0.5 + c.Rng.Float64()*2, destQ: 0.5 + c.Rng.Float64()*2}
		panel := &bptMat{id: 1, em: rcol(3).Add(model3d.XYZ(0.1, 0.1, 0.1)), rho: rcol(0.3), srcBase: model3d.XYZ(0, 0, 1), dstBase: model3d.XYZ(0, 0, -1), q: 0.5 + c.Rng.Float64()*2, destQ: 0.5 + c.Rng.Float64()*2}
		wall := &bptMat{id: 2, rho: rcol(0.6), srcBase: model3d.XYZ(0.2, 0.1, 0.5), dstBase: model3d.XYZ(-0.1, 0.3, -0.5), q: 1, destQ: 1.5}
		if c.Rng.Intn(4) == 0 {
			floor.em = rcol(0.2)
		}
		panelObj := &render3d.ColliderObject{Collider: model3d.NewRect(model3d.XYZ(-1, -1, 3), model3d.XYZ(1, 1, 3.25)), Material: panel}
		objs := render3d.JoinedObject{
			&render3d.ColliderObject{Collider: model3d.NewRect(model3d.XYZ(-4, -4, -1), model3d.XYZ(4, 4, 0)), Material: floor},
			panelObj,
		}
		if c.Rng.Intn(2) == 0 {
			objs = append(objs, &render3d.ColliderObject{Collider: &model3d.Sphere{Radius: 15}, Material: wall})
		}
		if c.Rng.Intn(3) == 0 { // an occluder between floor and panel
			objs = append(objs, &render3d.ColliderObject{Collider: &model3d.Sphere{Center: model3d.XYZ(0.2, 0, 1.5), Radius: 0.4}, Material: wall})
		}
		light := &bptLight{Object: panelObj, point: model3d.XYZ(0, 0, 3), normal: model3d.Z(-1), emission: panel.em, total: panel.em.Sum() * (1 + c.Rng.Float64())}
		b := &render3d.BidirPathTracer{Light: light, MaxDepth: 1 + c.Rng.Intn(3), MaxLightDepth: c.Rng.Intn(3),
			MinDepth: []int{0, 0, 1, 2}[c.Rng.Intn(4)], Cutoff: []float64{0, 1e-3, 0.3}[c.Rng.Intn(3)]}
		cam := model3d.XYZ(c.Rng.NormFloat64(), c.Rng.NormFloat64()-3, 2+c.Rng.Float64())
		ray := &model3d.Ray{Origin: cam, Direction: model3d.XYZ(c.Rng.NormFloat64()*0.7, c.Rng.NormFloat64()*0.7, 0).Sub(cam)}
		if c.Rng.Intn(6) == 0 {
			ray.Direction = model3d.XYZ(0, 0, 3).Sub(cam) // straight at the light's underside
		}
		seed := c.Rng.Int63()
		var eye, lp []render3d.VerifVertex
		var val render3d.Color
		scene := &recScene{Object: objs}
		res := hlib.Guard(func() string {
			eye, lp = render3d.VerifBPTSamplePaths(b, rand.New(rand.NewSource(seed)), objs, ray)
			val = render3d.VerifBPTRayColor(b, rand.New(rand.NewSource(seed)), scene, ray)
			return ""
		})
		if res == "" {
			res = hex3(val)
		}
		var sb strings.Builder
		fmt.Fprintf(&sb, "c20 bptf %s %s %s %s %d %d 3", hlib.Hex(4*math.Pi), hlib.Hex(1e-8), hlib.Hex(render3d.DefaultEpsilon), hlib.Hex(light.total), b.MaxDepth, b.MaxLightDepth)
		for _, m := range []*bptMat{floor, panel, wall} {
			fmt.Fprintf(&sb, " %s %s %s", hex3(m.rho), hlib.Hex(m.q), hlib.Hex(m.destQ))
		}
		fmt.Fprintf(&sb, " %d", len(eye))
		for _, v := range eye {
			sb.WriteString(" " + vertToks(v))
		}
		fmt.Fprintf(&sb, " %d", len(lp))
		for _, v := range lp {
			sb.WriteString(" " + vertToks(v))
		}
		sb.WriteString(" " + scene.toks())
		c.Emit(sb.String(), res)
		c.Stat("bpt.cases", 1)
		c.Stat(fmt.Sprintf("bpt.eye-%d-light-%d", len(eye), len(lp)), 1)
		if val != (render3d.Color{}) {
			c.Stat("bpt.nonzero", 1)
		}
	}
}
