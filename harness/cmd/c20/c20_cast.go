package main

import (
	"fmt"
	"math"
	"math/rand"
	"strings"
	"verif/harness/hlib"

	"github.com/unixpickle/model3d/model3d"
	"github.com/unixpickle/model3d/render3d"
)

// ---------------------------------------------------------------------------
// Probe leaves: an Object whose Cast answer is an affine function of the ray it receives, so that
// the answer of a wrapper reveals which ray the wrapper traced.

type idMaterial struct {
	id       int
	emission render3d.Color
}

func (m *idMaterial) BSDF(normal, source, dest model3d.Coord3D) render3d.Color {
	return render3d.Color{}
}
func (m *idMaterial) SampleSource(gen *rand.Rand, normal, dest model3d.Coord3D) model3d.Coord3D {
	return model3d.NewCoord3DRandUnit()
}
func (m *idMaterial) SourceDensity(normal, source, dest model3d.Coord3D) float64 { return 1 }
func (m *idMaterial) Emission() render3d.Color                                   { return m.emission }
func (m *idMaterial) Ambient() render3d.Color                                    { return render3d.Color{} }

type affine struct {
	mode int // 0 never, 1 always, 2 iff value >= 0
	a    float64
	w, v model3d.Coord3D
}

func (f *affine) value(r *model3d.Ray) float64 {
	return (f.a + (f.w.X*r.Origin.X + f.w.Y*r.Origin.Y + f.w.Z*r.Origin.Z)) +
		(f.v.X*r.Direction.X + f.v.Y*r.Direction.Y + f.v.Z*r.Direction.Z)
}

func (f *affine) ok(r *model3d.Ray) bool {
	return f.mode == 1 || (f.mode == 2 && f.value(r) >= 0)
}

type probeObj struct {
	affine
	normal model3d.Coord3D
	mat    *idMaterial
}

func (p *probeObj) Min() model3d.Coord3D { return model3d.XYZ(-1, -2, -3) }
func (p *probeObj) Max() model3d.Coord3D { return model3d.XYZ(3, 2, 1) }
func (p *probeObj) Cast(r *model3d.Ray) (model3d.RayCollision, render3d.Material, bool) {
	if !p.ok(r) {
		return model3d.RayCollision{}, nil, false
	}
	return model3d.RayCollision{Scale: p.value(r), Normal: p.normal}, p.mat, true
}

type probeCollider struct{ affine }

func (p *probeCollider) Min() model3d.Coord3D { return model3d.XYZ(-1, -2, -3) }
func (p *probeCollider) Max() model3d.Coord3D { return model3d.XYZ(3, 2, 1) }
func (p *probeCollider) RayCollisions(r *model3d.Ray, f func(model3d.RayCollision)) int {
	if !p.ok(r) {
		return 0
	}
	if f != nil {
		f(model3d.RayCollision{Scale: 1})
	}
	return 1
}
func (p *probeCollider) FirstRayCollision(r *model3d.Ray) (model3d.RayCollision, bool) {
	return model3d.RayCollision{Scale: 1}, p.ok(r)
}
func (p *probeCollider) SphereCollision(c model3d.Coord3D, r float64) bool { return true }

type treeGen struct {
	c      *hlib.Ctx
	exact  bool
	nextID int
	toks   []string
	num    func(float64) string
}

func (g *treeGen) num3(v model3d.Coord3D) string {
	return g.num(v.X) + " " + g.num(v.Y) + " " + g.num(v.Z)
}

func (g *treeGen) scalar() float64 {
	if g.exact {
		return g.c.Dyadic(2, 2)
	}
	return g.c.Rng.NormFloat64()
}

func (g *treeGen) vec() model3d.Coord3D { return model3d.XYZ(g.scalar(), g.scalar(), g.scalar()) }

func (g *treeGen) affine() affine {
	a := affine{mode: []int{0, 1, 1, 1, 2, 2}[g.c.Rng.Intn(6)], a: g.scalar() + 2, w: g.vec(), v: g.vec()}
	if g.c.Rng.Intn(3) == 0 { // ray-independent: ties between parts become likely
		a.w, a.v = model3d.Coord3D{}, model3d.Coord3D{}
		a.a = float64(g.c.Rng.Intn(3))
	}
	return a
}

func (g *treeGen) affineToks(a affine) string {
	return fmt.Sprintf("%d %s %s %s", a.mode, g.num(a.a), g.num3(a.w), g.num3(a.v))
}

func pow2(c *hlib.Ctx) float64 {
	s := math.Ldexp(1, c.Rng.Intn(5)-2)
	if c.Rng.Intn(2) == 0 {
		s = -s
	}
	return s
}

// monomial: a signed permutation matrix with power-of-two entries (inverse and normal lengths exact).
func monomial(c *hlib.Ctx) *model3d.Matrix3 {
	perm := c.Rng.Perm(3)
	var m model3d.Matrix3
	for row := 0; row < 3; row++ {
		m[row*3+perm[row]] = pow2(c)
	}
	return &m
}

func (g *treeGen) gen(depth int) render3d.Object {
	c := g.c
	kind := c.Rng.Intn(10)
	if depth <= 0 {
		kind = 0
	}
	switch {
	case kind <= 2: // leaf
		a := g.affine()
		var n model3d.Coord3D
		if g.exact {
			n = []model3d.Coord3D{model3d.X(1), model3d.Y(1), model3d.Z(1)}[c.Rng.Intn(3)].Scale(pow2(c))
		} else {
			n = g.vec()
		}
		id := g.nextID
		g.nextID++
		g.toks = append(g.toks, fmt.Sprintf("L %d %s %s", id, g.affineToks(a), g.num3(n)))
		return &probeObj{affine: a, normal: n, mat: &idMaterial{id: id}}
	case kind <= 4: // joined
		k := 1 + c.Rng.Intn(4)
		g.toks = append(g.toks, fmt.Sprintf("J %d", k))
		var parts render3d.JoinedObject
		for i := 0; i < k; i++ {
			parts = append(parts, g.gen(depth-1))
		}
		return parts
	case kind == 5: // filtered
		a := g.affine()
		g.toks = append(g.toks, "F "+g.affineToks(a))
		return &render3d.FilteredObject{Object: g.gen(depth - 1), Bounds: &probeCollider{a}}
	case kind <= 7: // translated
		off := g.vec()
		g.toks = append(g.toks, "T "+g.num3(off))
		return render3d.Translate(g.gen(depth-1), off)
	default: // matrix
		var m *model3d.Matrix3
		var how int
		if g.exact {
			how = c.Rng.Intn(2)
			if how == 0 {
				m = monomial(c)
			} else {
				s := math.Abs(pow2(c))
				m = &model3d.Matrix3{s, 0, 0, 0, s, 0, 0, 0, s}
			}
		} else {
			how = 2 + c.Rng.Intn(3)
		}
		// the token must come before the subtree: reserve the slot
		slot := len(g.toks)
		g.toks = append(g.toks, "")
		inner := g.gen(depth - 1)
		var obj render3d.Object
		switch how {
		case 0:
			obj = render3d.MatrixMultiply(inner, m)
		case 1:
			obj = render3d.Scale(inner, m[0])
		case 2:
			obj = render3d.Rotate(inner, randUnit(c), c.Rng.Float64()*6-3)
		case 3:
			obj = render3d.Scale(inner, c.Rng.Float64()*3+0.1)
		default:
			mm := model3d.Matrix3{}
			for i := range mm {
				mm[i] = c.Rng.NormFloat64()
			}
			obj = render3d.MatrixMultiply(inner, &mm)
		}
		used, _ := render3d.VerifMatrixObject(obj)
		var sb strings.Builder
		sb.WriteString("M")
		for _, x := range used {
			sb.WriteString(" " + g.num(x))
		}
		g.toks[slot] = sb.String()
		c.Stat(fmt.Sprintf("cast.matrix-how-%d", how), 1)
		return obj
	}
}

func matID(m render3d.Material) int {
	if im, ok := m.(*idMaterial); ok {
		return im.id
	}
	return -1
}

func runCast(c *hlib.Ctx) {
	for it := 0; it < c.N*3; it++ {
		exact := it%2 == 0
		g := &treeGen{c: c, exact: exact, num: hlib.Hex}
		kind := "treef"
		if exact {
			g.num = hlib.RatStr
			kind = "treeq"
		}
		obj := g.gen(1 + c.Rng.Intn(4))
		ray := &model3d.Ray{Origin: g.vec(), Direction: g.vec()}
		res := hlib.Guard(func() string {
			rc, mat, ok := obj.Cast(ray)
			if !ok {
				return "miss"
			}
			return fmt.Sprintf("hit %s %s %d", g.num(rc.Scale), g.num3(rc.Normal), matID(mat))
		})
		c.Emit(fmt.Sprintf("c20 %s %s %s %s", kind, g.num3(ray.Origin), g.num3(ray.Direction), strings.Join(g.toks, " ")), res)
		c.Stat("cast.tree", 1)
		if res == "miss" {
			c.Stat("cast.tree-miss", 1)
		}
	}
	runPrims(c)
}

// ---------------------------------------------------------------------------
// Real primitives: JoinedObject / BVHToObject over Sphere, Rect, Triangle; wrappers vs the
// transformed original built directly.

type prim struct {
	kind    int // 0 sphere 1 rect 2 triangle
	a, b, d model3d.Coord3D
	r       float64
}

func randPrim(c *hlib.Ctx) prim {
	p := prim{kind: c.Rng.Intn(3)}
	dy := func() model3d.Coord3D { return model3d.XYZ(c.Dyadic(3, 2), c.Dyadic(3, 2), c.Dyadic(3, 2)) }
	switch p.kind {
	case 0:
		p.a = dy()
		p.r = float64(1+c.Rng.Intn(8)) / 4
	case 1:
		u, v := dy(), dy()
		p.a, p.b = u.Min(v), u.Max(v).Add(model3d.XYZ(0.25, 0.25, 0.25))
	default:
		p.a, p.b, p.d = dy(), dy(), dy()
	}
	return p
}

func (p prim) mapped(f func(model3d.Coord3D) model3d.Coord3D, rs float64) prim {
	q := p
	switch p.kind {
	case 0:
		q.a = f(p.a)
		q.r = p.r * rs
	case 1:
		u, v := f(p.a), f(p.b)
		q.a, q.b = u.Min(v), u.Max(v)
	default:
		q.a, q.b, q.d = f(p.a), f(p.b), f(p.d)
	}
	return q
}

func (p prim) collider() model3d.Collider {
	switch p.kind {
	case 0:
		return &model3d.Sphere{Center: p.a, Radius: p.r}
	case 1:
		return &model3d.Rect{MinVal: p.a, MaxVal: p.b}
	default:
		return &model3d.Triangle{p.a, p.b, p.d}
	}
}

func (p prim) object(id int) render3d.Object {
	return &render3d.ColliderObject{Collider: p.collider(), Material: &idMaterial{id: id}}
}

func randRayAt(c *hlib.Ctx, target model3d.Coord3D) *model3d.Ray {
	o := model3d.XYZ(c.Dyadic(6, 2), c.Dyadic(6, 2), c.Dyadic(6, 2))
	d := target.Sub(o).Add(model3d.XYZ(c.Dyadic(1, 3), c.Dyadic(1, 3), c.Dyadic(1, 3)).Scale(0.5))
	if c.Rng.Intn(6) == 0 {
		d = model3d.XYZ(c.Dyadic(2, 2), c.Dyadic(2, 2), c.Dyadic(2, 2))
	}
	if d.Norm() == 0 {
		d = model3d.X(1)
	}
	return &model3d.Ray{Origin: o, Direction: d}
}

func runPrims(c *hlib.Ctx) {
	// (a) JoinedObject / BVHToObject over real primitives: nearest among the parts' own answers
	for it := 0; it < c.N*2; it++ {
		k := 1 + c.Rng.Intn(7)
		var prims []prim
		var objs []render3d.Object
		for i := 0; i < k; i++ {
			p := randPrim(c)
			if i > 0 && c.Rng.Intn(6) == 0 {
				p = prims[c.Rng.Intn(i)] // duplicate part: equal ray parameters
			}
			prims = append(prims, p)
			objs = append(objs, p.object(i))
		}
		ray := randRayAt(c, prims[c.Rng.Intn(k)].a)
		var sb strings.Builder
		fmt.Fprintf(&sb, "%d", k)
		scales := make([]float64, k)
		founds := make([]bool, k)
		hits := 0
		for i, o := range objs {
			rc, _, ok := o.Cast(ray)
			founds[i], scales[i] = ok, rc.Scale
			if ok {
				hits++
				fmt.Fprintf(&sb, " 1 %s", hlib.Hex(rc.Scale))
			} else {
				sb.WriteString(" 0 " + hlib.Hex(0))
			}
		}
		if hits > 3 {
			hits = 3
		}
		c.Stat(fmt.Sprintf("prims.parts-hit-%d", hits), 1)
		joined := hlib.Guard(func() string {
			rc, mat, ok := render3d.JoinedObject(objs).Cast(ray)
			if !ok {
				return "miss"
			}
			return fmt.Sprintf("hit %s %d", hlib.Hex(rc.Scale), matID(mat))
		})
		c.Emit("c20 joinf "+sb.String(), joined)
		bvh := hlib.Guard(func() string {
			tree := model3d.NewBVHAreaDensity(objs)
			rc, mat, ok := render3d.BVHToObject(tree).Cast(ray)
			if !ok {
				return "miss"
			}
			id := matID(mat)
			if id < 0 || id >= k || !founds[id] || scales[id] != rc.Scale {
				c.PropFail("BVHToObject/material", fmt.Sprintf("returned material %d does not belong to a part with the returned scale", id))
			}
			return fmt.Sprintf("hit %s", hlib.Hex(rc.Scale+0)) // x+0 turns -0 into +0: equal parameters may come from different parts
		})
		c.Emit("c20 bvhf "+sb.String(), bvh)
	}
	// (b) wrappers over real primitives vs the transformed original constructed directly
	for it := 0; it < c.N*2; it++ {
		p := randPrim(c)
		var wrapped render3d.Object
		var direct prim
		how := c.Rng.Intn(6)
		if how >= 4 && p.kind == 0 {
			p.kind = 1 + c.Rng.Intn(2) // no ellipsoid primitive to compare an anisotropically scaled sphere with
			p = randPrim(c)
			for p.kind == 0 {
				p = randPrim(c)
			}
		}
		switch how {
		case 4: // anisotropic scale (positive powers of two along the axes)
			m := &model3d.Matrix3{math.Abs(pow2(c)), 0, 0, 0, math.Abs(pow2(c)), 0, 0, 0, math.Abs(pow2(c))}
			wrapped = render3d.MatrixMultiply(p.object(0), m)
			direct = p.mapped(func(x model3d.Coord3D) model3d.Coord3D { return m.MulColumn(x) }, 1)
		case 5: // shear with determinant 1 (integer entries: the inverse is exact)
			m := &model3d.Matrix3{1, float64(c.Rng.Intn(3)), 0, 0, 1, float64(c.Rng.Intn(3) - 1), 0, 0, 1}
			if p.kind == 1 {
				p.kind = 2
				p.d = p.a.Add(model3d.XYZ(1, 0.5, -0.75))
			}
			wrapped = render3d.MatrixMultiply(p.object(0), m)
			direct = p.mapped(func(x model3d.Coord3D) model3d.Coord3D { return m.MulColumn(x) }, 1)
		case 0:
			off := model3d.XYZ(c.Dyadic(4, 2), c.Dyadic(4, 2), c.Dyadic(4, 2))
			wrapped = render3d.Translate(p.object(0), off)
			direct = p.mapped(func(x model3d.Coord3D) model3d.Coord3D { return x.Add(off) }, 1)
		case 1:
			s := math.Abs(pow2(c))
			wrapped = render3d.Scale(p.object(0), s)
			direct = p.mapped(func(x model3d.Coord3D) model3d.Coord3D { return x.Scale(s) }, s)
		case 2:
			m := monomial(c)
			s := math.Abs(m[0] + m[1] + m[2])
			for row := 0; row < 3; row++ { // same magnitude in every row: a rotation/reflection times a uniform scale
				for col := 0; col < 3; col++ {
					if m[row*3+col] != 0 {
						m[row*3+col] = math.Copysign(s, m[row*3+col])
					}
				}
			}
			wrapped = render3d.MatrixMultiply(p.object(0), m)
			direct = p.mapped(func(x model3d.Coord3D) model3d.Coord3D { return m.MulColumn(x) }, s)
		default:
			off := model3d.XYZ(c.Dyadic(4, 2), c.Dyadic(4, 2), c.Dyadic(4, 2))
			s := math.Abs(pow2(c))
			wrapped = render3d.Translate(render3d.Scale(p.object(0), s), off)
			direct = p.mapped(func(x model3d.Coord3D) model3d.Coord3D { return x.Scale(s).Add(off) }, s)
		}
		ray := randRayAt(c, direct.a)
		drc, _, dok := direct.object(0).Cast(ray)
		if wrc, _, wok := wrapped.Cast(ray); (dok && drc.Scale == 0) || (wok && wrc.Scale == 0) {
			// the ray starts on the surface: hit/miss and the sign of zero are tie-breaks, not geometry
			c.Stat("xprim.skipped-origin-on-surface", 1)
			continue
		}
		onEdge := false
		if dok && direct.kind == 1 {
			hp := ray.Origin.Add(ray.Direction.Scale(drc.Scale)).Array()
			lo, hi := direct.a.Array(), direct.b.Array()
			n := 0
			for i := 0; i < 3; i++ {
				if math.Abs(hp[i]-lo[i]) < 1e-9 || math.Abs(hp[i]-hi[i]) < 1e-9 {
					n++
				}
			}
			onEdge = n >= 2 // on an edge or corner of the box the face (hence the normal) is a tie-break
		}
		want := "miss"
		if dok {
			want = "hit " + hlib.Hex(drc.Scale)
			if how == 0 && p.kind == 1 && !onEdge {
				want += " " + hex3(drc.Normal)
			}
			c.Stat("xprim.hit", 1)
		}
		got := hlib.Guard(func() string {
			rc, _, ok := wrapped.Cast(ray)
			if !ok {
				return "miss"
			}
			if how == 0 && p.kind == 1 && !onEdge {
				return "hit " + hlib.Hex(rc.Scale) + " " + hex3(rc.Normal)
			}
			if dok && !onEdge && !(p.kind == 2 && how == 2) && rc.Normal.Dot(drc.Normal) < 0.999999 {
				c.PropFail("matrixObject/normal", fmt.Sprintf("normal %v of the wrapped object differs from normal %v of the transformed original (how=%d)", rc.Normal, drc.Normal, how))
			}
			return "hit " + hlib.Hex(rc.Scale)
		})
		c.Emit(fmt.Sprintf("c20 xprim %d %d %s", how, p.kind, want), got)
		c.Stat(fmt.Sprintf("xprim.how-%d", how), 1)
	}
}
