package main

import (
	"fmt"
	"strings"
	"verif/harness/hlib"

	"github.com/unixpickle/model3d/model3d"
	"github.com/unixpickle/model3d/render3d"
)

// ---------------------------------------------------------------------------
// Image accessors: histories of Set/At/SetAll/CopyFrom on a real Image with integer-labelled pixels,
// and Downsample on dyadic (exact) and arbitrary (bit-for-bit) data.

func label(c render3d.Color) string { return fmt.Sprintf("%d", int(c.X)) }

func dump(img *render3d.Image) string {
	parts := make([]string, len(img.Data))
	for i, p := range img.Data {
		parts[i] = label(p)
	}
	return "[" + strings.Join(parts, ",") + "]"
}

func runImageOps(c *hlib.Ctx) {
	for it := 0; it < c.N; it++ {
		w, h := c.Rng.Intn(7), c.Rng.Intn(7)
		if it%5 != 0 {
			w, h = w+1, h+1
		}
		img := render3d.NewImage(w, h)
		var ops, outs []string
		next := 1
		for k := 1 + c.Rng.Intn(10); k > 0; k-- {
			switch c.Rng.Intn(6) {
			case 0, 1:
				x, y := c.Rng.Intn(w+2), c.Rng.Intn(h+2)
				v := next
				next++
				ops = append(ops, fmt.Sprintf("s %d %d %d", x, y, v))
				outs = append(outs, hlib.Guard(func() string { img.Set(x, y, model3d.X(float64(v))); return "ok" }))
			case 2, 3:
				x, y := c.Rng.Intn(w+2), c.Rng.Intn(h+2)
				ops = append(ops, fmt.Sprintf("a %d %d", x, y))
				outs = append(outs, hlib.Guard(func() string { return label(img.At(x, y)) }))
			case 4:
				v := next
				next++
				ops = append(ops, fmt.Sprintf("A %d", v))
				img.SetAll(model3d.X(float64(v)))
				outs = append(outs, "ok")
			default:
				w1, h1 := c.Rng.Intn(6), c.Rng.Intn(6)
				x, y := c.Rng.Intn(w+1), c.Rng.Intn(h+1)
				base := next
				next += w1*h1 + 1
				src := render3d.NewImage(w1, h1)
				for i := range src.Data {
					src.Data[i] = model3d.X(float64(base + i))
				}
				ops = append(ops, fmt.Sprintf("c %d %d %d %d %d", w1, h1, x, y, base))
				outs = append(outs, hlib.Guard(func() string { img.CopyFrom(src, x, y); return "ok" }))
				c.Stat("imops.copyfrom", 1)
			}
		}
		ops = append(ops, "d")
		outs = append(outs, dump(img))
		for i, o := range outs {
			if strings.HasPrefix(o, "panic:") {
				outs[i] = "panic"
				c.Stat("imops.out-of-bounds", 1)
			}
		}
		c.Emit(fmt.Sprintf("c20 imops %d %d %s", w, h, strings.Join(ops, " ")), strings.Join(outs, " "))
		c.Stat("imops.cases", 1)
	}
	for it := 0; it < c.N; it++ {
		f := 1 + c.Rng.Intn(4)
		exact := it%2 == 0
		if exact {
			f = []int{1, 2, 4}[c.Rng.Intn(3)] // 1/f² exact
		}
		w, h := f*c.Rng.Intn(4), f*c.Rng.Intn(4)
		if it%7 != 0 {
			w, h = w+f, h+f
		}
		img := render3d.NewImage(w, h)
		var sb strings.Builder
		num := hlib.Hex
		kind := "dsf"
		if exact {
			num, kind = hlib.RatStr, "dsq"
		}
		for i := range img.Data {
			if exact {
				img.Data[i] = model3d.XYZ(c.Dyadic(4, 4), c.Dyadic(4, 4), c.Dyadic(4, 4))
			} else {
				img.Data[i] = model3d.XYZ(c.Rng.Float64(), c.Rng.NormFloat64(), c.Rng.ExpFloat64())
			}
			p := img.Data[i]
			sb.WriteString(" " + num(p.X) + " " + num(p.Y) + " " + num(p.Z))
		}
		res := hlib.Guard(func() string {
			out := img.Downsample(f)
			parts := []string{fmt.Sprintf("%d %d", out.Width, out.Height)}
			for _, p := range out.Data {
				parts = append(parts, num(p.X)+" "+num(p.Y)+" "+num(p.Z))
			}
			return strings.Join(parts, " ")
		})
		c.Emit(fmt.Sprintf("c20 %s %d %d %d%s", kind, w, h, f, sb.String()), res)
		c.Stat("downsample.cases", 1)
	}
}
