package main

import (
	"fmt"
	"runtime"
	"sort"
	"strings"
	"time"
	"verif/harness/hlib"

	"github.com/unixpickle/model3d/model3d"
	"github.com/unixpickle/model3d/render3d"
)

// ---------------------------------------------------------------------------
// Whole images of a closed uniform emitter (camera inside an emitting sphere / box): every pixel
// must be the value the model computes for a constant stream of the emission, at every GOMAXPROCS.

func summarize(img *render3d.Image) string {
	counts := map[model3d.Coord3D]int{}
	for _, p := range img.Data {
		counts[p]++
	}
	var keys []string
	for k, n := range counts {
		keys = append(keys, fmt.Sprintf("%s*%d", strings.ReplaceAll(hex3(k), " ", ","), n))
	}
	sort.Strings(keys)
	if len(keys) > 4 {
		keys = append(keys[:4], "...")
	}
	return strings.Join(keys, " ")
}

func runImages(c *hlib.Ctx) {
	prev := runtime.GOMAXPROCS(0)
	defer runtime.GOMAXPROCS(prev)
	for it := 0; it < c.N/2+4; it++ {
		procs := 1 + it%16
		runtime.GOMAXPROCS(procs)
		w, h := 2+c.Rng.Intn(7), 2+c.Rng.Intn(7)
		e := model3d.XYZ(float64(c.Rng.Intn(9))/4, float64(c.Rng.Intn(9))/8, float64(1+c.Rng.Intn(8))/2)
		if c.Rng.Intn(3) == 0 {
			e = model3d.XYZ(c.Rng.Float64(), c.Rng.Float64()*2, 0.1)
		}
		mat := &idMaterial{id: 0, emission: e}
		var scene render3d.Object
		switch c.Rng.Intn(3) {
		case 0:
			scene = &render3d.ColliderObject{Collider: &model3d.Sphere{Radius: 5}, Material: mat}
		case 1:
			scene = &render3d.ColliderObject{Collider: model3d.NewRect(model3d.XYZ(-4, -5, -6), model3d.XYZ(6, 5, 4)), Material: mat}
		default: // composite: translated + scaled sphere inside a filtered join
			inner := render3d.Translate(render3d.Scale(&render3d.ColliderObject{Collider: &model3d.Sphere{Radius: 1}, Material: mat}, 8), model3d.XYZ(0.5, 0, 0.25))
			scene = render3d.BVHToObject(model3d.NewBVHAreaDensity([]render3d.Object{inner,
				&render3d.ColliderObject{Collider: &model3d.Sphere{Center: model3d.XYZ(100, 0, 0), Radius: 1}, Material: &idMaterial{id: 1}}}))
		}
		cam := render3d.NewCameraAt(model3d.XYZ(0.5, -1, 0.25), model3d.XYZ(c.Rng.NormFloat64(), 2, c.Rng.NormFloat64()), 0)
		n := 1 + c.Rng.Intn(12)
		minS := c.Rng.Intn(6)
		maxStd := 0.0
		if c.Rng.Intn(2) == 0 {
			maxStd = 0.125
		}
		aa := 0.0
		if c.Rng.Intn(2) == 0 {
			aa = 1
		}
		depth := c.Rng.Intn(4)
		which := c.Rng.Intn(5)
		img := render3d.NewImage(w, h)
		var name string
		res := withTimeout(60*time.Second, func() string {
			switch which {
			case 0:
				name = "raycaster"
				n, minS, maxStd = 1, 0, 0
				(&render3d.RayCaster{Camera: cam}).Render(img, scene)
			case 1, 2, 3:
				name = "rt"
				(&render3d.RecursiveRayTracer{Camera: cam, MaxDepth: depth, NumSamples: n, MinSamples: minS,
					MaxStddev: maxStd, Antialias: aa, Cutoff: 1e-4}).Render(img, scene)
			default:
				name = "bpt"
				light := render3d.NewSphereAreaLight(&model3d.Sphere{Radius: 5}, e)
				(&render3d.BidirPathTracer{Camera: cam, Light: light, MaxDepth: 1 + depth, NumSamples: n, MinSamples: minS,
					MaxStddev: maxStd, Antialias: aa}).Render(img, light)
			}
			return ""
		})
		if res == "" {
			res = summarize(img)
		}
		c.Emit(fmt.Sprintf("c20 img %s %d %d %d %d %d %s %s", name, w, h, procs, n, minS, hlib.Hex(maxStd), hex3(e)), res)
		c.Stat("img."+name, 1)
	}
	// width-1 / height-1 images: Caster(0, ·) divides by zero
	for _, sz := range [][2]int{{1, 1}, {1, 3}, {3, 1}} {
		e := model3d.XYZ(0.5, 0.25, 1)
		scene := &render3d.ColliderObject{Collider: &model3d.Sphere{Radius: 5}, Material: &idMaterial{emission: e}}
		cam := render3d.NewCameraAt(model3d.XYZ(0.5, -1, 0.25), model3d.XYZ(0, 2, 0), 0)
		img := render3d.NewImage(sz[0], sz[1])
		res := withTimeout(30*time.Second, func() string {
			(&render3d.RayCaster{Camera: cam}).Render(img, scene)
			return ""
		})
		if res == "" {
			res = summarize(img)
		}
		c.Emit(fmt.Sprintf("c20 img raycaster %d %d 1 1 0 %s %s", sz[0], sz[1], hlib.Hex(0), hex3(e)), res)
		c.Stat("img.one-pixel-wide", 1)
	}
}
