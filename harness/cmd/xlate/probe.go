// Command xlate: survey which functions of a package the Go->Lean translator (hlib/go2lean) accepts,
// or print the generated Kernels module.
//
//	xlate -repo /repo -survey model3d
//	xlate -repo /repo -gen Kernels
package main

import (
	"flag"
	"fmt"
	"os"
	"sort"

	"verif/harness/hlib/go2lean"
)

func main() {
	repo := flag.String("repo", "/repo", "repository root")
	survey := flag.String("survey", "", "package directory to survey")
	gen := flag.String("gen", "", "module to generate (Kernels)")
	flag.Parse()
	if *survey != "" {
		ok, bad, err := go2lean.Survey(*repo, *survey)
		if err != nil {
			fmt.Fprintln(os.Stderr, err)
			os.Exit(1)
		}
		for _, k := range ok {
			fmt.Println("OK  ", k)
		}
		var ks []string
		for k := range bad {
			ks = append(ks, k)
		}
		sort.Strings(ks)
		for _, k := range ks {
			fmt.Println("BAD ", k, "::", bad[k])
		}
		fmt.Printf("# %d ok, %d outside the subset\n", len(ok), len(bad))
		return
	}
	if *gen != "" {
		text, err := go2lean.Generate(*repo, *gen, go2lean.KernelRoots)
		if err != nil {
			fmt.Fprintln(os.Stderr, err)
			os.Exit(1)
		}
		fmt.Print(text)
	}
}
