package main

import (
	"fmt"
	"math"
	"sort"
	"strconv"
	"strings"
	"verif/harness/hlib"

	"github.com/unixpickle/model3d/model2d"
	"github.com/unixpickle/model3d/model3d"
)

func main() { hlib.Main("C09", runC09) }

// ---------------------------------------------------------------------------
// key pools: canonical ids (Go ==) with several raw representatives each

type key3 struct {
	reps []model3d.Coord3D // all == to each other
}

func negZero() float64 { return math.Copysign(0, -1) }

// findCollision3 searches for y with hash(x,0,0) == hash(0,y,0).
func findCollision3(x float64) (float64, bool) {
	target := model3d.VerifFastHash64(model3d.XYZ(x, 0, 0))
	h0 := math.Float64frombits(target)
	// hash = bits(b*y) for (0,y,0); b is the second coefficient.
	b := math.Float64frombits(model3d.VerifFastHash64(model3d.XYZ(0, 1, 0)))
	if b == 0 || math.IsNaN(b) || math.IsInf(b, 0) {
		return 0, false
	}
	y := h0 / b
	lo, hi := y, y
	for i := 0; i < 4000; i++ {
		if model3d.VerifFastHash64(model3d.XYZ(0, lo, 0)) == target {
			return lo, true
		}
		if model3d.VerifFastHash64(model3d.XYZ(0, hi, 0)) == target {
			return hi, true
		}
		lo = math.Nextafter(lo, math.Inf(-1))
		hi = math.Nextafter(hi, math.Inf(1))
	}
	return 0, false
}

func findCollision2(x float64) (float64, bool) {
	target := model2d.VerifFastHash64(model2d.XY(x, 0))
	h0 := math.Float64frombits(target)
	b := math.Float64frombits(model2d.VerifFastHash64(model2d.XY(0, 1)))
	if b == 0 || math.IsNaN(b) || math.IsInf(b, 0) {
		return 0, false
	}
	y := h0 / b
	lo, hi := y, y
	for i := 0; i < 4000; i++ {
		if model2d.VerifFastHash64(model2d.XY(0, lo)) == target {
			return lo, true
		}
		if model2d.VerifFastHash64(model2d.XY(0, hi)) == target {
			return hi, true
		}
		lo = math.Nextafter(lo, math.Inf(-1))
		hi = math.Nextafter(hi, math.Inf(1))
	}
	return 0, false
}

// pool3 builds a key pool: lattice points, signed-zero variants, colliding pairs.
func pool3(c *hlib.Ctx) []key3 {
	var pool []key3
	nz := negZero()
	// signed-zero family: every sign pattern of (0,0,0) is ONE key.
	var zs []model3d.Coord3D
	for m := 0; m < 8; m++ {
		p := model3d.Coord3D{}
		if m&1 != 0 {
			p.X = nz
		}
		if m&2 != 0 {
			p.Y = nz
		}
		if m&4 != 0 {
			p.Z = nz
		}
		zs = append(zs, p)
	}
	pool = append(pool, key3{zs})
	pool = append(pool, key3{[]model3d.Coord3D{{X: 1, Y: 0, Z: 0}, {X: 1, Y: nz, Z: 0}, {X: 1, Y: 0, Z: nz}}})
	pool = append(pool, key3{[]model3d.Coord3D{{X: 0, Y: 2, Z: 0}, {X: nz, Y: 2, Z: nz}}})
	for i := 0; i < 5; i++ {
		pool = append(pool, key3{[]model3d.Coord3D{{X: float64(c.Rng.Intn(5) - 2), Y: float64(c.Rng.Intn(5)) + 0.5, Z: float64(c.Rng.Intn(3)) - 0.25}}})
	}
	// colliding pairs
	ncol := 0
	for _, x := range []float64{1.5, 3, 0.7, 11, c.Rng.Float64() * 8} {
		if y, ok := findCollision3(x); ok {
			pool = append(pool, key3{[]model3d.Coord3D{{X: x}}}, key3{[]model3d.Coord3D{{Y: y}}})
			ncol++
		}
	}
	c.Stat("c09.collision_pairs_found_3d", ncol)
	// de-duplicate ids that happen to be == (random picks)
	var out []key3
	for _, k := range pool {
		dup := false
		for _, o := range out {
			if o.reps[0] == k.reps[0] {
				dup = true
			}
		}
		if !dup {
			out = append(out, k)
		}
	}
	return out
}

func intsStr(xs []int) string {
	if len(xs) == 0 {
		return "[]"
	}
	ss := make([]string, len(xs))
	for i, x := range xs {
		ss[i] = strconv.Itoa(x)
	}
	return strings.Join(ss, ",")
}

func keySetStr(ids []int) string {
	sort.Ints(ids)
	ss := make([]string, len(ids))
	for i, x := range ids {
		ss[i] = strconv.Itoa(x)
	}
	return "{" + strings.Join(ss, ",") + "}"
}

// checkHashRespectsEq3 evaluates the hypothesis the refinement theorem needs
// of the real hash: keys that are == must hash alike.
func checkHashRespectsEq3(c *hlib.Ctx, pool []key3) bool {
	ok := true
	for id, k := range pool {
		h0 := model3d.VerifFastHash64(k.reps[0])
		for _, r := range k.reps[1:] {
			if model3d.VerifFastHash64(r) != h0 {
				c.PropFail("fastHash64/eq-keys-hash-differently",
					fmt.Sprintf("key id %d: %016x vs %016x hash %016x != %016x (keys are == in Go)",
						id, math.Float64bits(k.reps[0].X), math.Float64bits(r.X), h0, model3d.VerifFastHash64(r)))
				ok = false
				break
			}
		}
	}
	return ok
}

func idOf3(pool []key3, p model3d.Coord3D) int {
	for i, k := range pool {
		if k.reps[0] == p {
			return i
		}
	}
	return -1
}

func runC09(c *hlib.Ctx) {
	pool := pool3(c)
	if !checkHashRespectsEq3(c, pool) {
		c.Stat("c09.hash_eq_violations", 1)
	}
	hashes := make([]string, len(pool))
	for i, k := range pool {
		hashes[i] = fmt.Sprintf("%x", model3d.VerifFastHash64(k.reps[0]))
	}
	hdr := fmt.Sprintf("%d %s", len(pool), strings.Join(hashes, " "))
	pick := func() (int, model3d.Coord3D) {
		// bias towards the colliding / signed-zero keys
		id := c.Rng.Intn(len(pool))
		r := pool[id].reps[c.Rng.Intn(len(pool[id].reps))]
		return id, r
	}

	// --- CoordToSlice[int] histories
	for cse := 0; cse < c.N; cse++ {
		m := model3d.NewCoordToSlice[int]()
		var ops, outs []string
		nops := 1 + c.Rng.Intn(40)
		crossed := false
		res := hlib.Guard(func() string {
			for i := 0; i < nops; i++ {
				id, k := pick()
				switch c.Rng.Intn(8) {
				case 0:
					n := c.Rng.Intn(3)
					vs := make([]int, n)
					for j := range vs {
						vs[j] = c.Rng.Intn(100)
					}
					ops = append(ops, "s", strconv.Itoa(id), intsStr(vs))
					m.Store(k, vs)
				case 1, 2:
					x := c.Rng.Intn(100)
					ops = append(ops, "a", strconv.Itoa(id), strconv.Itoa(x))
					m.Append(k, x)
				case 3:
					ops = append(ops, "d", strconv.Itoa(id))
					m.Delete(k)
				case 4, 5:
					ops = append(ops, "l", strconv.Itoa(id))
					v, ok := m.Load(k)
					if !ok {
						outs = append(outs, "-")
					} else {
						outs = append(outs, intsStr(v))
					}
				case 6:
					ops = append(ops, "n")
					outs = append(outs, strconv.Itoa(m.Len()))
				case 7:
					ops = append(ops, "K")
					var ids []int
					m.KeyRange(func(p model3d.Coord3D) bool {
						ids = append(ids, idOf3(pool, p))
						return true
					})
					outs = append(outs, keySetStr(ids))
				}
				if !model3d.VerifCoordToSliceIsFast(m) {
					crossed = true
				}
			}
			return strings.Join(outs, " ")
		})
		if crossed {
			c.Stat("c09.slice_histories_crossing_fast_to_slow", 1)
		}
		c.Stat("c09.slice_histories", 1)
		c.Stat("c09.slice_ops", nops)
		c.Emit("c09 slice "+hdr+" "+strings.Join(ops, " "), res)
	}

	// --- CoordToNumber[int] histories
	for cse := 0; cse < c.N; cse++ {
		m := model3d.NewCoordToNumber[int]()
		var ops, outs []string
		nops := 1 + c.Rng.Intn(40)
		crossed := false
		res := hlib.Guard(func() string {
			for i := 0; i < nops; i++ {
				id, k := pick()
				switch c.Rng.Intn(8) {
				case 0:
					v := c.Rng.Intn(100) - 50
					ops = append(ops, "s", strconv.Itoa(id), strconv.Itoa(v))
					m.Store(k, v)
				case 1, 2:
					x := c.Rng.Intn(100) - 50
					ops = append(ops, "p", strconv.Itoa(id), strconv.Itoa(x))
					m.Add(k, x)
				case 3:
					ops = append(ops, "d", strconv.Itoa(id))
					m.Delete(k)
				case 4, 5:
					ops = append(ops, "l", strconv.Itoa(id))
					v, ok := m.Load(k)
					if !ok {
						outs = append(outs, "-")
					} else {
						outs = append(outs, strconv.Itoa(v))
					}
				case 6:
					ops = append(ops, "n")
					outs = append(outs, strconv.Itoa(m.Len()))
				case 7:
					ops = append(ops, "K")
					var ids []int
					m.KeyRange(func(p model3d.Coord3D) bool {
						ids = append(ids, idOf3(pool, p))
						return true
					})
					outs = append(outs, keySetStr(ids))
				}
				if !model3d.VerifCoordToNumberIsFast(m) {
					crossed = true
				}
			}
			return strings.Join(outs, " ")
		})
		if crossed {
			c.Stat("c09.num_histories_crossing_fast_to_slow", 1)
		}
		c.Stat("c09.num_histories", 1)
		c.Emit("c09 num "+hdr+" "+strings.Join(ops, " "), res)
	}

	runC09Maps2D(c)
	runC09EdgeMaps(c)
	runC09Mesh(c)
	runC09Mesh2D(c)
	runC09Fresh(c)
	runC09Fresh2(c)
	runC09Fresh2D(c)
	runC09Objs(c)
}

// ---------------------------------------------------------------------------
// model2d twin of the slice histories

func runC09Maps2D(c *hlib.Ctx) {
	nz := negZero()
	type key2 struct{ reps []model2d.Coord }
	pool := []key2{
		{[]model2d.Coord{{X: 0, Y: 0}, {X: nz, Y: 0}, {X: 0, Y: nz}, {X: nz, Y: nz}}},
		{[]model2d.Coord{{X: 1, Y: 0}, {X: 1, Y: nz}}},
		{[]model2d.Coord{{X: 0.5, Y: 2}}},
		{[]model2d.Coord{{X: -3, Y: 2}}},
	}
	ncol := 0
	for _, x := range []float64{1.5, 3, 0.7, 11, c.Rng.Float64() * 8} {
		if y, ok := findCollision2(x); ok {
			pool = append(pool, key2{[]model2d.Coord{{X: x}}}, key2{[]model2d.Coord{{Y: y}}})
			ncol++
		}
	}
	c.Stat("c09.collision_pairs_found_2d", ncol)
	for id, k := range pool {
		h0 := model2d.VerifFastHash64(k.reps[0])
		for _, r := range k.reps[1:] {
			if model2d.VerifFastHash64(r) != h0 {
				c.PropFail("model2d.fastHash64/eq-keys-hash-differently", fmt.Sprintf("key id %d", id))
				break
			}
		}
	}
	hashes := make([]string, len(pool))
	for i, k := range pool {
		hashes[i] = fmt.Sprintf("%x", model2d.VerifFastHash64(k.reps[0]))
	}
	hdr := fmt.Sprintf("%d %s", len(pool), strings.Join(hashes, " "))
	idOf := func(p model2d.Coord) int {
		for i, k := range pool {
			if k.reps[0] == p {
				return i
			}
		}
		return -1
	}
	for cse := 0; cse < c.N/2; cse++ {
		m := model2d.NewCoordToSlice[int]()
		var ops, outs []string
		nops := 1 + c.Rng.Intn(40)
		crossed := false
		res := hlib.Guard(func() string {
			for i := 0; i < nops; i++ {
				id := c.Rng.Intn(len(pool))
				k := pool[id].reps[c.Rng.Intn(len(pool[id].reps))]
				switch c.Rng.Intn(8) {
				case 0:
					n := c.Rng.Intn(3)
					vs := make([]int, n)
					for j := range vs {
						vs[j] = c.Rng.Intn(100)
					}
					ops = append(ops, "s", strconv.Itoa(id), intsStr(vs))
					m.Store(k, vs)
				case 1, 2:
					x := c.Rng.Intn(100)
					ops = append(ops, "a", strconv.Itoa(id), strconv.Itoa(x))
					m.Append(k, x)
				case 3:
					ops = append(ops, "d", strconv.Itoa(id))
					m.Delete(k)
				case 4, 5:
					ops = append(ops, "l", strconv.Itoa(id))
					v, ok := m.Load(k)
					if !ok {
						outs = append(outs, "-")
					} else {
						outs = append(outs, intsStr(v))
					}
				case 6:
					ops = append(ops, "n")
					outs = append(outs, strconv.Itoa(m.Len()))
				case 7:
					ops = append(ops, "K")
					var ids []int
					m.KeyRange(func(p model2d.Coord) bool {
						ids = append(ids, idOf(p))
						return true
					})
					outs = append(outs, keySetStr(ids))
				}
				if !model2d.VerifCoordToSliceIsFast(m) {
					crossed = true
				}
			}
			return strings.Join(outs, " ")
		})
		if crossed {
			c.Stat("c09.slice2d_histories_crossing_fast_to_slow", 1)
		}
		c.Stat("c09.slice2d_histories", 1)
		c.Emit("c09 slice "+hdr+" "+strings.Join(ops, " "), res)
	}
}
