package main

import (
	"fmt"
	"sort"
	"strings"

	"github.com/unixpickle/model3d/model3d"
	"verif/harness/hlib"
)

// coordKey renders a coordinate exactly.
func coordKey(p model3d.Coord3D) string { return hlib.Hex(p.X) + hlib.Hex(p.Y) + hlib.Hex(p.Z) }

func triKey(t *model3d.Triangle) string { return coordKey(t[0]) + "|" + coordKey(t[1]) + "|" + coordKey(t[2]) }

func triSetKey(ts []*model3d.Triangle) string {
	ks := make([]string, len(ts))
	for i, t := range ts {
		ks[i] = triKey(t)
	}
	sort.Strings(ks)
	return strings.Join(ks, ";")
}

// freshDiff compares every query on m with the same query on a mesh freshly built from m's
// current faces; it returns "" when they all agree.
func freshDiff(c *hlib.Ctx, m *model3d.Mesh) string {
	fresh := model3d.NewMeshTriangles(m.TriangleSlice())
	if m.NumTriangles() != fresh.NumTriangles() {
		return "NumTriangles"
	}
	vs := func(x *model3d.Mesh) string {
		var ks []string
		for _, v := range x.VertexSlice() {
			ks = append(ks, coordKey(v))
		}
		sort.Strings(ks)
		return strings.Join(ks, ";")
	}
	if vs(m) != vs(fresh) {
		return "VertexSlice"
	}
	if m.Min() != fresh.Min() || m.Max() != fresh.Max() {
		return "Min/Max"
	}
	tris := fresh.TriangleSlice()
	for k := 0; k < 40 && len(tris) > 0; k++ {
		t := tris[c.Rng.Intn(len(tris))]
		if !m.Contains(t) {
			return "Contains"
		}
		for i := 0; i < 3; i++ {
			if triSetKey(m.Find(t[i])) != triSetKey(fresh.Find(t[i])) {
				return "Find(v) at " + coordKey(t[i])
			}
			if triSetKey(m.Find(t[i], t[(i+1)%3])) != triSetKey(fresh.Find(t[i], t[(i+1)%3])) {
				return "Find(v1,v2)"
			}
		}
		if triSetKey(m.Neighbors(t)) != triSetKey(fresh.Neighbors(t)) {
			return "Neighbors"
		}
	}
	return ""
}

// runC09Fresh: meshes returned by the library's own in-place editors (search refinement, dual
// contouring repair, base flattening, coplanar elimination, decimation, repair, normal repair,
// subdivision) must answer every query as a freshly built mesh of the same faces does.
func runC09Fresh(c *hlib.Ctx) {
	rf := func(lo, hi float64) float64 { return lo + c.Rng.Float64()*(hi-lo) }
	type gen struct {
		name string
		f    func() *model3d.Mesh
	}
	base := func() *model3d.Mesh {
		var m *model3d.Mesh
		switch c.Rng.Intn(3) {
		case 0:
			m = model3d.NewMeshIcosphere(model3d.XYZ(rf(-1, 1), rf(-1, 1), rf(-1, 1)), rf(0.5, 2), 1+c.Rng.Intn(3))
		case 1:
			m = model3d.SubdivideEdges(model3d.NewMeshRect(model3d.XYZ(-1, -1, -1), model3d.XYZ(rf(0.5, 2), rf(0.5, 2), rf(0.5, 2))), 1+c.Rng.Intn(3))
		default:
			m = model3d.MarchingCubes(&model3d.Sphere{Radius: rf(0.5, 1.5)}, rf(0.15, 0.4))
		}
		if c.Rng.Intn(2) == 0 {
			m.VertexSlice() // the editor then starts from a mesh whose index already exists
		}
		return m
	}
	gens := []gen{
		{"MarchingCubesSearch", func() *model3d.Mesh {
			return model3d.MarchingCubesSearch(&model3d.Sphere{Radius: rf(0.5, 1.5)}, rf(0.15, 0.4), 1+c.Rng.Intn(6))
		}},
		{"DualContouringRepair", func() *model3d.Mesh {
			s := model3d.JoinedSolid{&model3d.Sphere{Radius: 1}, &model3d.Rect{MinVal: model3d.XYZ(0.9, -0.3, -0.3), MaxVal: model3d.XYZ(1.6, 0.3, 0.3)}}
			dc := &model3d.DualContouring{S: model3d.SolidSurfaceEstimator{Solid: s}, Delta: rf(0.12, 0.3), Repair: true, Clip: true}
			return dc.Mesh()
		}},
		{"FlattenBase", func() *model3d.Mesh { return base().FlattenBase(0) }},
		{"EliminateCoplanar", func() *model3d.Mesh { return base().EliminateCoplanar(1e-8) }},
		{"Repair", func() *model3d.Mesh { return base().Repair(1e-8) }},
		{"RepairNormals", func() *model3d.Mesh { m, _ := base().RepairNormals(1e-8); return m }},
		{"RepairNormalsMajority", func() *model3d.Mesh { m, _ := base().RepairNormalsMajority(); return m }},
		{"Decimate", func() *model3d.Mesh {
			d := &model3d.Decimator{PlaneDistance: rf(0.001, 0.05), BoundaryDistance: 0.01}
			return d.Decimate(base())
		}},
		{"FlipDelaunay", func() *model3d.Mesh { return base().FlipDelaunay() }},
		{"Blur", func() *model3d.Mesh { return base().Blur(rf(0, 1), rf(0, 1)) }},
		{"SubdivideEdges", func() *model3d.Mesh { return model3d.SubdivideEdges(base(), 2) }},
		{"Subdivider", func() *model3d.Mesh {
			// edits the mesh IN PLACE
			m := base()
			sub := model3d.NewSubdivider()
			sub.AddFiltered(m, func(p1, p2 model3d.Coord3D) bool { return p1.Dist(p2) > 0.3 && c.Rng.Intn(2) == 0 })
			sub.Subdivide(m, func(p1, p2 model3d.Coord3D) model3d.Coord3D { return p1.Mid(p2) })
			return m
		}},
		{"LoopSubdivision", func() *model3d.Mesh { return model3d.LoopSubdivision(base(), 1) }},
		{"InvertNormals+Add+Remove", func() *model3d.Mesh {
			m := base().InvertNormals()
			ts := m.TriangleSlice()
			m.VertexSlice()
			for k := 0; k < 5 && len(ts) > 0; k++ {
				t := ts[c.Rng.Intn(len(ts))]
				m.Remove(t)
				if c.Rng.Intn(2) == 0 {
					m.Add(t)
				}
			}
			return m
		}},
	}
	reps := c.N / 60
	if reps < 1 {
		reps = 1
	}
	for r := 0; r < reps; r++ {
		for _, g := range gens {
			g := g
			res := hlib.Guard(func() string {
				m := g.f()
				if d := freshDiff(c, m); d != "" {
					return "differs-from-fresh:" + strings.ReplaceAll(d, " ", "_")
				}
				return "same-as-fresh"
			})
			c.Stat("c09.fresh."+g.name, 1)
			c.EmitSite(fmt.Sprintf("c09 fresh %s", g.name), res, "corr:c09 fresh/"+g.name)
		}
	}
}
