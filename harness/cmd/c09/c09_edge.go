package main

import (
	"fmt"
	"strconv"
	"strings"

	"github.com/unixpickle/model3d/model3d"
	"verif/harness/hlib"
)

// sliceMap adapts any of the generated fast maps holding []int (or an int stored as a
// one-element slice) to one history runner.
type sliceMap struct {
	store  func(k int, v []int)
	appnd  func(k int, x int) // nil if the map has no Append
	del    func(k int)
	load   func(k int) ([]int, bool)
	length func() int
	keys   func() []int
}

// runSliceHistories replays `n` random histories on maps created by mk and emits them as
// "c09 slice" cases (same model: M3d.FastMap with V = List Int).
func runSliceHistories(c *hlib.Ctx, stat string, n int, nkeys int, hdr string, mk func() sliceMap, single bool) {
	for cse := 0; cse < n; cse++ {
		m := mk()
		var ops, outs []string
		nops := 1 + c.Rng.Intn(40)
		res := hlib.Guard(func() string {
			for i := 0; i < nops; i++ {
				id := c.Rng.Intn(nkeys)
				r := c.Rng.Intn(8)
				if m.appnd == nil && (r == 1 || r == 2) {
					r = 0
				}
				switch r {
				case 0:
					nv := c.Rng.Intn(3)
					if single {
						nv = 1
					}
					vs := make([]int, nv)
					for j := range vs {
						vs[j] = c.Rng.Intn(100)
					}
					ops = append(ops, "s", strconv.Itoa(id), intsStr(vs))
					m.store(id, vs)
				case 1, 2:
					x := c.Rng.Intn(100)
					ops = append(ops, "a", strconv.Itoa(id), strconv.Itoa(x))
					m.appnd(id, x)
				case 3:
					ops = append(ops, "d", strconv.Itoa(id))
					m.del(id)
				case 4, 5:
					ops = append(ops, "l", strconv.Itoa(id))
					v, ok := m.load(id)
					if !ok {
						outs = append(outs, "-")
					} else {
						outs = append(outs, intsStr(v))
					}
				case 6:
					ops = append(ops, "n")
					outs = append(outs, strconv.Itoa(m.length()))
				case 7:
					ops = append(ops, "K")
					outs = append(outs, keySetStr(m.keys()))
				}
			}
			return strings.Join(outs, " ")
		})
		c.Stat(stat, 1)
		c.Emit("c09 slice "+hdr+" "+strings.Join(ops, " "), res)
	}
}

// runC09EdgeMaps: the edge-keyed maps (key = [2]Coord3D, hash = two 32-bit folds) and CoordMap.
func runC09EdgeMaps(c *hlib.Ctx) {
	pool := pool3(c)
	// edge keys: pairs of pool entries; colliding coordinates give colliding edges
	type ekey struct{ a, b int }
	var ekeys []ekey
	for i := 0; i < len(pool) && len(ekeys) < 14; i++ {
		for j := len(pool) - 1; j > i && len(ekeys) < 14; j -= 2 {
			ekeys = append(ekeys, ekey{i, j})
		}
	}
	ekeys = append(ekeys, ekey{0, 0})
	// deliberately colliding edge keys: wherever two pool coordinates collide in fastHash64
	for i := 0; i < len(pool); i++ {
		for j := i + 1; j < len(pool); j++ {
			if model3d.VerifFastHash64(pool[i].reps[0]) == model3d.VerifFastHash64(pool[j].reps[0]) && len(ekeys) < 26 {
				ekeys = append(ekeys, ekey{0, i}, ekey{0, j}, ekey{i, 1}, ekey{j, 1})
			}
		}
	}
	rep := func(id int) model3d.Coord3D { return pool[id].reps[c.Rng.Intn(len(pool[id].reps))] }
	edge := func(k int) [2]model3d.Coord3D { return [2]model3d.Coord3D{rep(ekeys[k].a), rep(ekeys[k].b)} }
	idOfEdge := func(e [2]model3d.Coord3D) int {
		for i, k := range ekeys {
			if pool[k.a].reps[0] == e[0] && pool[k.b].reps[0] == e[1] {
				return i
			}
		}
		return -1
	}
	{ // de-duplicate edge keys (ids must be unique)
		var uniq []ekey
		for _, k := range ekeys {
			dup := false
			for _, u := range uniq {
				if u == k {
					dup = true
				}
			}
			if !dup {
				uniq = append(uniq, k)
			}
		}
		ekeys = uniq
	}
	hs := make([]string, len(ekeys))
	for i, k := range ekeys {
		hs[i] = fmt.Sprintf("%x", model3d.VerifEdgeHash([2]model3d.Coord3D{pool[k.a].reps[0], pool[k.b].reps[0]}))
	}
	hdr := fmt.Sprintf("%d %s", len(ekeys), strings.Join(hs, " "))
	seen := map[string]int{}
	for _, h := range hs {
		seen[h]++
	}
	for _, n := range seen {
		if n > 1 {
			c.Stat("c09.edge_key_groups_colliding_in_the_real_edge_hash", 1)
		}
	}
	runSliceHistories(c, "c09.edgetoslice_histories", c.N/2, len(ekeys), hdr, func() sliceMap {
		m := model3d.NewEdgeToSlice[int]()
		return sliceMap{
			store:  func(k int, v []int) { m.Store(edge(k), v) },
			appnd:  func(k int, x int) { m.Append(edge(k), x) },
			del:    func(k int) { m.Delete(edge(k)) },
			load:   func(k int) ([]int, bool) { return m.Load(edge(k)) },
			length: m.Len,
			keys: func() []int {
				var r []int
				m.KeyRange(func(e [2]model3d.Coord3D) bool { r = append(r, idOfEdge(e)); return true })
				return r
			},
		}
	}, false)
	runSliceHistories(c, "c09.edgemap_histories", c.N/2, len(ekeys), hdr, func() sliceMap {
		m := model3d.NewEdgeMap[int]()
		return sliceMap{
			store: func(k int, v []int) { m.Store(edge(k), v[0]) },
			del:   func(k int) { m.Delete(edge(k)) },
			load: func(k int) ([]int, bool) {
				v, ok := m.Load(edge(k))
				return []int{v}, ok
			},
			length: m.Len,
			keys: func() []int {
				var r []int
				m.KeyRange(func(e [2]model3d.Coord3D) bool { r = append(r, idOfEdge(e)); return true })
				return r
			},
		}
	}, true)
	// CoordMap[int]
	chs := make([]string, len(pool))
	for i, k := range pool {
		chs[i] = fmt.Sprintf("%x", model3d.VerifFastHash64(k.reps[0]))
	}
	chdr := fmt.Sprintf("%d %s", len(pool), strings.Join(chs, " "))
	runSliceHistories(c, "c09.coordmap_histories", c.N/2, len(pool), chdr, func() sliceMap {
		m := model3d.NewCoordMap[int]()
		return sliceMap{
			store: func(k int, v []int) { m.Store(rep(k), v[0]) },
			del:   func(k int) { m.Delete(rep(k)) },
			load: func(k int) ([]int, bool) {
				v, ok := m.Load(rep(k))
				return []int{v}, ok
			},
			length: m.Len,
			keys: func() []int {
				var r []int
				m.KeyRange(func(p model3d.Coord3D) bool { r = append(r, idOf3(pool, p)); return true })
				return r
			},
		}
	}, true)
}
