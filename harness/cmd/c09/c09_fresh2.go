package main

import (
	"fmt"
	"math"
	"math/rand"
	"sort"
	"strings"
	"time"

	"github.com/unixpickle/model3d/model3d"
	"verif/harness/hlib"
)

// ---------------------------------------------------------------------------------------------
// The fresh oracle on DEGENERATE-COORDINATE inputs of the in-place editors.
//
// The editors that rewrite triangle corners in place (eliminateSegment behind EliminateEdges,
// flattenCoord inside FlattenBase, mcSearch, mapInPlace/Repair of dual contouring, Subdivider) patch
// or reset the lazily built vertex index by hand.  The interesting inputs are those where the
// result of an edit COINCIDES with something that is already there: an edge whose end points are
// adjacent doubles (its midpoint rounds onto an end point), a vertex flattened onto an existing
// base vertex, search results that converge onto one point, midpoints equal to an end point.
// Every result (and, where the editor hands out the mesh mid-edit, every intermediate state) must
// answer every query as a mesh freshly built from its current faces (theorem query_eq_fresh).

const freshOpTimeout = 6 * time.Second

// editResult is what an editor run produces.
type editResult struct {
	m      *model3d.Mesh
	mid    string            // first difference seen on an intermediate state ("" = none)
	probes []model3d.Coord3D // extra points to query (vertices that existed before the edit)
	skip   string            // non-empty: the input was not applicable (editor panicked / timed out)
	input  string            // rendering of a small input mesh (shown with a difference)
}

// runEditor runs f under a watchdog; a panic or a timeout of the EDITOR on a degenerate input is
// not a statement about the index, it makes the case inapplicable.
func runEditor(f func() editResult) editResult {
	ch := make(chan editResult, 1)
	go func() {
		var r editResult
		s := hlib.Guard(func() string { r = f(); return "" })
		if s != "" {
			r = editResult{skip: "editor-" + s}
		}
		ch <- r
	}()
	select {
	case r := <-ch:
		return r
	case <-time.After(freshOpTimeout):
		return editResult{skip: "editor-timeout"}
	}
}

func vertKeys(x *model3d.Mesh) string {
	var ks []string
	for _, v := range x.VertexSlice() {
		ks = append(ks, coordKey(v))
	}
	sort.Strings(ks)
	return strings.Join(ks, ";")
}

// freshDiffFull compares EVERY query on m with the same query on a mesh freshly built from m's
// current faces, at every vertex of the fresh mesh and at the extra probe points (capped).
func freshDiffFull(rng *rand.Rand, m *model3d.Mesh, probes []model3d.Coord3D) string {
	fresh := model3d.NewMeshTriangles(m.TriangleSlice())
	if m.NumTriangles() != fresh.NumTriangles() {
		return "NumTriangles"
	}
	if a, b := vertKeys(m), vertKeys(fresh); a != b {
		return fmt.Sprintf("VertexSlice(%d_vs_fresh_%d)", strings.Count(a, ";")+1, strings.Count(b, ";")+1)
	}
	if m.Min() != fresh.Min() || m.Max() != fresh.Max() {
		return "Min/Max"
	}
	var itv []string
	m.IterateVertices(func(p model3d.Coord3D) { itv = append(itv, coordKey(p)) })
	sort.Strings(itv)
	if strings.Join(itv, ";") != vertKeys(fresh) {
		return "IterateVertices"
	}
	pts := append(append([]model3d.Coord3D{}, fresh.VertexSlice()...), probes...)
	if len(pts) > 60 {
		rng.Shuffle(len(pts), func(i, j int) { pts[i], pts[j] = pts[j], pts[i] })
		pts = append(pts[:60:60], probes...)
	}
	for _, p := range pts {
		if a, b := m.Find(p), fresh.Find(p); triSetKey(a) != triSetKey(b) {
			return fmt.Sprintf("Find(v)=%d_faces_fresh=%d_at_%s", len(a), len(b), coordKey(p))
		}
	}
	avn, favn := m.AllVertexNeighbors(), fresh.AllVertexNeighbors()
	if avn.Len() != favn.Len() {
		return "AllVertexNeighbors.Len"
	}
	for _, p := range pts {
		ns := func(x *model3d.CoordToSlice[model3d.Coord3D]) string {
			var ks []string
			for _, q := range x.Value(p) {
				ks = append(ks, coordKey(q))
			}
			sort.Strings(ks)
			return strings.Join(ks, ";")
		}
		if ns(avn) != ns(favn) {
			return "AllVertexNeighbors_at_" + coordKey(p)
		}
	}
	tris := fresh.TriangleSlice()
	if len(tris) > 60 {
		rng.Shuffle(len(tris), func(i, j int) { tris[i], tris[j] = tris[j], tris[i] })
		tris = tris[:60]
	}
	for _, t := range tris {
		if !m.Contains(t) {
			return "Contains"
		}
		for i := 0; i < 3; i++ {
			if triSetKey(m.Find(t[i], t[(i+1)%3])) != triSetKey(fresh.Find(t[i], t[(i+1)%3])) {
				return "Find(v1,v2)"
			}
		}
		if triSetKey(m.Find(t[0], t[1], t[2])) != triSetKey(fresh.Find(t[0], t[1], t[2])) {
			return "Find(v1,v2,v3)"
		}
		if triSetKey(m.Neighbors(t)) != triSetKey(fresh.Neighbors(t)) {
			return "Neighbors"
		}
	}
	return ""
}

func nudge(x float64, ulps int, up bool) float64 {
	dir := math.Inf(-1)
	if up {
		dir = math.Inf(1)
	}
	for i := 0; i < ulps; i++ {
		x = math.Nextafter(x, dir)
	}
	return x
}

// ulpEdges rewrites m so that `n` of its edges have end points `ulps` apart in one coordinate (and
// equal in the others): the far end point of the edge is moved next to the near one.  With
// `origin` the mesh is first translated so that the near end point is the origin (then the far
// one is a denormal).  Returns the new mesh and the short edges.
func ulpEdges(rng *rand.Rand, m *model3d.Mesh, n, ulps int, origin bool) (*model3d.Mesh, []model3d.Segment) {
	tris := m.TriangleSlice()
	sort.Slice(tris, func(i, j int) bool { return triKey(tris[i]) < triKey(tris[j]) })
	if origin {
		t := tris[rng.Intn(len(tris))]
		m = m.Translate(t[rng.Intn(3)].Scale(-1))
		tris = m.TriangleSlice()
		sort.Slice(tris, func(i, j int) bool { return triKey(tris[i]) < triKey(tris[j]) })
	}
	used := map[model3d.Coord3D]bool{}
	mapping := map[model3d.Coord3D]model3d.Coord3D{}
	var segs []model3d.Segment
	for tries := 0; tries < 50 && len(segs) < n; tries++ {
		t := tris[rng.Intn(len(tris))]
		i := rng.Intn(3)
		p, q := t[i], t[(i+1)%3]
		if origin && len(segs) == 0 {
			// use the vertex that sits at the origin
			zero := model3d.Coord3D{}
			found := false
			for _, tt := range tris {
				for j := 0; j < 3; j++ {
					if tt[j] == zero {
						p, q, found = tt[j], tt[(j+1)%3], true
					}
				}
			}
			if !found {
				continue
			}
		}
		busy := used[p] || used[q]
		for _, nb := range m.Find(p) {
			for _, x := range nb {
				busy = busy || (used[x] && x != p)
			}
		}
		for _, nb := range m.Find(q) {
			for _, x := range nb {
				busy = busy || (used[x] && x != q)
			}
		}
		if busy || p == q {
			continue
		}
		arr := p.Array()
		ax := rng.Intn(3)
		arr[ax] = nudge(arr[ax], ulps, rng.Intn(2) == 0)
		q1 := model3d.NewCoord3DArray(arr)
		if q1 == p || len(m.Find(q1)) > 0 {
			continue
		}
		used[p], used[q], used[q1] = true, true, true
		mapping[q] = q1
		segs = append(segs, model3d.NewSegment(p, q1))
	}
	res := m.MapCoords(func(c model3d.Coord3D) model3d.Coord3D {
		if c1, ok := mapping[c]; ok {
			return c1
		}
		return c
	})
	return res, segs
}

// latticeSoup: a few triangles over a handful of lattice points (z in {0, 1/8, 1}), so that edits
// land on coordinates that already exist.  With `degenerate`, repeated corners and faces that are
// equal by value occur.
func latticeSoup(rng *rand.Rand, degenerate bool) *model3d.Mesh {
	zs := []float64{0, 0, 0.125, 1}
	nv := 4 + rng.Intn(6)
	var pts []model3d.Coord3D
	seen := map[model3d.Coord3D]bool{}
	for len(pts) < nv {
		p := model3d.XYZ(float64(rng.Intn(3)), float64(rng.Intn(3)), zs[rng.Intn(len(zs))])
		if !seen[p] {
			seen[p] = true
			pts = append(pts, p)
		}
	}
	m := model3d.NewMesh()
	nt := 3 + rng.Intn(9)
	var prev []*model3d.Triangle
	for i := 0; i < nt; i++ {
		perm := rng.Perm(nv)
		t := &model3d.Triangle{pts[perm[0]], pts[perm[1]], pts[perm[2]]}
		if degenerate {
			switch rng.Intn(6) {
			case 0:
				t[rng.Intn(3)] = t[rng.Intn(3)]
			case 1:
				if len(prev) > 0 {
					cp := *prev[rng.Intn(len(prev))]
					t = &cp
				}
			}
		}
		prev = append(prev, t)
		m.Add(t)
	}
	return m
}

// fanPatch: an open, consistently oriented triangulated height field over a small grid whose
// heights are 0 or 1/8, facing DOWN (so FlattenBase wants to flatten it) plus a flat base grid
// underneath sharing the boundary: flattened vertices land exactly on base vertices.
func overhangPatch(rng *rand.Rand) *model3d.Mesh {
	n := 2 + rng.Intn(3)
	h := func() float64 {
		if rng.Intn(2) == 0 {
			return 0
		}
		return 0.125 * float64(1+rng.Intn(2))
	}
	hs := make([][]float64, n+1)
	for i := range hs {
		hs[i] = make([]float64, n+1)
		for j := range hs[i] {
			hs[i][j] = h()
		}
	}
	hs[0][0] = 0
	m := model3d.NewMesh()
	for i := 0; i < n; i++ {
		for j := 0; j < n; j++ {
			p := func(a, b int, top bool) model3d.Coord3D {
				z := 0.0
				if top {
					z = hs[a][b]
				}
				return model3d.XYZ(float64(a), float64(b), z)
			}
			// roof, facing down
			m.Add(&model3d.Triangle{p(i, j, true), p(i, j+1, true), p(i+1, j, true)})
			m.Add(&model3d.Triangle{p(i+1, j, true), p(i, j+1, true), p(i+1, j+1, true)})
			// floor under some of the cells
			if rng.Intn(2) == 0 {
				m.Add(&model3d.Triangle{p(i, j, false), p(i+1, j, false), p(i, j+1, false)})
			}
		}
	}
	return m
}

func closedBase(rng *rand.Rand) *model3d.Mesh {
	rf := func(lo, hi float64) float64 { return lo + rng.Float64()*(hi-lo) }
	var m *model3d.Mesh
	switch rng.Intn(4) {
	case 0:
		m = model3d.NewMeshIcosphere(model3d.XYZ(rf(-1, 1), rf(-1, 1), rf(-1, 1)), rf(0.5, 2), 1+rng.Intn(2))
	case 1:
		m = model3d.SubdivideEdges(model3d.NewMeshRect(model3d.XYZ(-1, -1, -1), model3d.XYZ(rf(0.5, 2), rf(0.5, 2), rf(0.5, 2))), 1+rng.Intn(3))
	case 2:
		m = model3d.NewMeshRect(model3d.XYZ(-1, -1, -1), model3d.XYZ(1, 2, 3))
	default:
		m = model3d.NewMeshIcosahedron()
	}
	return m
}

func maybeIndex(rng *rand.Rand, m *model3d.Mesh) *model3d.Mesh {
	if rng.Intn(2) == 0 {
		m.VertexSlice() // the lazy index exists BEFORE the edit
	}
	return m
}

// eliminate runs EliminateEdges on m with a callback that selects `pick` and, around every
// elimination, compares the mesh under edit with the fresh oracle.
func eliminate(rng *rand.Rand, m *model3d.Mesh, pick func(seg model3d.Segment) bool, budget int) editResult {
	var mid string
	checkNext := false
	calls := 0
	var probes []model3d.Coord3D
	res := m.EliminateEdges(func(tmp *model3d.Mesh, seg model3d.Segment) bool {
		calls++
		if mid == "" && (checkNext || (calls%37 == 1 && tmp.NumTriangles() < 400)) {
			if d := freshDiffFull(rng, tmp, probes); d != "" {
				mid = "mid-edit:" + d
			}
			checkNext = false
		}
		if budget > 0 && pick(seg) {
			budget--
			checkNext = true
			probes = append(probes, seg[0], seg[1], seg.Mid())
			return true
		}
		return false
	})
	return editResult{m: res, mid: mid, probes: probes}
}

// statter collects the branch statistics of one case (merged into the run's statistics only if
// the case finished: the editor runs in its own goroutine).
type statter interface{ Stat(key string, n int) }

type caseStats struct{ keys []string }

func (s *caseStats) Stat(key string, n int) { s.keys = append(s.keys, key) }

func segsStr(segs []model3d.Segment) string {
	ks := make([]string, len(segs))
	for i, s := range segs {
		ks[i] = coordKey(s[0]) + "-" + coordKey(s[1])
	}
	return strings.Join(ks, ",")
}

func meshStr(m *model3d.Mesh) string {
	ts := m.TriangleSlice()
	if len(ts) > 40 {
		return fmt.Sprintf("<%d_triangles>", len(ts))
	}
	ks := make([]string, len(ts))
	for i, t := range ts {
		ks[i] = fmt.Sprintf("%g,%g,%g/%g,%g,%g/%g,%g,%g", t[0].X, t[0].Y, t[0].Z, t[1].X, t[1].Y, t[1].Z, t[2].X, t[2].Y, t[2].Z)
	}
	sort.Strings(ks)
	return strings.Join(ks, ";")
}

func hasNaN3(m *model3d.Mesh) bool {
	for _, t := range m.TriangleSlice() {
		for _, p := range t {
			if math.IsNaN(p.X) || math.IsNaN(p.Y) || math.IsNaN(p.Z) {
				return true
			}
		}
	}
	return false
}

// postHistory3D continues with a short Add/Remove history on an editor's result.
func postHistory3D(rng *rand.Rand, m *model3d.Mesh) {
	tris := m.TriangleSlice()
	sort.Slice(tris, func(i, j int) bool { return triKey(tris[i]) < triKey(tris[j]) })
	vs := m.VertexSlice()
	sort.Slice(vs, func(i, j int) bool { return coordKey(vs[i]) < coordKey(vs[j]) })
	for k := 0; k < 6 && len(tris) > 0; k++ {
		t := tris[rng.Intn(len(tris))]
		switch rng.Intn(3) {
		case 0:
			m.Remove(t)
		case 1:
			m.Remove(t)
			m.Add(t)
		default:
			if len(vs) > 2 {
				m.Add(&model3d.Triangle{vs[rng.Intn(len(vs))], vs[rng.Intn(len(vs))], vs[rng.Intn(len(vs))]})
			}
		}
	}
}

type freshKind struct {
	name string
	reps int
	f    func(rng *rand.Rand, c statter) editResult
}

func runC09Fresh2(c *hlib.Ctx) {
	statUlp := func(c statter, before, after *model3d.Mesh, segs []model3d.Segment) {
		if before.NumTriangles() > after.NumTriangles() {
			c.Stat("c09.fresh2.runs_that_collapsed_an_edge_whose_midpoint_is_an_end_point", 1)
		}
	}
	kinds := []freshKind{
		{"EliminateEdges/ulp-edge", 6, func(rng *rand.Rand, c statter) editResult {
			base := closedBase(rng)
			m, segs := ulpEdges(rng, base, 1+rng.Intn(3), 1, rng.Intn(4) == 0)
			maybeIndex(rng, m)
			target := map[model3d.Segment]bool{}
			for _, s := range segs {
				if s.Mid() == s[0] || s.Mid() == s[1] {
					c.Stat("c09.fresh2.ulp_edges_whose_midpoint_is_an_end_point", 1)
				}
				target[s] = true
			}
			r := eliminate(rng, m, func(seg model3d.Segment) bool {
				return target[model3d.NewSegment(seg[0], seg[1])]
			}, len(segs))
			statUlp(c, m, r.m, segs)
			r.input = fmt.Sprintf("%d_triangles_with_short_edges_%s", m.NumTriangles(), segsStr(segs))
			return r
		}},
		{"EliminateEdges/two-ulp-edge", 2, func(rng *rand.Rand, c statter) editResult {
			// control: the midpoint is representable and distinct from both end points
			m, segs := ulpEdges(rng, closedBase(rng), 1+rng.Intn(2), 2, false)
			maybeIndex(rng, m)
			target := map[model3d.Segment]bool{}
			for _, s := range segs {
				target[s] = true
			}
			return eliminate(rng, m, func(seg model3d.Segment) bool {
				return target[model3d.NewSegment(seg[0], seg[1])]
			}, len(segs))
		}},
		{"EliminateEdges/random", 4, func(rng *rand.Rand, c statter) editResult {
			m := maybeIndex(rng, closedBase(rng))
			return eliminate(rng, m, func(seg model3d.Segment) bool { return rng.Intn(6) == 0 }, 1+rng.Intn(12))
		}},
		{"EliminateEdges/soup", 6, func(rng *rand.Rand, c statter) editResult {
			m := maybeIndex(rng, latticeSoup(rng, false))
			in := meshStr(m)
			r := eliminate(rng, m, func(seg model3d.Segment) bool { return rng.Intn(3) == 0 }, 1+rng.Intn(4))
			r.input = in
			return r
		}},
		{"EliminateEdges/soup-degenerate", 4, func(rng *rand.Rand, c statter) editResult {
			m := maybeIndex(rng, latticeSoup(rng, true))
			in := meshStr(m)
			r := eliminate(rng, m, func(seg model3d.Segment) bool { return rng.Intn(3) == 0 }, 1+rng.Intn(4))
			r.input = in
			return r
		}},
		{"FlattenBase/overhang", 6, func(rng *rand.Rand, c statter) editResult {
			m := maybeIndex(rng, overhangPatch(rng))
			return editResult{input: meshStr(m), m: m.FlattenBase(0), probes: m.VertexSlice()}
		}},
		{"FlattenBase/soup", 6, func(rng *rand.Rand, c statter) editResult {
			m := maybeIndex(rng, latticeSoup(rng, false))
			return editResult{input: meshStr(m), m: m.FlattenBase([]float64{0, 1.5}[rng.Intn(2)]), probes: m.VertexSlice()}
		}},
		{"FlattenBase/soup-degenerate", 4, func(rng *rand.Rand, c statter) editResult {
			m := maybeIndex(rng, latticeSoup(rng, true))
			return editResult{input: meshStr(m), m: m.FlattenBase([]float64{0, 1.5}[rng.Intn(2)]), probes: m.VertexSlice()}
		}},
		{"FlattenBase/ulp-edge", 2, func(rng *rand.Rand, c statter) editResult {
			m, _ := ulpEdges(rng, closedBase(rng), 2, 1, false)
			return editResult{m: maybeIndex(rng, m).FlattenBase(0), probes: m.VertexSlice()}
		}},
		{"Repair/merging", 4, func(rng *rand.Rand, c statter) editResult {
			m := maybeIndex(rng, latticeSoup(rng, rng.Intn(2) == 0))
			return editResult{m: m.Repair([]float64{0.2, 0.6, 1.5}[rng.Intn(3)]), probes: m.VertexSlice()}
		}},
		{"Repair/ulp-edge", 2, func(rng *rand.Rand, c statter) editResult {
			m, _ := ulpEdges(rng, closedBase(rng), 3, 1, false)
			return editResult{m: maybeIndex(rng, m).Repair(1e-8), probes: m.VertexSlice()}
		}},
		{"FlipDelaunay/flat-grid", 3, func(rng *rand.Rand, c statter) editResult {
			// co-circular quads everywhere: every flip decision is a tie
			m := model3d.SubdivideEdges(model3d.NewMeshRect(model3d.XYZ(0, 0, 0), model3d.XYZ(1, 1, 1)), 2+rng.Intn(2))
			return editResult{m: maybeIndex(rng, m).FlipDelaunay()}
		}},
		{"FlipDelaunay/stretched", 3, func(rng *rand.Rand, c statter) editResult {
			// stretched meshes really flip edges (Remove/Add inside Iterate)
			m := closedBase(rng).Scale(1).MapCoords(func(p model3d.Coord3D) model3d.Coord3D {
				return model3d.XYZ(p.X*4, p.Y, p.Z*0.25)
			})
			before := triSetKey(m.TriangleSlice())
			r := maybeIndex(rng, m).FlipDelaunay()
			if triSetKey(r.TriangleSlice()) != before {
				c.Stat("c09.fresh2.FlipDelaunay_runs_that_flipped", 1)
			}
			return editResult{m: r}
		}},
		{"FlipDelaunay/soup", 3, func(rng *rand.Rand, c statter) editResult {
			m := maybeIndex(rng, latticeSoup(rng, false))
			return editResult{m: m.FlipDelaunay()}
		}},
		{"MarchingCubesSearch/coincident", 3, func(rng *rand.Rand, c statter) editResult {
			// the surface passes through grid corners: after enough bisections the search results
			// of different edges converge onto (nearly) the same point
			s := &model3d.Rect{MinVal: model3d.XYZ(0, 0, 0), MaxVal: model3d.XYZ(1, 1+float64(rng.Intn(2)), 1)}
			return editResult{m: model3d.MarchingCubesSearch(s, []float64{0.5, 0.25, 1}[rng.Intn(3)], 40+rng.Intn(40))}
		}},
		{"Subdivider/midpoint-on-end-point", 4, func(rng *rand.Rand, c statter) editResult {
			// IN PLACE, index possibly built before; the "midpoint" is an end point of the edge
			var m *model3d.Mesh
			if rng.Intn(2) == 0 {
				m = closedBase(rng)
			} else {
				m = latticeSoup(rng, false)
			}
			maybeIndex(rng, m)
			probes := m.VertexSlice()
			sub := model3d.NewSubdivider()
			sub.AddFiltered(m, func(p1, p2 model3d.Coord3D) bool { return rng.Intn(3) == 0 })
			mode := rng.Intn(3)
			sub.Subdivide(m, func(p1, p2 model3d.Coord3D) model3d.Coord3D {
				switch mode {
				case 0:
					return p1
				case 1:
					return p2
				}
				return p1.Mid(p2)
			})
			return editResult{m: m, probes: probes}
		}},
		{"Decimate/ulp-edge", 2, func(rng *rand.Rand, c statter) editResult {
			m, _ := ulpEdges(rng, closedBase(rng), 2, 1, false)
			d := &model3d.Decimator{PlaneDistance: 0.01, BoundaryDistance: 0.01}
			return editResult{m: d.Decimate(maybeIndex(rng, m)), probes: m.VertexSlice()}
		}},
		{"EliminateCoplanar/ulp-edge", 2, func(rng *rand.Rand, c statter) editResult {
			m, _ := ulpEdges(rng, closedBase(rng), 2, 1, false)
			return editResult{m: maybeIndex(rng, m).EliminateCoplanar(1e-8), probes: m.VertexSlice()}
		}},
		{"DualContouringRepair/thin", 2, func(rng *rand.Rand, c statter) editResult {
			// two boxes touching along an edge: singular edges/vertices for mapInPlace + Repair
			s := model3d.JoinedSolid{
				&model3d.Rect{MinVal: model3d.XYZ(0, 0, 0), MaxVal: model3d.XYZ(1, 1, 1)},
				&model3d.Rect{MinVal: model3d.XYZ(1, 1, 0), MaxVal: model3d.XYZ(2, 2, 1)},
			}
			dc := &model3d.DualContouring{S: model3d.SolidSurfaceEstimator{Solid: s},
				Delta: []float64{0.25, 0.2, 0.5}[rng.Intn(3)], Repair: true, Clip: rng.Intn(2) == 0}
			return editResult{m: dc.Mesh()}
		}},
	}
	scale := c.N / 75
	if scale < 1 {
		scale = 1
	}
	if scale > 40 {
		scale = 40
	}
	for _, k := range kinds {
		for r := 0; r < k.reps*scale; r++ {
			k := k
			seed := c.Rng.Int63()
			rng := rand.New(rand.NewSource(seed))
			st := &caseStats{}
			res := runEditor(func() editResult { return k.f(rng, st) })
			if res.skip != "editor-timeout" {
				for _, key := range st.keys {
					c.Stat(key, 1)
				}
			}
			out := "same-as-fresh"
			if res.skip == "" && hasNaN3(res.m) {
				res.skip = "nan-coordinates" // NaN coordinates are outside the property (assumption)
			}
			switch {
			case res.skip != "":
				c.Stat("c09.fresh2.inapplicable."+k.name+"."+strings.SplitN(res.skip, ":", 2)[0], 1)
			case res.mid != "":
				out = "differs-from-fresh:" + strings.ReplaceAll(res.mid, " ", "_")
			default:
				qrng := rand.New(rand.NewSource(seed + 1))
				d := hlib.Guard(func() string {
					if d := freshDiffFull(qrng, res.m, res.probes); d != "" {
						return d
					}
					// the history goes on after the edit: Add / Remove on the edited mesh
					postHistory3D(qrng, res.m)
					if d := freshDiffFull(qrng, res.m, res.probes); d != "" {
						return "after-add-remove:" + d
					}
					return ""
				})
				if d != "" {
					out = "differs-from-fresh:" + strings.ReplaceAll(d, " ", "_")
				}
			}
			if out != "same-as-fresh" && res.input != "" {
				out += "|input=" + res.input
			}
			c.Stat("c09.fresh2."+k.name, 1)
			c.EmitSite(fmt.Sprintf("c09 fresh %s#%d", k.name, seed), out, "corr:c09 fresh/"+k.name)
		}
	}
}
