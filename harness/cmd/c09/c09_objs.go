package main

import (
	"fmt"
	"math"
	"sort"
	"strconv"
	"strings"

	"verif/harness/hlib"

	"github.com/unixpickle/model3d/model2d"
	"github.com/unixpickle/model3d/model3d"
)

// Programs over several mesh VARIABLES (kind `mesho`): Add / Remove / AddMesh / queries through any
// of the handles, and `vars[dst] = vars[src].<Copy|DeepCopy|InvertNormals|MapCoords|Translate|Scale|
// Center|Transform|Rotate>(…)`.  The model runs the program in the value semantics (a variable holds
// a mesh value; theorem derived_meshes_are_new_objects): a mutation through one handle must never be
// seen through another one, in particular not through the mesh a mesh was derived from.
//
// The same code drives *model3d.Mesh and *model2d.Mesh (a segment (a,b) is the triple a,b,b).

type objAPI[M any, F comparable, C comparable] struct {
	dim       int
	newMesh   func() M
	add       func(M, F)
	remove    func(M, F)
	contains  func(M, F) bool
	num       func(M) int
	faces     func(M) []F
	find      func(M, ...C) []F
	nbrs      func(M, F) []F
	verts     func(M) []C
	addMesh   func(M, M)
	copyM     func(M) M
	deep      func(M) M
	inv       func(M) M
	mapCoords func(M, func(C) C) M
	translate func(M, C) M
	scale     func(M, float64) M
	center    func(M) M
	minC      func(M) C
	maxC      func(M) C
	xfTrans   func(M, C) M // Transform(&Translate{Offset: v})
	xfIdent   func(M) M    // Transform(JoinedTransform{})
	rotate0   func(M) M    // Rotate(…, 0)
	corners   func(F) []C
	newFace   func([]C) F
	hash      func(C) uint64
	vec       func(x, y, z float64) C
	comps     func(C) [3]float64
	addC      func(a, b C) C
	scaleC    func(a C, s float64) C
	centerOff func(min, max C) C
	collide   func(x float64) (C, C, bool)
}

func api3() objAPI[*model3d.Mesh, *model3d.Triangle, model3d.Coord3D] {
	type C = model3d.Coord3D
	return objAPI[*model3d.Mesh, *model3d.Triangle, C]{
		dim:       3,
		newMesh:   model3d.NewMesh,
		add:       (*model3d.Mesh).Add,
		remove:    (*model3d.Mesh).Remove,
		contains:  (*model3d.Mesh).Contains,
		num:       (*model3d.Mesh).NumTriangles,
		faces:     (*model3d.Mesh).TriangleSlice,
		find:      (*model3d.Mesh).Find,
		nbrs:      (*model3d.Mesh).Neighbors,
		verts:     (*model3d.Mesh).VertexSlice,
		addMesh:   (*model3d.Mesh).AddMesh,
		copyM:     (*model3d.Mesh).Copy,
		deep:      (*model3d.Mesh).DeepCopy,
		inv:       (*model3d.Mesh).InvertNormals,
		mapCoords: (*model3d.Mesh).MapCoords,
		translate: (*model3d.Mesh).Translate,
		scale:     (*model3d.Mesh).Scale,
		center:    (*model3d.Mesh).Center,
		minC:      (*model3d.Mesh).Min,
		maxC:      (*model3d.Mesh).Max,
		xfTrans: func(m *model3d.Mesh, v C) *model3d.Mesh {
			return m.Transform(&model3d.Translate{Offset: v})
		},
		xfIdent: func(m *model3d.Mesh) *model3d.Mesh { return m.Transform(model3d.JoinedTransform{}) },
		rotate0: func(m *model3d.Mesh) *model3d.Mesh { return m.Rotate(model3d.Z(1), 0) },
		corners: func(t *model3d.Triangle) []C { return t[:] },
		newFace: func(cs []C) *model3d.Triangle { return &model3d.Triangle{cs[0], cs[1], cs[2]} },
		hash:    model3d.VerifFastHash64,
		vec:     func(x, y, z float64) C { return model3d.XYZ(x, y, z) },
		comps:   func(c C) [3]float64 { return [3]float64{c.X, c.Y, c.Z} },
		addC:    func(a, b C) C { return a.Add(b) },
		scaleC:  func(a C, s float64) C { return a.Scale(s) },
		centerOff: func(min, max C) C {
			return min.Mid(max).Scale(-1)
		},
		collide: func(x float64) (C, C, bool) {
			y, ok := findCollision3(x)
			return C{X: x}, C{Y: y}, ok
		},
	}
}

func api2() objAPI[*model2d.Mesh, *model2d.Segment, model2d.Coord] {
	type C = model2d.Coord
	return objAPI[*model2d.Mesh, *model2d.Segment, C]{
		dim:       2,
		newMesh:   model2d.NewMesh,
		add:       (*model2d.Mesh).Add,
		remove:    (*model2d.Mesh).Remove,
		contains:  (*model2d.Mesh).Contains,
		num:       (*model2d.Mesh).NumSegments,
		faces:     (*model2d.Mesh).SegmentSlice,
		find:      (*model2d.Mesh).Find,
		nbrs:      (*model2d.Mesh).Neighbors,
		verts:     (*model2d.Mesh).VertexSlice,
		addMesh:   (*model2d.Mesh).AddMesh,
		copyM:     (*model2d.Mesh).Copy,
		deep:      (*model2d.Mesh).DeepCopy,
		inv:       (*model2d.Mesh).InvertNormals,
		mapCoords: (*model2d.Mesh).MapCoords,
		translate: (*model2d.Mesh).Translate,
		scale:     (*model2d.Mesh).Scale,
		center:    (*model2d.Mesh).Center,
		minC:      (*model2d.Mesh).Min,
		maxC:      (*model2d.Mesh).Max,
		xfTrans: func(m *model2d.Mesh, v C) *model2d.Mesh {
			return m.Transform(&model2d.Translate{Offset: v})
		},
		xfIdent: func(m *model2d.Mesh) *model2d.Mesh { return m.Transform(model2d.JoinedTransform{}) },
		rotate0: func(m *model2d.Mesh) *model2d.Mesh { return m.Rotate(0) },
		corners: func(s *model2d.Segment) []C { return s[:] },
		newFace: func(cs []C) *model2d.Segment { return &model2d.Segment{cs[0], cs[1]} },
		hash:    model2d.VerifFastHash64,
		vec:     func(x, y, z float64) C { return model2d.XY(x, y) },
		comps:   func(c C) [3]float64 { return [3]float64{c.X, c.Y, 0} },
		addC:    func(a, b C) C { return a.Add(b) },
		scaleC:  func(a C, s float64) C { return a.Scale(s) },
		centerOff: func(min, max C) C {
			return min.Mid(max).Scale(-1)
		},
		collide: func(x float64) (C, C, bool) {
			y, ok := findCollision2(x)
			return C{X: x}, C{Y: y}, ok
		},
	}
}

func runC09Objs(c *hlib.Ctx) {
	runObjPrograms(c, api3(), c.N/3)
	runObjPrograms(c, api2(), c.N/4)
}

// signedZeroVariant flips the sign of some zero components (the result is == to the input).
func signedZeroVariant[M any, F comparable, C comparable](c *hlib.Ctx, api objAPI[M, F, C], p C) C {
	cs := api.comps(p)
	for i := range cs {
		if cs[i] == 0 && c.Rng.Intn(2) == 0 {
			cs[i] = math.Copysign(0, -1)
		} else if cs[i] == 0 {
			cs[i] = 0
		}
	}
	return api.vec(cs[0], cs[1], cs[2])
}

func runObjPrograms[M any, F comparable, C comparable](c *hlib.Ctx, api objAPI[M, F, C], n int) {
	tag := fmt.Sprintf("c09.mesho%dd.", api.dim)
	colA, colB, colOK := api.collide(1.5)
	for cse := 0; cse < n; cse++ {
		// ---- dynamic key pool: ids by Go ==
		var keys []C
		idOf := func(p C) int {
			for i, k := range keys {
				if k == p {
					return i
				}
			}
			keys = append(keys, p)
			return len(keys) - 1
		}
		lat := func() float64 { return float64(c.Rng.Intn(3) - 1) }
		nk0 := 4 + c.Rng.Intn(4)
		for len(keys) < nk0 {
			idOf(api.vec(lat(), lat(), lat()))
		}
		if colOK && c.Rng.Intn(3) == 0 {
			idOf(colA)
			idOf(colB)
		}
		rep := func(id int) C { return signedZeroVariant(c, api, keys[id]) }

		// ---- face table (ids = positions), pointer <-> id
		var table [][3]int
		var ptrs []F
		faceID := map[F]int{}
		register := func(f F) int {
			if id, ok := faceID[f]; ok {
				return id
			}
			cs := api.corners(f)
			var t [3]int
			for i := 0; i < 3; i++ {
				j := i
				if j >= len(cs) {
					j = len(cs) - 1
				}
				t[i] = idOf(cs[j])
			}
			faceID[f] = len(table)
			table = append(table, t)
			ptrs = append(ptrs, f)
			return len(table) - 1
		}
		nt0 := 2 + c.Rng.Intn(6)
		for i := 0; i < nt0; i++ {
			cs := make([]C, api.dim)
			switch {
			case i > 0 && c.Rng.Intn(6) == 0: // same value, another pointer
				t := table[c.Rng.Intn(i)]
				for j := range cs {
					cs[j] = rep(t[j])
				}
			case c.Rng.Intn(8) == 0: // degenerate
				a, b := c.Rng.Intn(len(keys)), c.Rng.Intn(len(keys))
				for j := range cs {
					cs[j] = rep(a)
				}
				cs[c.Rng.Intn(len(cs))] = rep(b)
			default:
				p := c.Rng.Perm(len(keys))
				for j := range cs {
					cs[j] = rep(p[j])
				}
			}
			register(api.newFace(cs))
		}
		idsOf := func(fs []F) []int {
			r := make([]int, len(fs))
			for i, f := range fs {
				id, ok := faceID[f]
				if !ok {
					id = -1
				}
				r[i] = id
			}
			return r
		}

		const nv = 3
		vars := make([]M, nv)
		for i := range vars {
			vars[i] = api.newMesh()
		}
		// a few faces to start with
		var ops, outs []string
		emitOp := func(toks ...string) { ops = append(ops, toks...) }
		for i := 0; i < nt0; i++ {
			if c.Rng.Intn(3) > 0 {
				v := c.Rng.Intn(2)
				emitOp("add", strconv.Itoa(v), strconv.Itoa(i))
				api.add(vars[v], ptrs[i])
			}
		}
		hot := []int{0, 1}
		pickVar := func() int {
			if c.Rng.Intn(10) < 7 {
				return hot[c.Rng.Intn(len(hot))]
			}
			return c.Rng.Intn(nv)
		}
		// linked[v] = the handle v was derived from / that was derived from v (for statistics)
		linked := map[int]int{}
		mutatedSince := map[int]bool{}
		noteMutation := func(v int) { mutatedSince[v] = true }
		noteQuery := func(v int) {
			if o, ok := linked[v]; ok && mutatedSince[o] {
				c.Stat(tag+"query_after_mutation_of_the_linked_mesh", 1)
			}
		}
		nops := 6 + c.Rng.Intn(26)
		res := hlib.Guard(func() string {
			for i := 0; i < nops; i++ {
				v := pickVar()
				vs := strconv.Itoa(v)
				m := vars[v]
				anyFace := func() int {
					if fs := idsOf(api.faces(m)); len(fs) > 0 && c.Rng.Intn(2) == 0 {
						sort.Ints(fs) // Go's map order must not influence the generated program
						return fs[c.Rng.Intn(len(fs))]
					}
					return c.Rng.Intn(len(table))
				}
				switch r := c.Rng.Intn(24); {
				case r >= 22:
					var p C
					if r == 22 {
						emitOp("min", vs)
						p = api.minC(m)
					} else {
						emitOp("max", vs)
						p = api.maxC(m)
					}
					cs := api.comps(p)
					outs = append(outs, hlib.RatStr(cs[0])+","+hlib.RatStr(cs[1])+","+hlib.RatStr(cs[2]))
					noteQuery(v)
				case r < 5:
					f := c.Rng.Intn(len(table))
					emitOp("add", vs, strconv.Itoa(f))
					api.add(m, ptrs[f])
					noteMutation(v)
				case r < 8:
					f := anyFace()
					emitOp("rem", vs, strconv.Itoa(f))
					api.remove(m, ptrs[f])
					noteMutation(v)
				case r < 9:
					w := c.Rng.Intn(nv)
					emitOp("am", vs, strconv.Itoa(w))
					api.addMesh(m, vars[w])
					noteMutation(v)
				case r < 13:
					dst := c.Rng.Intn(nv)
					deriveOp(c, api, tag, v, dst, vars, func(k int) C { return keys[k] }, idOf,
						func(f int) [3]int { return table[f] }, &ops, &outs, register)
					if dst != v {
						hot = []int{v, dst}
						linked[v], linked[dst] = dst, v
						mutatedSince[v], mutatedSince[dst] = false, false
					}
				case r < 14:
					f := anyFace()
					emitOp("has", vs, strconv.Itoa(f))
					if api.contains(m, ptrs[f]) {
						outs = append(outs, "1")
					} else {
						outs = append(outs, "0")
					}
					noteQuery(v)
				case r < 16:
					emitOp("num", vs)
					outs = append(outs, strconv.Itoa(api.num(m)))
					noteQuery(v)
				case r < 18:
					emitOp("faces", vs)
					outs = append(outs, setStr(idsOf(api.faces(m))))
					noteQuery(v)
				case r < 19:
					a := c.Rng.Intn(len(keys))
					emitOp("find1", vs, strconv.Itoa(a))
					outs = append(outs, setStr(idsOf(api.find(m, rep(a)))))
					noteQuery(v)
				case r < 20:
					t := table[anyFace()]
					a, b := t[c.Rng.Intn(3)], t[c.Rng.Intn(3)]
					emitOp("find2", vs, strconv.Itoa(a), strconv.Itoa(b))
					outs = append(outs, setStr(idsOf(api.find(m, rep(a), rep(b)))))
					noteQuery(v)
				case r < 21:
					f := anyFace()
					emitOp("nbr", vs, strconv.Itoa(f))
					outs = append(outs, setStr(idsOf(api.nbrs(m, ptrs[f]))))
					noteQuery(v)
				default:
					emitOp("verts", vs)
					var ks []int
					for _, p := range api.verts(m) {
						ks = append(ks, idOf(p))
					}
					outs = append(outs, setStr(ks))
					noteQuery(v)
				}
			}
			return strings.Join(outs, " ")
		})
		hashes := make([]string, len(keys))
		for i, k := range keys {
			cs := api.comps(k)
			hashes[i] = fmt.Sprintf("%x;%s;%s;%s", api.hash(k), hlib.RatStr(cs[0]), hlib.RatStr(cs[1]), hlib.RatStr(cs[2]))
		}
		toks := make([]string, len(table))
		for i, t := range table {
			toks[i] = fmt.Sprintf("%d,%d,%d", t[0], t[1], t[2])
		}
		c.Stat(tag+"programs", 1)
		c.Emit(fmt.Sprintf("c09 mesho %d %d %s %d %s %d %s", api.dim, len(keys), strings.Join(hashes, " "),
			len(table), strings.Join(toks, " "), nv, strings.Join(ops, " ")), res)
	}
}

// deriveOp performs vars[dst] = vars[src].<method>(…) on the real meshes and appends the op tokens
// `dv dst src method keymap ids` and the observed faces of the result.
func deriveOp[M any, F comparable, C comparable](c *hlib.Ctx, api objAPI[M, F, C], tag string, src, dst int,
	vars []M, keyAt func(int) C, idOf func(C) int, triAt func(int) [3]int, ops, outs *[]string,
	register func(F) int) {
	m := vars[src]
	// vertex keys of the source (from the corners of the pointers in it)
	var vkeys []int
	seen := map[int]bool{}
	var cornerCoords []C
	for _, f := range api.faces(m) {
		for _, p := range api.corners(f) {
			cornerCoords = append(cornerCoords, p)
			k := idOf(p)
			if !seen[k] {
				seen[k] = true
				vkeys = append(vkeys, k)
			}
		}
	}
	sort.Ints(vkeys)
	zero := api.vec(0, 0, 0)
	lat := func() float64 { return float64(c.Rng.Intn(3) - 1) }
	drawOffset := func() (C, string) {
		switch r := c.Rng.Intn(20); {
		case r < 9:
			// exactly zero in every component, any signs
			return signedZeroVariant(c, api, zero), "zero"
		case r < 14:
			// stacking copies at i*step: the first copy has offset 0*step
			i := float64(c.Rng.Intn(3))
			step := api.vec(lat(), lat(), lat())
			return api.scaleC(step, i), "stack"
		case r < 18:
			return api.vec(lat(), lat(), lat()), "lattice"
		default:
			return api.vec(0.5, -0.25, 2), "other"
		}
	}
	var f func(C) C // the coordinate map the method applies
	var d M
	method := ""
	switch r := c.Rng.Intn(20); {
	case r < 2:
		method = "Copy"
		d = api.copyM(m)
	case r < 4:
		method = "DeepCopy"
		f = func(p C) C { return p }
		d = api.deep(m)
	case r < 6:
		method = "InvertNormals"
		d = api.inv(m)
	case r < 11:
		method = "Translate"
		off, how := drawOffset()
		f = func(p C) C { return api.addC(off, p) }
		if off == zero {
			c.Stat(tag+"translate_by_exactly_zero."+how, 1)
		}
		d = api.translate(m, off)
	case r < 14:
		method = "Center"
		// the offset Center() uses, from the corners of the faces in the mesh
		off := zero
		if len(cornerCoords) > 0 {
			lo, hi := api.comps(cornerCoords[0]), api.comps(cornerCoords[0])
			for _, p := range cornerCoords[1:] {
				cs := api.comps(p)
				for j := range cs {
					lo[j] = math.Min(lo[j], cs[j])
					hi[j] = math.Max(hi[j], cs[j])
				}
			}
			off = api.centerOff(api.vec(lo[0], lo[1], lo[2]), api.vec(hi[0], hi[1], hi[2]))
		}
		f = func(p C) C { return api.addC(off, p) }
		if off == zero {
			c.Stat(tag+"center_of_a_centred_mesh", 1)
		}
		d = api.center(m)
	case r < 16:
		method = "Scale"
		s := []float64{1, 1, 2, -1, 0.5}[c.Rng.Intn(5)]
		f = func(p C) C { return api.scaleC(p, s) }
		if s == 1 {
			c.Stat(tag+"scale_by_one", 1)
		}
		d = api.scale(m, s)
	case r < 18:
		method = "MapCoords"
		switch c.Rng.Intn(3) {
		case 0:
			f = func(p C) C { return p }
			c.Stat(tag+"mapcoords_identity", 1)
		case 1:
			// flatten the last axis: merges vertices
			f = func(p C) C {
				cs := api.comps(p)
				cs[api.dim-1] = 0
				return api.vec(cs[0], cs[1], cs[2])
			}
		default:
			f = func(p C) C {
				cs := api.comps(p)
				return api.vec(cs[1], cs[0], cs[2])
			}
		}
		d = api.mapCoords(m, f)
	default:
		switch c.Rng.Intn(3) {
		case 0:
			method = "Transform"
			off, _ := drawOffset()
			f = func(p C) C { return api.addC(off, p) }
			if off == zero {
				c.Stat(tag+"transform_translate_by_exactly_zero", 1)
			}
			d = api.xfTrans(m, off)
		case 1:
			method = "Transform"
			f = func(p C) C { return p }
			d = api.xfIdent(m)
		default:
			method = "Rotate"
			f = func(p C) C { return p }
			d = api.rotate0(m)
		}
	}
	km := "-"
	if f != nil {
		var ps []string
		for _, k := range vkeys {
			k1 := idOf(f(keyAt(k)))
			if k1 != k {
				ps = append(ps, fmt.Sprintf("%d>%d", k, k1))
			}
		}
		if len(ps) > 0 {
			km = strings.Join(ps, ",")
		}
	}
	// the faces found in the result: new pointers get new ids
	fs := api.faces(d)
	// canonical order (by value) before new pointers get their ids: equal-valued faces are
	// interchangeable, so the program text does not depend on Go's map order
	sort.SliceStable(fs, func(i, j int) bool {
		a, b := api.corners(fs[i]), api.corners(fs[j])
		for k := range a {
			x, y := api.comps(a[k]), api.comps(b[k])
			for l := 0; l < 3; l++ {
				if x[l] != y[l] {
					return x[l] < y[l]
				}
			}
		}
		return false
	})
	ids := make([]int, len(fs))
	for i, fp := range fs {
		ids[i] = register(fp)
	}
	sort.Ints(ids)
	vars[dst] = d
	*ops = append(*ops, "dv", strconv.Itoa(dst), strconv.Itoa(src), method, km, seqTok(ids))
	c.Stat(tag+"derivations."+method, 1)
	if method == "Copy" {
		*outs = append(*outs, setStr(append([]int{}, ids...)))
		return
	}
	ts := make([][3]int, len(ids))
	for i, id := range ids {
		ts[i] = triAt(id)
	}
	*outs = append(*outs, trisStr(ts))
}
