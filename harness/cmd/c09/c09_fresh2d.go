package main

import (
	"fmt"
	"math"
	"math/rand"
	"sort"
	"strings"
	"time"

	"github.com/unixpickle/model3d/model2d"
	"verif/harness/hlib"
)

// The 2-D twin of the fresh oracle: results of the model2d editors (all of which go through
// Mesh.Add / Remove / Find / Iterate of the 2-D instance of templates/mesh.template) on ordinary
// and on degenerate-coordinate inputs must answer every query as a freshly built mesh does, also
// after a further Add/Remove history on the result.

func coordKey2(p model2d.Coord) string { return hlib.Hex(p.X) + hlib.Hex(p.Y) }

func segKey(s *model2d.Segment) string { return coordKey2(s[0]) + "|" + coordKey2(s[1]) }

func segSetKey(ss []*model2d.Segment) string {
	ks := make([]string, len(ss))
	for i, s := range ss {
		ks[i] = segKey(s)
	}
	sort.Strings(ks)
	return strings.Join(ks, ";")
}

func vertKeys2(x *model2d.Mesh) string {
	var ks []string
	for _, v := range x.VertexSlice() {
		ks = append(ks, coordKey2(v))
	}
	sort.Strings(ks)
	return strings.Join(ks, ";")
}

func freshDiff2D(rng *rand.Rand, m *model2d.Mesh, probes []model2d.Coord) string {
	fresh := model2d.NewMeshSegments(m.SegmentSlice())
	if m.NumSegments() != fresh.NumSegments() {
		return "NumSegments"
	}
	if a, b := vertKeys2(m), vertKeys2(fresh); a != b {
		return fmt.Sprintf("VertexSlice(%d_vs_fresh_%d)", strings.Count(a, ";")+1, strings.Count(b, ";")+1)
	}
	if m.Min() != fresh.Min() || m.Max() != fresh.Max() {
		return "Min/Max"
	}
	var itv []string
	m.IterateVertices(func(p model2d.Coord) { itv = append(itv, coordKey2(p)) })
	sort.Strings(itv)
	if strings.Join(itv, ";") != vertKeys2(fresh) {
		return "IterateVertices"
	}
	pts := append(append([]model2d.Coord{}, fresh.VertexSlice()...), probes...)
	if len(pts) > 80 {
		rng.Shuffle(len(pts), func(i, j int) { pts[i], pts[j] = pts[j], pts[i] })
		pts = pts[:80]
	}
	for _, p := range pts {
		if a, b := m.Find(p), fresh.Find(p); segSetKey(a) != segSetKey(b) {
			return fmt.Sprintf("Find(v)=%d_faces_fresh=%d_at_%s", len(a), len(b), coordKey2(p))
		}
	}
	segs := fresh.SegmentSlice()
	if len(segs) > 80 {
		rng.Shuffle(len(segs), func(i, j int) { segs[i], segs[j] = segs[j], segs[i] })
		segs = segs[:80]
	}
	for _, s := range segs {
		if !m.Contains(s) {
			return "Contains"
		}
		if segSetKey(m.Find(s[0], s[1])) != segSetKey(fresh.Find(s[0], s[1])) {
			return "Find(v1,v2)"
		}
		if segSetKey(m.Neighbors(s)) != segSetKey(fresh.Neighbors(s)) {
			return "Neighbors"
		}
	}
	return ""
}

func base2D(rng *rand.Rand) *model2d.Mesh {
	rf := func(lo, hi float64) float64 { return lo + rng.Float64()*(hi-lo) }
	switch rng.Intn(5) {
	case 0:
		return model2d.NewMeshRect(model2d.XY(-1, -1), model2d.XY(rf(0.5, 2), rf(0.5, 2)))
	case 1:
		n := 3 + rng.Intn(20)
		k := float64(2 + rng.Intn(4))
		return model2d.NewMeshPolar(func(t float64) float64 { return 1 + 0.3*math.Cos(k*t) }, n)
	case 2:
		return model2d.MarchingSquares(&model2d.Circle{Radius: rf(0.5, 1.5)}, rf(0.1, 0.4))
	case 3:
		// rectangle with extra colinear vertices on its sides
		m := model2d.NewMeshRect(model2d.XY(0, 0), model2d.XY(2, 1))
		return m.Subdivide(1 + rng.Intn(2))
	default:
		// two components
		m := model2d.NewMeshRect(model2d.XY(0, 0), model2d.XY(1, 1))
		m.AddMesh(model2d.NewMeshRect(model2d.XY(2, 0), model2d.XY(3, 1)))
		return m
	}
}

// ulpVerts2D moves the far end of `n` segments next to (1 ulp from) their near end.
func ulpVerts2D(rng *rand.Rand, m *model2d.Mesh, n int) *model2d.Mesh {
	segs := m.SegmentSlice()
	sort.Slice(segs, func(i, j int) bool { return segKey(segs[i]) < segKey(segs[j]) })
	mapping := map[model2d.Coord]model2d.Coord{}
	used := map[model2d.Coord]bool{}
	for i := 0; i < n && len(segs) > 0; i++ {
		s := segs[rng.Intn(len(segs))]
		p, q := s[0], s[1]
		if used[p] || used[q] || p == q {
			continue
		}
		arr := p.Array()
		ax := rng.Intn(2)
		arr[ax] = nudge(arr[ax], 1, rng.Intn(2) == 0)
		q1 := model2d.NewCoordArray(arr)
		used[p], used[q] = true, true
		mapping[q] = q1
	}
	return m.MapCoords(func(c model2d.Coord) model2d.Coord {
		if c1, ok := mapping[c]; ok {
			return c1
		}
		return c
	})
}

func soup2D(rng *rand.Rand, degenerate bool) *model2d.Mesh {
	nv := 3 + rng.Intn(6)
	var pts []model2d.Coord
	seen := map[model2d.Coord]bool{}
	for len(pts) < nv {
		p := model2d.XY(float64(rng.Intn(4)), float64(rng.Intn(3))*0.5)
		if !seen[p] {
			seen[p] = true
			pts = append(pts, p)
		}
	}
	m := model2d.NewMesh()
	ns := 2 + rng.Intn(10)
	var prev []*model2d.Segment
	for i := 0; i < ns; i++ {
		perm := rng.Perm(nv)
		s := &model2d.Segment{pts[perm[0]], pts[perm[1]]}
		if degenerate {
			switch rng.Intn(6) {
			case 0:
				s[1] = s[0]
			case 1:
				if len(prev) > 0 {
					cp := *prev[rng.Intn(len(prev))]
					s = &cp
				}
			}
		}
		prev = append(prev, s)
		m.Add(s)
	}
	return m
}

type edit2DResult struct {
	m      *model2d.Mesh
	probes []model2d.Coord
	skip   string
}

func runEditor2D(f func() edit2DResult) edit2DResult {
	ch := make(chan edit2DResult, 1)
	go func() {
		var r edit2DResult
		s := hlib.Guard(func() string { r = f(); return "" })
		if s != "" {
			r = edit2DResult{skip: "editor-" + s}
		}
		ch <- r
	}()
	select {
	case r := <-ch:
		return r
	case <-time.After(freshOpTimeout):
		return edit2DResult{skip: "editor-timeout"}
	}
}

// postHistory2D continues with a short Add/Remove history on an editor's result.
func postHistory2D(rng *rand.Rand, m *model2d.Mesh) {
	segs := m.SegmentSlice()
	sort.Slice(segs, func(i, j int) bool { return segKey(segs[i]) < segKey(segs[j]) })
	vs := m.VertexSlice()
	sort.Slice(vs, func(i, j int) bool { return coordKey2(vs[i]) < coordKey2(vs[j]) })
	for k := 0; k < 6 && len(segs) > 0; k++ {
		s := segs[rng.Intn(len(segs))]
		switch rng.Intn(3) {
		case 0:
			m.Remove(s)
		case 1:
			m.Remove(s)
			m.Add(s)
		default:
			if len(vs) > 1 {
				m.Add(&model2d.Segment{vs[rng.Intn(len(vs))], vs[rng.Intn(len(vs))]})
			}
		}
	}
}

func runC09Fresh2D(c *hlib.Ctx) {
	type input struct {
		name string
		f    func(rng *rand.Rand) *model2d.Mesh
	}
	inputs := []input{
		{"plain", base2D},
		{"ulp-vertices", func(rng *rand.Rand) *model2d.Mesh { return ulpVerts2D(rng, base2D(rng), 1+rng.Intn(3)) }},
		{"soup", func(rng *rand.Rand) *model2d.Mesh { return soup2D(rng, false) }},
		{"soup-degenerate", func(rng *rand.Rand) *model2d.Mesh { return soup2D(rng, true) }},
	}
	type editor struct {
		name string
		f    func(rng *rand.Rand, m *model2d.Mesh) *model2d.Mesh
	}
	editors := []editor{
		{"Subdivide", func(rng *rand.Rand, m *model2d.Mesh) *model2d.Mesh { return m.Subdivide(1 + rng.Intn(2)) }},
		{"Decimate", func(rng *rand.Rand, m *model2d.Mesh) *model2d.Mesh {
			return m.Decimate(rng.Intn(len(m.VertexSlice()) + 1))
		}},
		{"EliminateColinear", func(rng *rand.Rand, m *model2d.Mesh) *model2d.Mesh { return m.EliminateColinear(1e-8) }},
		{"Repair", func(rng *rand.Rand, m *model2d.Mesh) *model2d.Mesh {
			return m.Repair([]float64{1e-8, 0.3, 0.75}[rng.Intn(3)])
		}},
		{"RepairNormals", func(rng *rand.Rand, m *model2d.Mesh) *model2d.Mesh { r, _ := m.RepairNormals(1e-8); return r }},
		{"Smooth", func(rng *rand.Rand, m *model2d.Mesh) *model2d.Mesh { return m.Smooth(1 + rng.Intn(3)) }},
		{"Blur", func(rng *rand.Rand, m *model2d.Mesh) *model2d.Mesh { return m.Blur(rng.Float64()) }},
		{"Invert", func(rng *rand.Rand, m *model2d.Mesh) *model2d.Mesh { return m.Invert() }},
		{"InvertNormals", func(rng *rand.Rand, m *model2d.Mesh) *model2d.Mesh { return m.InvertNormals() }},
	}
	reps := c.N / 60
	if reps < 1 {
		reps = 1
	}
	if reps > 40 {
		reps = 40
	}
	for r := 0; r < reps; r++ {
		for _, in := range inputs {
			for _, ed := range editors {
				if ed.name == "Invert" && in.name != "plain" {
					continue
				}
				in, ed := in, ed
				seed := c.Rng.Int63()
				rng := rand.New(rand.NewSource(seed))
				res := runEditor2D(func() edit2DResult {
					m := in.f(rng)
					if rng.Intn(2) == 0 {
						m.VertexSlice() // lazy index exists before the edit
					}
					probes := m.VertexSlice()
					if rng.Intn(2) == 0 {
						m = model2d.NewMeshSegments(m.SegmentSlice())
					}
					return edit2DResult{m: ed.f(rng, m), probes: probes}
				})
				name := ed.name + "/" + in.name
				out := "same-as-fresh"
				if res.skip == "" {
					for _, sg := range res.m.SegmentSlice() {
						for _, p := range sg {
							if math.IsNaN(p.X) || math.IsNaN(p.Y) {
								res.skip = "nan-coordinates" // outside the property (assumption)
							}
						}
					}
				}
				if res.skip != "" {
					c.Stat("c09.fresh2d.inapplicable."+name+"."+strings.SplitN(res.skip, ":", 2)[0], 1)
				} else {
					qrng := rand.New(rand.NewSource(seed + 1))
					d := hlib.Guard(func() string {
						if d := freshDiff2D(qrng, res.m, res.probes); d != "" {
							return d
						}
						postHistory2D(qrng, res.m)
						if d := freshDiff2D(qrng, res.m, res.probes); d != "" {
							return "after-add-remove:" + d
						}
						return ""
					})
					if d != "" {
						out = "differs-from-fresh:" + strings.ReplaceAll(d, " ", "_")
					}
				}
				c.Stat("c09.fresh2d."+ed.name, 1)
				c.EmitSite(fmt.Sprintf("c09 fresh 2d/%s#%d", name, seed), out, "corr:c09 fresh/2d/"+name)
			}
		}
	}
}
