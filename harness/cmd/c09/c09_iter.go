package main

import (
	"fmt"
	"strconv"
	"strings"

	"verif/harness/hlib"
)

// iterAct is one mutation a scripted iteration callback performs during its k-th invocation.
type iterAct struct {
	k   int
	add bool
	f   int
}

// genIterScript draws a callback script: 0-5 Add/Remove calls on faces of the pool, attached to
// early invocations (so that they happen before most of the snapshot has been reached).
func genIterScript(c *hlib.Ctx, nt int) ([]iterAct, string) {
	n := c.Rng.Intn(6)
	if n == 0 {
		return nil, "-"
	}
	var acts []iterAct
	var toks []string
	for i := 0; i < n; i++ {
		a := iterAct{k: c.Rng.Intn(3), add: c.Rng.Intn(5) < 2, f: c.Rng.Intn(nt)}
		if c.Rng.Intn(4) == 0 {
			a.k = c.Rng.Intn(nt + 1)
		}
		acts = append(acts, a)
		ch := "r"
		if a.add {
			ch = "a"
		}
		toks = append(toks, fmt.Sprintf("%d:%s:%d", a.k, ch, a.f))
	}
	return acts, strings.Join(toks, "/")
}

func seqStr(xs []int) string {
	ss := make([]string, len(xs))
	for i, x := range xs {
		ss[i] = strconv.Itoa(x)
	}
	return "[" + strings.Join(ss, ",") + "]"
}

// seqTok renders an observed visit sequence as an op-line token.
func seqTok(xs []int) string {
	if len(xs) == 0 {
		return "[]"
	}
	ss := make([]string, len(xs))
	for i, x := range xs {
		ss[i] = strconv.Itoa(x)
	}
	return strings.Join(ss, ",")
}

// scriptedCallback returns the callback for a scripted iteration: it records the visited id and
// performs the script's mutations through add/remove (which call the real Mesh.Add/Remove).
// has reports current membership (only for the branch statistics).
func scriptedCallback(c *hlib.Ctx, script []iterAct, visited *[]int, add, remove func(f int), has func(f int) bool) func(id int) {
	call := 0
	seen := map[int]bool{}
	return func(id int) {
		*visited = append(*visited, id)
		seen[id] = true
		for _, a := range script {
			if a.k != call {
				continue
			}
			if a.add {
				if !has(a.f) {
					c.Stat("c09.iter_callback_added_a_non_member", 1)
				}
				add(a.f)
			} else {
				if has(a.f) && !seen[a.f] {
					c.Stat("c09.iter_callback_removed_a_member_not_yet_visited", 1)
				}
				remove(a.f)
			}
		}
		call++
	}
}
